(* Model E "Vars": variable layering (compiler.go:getVariables), the dynamic
   variable cache (HandleDynamicVar), the env merge of compiledTask
   (variables.go), env.GetFromVars, what the include merge puts into each
   layer (taskfile/ast: Taskfile.Merge / Tasks.Merge / Vars.Merge,
   taskfile/reader.go: include), and the matrix-ref write of
   resolveMatrixRefs.  Only executable definitions; proofs are in Proofs*.v.

   Values are strings.  A variable holding a list (only used for
   [for: matrix: ref]) is represented by its items joined with spaces. *)
From Coq Require Import List String Bool Ascii.
Import ListNotations.
Local Open Scope string_scope.

Definition name := string.
Definition vars := list (name * string).

(* ast.Vars: ordered map; Set overwrites in place or appends *)
Fixpoint vget (n : name) (r : vars) : option string :=
  match r with
  | [] => None
  | (m, v) :: r' => if String.eqb m n then Some v else vget n r'
  end.

Fixpoint vset (n : name) (v : string) (r : vars) : vars :=
  match r with
  | [] => [(n, v)]
  | (m, w) :: r' => if String.eqb m n then (m, v) :: r' else (m, w) :: vset n v r'
  end.

Definition vgetd (n : name) (r : vars) : string :=
  match vget n r with Some v => v | None => "" end.

Definition vmem (n : name) (r : vars) : bool :=
  match vget n r with Some _ => true | None => false end.

(* ---------- variable definitions ---------- *)

Inductive tpart := TLit (s : string) | TVar (n : name).

Inductive expr :=
| Lit (s : string)            (* a scalar without template actions *)
| Tmpl (ps : list tpart)      (* text with {{.NAME}} actions *)
| Sh (ps : list tpart)        (* sh: text, itself templated before it runs *)
| Ref (n : name).             (* ref: .NAME *)

(* e_dir: ast.Var.Dir, set by Vars.Merge for variables that came from an
   included Taskfile ("" = unset) *)
Record entry := { e_name : name; e_expr : expr; e_dir : string }.

Record layer := { l_dir : string; l_entries : list entry }.

Definition render_part (r : vars) (p : tpart) : string :=
  match p with TLit s => s | TVar n => vgetd n r end.

(* templater.Replace: "<no value>" is stripped, i.e. an unset name renders "" *)
Definition render (ps : list tpart) (r : vars) : string :=
  String.concat "" (map (render_part r) ps).

(* ---------- the outside world ---------- *)

(* which of (command text, directory, environment) the dynamic-variable cache is keyed on *)
Record keyspec := { k_sh : bool; k_dir : bool; k_env : bool }.

(* w_sh: the shell, a function of (command text, directory, environment);
   w_os: the process environment; w_exp: TASK_X_ENV_PRECEDENCE;
   w_key: which of (text, dir, env) the dynamic-variable cache is keyed on *)
Record world := {
  w_sh : string -> string -> vars -> string;
  w_os : vars;
  w_exp : bool;
  w_os_wins : bool;       (* env.GetFromVars has the "already set in the OS" rule *)
  w_key : keyspec
}.

(* env.GetFromVars: os.Environ() plus every static variable, except those
   already set in the process environment unless the experiment is on *)
Definition env_from_vars (w : world) (r : vars) : vars :=
  fold_left (fun acc kv =>
               if w_exp w || negb (w_os_wins w) || negb (vmem (fst kv) (w_os w))
               then vset (fst kv) (snd kv) acc else acc)
            r (w_os w).

(* ---------- dynamic variables ---------- *)

Definition key := (string * string * vars)%type.

Definition mk_key (ks : keyspec) (text dir : string) (env : vars) : key :=
  (if k_sh ks then text else "", if k_dir ks then dir else "", if k_env ks then env else []).

Fixpoint vars_eqb (a b : vars) : bool :=
  match a, b with
  | [], [] => true
  | (n, v) :: a', (m, w) :: b' => String.eqb n m && String.eqb v w && vars_eqb a' b'
  | _, _ => false
  end.

Definition key_eqb (a b : key) : bool :=
  let '(t1, d1, e1) := a in let '(t2, d2, e2) := b in
  String.eqb t1 t2 && String.eqb d1 d2 && vars_eqb e1 e2.

Definition cache := list (key * string).

Fixpoint cget (k : key) (c : cache) : option string :=
  match c with
  | [] => None
  | (k', v) :: c' => if key_eqb k' k then Some v else cget k c'
  end.

(* Compiler.HandleDynamicVar *)
Definition handle_dynamic (w : world) (text vdir ldir : string) (env : vars) (c : cache) : string * cache :=
  if String.eqb text "" then ("", c) else
  let d := if String.eqb vdir "" then ldir else vdir in
  let k := mk_key (w_key w) text d env in
  match cget k c with
  | Some v => (v, c)
  | None => let v := w_sh w text d env in (v, (k, v) :: c)
  end.

(* ---------- getVariables ---------- *)

(* one call of the range function: evaluate in the result built so far, then Set *)
Definition eval_entry (w : world) (ldir : string) (e : entry) (st : vars * cache) : vars * cache :=
  let '(r, c) := st in
  match e_expr e with
  | Lit s => (vset (e_name e) s r, c)
  | Tmpl ps => (vset (e_name e) (render ps r) r, c)
  | Ref m => (vset (e_name e) (vgetd m r) r, c)
  | Sh ps =>
      let '(v, c') := handle_dynamic w (render ps r) (e_dir e) ldir (env_from_vars w r) c in
      (vset (e_name e) v r, c')
  end.

(* the value an entry writes, given the state it is evaluated in *)
Definition entry_value (w : world) (ldir : string) (e : entry) (st : vars * cache) : string :=
  match e_expr e with
  | Lit s => s
  | Tmpl ps => render ps (fst st)
  | Ref m => vgetd m (fst st)
  | Sh ps => fst (handle_dynamic w (render ps (fst st)) (e_dir e) ldir (env_from_vars w (fst st)) (snd st))
  end.

Definition defines (n : name) (l : layer) : bool :=
  existsb (fun e => String.eqb (e_name e) n) (l_entries l).

Definition eval_layer (w : world) (st : vars * cache) (l : layer) : vars * cache :=
  fold_left (fun st e => eval_entry w (l_dir l) e st) (l_entries l) st.

Definition get_variables (w : world) (ls : list layer) (c : cache) : vars * cache :=
  fold_left (eval_layer w) ls ([], c).

(* the same as one list of (directory, entry) *)
Definition flat (ls : list layer) : list (string * entry) :=
  flat_map (fun l => map (fun e => (l_dir l, e)) (l_entries l)) ls.

Definition run_flat (w : world) (fl : list (string * entry)) (st : vars * cache) : vars * cache :=
  fold_left (fun st de => eval_entry w (fst de) (snd de) st) fl st.

(* the last definition of n: everything before it, and the definition *)
Fixpoint split_last (n : name) (fl : list (string * entry))
  : option (list (string * entry) * (string * entry)) :=
  match fl with
  | [] => None
  | de :: rest =>
      match split_last n rest with
      | Some (pre, x) => Some (de :: pre, x)
      | None => if String.eqb (e_name (snd de)) n then Some ([], de) else None
      end
  end.

(* ---------- layer kinds and their order (extracted from getVariables) ---------- *)

Inductive lkind :=
| LEnviron | LSpecial | LTaskfileEnv | LTaskfileVars | LIncludeVars
| LIncludedTaskfileVars | LCallVars | LTaskVars | LUnknown.

Definition lkind_of_string (s : string) : lkind :=
  if String.eqb s "Environ" then LEnviron
  else if String.eqb s "Special" then LSpecial
  else if String.eqb s "TaskfileEnv" then LTaskfileEnv
  else if String.eqb s "TaskfileVars" then LTaskfileVars
  else if String.eqb s "IncludeVars" then LIncludeVars
  else if String.eqb s "IncludedTaskfileVars" then LIncludedTaskfileVars
  else if String.eqb s "CallVars" then LCallVars
  else if String.eqb s "TaskVars" then LTaskVars
  else LUnknown.

Definition expected_layers : list string :=
  ["Environ"; "Special"; "TaskfileEnv"; "TaskfileVars"; "IncludeVars";
   "IncludedTaskfileVars"; "CallVars"; "TaskVars"].

Definition expected_taskdir_layers : list string := ["IncludedTaskfileVars"; "TaskVars"].

Fixpoint smem (s : string) (l : list string) : bool :=
  match l with [] => false | x :: r => String.eqb x s || smem s r end.

Definition lits (r : vars) : list entry :=
  map (fun kv => {| e_name := fst kv; e_expr := Lit (snd kv); e_dir := "" |}) r.

(* ---------- Vars.Merge on definitions ---------- *)

Fixpoint eset (e : entry) (es : list entry) : list entry :=
  match es with
  | [] => [e]
  | x :: r => if String.eqb (e_name x) (e_name e) then e :: r else x :: eset e r
  end.

Definition emerge (a b : list entry) : list entry := fold_left (fun acc e => eset e acc) b a.

Definition with_dir (d : string) (es : list entry) : list entry :=
  map (fun e => {| e_name := e_name e; e_expr := e_expr e; e_dir := d |}) es.

Fixpoint efind (n : name) (es : list entry) : option entry :=
  match es with
  | [] => None
  | x :: r => if String.eqb (e_name x) n then Some x else efind n r
  end.

Definition enames (es : list entry) : list name := map e_name es.

(* ---------- everything one compilation of a task reads ---------- *)

Record tctx := {
  x_name : string;                 (* task name (also the key of its shared matrix row) *)
  x_special : vars;                (* TASK, ALIAS ... as far as they are probed *)
  x_genv : list entry;             (* e.Taskfile.Env after Setup *)
  x_gvars : list entry;            (* c.TaskfileVars *)
  x_incvars : list entry;          (* t.IncludeVars *)
  x_incfile : list entry;          (* t.IncludedTaskfileVars *)
  x_call : list entry;             (* call.Vars as passed (already rendered by the caller) *)
  x_tvars : list entry;            (* t.Vars *)
  x_root_dir : string;
  x_task_dir : string;             (* the compiled task's directory *)
  x_dir_tmpl : option (list tpart);(* Some ps: the task's dir: is a template (relative to the root
                                      dir); getVariables renders it itself, at the point p_dir_after *)
  x_tdot : list vars;              (* contents of the task's dotenv files, in order *)
  x_tenv : list entry;             (* t.Env *)
  x_matrix : option name;          (* for: matrix: {X: {ref: .NAME}} *)
  x_vprobes : list name;           (* echo {{.N}} *)
  x_eprobes : list name;           (* echo $N *)
  x_defers : list (list tpart)     (* templates inside the task's defer: entries (command text, or the
                                      vars of a deferred task call), rendered lazily by runDeferred *)
}.

(* facts about the code the model is parameterised over *)
Record params := {
  p_layers : list string;          (* Extracted.VarLayers *)
  p_taskdir : list string;         (* Extracted.VarLayersTaskDir *)
  p_dir_after : string;            (* Extracted.TaskDirTemplatedAfter: the layer after which
                                      getVariables templates the task's dir *)
  p_envorder : list string;        (* Extracted.EnvMergeOrder *)
  p_tdot_first : bool;             (* task dotenv: first file wins *)
  p_matrix_shared : bool;          (* resolveMatrixRefs writes into the shared row *)
  p_defer_shared : bool            (* the compiled task holds the definition's defer: entries themselves,
                                      so runDeferred's rendering is written into the shared definition *)
}.

Definition entries_of (os : vars) (x : tctx) (k : lkind) : list entry :=
  match k with
  | LEnviron => lits os
  | LSpecial => lits (x_special x)
  | LTaskfileEnv => x_genv x
  | LTaskfileVars => x_gvars x
  | LIncludeVars => x_incvars x
  | LIncludedTaskfileVars => x_incfile x
  | LCallVars => x_call x
  | LTaskVars => x_tvars x
  | LUnknown => []
  end.

Definition assemble (order taskdir : list string) (os : vars) (x : tctx) : list layer :=
  map (fun s => {| l_dir := if smem s taskdir then x_task_dir x else x_root_dir x;
                   l_entries := entries_of os x (lkind_of_string s) |}) order.

(* getVariables templates t.Dir itself (for the sh: variables of the task-level
   layers), with the variables known at that point of the function *)
Fixpoint dir_point (order : list string) (after : string) : nat :=
  match order with
  | [] => 0
  | s :: r => if String.eqb s after then 1
              else match dir_point r after with 0 => 0 | S k => S (S k) end
  end.

Definition join_dir (root rel : string) : string :=
  if String.eqb rel "" then root else root ++ "/" ++ rel.

Definition with_task_dir (x : tctx) (d : string) : tctx :=
  {| x_name := x_name x; x_special := x_special x; x_genv := x_genv x; x_gvars := x_gvars x;
     x_incvars := x_incvars x; x_incfile := x_incfile x; x_call := x_call x; x_tvars := x_tvars x;
     x_root_dir := x_root_dir x; x_task_dir := d; x_dir_tmpl := x_dir_tmpl x;
     x_tdot := x_tdot x; x_tenv := x_tenv x; x_matrix := x_matrix x;
     x_vprobes := x_vprobes x; x_eprobes := x_eprobes x; x_defers := x_defers x |}.

Definition eval_layers (w : world) (ls : list layer) (st : vars * cache) : vars * cache :=
  fold_left (eval_layer w) ls st.

Definition task_variables (w : world) (order taskdir : list string) (after : string) (x : tctx) (c : cache)
  : vars * cache :=
  match x_dir_tmpl x with
  | None => get_variables w (assemble order taskdir (w_os w) x) c
  | Some ps =>
      let k := dir_point order after in
      let st1 := eval_layers w (firstn k (assemble order taskdir (w_os w) x)) ([], c) in
      let d := join_dir (x_root_dir x) (render ps (fst st1)) in
      eval_layers w (skipn k (assemble order taskdir (w_os w) (with_task_dir x d))) st1
  end.

(* ---------- the task's environment (compiledTask) ---------- *)

(* godotenv files merged: the first file that defines a key wins *)
Definition dot_merge (first_wins : bool) (files : list vars) : vars :=
  fold_left (fun acc f =>
               fold_left (fun acc kv => if first_wins && vmem (fst kv) acc then acc
                                        else vset (fst kv) (snd kv) acc) f acc)
            files [].

(* templater.ReplaceVars against the task's final variables: templates and
   refs become values, sh: stays dynamic *)
Definition rv_expr (vs : vars) (x : expr) : expr :=
  match x with
  | Lit s => Lit s
  | Tmpl ps => Lit (render ps vs)
  | Sh ps => Sh [TLit (render ps vs)]
  | Ref n => Lit (vgetd n vs)
  end.

Definition rv_entry (vs : vars) (e : entry) : entry :=
  {| e_name := e_name e; e_expr := rv_expr vs (e_expr e); e_dir := e_dir e |}.

Definition env_source (P : params) (x : tctx) (s : string) : list entry :=
  if String.eqb s "GlobalEnv" then x_genv x
  else if String.eqb s "TaskDotenv" then lits (dot_merge (p_tdot_first P) (x_tdot x))
  else if String.eqb s "TaskEnv" then x_tenv x
  else [].

Definition env_static (P : params) (x : tctx) (vs : vars) : list entry :=
  fold_left (fun acc s => emerge acc (map (rv_entry vs) (env_source P x s))) (p_envorder P) [].

(* static values visible to a dynamic env entry: everything except unresolved sh: *)
Fixpoint statics (es : list entry) : vars :=
  match es with
  | [] => []
  | e :: r => match e_expr e with
              | Lit s => (e_name e, s) :: statics r
              | _ => statics r
              end
  end.

Fixpoint env_resolve (w : world) (dir : string) (done : vars) (todo : list entry) (c : cache)
  : vars * cache :=
  match todo with
  | [] => (done, c)
  | e :: rest =>
      match e_expr e with
      | Sh ps =>
          let '(v, c') := handle_dynamic w (render ps []) (e_dir e) dir (env_from_vars w (done ++ statics rest)%list) c in
          env_resolve w dir (done ++ [(e_name e, v)])%list rest c'
      | Lit s => env_resolve w dir (done ++ [(e_name e, s)])%list rest c
      | _ => env_resolve w dir (done ++ [(e_name e, "")])%list rest c
      end
  end.

(* new.Env of the compiled task, and the cache after its dynamic entries *)
Definition task_env (w : world) (P : params) (x : tctx) (vs : vars) (c : cache) : vars * cache :=
  env_resolve w (x_task_dir x) [] (env_static P x vs) c.

(* ---------- compilation with the state shared between compilations ---------- *)

Fixpoint words (cur s : string) : list string :=
  match s with
  | EmptyString => if String.eqb cur "" then [] else [cur]
  | String a s' =>
      if Ascii.eqb a " "%char
      then (if String.eqb cur "" then words "" s' else cur :: words "" s')
      else words (cur ++ String a "") s'
  end.

Definition items_of (v : string) : list string := words "" v.

Definition rows := list (string * list string).

Fixpoint rget (n : string) (r : rows) : option (list string) :=
  match r with
  | [] => None
  | (m, v) :: r' => if String.eqb m n then Some v else rget n r'
  end.

Fixpoint rset (n : string) (v : list string) (r : rows) : rows :=
  match r with
  | [] => [(n, v)]
  | (m, w) :: r' => if String.eqb m n then (m, v) :: r' else (m, w) :: rset n v r'
  end.

(* s_rows: MatrixRow.Value of the ref rows of the shared task definitions;
   s_defers: the text of the defer: entries of the shared task definitions, once
   something has been written over the templates *)
Record shared := { s_cache : cache; s_rows : rows; s_defers : rows }.

Definition empty_shared : shared := {| s_cache := []; s_rows := []; s_defers := [] |}.

Record outputs := { o_vars : list string; o_env : list string; o_items : list string; o_defers : list string }.

(* what a compilation holds between resolveMatrixRefs and product *)
Record pending := { pd_vars : list string; pd_env : list string; pd_items : list string; pd_defers : list string }.

Definition has_defers (x : tctx) : bool := match x_defers x with [] => false | _ :: _ => true end.

(* phase 1: variables, environment, and resolveMatrixRefs (a write into the
   shared definitions when p_matrix_shared) *)
Definition phase1 (w : world) (P : params) (x : tctx) (s : shared) : pending * shared :=
  let '(vs, c1) := task_variables w (p_layers P) (p_taskdir P) (p_dir_after P) x (s_cache s) in
  let '(ev, c2) := task_env w P x vs c1 in
  let cmdenv := env_from_vars w ev in
  let items := match x_matrix x with None => [] | Some m => items_of (vgetd m vs) end in
  let rows' := match x_matrix x with
               | None => s_rows s
               | Some _ => if p_matrix_shared P then rset (x_name x) items (s_rows s) else s_rows s
               end in
  let own := map (fun ps => render ps vs) (x_defers x) in
  (* runDeferred renders the entry the compiled task holds and stores the result in it: when that
     entry is the definition's own, the first call's text replaces the template for good *)
  let defers' := if p_defer_shared P && has_defers x
                 then match rget (x_name x) (s_defers s) with
                      | Some _ => s_defers s
                      | None => rset (x_name x) own (s_defers s)
                      end
                 else s_defers s in
  ({| pd_vars := map (fun n => vgetd n vs) (x_vprobes x);
      pd_env := map (fun n => vgetd n cmdenv) (x_eprobes x);
      pd_items := items; pd_defers := own |},
   {| s_cache := c2; s_rows := rows'; s_defers := defers' |}).

(* phase 2: product(f.Matrix) reads the rows where phase 1 left them *)
Definition phase2 (P : params) (x : tctx) (pd : pending) (s : shared) : outputs :=
  {| o_vars := pd_vars pd; o_env := pd_env pd;
     o_items := match x_matrix x with
                | None => []
                | Some _ => if p_matrix_shared P
                            then match rget (x_name x) (s_rows s) with Some v => v | None => [] end
                            else pd_items pd
                end;
     o_defers := if p_defer_shared P && has_defers x
                 then match rget (x_name x) (s_defers s) with Some v => v | None => pd_defers pd end
                 else pd_defers pd |}.

Definition compile (w : world) (P : params) (x : tctx) (s : shared) : outputs * shared :=
  let '(pd, s1) := phase1 w P x s in (phase2 P x pd s1, s1).

(* a sequence of compilations in one process *)
Fixpoint compile_seq (w : world) (P : params) (xs : list tctx) (s : shared) : list outputs * shared :=
  match xs with
  | [] => ([], s)
  | x :: rest =>
      let '(o, s1) := compile w P x s in
      let '(os, s2) := compile_seq w P rest s1 in (o :: os, s2)
  end.

(* ---------- what the include merge puts into the layers ---------- *)

(* one include step: the include statement's vars, the included file's own
   vars, the include's dir *)
Record level := { lv_stmt : list entry; lv_file : list entry; lv_dir : string }.

(* how the current code fills the layers; the repaired variant is all-false *)
Record mflags := {
  fl_snapshot_parent : bool;   (* IncludedTaskfileVars := copy of the PARENT's merged vars *)
  fl_merge_up : bool;          (* the included file's vars are merged into the parent's vars *)
  fl_include_eager : bool;     (* include-statement vars are templated when the file is read *)
  fl_include_os_first : bool   (* ... against a variable set in which the OS environment overrides the
                                  including file's vars (only matters together with fl_include_eager) *)
}.

Definition repaired_flags : mflags :=
  {| fl_snapshot_parent := false; fl_merge_up := false; fl_include_eager := false; fl_include_os_first := false |}.

Record vcase := {
  c_os : vars;
  c_exp : bool;
  c_name : string;
  c_special : vars;              (* special variables of the probed task *)
  c_special_caller : vars;       (* ... of the calling task *)
  c_genv : list entry;
  c_root : list entry;           (* vars: of the root Taskfile *)
  c_cli : list entry;            (* NAME=value *)
  c_chain : list level;          (* include chain below the root, outermost first *)
  c_depth : nat;                 (* include depth of the probed task's file: 0 = root file; the levels
                                    of c_chain beyond it are files included further down *)
  c_via_call : bool;             (* probed task is called from a sibling task with c_call *)
  c_call : list entry;
  c_task : list entry;
  c_root_dir : string;
  c_task_dir : string;
  c_caller_dir : string;
  c_probes : list name
}.

(* vars of the included files as Taskfile.Merge accumulates them bottom-up:
   the inner file overrides, Vars.Merge stamps the include's dir *)
Fixpoint files_merged (ch : list level) : list entry :=
  match ch with
  | [] => []
  | l :: rest =>
      match rest with
      | [] => lv_file l
      | l2 :: _ => emerge (lv_file l) (with_dir (lv_dir l2) (files_merged rest))
      end
  end.

Definition chain_dir (ch : list level) : string :=
  match ch with [] => "" | l :: _ => lv_dir l end.

Definition included_files_of (ch : list level) : list entry :=
  match ch with
  | [] => []
  | l :: _ => with_dir (lv_dir l) (files_merged ch)
  end.

(* the include steps between the root file and the probed task's file *)
Definition own_chain (c : vcase) : list level := firstn (c_depth c) (c_chain c).

Definition root_merged (c : vcase) : list entry := emerge (c_root c) (included_files_of (c_chain c)).

(* reader.include: include.Vars templated against os.Environ + the including
   file's own (unevaluated) vars; a name renders to the RAW text of its definition.
   osfirst: which of the two is merged on top - false: the file's vars override the
   environment (global vars > OS environment, the documented order); true: the other way round *)
Definition raw_parts (osfirst : bool) (parent : list entry) (os : vars) (n : name) : list tpart :=
  let from_parent := match efind n parent with
                     | Some e => Some (match e_expr e with
                                       | Lit s => [TLit s]
                                       | Tmpl ps => ps
                                       | Sh _ => []
                                       | Ref _ => []
                                       end)
                     | None => None
                     end in
  let from_os := match vget n os with Some v => Some [TLit v] | None => None end in
  match (if osfirst then from_os else from_parent), (if osfirst then from_parent else from_os) with
  | Some ps, _ => ps
  | None, Some ps => ps
  | None, None => []
  end.

Definition prerender_parts (osfirst : bool) (parent : list entry) (os : vars) (ps : list tpart) : list tpart :=
  flat_map (fun p => match p with
                     | TLit s => [TLit s]
                     | TVar n => raw_parts osfirst parent os n
                     end) ps.

Definition prerender_expr (osfirst : bool) (parent : list entry) (os : vars) (x : expr) : expr :=
  match x with
  | Lit s => Lit s
  | Tmpl ps => Tmpl (prerender_parts osfirst parent os ps)
  | Sh ps => Sh (prerender_parts osfirst parent os ps)
  | Ref n => Tmpl (raw_parts osfirst parent os n)
  end.

Definition prerender (eager osfirst : bool) (parent : list entry) (os : vars) (es : list entry) : list entry :=
  if eager
  then map (fun e => {| e_name := e_name e; e_expr := prerender_expr osfirst parent os (e_expr e); e_dir := e_dir e |}) es
  else es.

(* Tasks.Merge: task.IncludeVars.Merge(include.Vars) at every level, innermost first *)
Fixpoint stmts_merged (eager osfirst : bool) (os : vars) (parent : list entry) (ch : list level) : list entry :=
  match ch with
  | [] => []
  | l :: rest => emerge (stmts_merged eager osfirst os (lv_file l) rest) (prerender eager osfirst parent os (lv_stmt l))
  end.

Definition case_gvars (fl : mflags) (c : vcase) : list entry :=
  emerge (if fl_merge_up fl then root_merged c else c_root c) (c_cli c).

Definition case_incvars (fl : mflags) (c : vcase) : list entry :=
  stmts_merged (fl_include_eager fl) (fl_include_os_first fl) (c_os c) (c_root c) (own_chain c).

Definition case_incfile (fl : mflags) (c : vcase) : list entry :=
  match own_chain c with
  | [] => []
  | _ :: _ => if fl_snapshot_parent fl
              then (if fl_merge_up fl then root_merged c else c_root c)
              else included_files_of (if fl_merge_up fl then c_chain c else own_chain c)
  end.

(* the caller renders the call's vars in its own scope (compiledTask: ReplaceVars(cmd.Vars)) *)
Definition ctx_of (fl : mflags) (c : vcase) (special : vars) (dir : string)
           (call task : list entry) : tctx :=
  {| x_name := c_name c; x_special := special; x_genv := c_genv c;
     x_gvars := case_gvars fl c; x_incvars := case_incvars fl c; x_incfile := case_incfile fl c;
     x_call := call; x_tvars := task;
     x_root_dir := c_root_dir c; x_task_dir := dir; x_dir_tmpl := None;
     x_tdot := []; x_tenv := []; x_matrix := None;
     x_vprobes := c_probes c; x_eprobes := []; x_defers := [] |}.

Definition mkw (sh : string -> string -> vars -> string) (k : keyspec) (os : vars) (exp : bool) : world :=
  {| w_sh := sh; w_os := os; w_exp := exp; w_os_wins := true; w_key := k |}.

Definition case_vars (w : world) (order taskdir : list string) (fl : mflags) (c : vcase) (c0 : cache)
  : vars * cache :=
  if c_via_call c then
    let '(cv, c1) := get_variables w (assemble order taskdir (w_os w)
                        (ctx_of fl c (c_special_caller c) (c_caller_dir c) [] [])) c0 in
    get_variables w (assemble order taskdir (w_os w)
                        (ctx_of fl c (c_special c) (c_task_dir c) (map (rv_entry cv) (c_call c)) (c_task c))) c1
  else
    get_variables w (assemble order taskdir (w_os w)
                        (ctx_of fl c (c_special c) (c_task_dir c) [] (c_task c))) c0.

(* ---------- the documented order ---------- *)

Inductive docsite :=
| DTask | DCall | DIncludedTaskfile | DIncludeStmt | DGlobal | DGlobalEnv | DSpecial | DEnviron.

(* usage.mdx, "Variables", most important first; the global env: block, the
   special variables and the OS environment close the list *)
Definition doc_order : list docsite :=
  [DTask; DCall; DIncludedTaskfile; DIncludeStmt; DGlobal; DGlobalEnv; DSpecial; DEnviron].

Definition docsite_of_layer (s : string) : option docsite :=
  match lkind_of_string s with
  | LEnviron => Some DEnviron
  | LSpecial => Some DSpecial
  | LTaskfileEnv => Some DGlobalEnv
  | LTaskfileVars => Some DGlobal
  | LIncludeVars => Some DIncludeStmt
  | LIncludedTaskfileVars => Some DIncludedTaskfile
  | LCallVars => Some DCall
  | LTaskVars => Some DTask
  | LUnknown => None
  end.

(* what is DECLARED at each documented place *)
Definition doc_site_layer (c : vcase) (special : vars) (dir : string) (call task : list entry)
           (s : docsite) : layer :=
  match s with
  | DTask => {| l_dir := dir; l_entries := task |}
  | DCall => {| l_dir := c_root_dir c; l_entries := call |}
  | DIncludedTaskfile =>
      {| l_dir := dir; l_entries := included_files_of (own_chain c) |}
  | DIncludeStmt =>
      {| l_dir := c_root_dir c;
         l_entries := stmts_merged false false (c_os c) (c_root c) (own_chain c) |}
  | DGlobal => {| l_dir := c_root_dir c; l_entries := emerge (c_root c) (c_cli c) |}
  | DGlobalEnv => {| l_dir := c_root_dir c; l_entries := c_genv c |}
  | DSpecial => {| l_dir := c_root_dir c; l_entries := lits special |}
  | DEnviron => {| l_dir := c_root_dir c; l_entries := lits (c_os c) |}
  end.

Definition doc_layers (c : vcase) (special : vars) (dir : string) (call task : list entry) : list layer :=
  rev (map (doc_site_layer c special dir call task) doc_order).

Definition doc_vars (w : world) (c : vcase) (c0 : cache) : vars * cache :=
  if c_via_call c then
    let '(cv, c1) := get_variables w (doc_layers c (c_special_caller c) (c_caller_dir c) [] []) c0 in
    get_variables w (doc_layers c (c_special c) (c_task_dir c) (map (rv_entry cv) (c_call c)) (c_task c)) c1
  else get_variables w (doc_layers c (c_special c) (c_task_dir c) [] (c_task c)) c0.

Definition strong_key : keyspec := {| k_sh := true; k_dir := true; k_env := true |}.

Fixpoint slist_eqb (a b : list string) : bool :=
  match a, b with
  | [], [] => true
  | x :: a', y :: b' => String.eqb x y && slist_eqb a' b'
  | _, _ => false
  end.

Definition probe_values (c : vcase) (vs : vars) : list string := map (fun n => vgetd n vs) (c_probes c).

(* MONITOR of C10 (variables): the printed values are those of the documented order *)
Definition mon_vars (sh : string -> string -> vars -> string) (c : vcase) (observed : list string) : bool :=
  slist_eqb observed
            (probe_values c (fst (doc_vars (mkw sh strong_key (c_os c) (c_exp c)) c []))).

(* ---------- environment seen by commands: the documented rule ---------- *)

Record ecase := {
  n_os : vars;
  n_exp : bool;
  n_genv : vars;                (* env: of the root Taskfile *)
  n_gdot : list vars;           (* dotenv: files of the root Taskfile, in order *)
  n_tdot : list vars;           (* the task's dotenv files, in order *)
  n_tenv : vars;                (* the task's env: *)
  n_genv_sh : list name;        (* names of n_genv / n_tenv written as  {sh: echo VALUE}  instead of VALUE *)
  n_tenv_sh : list name;
  n_probes : list name
}.

Fixpoint first_def (n : name) (sources : list vars) : option string :=
  match sources with
  | [] => None
  | s :: rest => match vget n s with Some v => Some v | None => first_def n rest end
  end.

(* task env > task dotenv (first file wins) > global env > global dotenv (first
   file wins); the process environment wins unless the experiment is on *)
Definition doc_env_value (e : ecase) (n : name) : string :=
  let tf := first_def n ([n_tenv e] ++ n_tdot e ++ [n_genv e] ++ n_gdot e)%list in
  match vget n (n_os e), n_exp e with
  | Some v, false => v
  | Some v, true => match tf with Some t => t | None => v end
  | None, _ => match tf with Some t => t | None => "" end
  end.

(* MONITOR of C10 (environment) *)
Definition mon_env (e : ecase) (observed : list string) : bool :=
  slist_eqb observed (map (doc_env_value e) (n_probes e)).

(* Setup: readDotEnvFiles adds the dotenv keys the env: block does not define *)
Definition setup_genv (env_beats_dot gdot_first : bool) (genv : vars) (gdot : list vars) : vars :=
  fold_left (fun acc kv => if env_beats_dot && vmem (fst kv) acc then acc else vset (fst kv) (snd kv) acc)
            (dot_merge gdot_first gdot) genv.

(* literal entries, except the names of shs, which are sh: echo VALUE *)
Definition lits_sh (shs : list name) (r : vars) : list entry :=
  map (fun kv => {| e_name := fst kv;
                    e_expr := if smem (fst kv) shs then Sh [TLit ("echo " ++ snd kv)] else Lit (snd kv);
                    e_dir := "" |}) r.

Definition ectx (env_beats_dot gdot_first : bool) (e : ecase) : tctx :=
  {| x_name := "t"; x_special := [];
     x_genv := lits_sh (n_genv_sh e) (setup_genv env_beats_dot gdot_first (n_genv e) (n_gdot e));
     x_gvars := []; x_incvars := []; x_incfile := []; x_call := []; x_tvars := [];
     x_root_dir := ""; x_task_dir := ""; x_dir_tmpl := None;
     x_tdot := n_tdot e; x_tenv := lits_sh (n_tenv_sh e) (n_tenv e); x_matrix := None;
     x_vprobes := n_probes e; x_eprobes := n_probes e; x_defers := [] |}.

(* ---------- monitors of C11 ---------- *)

Definition outputs_eqb (a b : outputs) : bool :=
  slist_eqb (o_vars a) (o_vars b) && slist_eqb (o_env a) (o_env b) && slist_eqb (o_items a) (o_items b)
  && slist_eqb (o_defers a) (o_defers b).

(* the task printed the same alone and in context *)
Definition mon_same (alone in_ctx : outputs) : bool := outputs_eqb alone in_ctx.

Fixpoint rows_eqb (a b : rows) : bool :=
  match a, b with
  | [], [] => true
  | (n, v) :: a', (m, w) :: b' => String.eqb n m && slist_eqb v w && rows_eqb a' b'
  | _, _ => false
  end.

(* the shared definitions are the same before and after *)
Definition mon_defs (before after : rows) : bool := rows_eqb before after.
