(* Model E: the environment a task's commands see (compiledTask env merge,
   dotenv first-file-wins, env.GetFromVars) against the documented rule (C10). *)
From Coq Require Import List String Bool Ascii Lia.
Import ListNotations.
From TV Require Import Vars.Model Vars.Proofs.
Local Open Scope string_scope.
Local Open Scope list_scope.

(* ---------- keys of ordered maps ---------- *)

Lemma nodup_snoc : forall {A} (l : list A) x, NoDup l -> ~ In x l -> NoDup (l ++ [x]).
Proof.
  intros A l x Hl Hx. induction l as [|y l IH]; cbn.
  - constructor; [tauto|constructor].
  - inversion Hl; subst. constructor.
    + intro Hin. apply in_app_or in Hin. destruct Hin as [Hin|[Heq|[]]]; [tauto|].
      subst. apply Hx. left. reflexivity.
    + apply IH; auto. intro. apply Hx. right. assumption.
Qed.

Lemma vget_none_notin : forall n r, vget n r = None -> ~ In n (map fst r).
Proof.
  intros n r. induction r as [|[m v] r IH]; cbn; intros H; [tauto|].
  destruct (String.eqb m n) eqn:E; [discriminate|].
  intros [Heq|Hin]; [subst; rewrite String.eqb_refl in E; discriminate|]. apply IH; auto.
Qed.

Lemma vset_keys :
  forall n v r, map fst (vset n v r) = if vmem n r then map fst r else map fst r ++ [n].
Proof.
  intros n v r. unfold vmem. induction r as [|[m w] r IH]; cbn; auto.
  destruct (String.eqb m n) eqn:E; cbn.
  - apply String.eqb_eq in E. subst. reflexivity.
  - rewrite IH. destruct (vget n r); reflexivity.
Qed.

Lemma vset_nodup : forall n v r, NoDup (map fst r) -> NoDup (map fst (vset n v r)).
Proof.
  intros n v r H. rewrite vset_keys. unfold vmem. destruct (vget n r) eqn:E; auto.
  apply nodup_snoc; auto. apply vget_none_notin. exact E.
Qed.

(* the last binding of a key; equal to the first when keys are unique *)
Fixpoint vget_last (n : name) (r : vars) : option string :=
  match r with
  | [] => None
  | (m, v) :: r' => match vget_last n r' with
                    | Some x => Some x
                    | None => if String.eqb m n then Some v else None
                    end
  end.

Lemma vget_last_notin : forall n r, ~ In n (map fst r) -> vget_last n r = None.
Proof.
  intros n r. induction r as [|[m v] r IH]; cbn; intros H; auto.
  rewrite IH by tauto. destruct (String.eqb m n) eqn:E; auto.
  apply String.eqb_eq in E. subst. tauto.
Qed.

Lemma vget_last_nodup : forall n r, NoDup (map fst r) -> vget_last n r = vget n r.
Proof.
  intros n r. induction r as [|[m v] r IH]; cbn; intros H; auto.
  inversion H; subst. destruct (String.eqb m n) eqn:E.
  - apply String.eqb_eq in E. subst. rewrite vget_last_notin; auto.
  - rewrite IH; auto. destruct (vget n r); reflexivity.
Qed.

(* ---------- dotenv: the first file that defines a key wins ---------- *)

Definition first_step (acc : vars) (kv : name * string) : vars :=
  if true && vmem (fst kv) acc then acc else vset (fst kv) (snd kv) acc.

Lemma first_fold_get :
  forall n f acc,
    vget n (fold_left first_step f acc) =
    match vget n acc with Some v => Some v | None => vget n f end.
Proof.
  intros n f. induction f as [|[k v] f IH]; intros acc; cbn [fold_left].
  - destruct (vget n acc); reflexivity.
  - rewrite IH. unfold first_step. cbn [fst snd andb]. unfold vmem.
    destruct (vget k acc) eqn:Ek.
    + destruct (vget n acc) eqn:En; auto. cbn.
      destruct (String.eqb k n) eqn:E; auto. apply String.eqb_eq in E. subst. congruence.
    + destruct (String.eqb k n) eqn:E.
      * apply String.eqb_eq in E. subst. rewrite vget_vset_same, Ek. cbn. rewrite String.eqb_refl. reflexivity.
      * assert (k <> n) as Hne by (intro; subst; rewrite String.eqb_refl in E; discriminate).
        rewrite vget_vset_other by exact Hne. cbn. rewrite E. reflexivity.
Qed.

Lemma first_fold_nodup :
  forall f acc, NoDup (map fst acc) -> NoDup (map fst (fold_left first_step f acc)).
Proof.
  intros f. induction f as [|[k v] f IH]; intros acc H; cbn [fold_left]; auto.
  apply IH. unfold first_step. cbn [fst snd andb]. destruct (vmem k acc); auto. apply vset_nodup. exact H.
Qed.

Lemma dot_merge_fold :
  forall files acc,
    fold_left (fun acc f => fold_left (fun acc kv => if true && vmem (fst kv) acc then acc
                                                     else vset (fst kv) (snd kv) acc) f acc) files acc
    = fold_left (fun acc f => fold_left first_step f acc) files acc.
Proof. reflexivity. Qed.

Lemma dot_merge_get_acc :
  forall n files acc,
    vget n (fold_left (fun acc f => fold_left first_step f acc) files acc) =
    match vget n acc with Some v => Some v | None => first_def n files end.
Proof.
  intros n files. induction files as [|f files IH]; intros acc; cbn [fold_left first_def].
  - destruct (vget n acc); reflexivity.
  - rewrite IH, first_fold_get. destruct (vget n acc); auto.
Qed.

Lemma dot_merge_get : forall n files, vget n (dot_merge true files) = first_def n files.
Proof. intros. unfold dot_merge. rewrite dot_merge_fold, dot_merge_get_acc. reflexivity. Qed.

Lemma dot_merge_nodup : forall files, NoDup (map fst (dot_merge true files)).
Proof.
  intros files. unfold dot_merge. rewrite dot_merge_fold.
  assert (forall acc, NoDup (map fst acc) ->
                      NoDup (map fst (fold_left (fun acc f => fold_left first_step f acc) files acc))) as H.
  { induction files as [|f files IH]; intros acc Ha; cbn [fold_left]; auto.
    apply IH. apply first_fold_nodup. exact Ha. }
  apply H. constructor.
Qed.

(* Setup: the env: block beats the dotenv files *)
Lemma setup_genv_get :
  forall n genv gdot,
    vget n (setup_genv true true genv gdot) =
    match vget n genv with Some v => Some v | None => first_def n gdot end.
Proof.
  intros. unfold setup_genv. change (fun acc kv => if true && vmem (fst kv) acc then acc
                                                   else vset (fst kv) (snd kv) acc) with first_step.
  rewrite first_fold_get, dot_merge_get. reflexivity.
Qed.

Lemma setup_genv_nodup :
  forall genv gdot, NoDup (map fst genv) -> NoDup (map fst (setup_genv true true genv gdot)).
Proof.
  intros. unfold setup_genv. change (fun acc kv => if true && vmem (fst kv) acc then acc
                                                   else vset (fst kv) (snd kv) acc) with first_step.
  apply first_fold_nodup. assumption.
Qed.

(* ---------- merging literal blocks ---------- *)

Definition is_lit (e : entry) : bool := match e_expr e with Lit _ => true | _ => false end.

Lemma statics_cons_lit :
  forall x s es, e_expr x = Lit s -> statics (x :: es) = (e_name x, s) :: statics es.
Proof. intros x s es H. cbn. rewrite H. reflexivity. Qed.

Lemma statics_eset_lit :
  forall n k v es,
    forallb is_lit es = true ->
    vget n (statics (eset {| e_name := k; e_expr := Lit v; e_dir := "" |} es)) =
    if String.eqb k n then Some v else vget n (statics es).
Proof.
  intros n k v es. induction es as [|x es IH]; intros Hl.
  - cbn. destruct (String.eqb k n); reflexivity.
  - cbn in Hl. apply andb_true_iff in Hl. destruct Hl as [Hx Hes].
    unfold is_lit in Hx. destruct (e_expr x) as [s| | |] eqn:Ex; try discriminate.
    cbn [eset e_name]. destruct (String.eqb (e_name x) k) eqn:E.
    + apply String.eqb_eq in E.
      rewrite (statics_cons_lit {| e_name := k; e_expr := Lit v; e_dir := "" |} v es eq_refl), (statics_cons_lit x s es Ex). cbn [vget e_name].
      rewrite E. destruct (String.eqb k n); reflexivity.
    + rewrite (statics_cons_lit x s _ Ex), (statics_cons_lit x s es Ex). cbn [vget].
      rewrite IH by exact Hes.
      destruct (String.eqb (e_name x) n) eqn:E2; auto.
      destruct (String.eqb k n) eqn:E3; auto.
      apply String.eqb_eq in E2, E3. subst. rewrite String.eqb_refl in E. discriminate.
Qed.

Lemma eset_lit_all :
  forall k v es, forallb is_lit es = true ->
                 forallb is_lit (eset {| e_name := k; e_expr := Lit v; e_dir := "" |} es) = true.
Proof.
  intros k v es. induction es as [|x es IH]; intros Hl; cbn; auto.
  cbn in Hl. apply andb_true_iff in Hl. destruct Hl as [Hx Hes].
  destruct (String.eqb (e_name x) k); cbn.
  - exact Hes.
  - rewrite Hx. apply IH. exact Hes.
Qed.

Lemma eset_names :
  forall e es, enames (eset e es) =
               if existsb (fun x => String.eqb (e_name x) (e_name e)) es then enames es else enames es ++ [e_name e].
Proof.
  intros e es. unfold enames. induction es as [|x es IH]; cbn; auto.
  destruct (String.eqb (e_name x) (e_name e)) eqn:E; cbn.
  - apply String.eqb_eq in E. rewrite E. reflexivity.
  - rewrite IH. destruct (existsb _ es); reflexivity.
Qed.

Lemma eset_nodup : forall e es, NoDup (enames es) -> NoDup (enames (eset e es)).
Proof.
  intros e es H. rewrite eset_names.
  destruct (existsb (fun x => String.eqb (e_name x) (e_name e)) es) eqn:E; auto.
  apply nodup_snoc; auto. intro Hin. unfold enames in Hin. apply in_map_iff in Hin.
  destruct Hin as [x [Hx Hin]].
  assert (existsb (fun x0 => String.eqb (e_name x0) (e_name e)) es = true) as Ht.
  { apply existsb_exists. exists x. split; auto. apply String.eqb_eq. exact Hx. }
  congruence.
Qed.

Lemma emerge_cons : forall a e b, emerge a (e :: b) = emerge (eset e a) b.
Proof. reflexivity. Qed.

Lemma lits_cons :
  forall k v r, lits ((k, v) :: r) = {| e_name := k; e_expr := Lit v; e_dir := "" |} :: lits r.
Proof. reflexivity. Qed.

Lemma emerge_lits :
  forall n r a,
    forallb is_lit a = true ->
    forallb is_lit (emerge a (lits r)) = true /\
    vget n (statics (emerge a (lits r))) =
    match vget_last n r with Some v => Some v | None => vget n (statics a) end.
Proof.
  intros n r. induction r as [|[k v] r IH]; intros a Ha.
  - cbn. split; auto.
  - rewrite lits_cons, emerge_cons. cbn [vget_last].
    destruct (IH (eset {| e_name := k; e_expr := Lit v; e_dir := "" |} a) (eset_lit_all k v a Ha)) as [H1 H2].
    split; [exact H1|]. rewrite H2. destruct (vget_last n r); auto.
    rewrite statics_eset_lit by exact Ha. destruct (String.eqb k n); reflexivity.
Qed.

Lemma emerge_nodup : forall b a, NoDup (enames a) -> NoDup (enames (emerge a b)).
Proof.
  intros b. induction b as [|e b IH]; intros a Ha; [exact Ha|].
  rewrite emerge_cons. apply IH. apply eset_nodup. exact Ha.
Qed.

Lemma rv_lits : forall vs r, map (rv_entry vs) (lits r) = lits r.
Proof.
  intros vs r. induction r as [|[k v] r IH]; [reflexivity|].
  rewrite lits_cons. cbn [map]. rewrite IH. reflexivity.
Qed.

Lemma statics_keys_lit : forall es, forallb is_lit es = true -> map fst (statics es) = enames es.
Proof.
  intros es. induction es as [|x es IH]; intros H; cbn; auto.
  cbn in H. apply andb_true_iff in H. destruct H as [Hx Hes]. unfold is_lit in Hx.
  destruct (e_expr x); try discriminate. cbn. rewrite IH; auto.
Qed.

(* ---------- no dynamic entries: new.Env is the static merge ---------- *)

Lemma env_resolve_lits :
  forall w dir todo done c,
    forallb is_lit todo = true -> env_resolve w dir done todo c = (done ++ statics todo, c).
Proof.
  intros w dir todo. induction todo as [|e todo IH]; intros done c H; cbn.
  - rewrite app_nil_r. reflexivity.
  - cbn in H. apply andb_true_iff in H. destruct H as [He Ht]. unfold is_lit in He.
    destruct (e_expr e); try discriminate. rewrite IH by exact Ht. rewrite <- app_assoc. reflexivity.
Qed.

(* ---------- env.GetFromVars ---------- *)

Definition exported (w : world) (k : name) : bool :=
  w_exp w || negb (w_os_wins w) || negb (vmem k (w_os w)).

Lemma env_from_vars_get_acc :
  forall w n r acc,
    vget n (fold_left (fun acc kv => if exported w (fst kv) then vset (fst kv) (snd kv) acc else acc) r acc) =
    if exported w n
    then match vget_last n r with Some v => Some v | None => vget n acc end
    else vget n acc.
Proof.
  intros w n r. induction r as [|[k v] r IH]; intros acc; cbn [fold_left vget_last fst snd].
  - destruct (exported w n); reflexivity.
  - rewrite IH. destruct (exported w n) eqn:En.
    + destruct (vget_last n r); auto.
      destruct (String.eqb k n) eqn:E.
      * apply String.eqb_eq in E. subst. rewrite En. apply vget_vset_same.
      * assert (k <> n) as Hne by (intro; subst; rewrite String.eqb_refl in E; discriminate).
        destruct (exported w k); auto. apply vget_vset_other. exact Hne.
    + destruct (exported w k) eqn:Ek; auto.
      apply vget_vset_other. intro. subst. congruence.
Qed.

Lemma env_from_vars_get :
  forall w n r,
    vget n (env_from_vars w r) =
    if exported w n
    then match vget_last n r with Some v => Some v | None => vget n (w_os w) end
    else vget n (w_os w).
Proof. intros. unfold env_from_vars. apply (env_from_vars_get_acc w n r (w_os w)). Qed.

(* ---------- the documented rule ---------- *)

Lemma first_def_app :
  forall n a b, first_def n (a ++ b) = match first_def n a with Some v => Some v | None => first_def n b end.
Proof.
  intros n a b. induction a as [|s a IH]; cbn; auto. destruct (vget n s); auto.
Qed.

Definition expected_envorder : list string := ["GlobalEnv"; "TaskDotenv"; "TaskEnv"].

(* unique keys per block (YAML maps), and - for the theorem - no sh: valued entries; those are
   covered by the correspondence runs only *)
Definition wf_ecase (e : ecase) : Prop :=
  NoDup (map fst (n_genv e)) /\ NoDup (map fst (n_tenv e)) /\ n_genv_sh e = [] /\ n_tenv_sh e = [].

Lemma lits_sh_nil : forall r, lits_sh [] r = lits r.
Proof. intros r. unfold lits_sh, lits. apply map_ext. intros [k v]. reflexivity. Qed.

Lemma lits_all_lit : forall r, forallb is_lit (lits r) = true.
Proof. intros r. induction r as [|[k v] r IH]; cbn; auto. Qed.

Lemma env_static_expected :
  forall P e vs n,
    p_envorder P = expected_envorder -> p_tdot_first P = true -> wf_ecase e ->
    let es := env_static P (ectx true true e) vs in
    forallb is_lit es = true /\ NoDup (enames es) /\
    vget n (statics es) = first_def n ([n_tenv e] ++ n_tdot e ++ [n_genv e] ++ n_gdot e).
Proof.
  intros P e vs n Ho Hf [Hg [Ht [Hgs Hts]]]. unfold env_static. rewrite Ho. unfold expected_envorder.
  cbn [fold_left]. unfold env_source. cbn [String.eqb Ascii.eqb Bool.eqb]. cbn [ectx x_genv x_tdot x_tenv].
  rewrite Hgs, Hts, !lits_sh_nil.
  rewrite Hf. rewrite !rv_lits.
  set (G := setup_genv true true (n_genv e) (n_gdot e)).
  set (D := dot_merge true (n_tdot e)).
  destruct (emerge_lits n G [] eq_refl) as [A1 B1].
  destruct (emerge_lits n D (emerge [] (lits G)) A1) as [A2 B2].
  destruct (emerge_lits n (n_tenv e) (emerge (emerge [] (lits G)) (lits D)) A2) as [A3 B3].
  split; [exact A3|]. split.
  - apply emerge_nodup, emerge_nodup, emerge_nodup. constructor.
  - rewrite B3, B2, B1. cbn [statics vget].
    rewrite (vget_last_nodup n (n_tenv e) Ht).
    rewrite (vget_last_nodup n D (dot_merge_nodup _)).
    rewrite (vget_last_nodup n G (setup_genv_nodup _ _ Hg)).
    unfold D, G. rewrite dot_merge_get, setup_genv_get.
    cbn [app first_def]. rewrite first_def_app. cbn [first_def].
    destruct (vget n (n_tenv e)); auto.
    destruct (first_def n (n_tdot e)); auto.
    destruct (vget n (n_genv e)); auto.
    destruct (first_def n (n_gdot e)); reflexivity.
Qed.

(* C10, environment: for every set of definitions at the env sites, what a
   command of the task sees for $n is what the documented rule says *)
Theorem task_env_documented :
  forall w P e vs c n,
    w_os w = n_os e -> w_exp w = n_exp e -> w_os_wins w = true ->
    p_envorder P = expected_envorder -> p_tdot_first P = true -> wf_ecase e ->
    vgetd n (env_from_vars w (fst (task_env w P (ectx true true e) vs c))) = doc_env_value e n.
Proof.
  intros w P e vs c n Hos Hexp Hwins Ho Hf Hwf.
  destruct (env_static_expected P e vs n Ho Hf Hwf) as [Hl [Hnd Hget]].
  unfold task_env. rewrite env_resolve_lits by exact Hl. cbn [fst app].
  unfold vgetd. rewrite env_from_vars_get. unfold exported. rewrite Hos, Hexp, Hwins.
  rewrite vget_last_nodup by (rewrite statics_keys_lit; assumption).
  rewrite Hget. unfold doc_env_value, vmem.
  generalize (first_def n ([n_tenv e] ++ n_tdot e ++ [n_genv e] ++ n_gdot e)) as tf. intro tf.
  destruct (vget n (n_os e)) as [v|]; destruct (n_exp e); destruct tf; reflexivity.
Qed.

Corollary task_env_monitor :
  forall w P e vs c,
    w_os w = n_os e -> w_exp w = n_exp e -> w_os_wins w = true ->
    p_envorder P = expected_envorder -> p_tdot_first P = true -> wf_ecase e ->
    mon_env e (map (fun n => vgetd n (env_from_vars w (fst (task_env w P (ectx true true e) vs c)))) (n_probes e)) = true.
Proof.
  intros w P e vs c Hos Hexp Hwins Ho Hf Hwf. unfold mon_env.
  induction (n_probes e) as [|n ps IH]; cbn; auto.
  rewrite (task_env_documented w P e vs c n) by assumption. rewrite String.eqb_refl. exact IH.
Qed.
