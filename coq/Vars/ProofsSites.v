(* Model E joined with the include merge: what each layer CONTAINS for a task
   of the root file / an included file, against the documented order (C10). *)
From Coq Require Import List String Bool Ascii Lia.
Import ListNotations.
From TV Require Import Vars.Model Vars.Proofs.
Local Open Scope string_scope.
Local Open Scope list_scope.

(* ---------- the layer list of the expected order ---------- *)

Lemma assemble_expected :
  forall os x,
    assemble expected_layers expected_taskdir_layers os x =
    [ {| l_dir := x_root_dir x; l_entries := lits os |};
      {| l_dir := x_root_dir x; l_entries := lits (x_special x) |};
      {| l_dir := x_root_dir x; l_entries := x_genv x |};
      {| l_dir := x_root_dir x; l_entries := x_gvars x |};
      {| l_dir := x_root_dir x; l_entries := x_incvars x |};
      {| l_dir := x_task_dir x; l_entries := x_incfile x |};
      {| l_dir := x_root_dir x; l_entries := x_call x |};
      {| l_dir := x_task_dir x; l_entries := x_tvars x |} ].
Proof. reflexivity. Qed.

Lemma doc_layers_expanded :
  forall c special dir call task,
    doc_layers c special dir call task =
    [ {| l_dir := c_root_dir c; l_entries := lits (c_os c) |};
      {| l_dir := c_root_dir c; l_entries := lits special |};
      {| l_dir := c_root_dir c; l_entries := c_genv c |};
      {| l_dir := c_root_dir c; l_entries := emerge (c_root c) (c_cli c) |};
      {| l_dir := c_root_dir c; l_entries := stmts_merged false false (c_os c) (c_root c) (own_chain c) |};
      {| l_dir := dir; l_entries := included_files_of (own_chain c) |};
      {| l_dir := c_root_dir c; l_entries := call |};
      {| l_dir := dir; l_entries := task |} ].
Proof. reflexivity. Qed.

Definition flags_repaired (fl : mflags) : bool :=
  negb (fl_snapshot_parent fl) && negb (fl_merge_up fl) && negb (fl_include_eager fl).

Lemma stmts_merged_lazy :
  forall osf os ch parent, stmts_merged false osf os parent ch = stmts_merged false false os parent ch.
Proof.
  intros osf os ch. induction ch as [|l rest IH]; intros parent; cbn; auto.
  rewrite IH. reflexivity.
Qed.

Lemma repaired_layers :
  forall fl c special dir call task,
    flags_repaired fl = true ->
    assemble expected_layers expected_taskdir_layers (c_os c) (ctx_of fl c special dir call task)
    = doc_layers c special dir call task.
Proof.
  intros [sp mu ie osf] c special dir call task H. unfold flags_repaired in H. cbn in H.
  destruct sp, mu, ie; try discriminate.
  rewrite assemble_expected, doc_layers_expanded. cbn.
  unfold case_gvars, case_incvars, case_incfile. cbn. rewrite stmts_merged_lazy.
  destruct (own_chain c); reflexivity.
Qed.

(* C10 at full strength for the repaired merge: with the extracted layer order
   being the expected one, every name a task sees has the value the documented
   order gives it - for every Taskfile chain, every value kind, every cache. *)
Theorem repaired_follows_documentation :
  forall w fl c c0,
    w_os w = c_os c -> flags_repaired fl = true ->
    case_vars w expected_layers expected_taskdir_layers fl c c0 = doc_vars w c c0.
Proof.
  intros w fl c c0 Hos Hfl. unfold case_vars, doc_vars. rewrite Hos.
  rewrite !(repaired_layers fl c) by exact Hfl.
  destruct (c_via_call c); [|reflexivity].
  destruct (get_variables w (doc_layers c (c_special_caller c) (c_caller_dir c) [] []) c0) as [cv c1].
  rewrite (repaired_layers fl c) by exact Hfl. reflexivity.
Qed.

Corollary repaired_monitor_true :
  forall sh fl c,
    flags_repaired fl = true ->
    mon_vars sh c (probe_values c (fst (case_vars (mkw sh strong_key (c_os c) (c_exp c))
                                                  expected_layers expected_taskdir_layers fl c []))) = true.
Proof.
  intros sh fl c Hfl. unfold mon_vars.
  rewrite (repaired_follows_documentation (mkw sh strong_key (c_os c) (c_exp c)) fl c [] (eq_refl (c_os c)) Hfl).
  generalize (probe_values c (fst (doc_vars (mkw sh strong_key (c_os c) (c_exp c)) c []))) as l.
  induction l as [|x l IH]; cbn; auto. rewrite String.eqb_refl. exact IH.
Qed.

(* ---------- the current merge against the documentation: witnesses ---------- *)

Definition lite (n v : string) : entry := {| e_name := n; e_expr := Lit v; e_dir := "" |}.

Definition base_case : vcase :=
  {| c_os := []; c_exp := false; c_name := "i:show"; c_special := []; c_special_caller := [];
     c_genv := []; c_root := []; c_cli := []; c_chain := []; c_depth := 0;
     c_via_call := false; c_call := []; c_task := [];
     c_root_dir := "ROOT"; c_task_dir := "ROOT/i"; c_caller_dir := "ROOT/i"; c_probes := ["X"] |}.

(* 7.15: root vars {X: global}, include statement vars {X: inc}, task of the included file *)
Definition witness_include : vcase :=
  {| c_os := []; c_exp := false; c_name := "i:show"; c_special := []; c_special_caller := [];
     c_genv := []; c_root := [lite "X" "global"]; c_cli := [];
     c_chain := [{| lv_stmt := [lite "X" "inc"]; lv_file := []; lv_dir := "ROOT/i" |}]; c_depth := 1;
     c_via_call := false; c_call := []; c_task := [];
     c_root_dir := "ROOT"; c_task_dir := "ROOT/i"; c_caller_dir := "ROOT/i"; c_probes := ["X"] |}.

(* 7.15, second face: X=cli on the command line, task of the included file *)
Definition witness_cli : vcase :=
  {| c_os := []; c_exp := false; c_name := "i:show"; c_special := []; c_special_caller := [];
     c_genv := []; c_root := [lite "X" "global"]; c_cli := [lite "X" "cli"];
     c_chain := [{| lv_stmt := []; lv_file := []; lv_dir := "ROOT/i" |}]; c_depth := 1;
     c_via_call := false; c_call := []; c_task := [];
     c_root_dir := "ROOT"; c_task_dir := "ROOT/i"; c_caller_dir := "ROOT/i"; c_probes := ["X"] |}.

(* the included file's vars reach a task of the ROOT file *)
Definition witness_leak : vcase :=
  {| c_os := []; c_exp := false; c_name := "show"; c_special := []; c_special_caller := [];
     c_genv := []; c_root := [lite "X" "global"]; c_cli := [];
     c_chain := [{| lv_stmt := []; lv_file := [lite "X" "child"]; lv_dir := "ROOT/i" |}]; c_depth := 0;
     c_via_call := false; c_call := []; c_task := [];
     c_root_dir := "ROOT"; c_task_dir := "ROOT"; c_caller_dir := "ROOT"; c_probes := ["X"] |}.

(* include-statement vars are rendered when the file is read: {{.X}} does not see X=cli *)
Definition witness_eager : vcase :=
  {| c_os := []; c_exp := false; c_name := "i:show"; c_special := []; c_special_caller := [];
     c_genv := []; c_root := []; c_cli := [lite "X" "cli"];
     c_chain := [{| lv_stmt := [{| e_name := "Y"; e_expr := Tmpl [TLit "inc<"; TVar "X"; TLit ">"]; e_dir := "" |}];
                    lv_file := []; lv_dir := "ROOT/i" |}]; c_depth := 1;
     c_via_call := false; c_call := []; c_task := [];
     c_root_dir := "ROOT"; c_task_dir := "ROOT/i"; c_caller_dir := "ROOT/i"; c_probes := ["Y"] |}.

Definition model_mon (sh : string -> string -> vars -> string) (fl : mflags) (c : vcase) : bool :=
  mon_vars sh c (probe_values c (fst (case_vars (mkw sh strong_key (c_os c) (c_exp c))
                                                expected_layers expected_taskdir_layers fl c []))).

(* whatever else the merge does: if included tasks receive a copy of the parent's
   vars, the documented order is violated (a global beats the include statement) *)
Theorem snapshot_parent_refuted :
  forall sh fl, fl_snapshot_parent fl = true ->
                model_mon sh fl witness_include = false /\ model_mon sh fl witness_cli = false.
Proof.
  intros sh [sp mu ie osf] H1. cbn in H1. subst. destruct mu, ie, osf; split; vm_compute; reflexivity.
Qed.

Theorem merge_up_refuted :
  forall sh fl, fl_merge_up fl = true -> model_mon sh fl witness_leak = false.
Proof.
  intros sh [sp mu ie osf] H. cbn in H. subst. destruct sp, ie, osf; vm_compute; reflexivity.
Qed.

Theorem include_eager_refuted :
  forall sh fl, fl_include_eager fl = true -> model_mon sh fl witness_eager = false.
Proof.
  intros sh [sp mu ie osf] H. cbn in H. subst. destruct sp, mu, osf; vm_compute; reflexivity.
Qed.

(* ---------- what holds whatever the flags are ---------- *)

Lemma emerge_nil_r : forall a, emerge a [] = a.
Proof. reflexivity. Qed.

(* tasks of the root file, when no included file declares vars: documented order, any flags *)
Theorem root_tasks_partial :
  forall w fl c c0,
    w_os w = c_os c -> c_depth c = 0 -> files_merged (c_chain c) = [] ->
    case_vars w expected_layers expected_taskdir_layers fl c c0 = doc_vars w c c0.
Proof.
  intros w fl c c0 Hos Hd Hf.
  assert (forall special dir call task,
             assemble expected_layers expected_taskdir_layers (c_os c) (ctx_of fl c special dir call task)
             = doc_layers c special dir call task) as HL.
  { intros. rewrite assemble_expected, doc_layers_expanded. cbn.
    unfold case_gvars, case_incvars, case_incfile, root_merged, own_chain, included_files_of.
    rewrite Hd, Hf. cbn.
    destruct (c_chain c); cbn; destruct (fl_merge_up fl); reflexivity. }
  unfold case_vars, doc_vars. rewrite Hos. rewrite !HL.
  destruct (c_via_call c); [|reflexivity].
  destruct (get_variables w (doc_layers c (c_special_caller c) (c_caller_dir c) [] []) c0) as [cv c1].
  rewrite HL. reflexivity.
Qed.

(* ---------- CLI assignments are part of the global layer ---------- *)

Fixpoint efind_last (n : name) (es : list entry) : option entry :=
  match es with
  | [] => None
  | x :: r => match efind_last n r with
              | Some e => Some e
              | None => if String.eqb (e_name x) n then Some x else None
              end
  end.

Lemma efind_eset_same : forall e es, efind (e_name e) (eset e es) = Some e.
Proof.
  intros e es. induction es as [|x r IH]; cbn.
  - rewrite String.eqb_refl. reflexivity.
  - destruct (String.eqb (e_name x) (e_name e)) eqn:E; cbn.
    + rewrite String.eqb_refl. reflexivity.
    + rewrite E. exact IH.
Qed.

Lemma efind_eset_other : forall e es n, e_name e <> n -> efind n (eset e es) = efind n es.
Proof.
  intros e es n Hne. induction es as [|x r IH]; cbn.
  - destruct (String.eqb (e_name e) n) eqn:E; auto. apply String.eqb_eq in E. contradiction.
  - destruct (String.eqb (e_name x) (e_name e)) eqn:E; cbn.
    + apply String.eqb_eq in E.
      destruct (String.eqb (e_name e) n) eqn:E2; [apply String.eqb_eq in E2; contradiction|].
      rewrite E. rewrite E2. reflexivity.
    + destruct (String.eqb (e_name x) n); auto.
Qed.

Lemma efind_emerge :
  forall n b a,
    efind n (emerge a b) = match efind_last n b with Some e => Some e | None => efind n a end.
Proof.
  intros n b. induction b as [|x b IH]; intros a; cbn; auto.
  unfold emerge in *. cbn. rewrite IH.
  destruct (efind_last n b) as [e|]; auto.
  destruct (String.eqb (e_name x) n) eqn:E.
  - apply String.eqb_eq in E. subst n. apply efind_eset_same.
  - apply efind_eset_other. intro Heq. subst n. rewrite String.eqb_refl in E. discriminate.
Qed.

(* the TaskfileVars layer of every task contains each NAME=value assignment,
   overriding the Taskfile's own global of that name *)
Theorem cli_is_global_layer :
  forall fl c n e, efind_last n (c_cli c) = Some e -> efind n (case_gvars fl c) = Some e.
Proof.
  intros fl c n e H. unfold case_gvars. rewrite efind_emerge, H. reflexivity.
Qed.

Theorem cli_absent_keeps_global :
  forall fl c n, efind_last n (c_cli c) = None ->
                 efind n (case_gvars fl c) = efind n (if fl_merge_up fl then root_merged c else c_root c).
Proof.
  intros fl c n H. unfold case_gvars. rewrite efind_emerge, H. reflexivity.
Qed.
