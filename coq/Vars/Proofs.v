(* Model E, generic facts about getVariables: last writer wins, evaluation in
   the environment written before, layers above the highest defining layer
   are irrelevant.  Used by C10 and C11. *)
From Coq Require Import List String Bool Ascii Lia.
Import ListNotations.
From TV Require Import Vars.Model.
Local Open Scope string_scope.
Local Open Scope list_scope.

(* ---------- ordered maps ---------- *)

Lemma vget_vset_same : forall n v r, vget n (vset n v r) = Some v.
Proof.
  intros n v r. induction r as [|[m w] r IH]; cbn.
  - rewrite String.eqb_refl. reflexivity.
  - destruct (String.eqb m n) eqn:E; cbn; rewrite E; auto.
Qed.

Lemma vget_vset_other : forall n m v r, m <> n -> vget n (vset m v r) = vget n r.
Proof.
  intros n m v r Hne. induction r as [|[k w] r IH]; cbn.
  - destruct (String.eqb m n) eqn:E; auto. apply String.eqb_eq in E. contradiction.
  - destruct (String.eqb k m) eqn:E; cbn.
    + apply String.eqb_eq in E. subst k.
      destruct (String.eqb m n) eqn:E2; auto. apply String.eqb_eq in E2. contradiction.
    + destruct (String.eqb k n); auto.
Qed.

Lemma vmem_vset_same : forall n v r, vmem n (vset n v r) = true.
Proof. intros. unfold vmem. rewrite vget_vset_same. reflexivity. Qed.

Lemma vmem_vset_other : forall n m v r, m <> n -> vmem n (vset m v r) = vmem n r.
Proof. intros. unfold vmem. rewrite vget_vset_other; auto. Qed.

(* ---------- one entry ---------- *)

Lemma eval_entry_fst :
  forall w d e st,
    fst (eval_entry w d e st) = vset (e_name e) (entry_value w d e st) (fst st).
Proof.
  intros w d e [r c]. unfold eval_entry, entry_value. cbn [fst snd].
  destruct (e_expr e) as [s|ps|ps|m]; cbn; auto.
  destruct (handle_dynamic w (render ps r) (e_dir e) d (env_from_vars w r) c); reflexivity.
Qed.

Lemma eval_entry_defines :
  forall w d e st, vget (e_name e) (fst (eval_entry w d e st)) = Some (entry_value w d e st).
Proof. intros. rewrite eval_entry_fst. apply vget_vset_same. Qed.

Lemma eval_entry_other :
  forall w d e st n, e_name e <> n -> vget n (fst (eval_entry w d e st)) = vget n (fst st).
Proof. intros. rewrite eval_entry_fst. apply vget_vset_other; auto. Qed.

(* ---------- lists of entries ---------- *)

Lemma run_flat_app :
  forall w a b st, run_flat w (a ++ b) st = run_flat w b (run_flat w a st).
Proof. intros. unfold run_flat. apply fold_left_app. Qed.

Lemma run_flat_cons :
  forall w de fl st, run_flat w (de :: fl) st = run_flat w fl (eval_entry w (fst de) (snd de) st).
Proof. reflexivity. Qed.

Lemma run_flat_silent :
  forall w fl st n,
    (forall de, In de fl -> e_name (snd de) <> n) ->
    vget n (fst (run_flat w fl st)) = vget n (fst st).
Proof.
  intros w fl. induction fl as [|de fl IH]; intros st n H; [reflexivity|].
  rewrite run_flat_cons. rewrite IH.
  - apply eval_entry_other. apply H. left. reflexivity.
  - intros de' Hin. apply H. right. exact Hin.
Qed.

Lemma eval_layer_flat :
  forall w l st, eval_layer w st l = run_flat w (map (fun e => (l_dir l, e)) (l_entries l)) st.
Proof.
  intros w l. unfold eval_layer, run_flat. generalize (l_entries l) as es.
  induction es as [|e es IH]; intros st; cbn; auto.
Qed.

Lemma layers_flat :
  forall w ls st, fold_left (eval_layer w) ls st = run_flat w (flat ls) st.
Proof.
  intros w ls. induction ls as [|l ls IH]; intros st; cbn [fold_left]; auto.
  change (flat (l :: ls)) with (map (fun e => (l_dir l, e)) (l_entries l) ++ flat ls).
  rewrite run_flat_app. rewrite <- IH. rewrite eval_layer_flat. reflexivity.
Qed.

Lemma get_variables_flat :
  forall w ls c, get_variables w ls c = run_flat w (flat ls) ([], c).
Proof. intros. unfold get_variables. apply layers_flat. Qed.

(* ---------- the last definition ---------- *)

Lemma split_last_none :
  forall n fl, split_last n fl = None -> forall de, In de fl -> e_name (snd de) <> n.
Proof.
  intros n fl. induction fl as [|x fl IH]; intros H de Hin; cbn in *; [contradiction|].
  destruct (split_last n fl) as [[pre y]|] eqn:E; [discriminate|].
  destruct (String.eqb (e_name (snd x)) n) eqn:E2; [discriminate|].
  destruct Hin as [->|Hin].
  - intro Heq. rewrite Heq in E2. rewrite String.eqb_refl in E2. discriminate.
  - apply IH; auto.
Qed.

Lemma split_last_some :
  forall n fl pre de,
    split_last n fl = Some (pre, de) ->
    exists post, fl = pre ++ de :: post /\ e_name (snd de) = n /\
                 (forall x, In x post -> e_name (snd x) <> n).
Proof.
  intros n fl. induction fl as [|x fl IH]; intros pre de H; cbn in *; [discriminate|].
  destruct (split_last n fl) as [[pre' y]|] eqn:E.
  - inversion H; subst. destruct (IH pre' de eq_refl) as [post [H1 [H2 H3]]].
    exists post. split; [|split]; auto. cbn. rewrite H1. reflexivity.
  - destruct (String.eqb (e_name (snd x)) n) eqn:E2; [|discriminate].
    inversion H; subst. exists fl. split; [reflexivity|]. split.
    + apply String.eqb_eq. exact E2.
    + apply split_last_none. exact E.
Qed.

(* C10, the core: after getVariables the value of n is the one written by the
   LAST definition of n in layer order, evaluated in the state produced by
   everything before it; n is unset iff no layer defines it. *)
Theorem last_writer_wins :
  forall w ls c n,
    vget n (fst (get_variables w ls c)) =
    match split_last n (flat ls) with
    | None => None
    | Some (pre, de) => Some (entry_value w (fst de) (snd de) (run_flat w pre ([], c)))
    end.
Proof.
  intros w ls c n. rewrite get_variables_flat.
  destruct (split_last n (flat ls)) as [[pre de]|] eqn:E.
  - destruct (split_last_some _ _ _ _ E) as [post [Hfl [Hn Hpost]]].
    rewrite Hfl. rewrite run_flat_app, run_flat_cons. rewrite run_flat_silent by exact Hpost.
    rewrite <- Hn. apply eval_entry_defines.
  - rewrite run_flat_silent; [reflexivity|]. apply split_last_none. exact E.
Qed.

(* the same, stated with an explicit split *)
Corollary last_writer_wins_split :
  forall w ls c n pre d e post,
    flat ls = pre ++ (d, e) :: post -> e_name e = n ->
    (forall x, In x post -> e_name (snd x) <> n) ->
    vget n (fst (get_variables w ls c)) = Some (entry_value w d e (run_flat w pre ([], c))).
Proof.
  intros w ls c n pre d e post Hfl Hn Hpost.
  rewrite get_variables_flat, Hfl, run_flat_app, run_flat_cons. rewrite run_flat_silent by exact Hpost.
  rewrite <- Hn. apply (eval_entry_defines w d e).
Qed.

Lemma defines_false_flat :
  forall n ls, (forall l, In l ls -> defines n l = false) ->
               forall de, In de (flat ls) -> e_name (snd de) <> n.
Proof.
  intros n ls H de Hin. unfold flat in Hin. apply in_flat_map in Hin.
  destruct Hin as [l [Hl Hde]]. apply in_map_iff in Hde. destruct Hde as [e [<- He]]. cbn.
  specialize (H l Hl). unfold defines in H.
  intro Heq. assert (existsb (fun e0 => String.eqb (e_name e0) n) (l_entries l) = true) as Ht.
  { apply existsb_exists. exists e. split; auto. apply String.eqb_eq. exact Heq. }
  rewrite Ht in H. discriminate.
Qed.

Lemma flat_app : forall a b, flat (a ++ b) = flat a ++ flat b.
Proof. intros. unfold flat. apply flat_map_app. Qed.

(* layers above the highest layer that defines n do not matter for n *)
Theorem higher_layers_irrelevant :
  forall w lo hi c n,
    (forall l, In l hi -> defines n l = false) ->
    vget n (fst (get_variables w (lo ++ hi) c)) = vget n (fst (get_variables w lo c)).
Proof.
  intros w lo hi c n H. rewrite !get_variables_flat, flat_app, run_flat_app.
  apply run_flat_silent. apply defines_false_flat. exact H.
Qed.

(* a literal definition in the highest defining layer is the value *)
Theorem literal_precedence :
  forall w ls c n pre d e post s,
    flat ls = pre ++ (d, e) :: post -> e_name e = n -> e_expr e = Lit s ->
    (forall x, In x post -> e_name (snd x) <> n) ->
    vget n (fst (get_variables w ls c)) = Some s.
Proof.
  intros w ls c n pre d e post s Hfl Hn He Hpost.
  rewrite (last_writer_wins_split w ls c n pre d e post Hfl Hn Hpost).
  unfold entry_value. rewrite He. reflexivity.
Qed.

(* the order of the layers in getVariables, read from the back, is the documented order *)
Lemma expected_is_documented :
  map docsite_of_layer expected_layers = map Some (rev doc_order).
Proof. reflexivity. Qed.
