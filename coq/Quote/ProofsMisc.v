(* Model G "Quote": delivery of CLI_ARGS and shellQuote values, the template
   pass, NAME=value, --init.  Builds on the codec round trip (ProofsCodec). *)
From Coq Require Import List NArith Bool Lia.
Import ListNotations.
From TV Require Import Quote.Model Quote.ProofsCodec.
Local Open Scope N_scope.

(* ------------------------------------------------------------------ *)
(* the template pass *)

Lemma strip_nv_id s : contains no_value s = false -> strip_nv s = s.
Proof.
  unfold strip_nv. induction s as [|b s IH]; [reflexivity|].
  cbn [contains]. intro H. apply orb_false_elim in H as [Hp Hc].
  cbn [strip_go]. rewrite Hp. f_equal. now apply IH.
Qed.

Lemma ustrip_nv_id s : u_contains_nv s = false -> ustrip_nv s = s.
Proof.
  unfold u_contains_nv, ustrip_nv. induction s as [|u s IH]; [reflexivity|].
  cbn [u_contains]. intro H. apply orb_false_elim in H as [Hp Hc].
  cbn [ustrip_go]. rewrite Hp. f_equal. now apply IH.
Qed.

Definition inert (t : tcfg) : Prop := t_templ t = false /\ t_strip t = false.

Lemma tmpl_pass_inert t s : inert t -> tmpl_pass t s = Some s.
Proof. intros [H _]. unfold tmpl_pass. now rewrite H. Qed.

Lemma maybe_strip_inert t s : inert t -> maybe_strip t s = s.
Proof. intros [_ H]. unfold maybe_strip. now rewrite H. Qed.

Lemma utmpl_pass_inert t s : inert t -> utmpl_pass t s = Some s.
Proof. intros [H _]. unfold utmpl_pass. now rewrite H. Qed.

(* text free of template syntax passes any configuration unchanged *)
Lemma tmpl_pass_free t s :
  contains tmpl_open s = false -> contains no_value s = false -> tmpl_pass t s = Some s.
Proof.
  intros H1 H2. unfold tmpl_pass, maybe_strip. rewrite H1.
  destruct (t_templ t); [|reflexivity]. destruct (t_strip t); [|reflexivity]. now rewrite strip_nv_id.
Qed.

Lemma maybe_strip_free t s : contains no_value s = false -> maybe_strip t s = s.
Proof. intro H. unfold maybe_strip. destruct (t_strip t); [|reflexivity]. now apply strip_nv_id. Qed.

(* C19_template_inert at the level of one rendering *)
Theorem render_inert t s : inert t -> mon_inert s (maybe_strip t s) = true.
Proof. intro H. rewrite (maybe_strip_inert _ _ H). apply beqb_refl. Qed.

Theorem render_strip_refuted : exists s, mon_inert s (maybe_strip (mktcfg false true) s) = false.
Proof. exists (97 :: no_value ++ [98]). vm_compute. reflexivity. Qed.

(* ------------------------------------------------------------------ *)
(* delivery of arguments *)

Lemma mon_argv_refl l : mon_argv l (Argv l) = true.
Proof. cbn [mon_argv]. apply lbeqb_refl. Qed.

(* CLI_ARGS stored as the joined string, values not touched by the template engine *)
Theorem deliver_cli_joined g t args :
  inert t -> Forall wf_ustr args ->
  deliver_cli g (mkvariant Joined t) args = Argv (map sbytes args).
Proof.
  intros Ht Hwf. unfold deliver_cli, cli_text; cbn [v_kind v_t].
  rewrite (tmpl_pass_inert _ _ Ht), (maybe_strip_inert _ _ Ht).
  now rewrite (fields_join_quote g args Hwf).
Qed.

(* the same for any template configuration, for text the template engine has nothing to do with *)
Theorem deliver_cli_joined_partial g t args :
  Forall wf_ustr args ->
  contains tmpl_open (join [sp] (map quote_raw args)) = false ->
  contains no_value (join [sp] (map quote_raw args)) = false ->
  deliver_cli g (mkvariant Joined t) args = Argv (map sbytes args).
Proof.
  intros Hwf H1 H2. unfold deliver_cli, cli_text; cbn [v_kind v_t].
  rewrite (tmpl_pass_free _ _ H1 H2), (maybe_strip_free _ _ H2).
  now rewrite (fields_join_quote g args Hwf).
Qed.

Theorem deliver_sq_inert g t x : inert t -> wf_ustr x -> deliver_sq g t x = Argv [sbytes x].
Proof.
  intros Ht Hwf. unfold deliver_sq, sq_text.
  rewrite (utmpl_pass_inert _ _ Ht), (maybe_strip_inert _ _ Ht).
  now rewrite (fields_quote_one g x Hwf).
Qed.

Lemma contains_nil_r p : p <> [] -> contains p [] = false.
Proof. destruct p; [congruence|reflexivity]. Qed.

Theorem deliver_sq_partial g t x :
  wf_ustr x ->
  contains tmpl_open (sbytes x) = false ->
  u_contains_nv x = false ->
  contains no_value (quote_raw x) = false ->
  deliver_sq g t x = Argv [sbytes x].
Proof.
  intros Hwf H1 H2 H3. unfold deliver_sq, sq_text, utmpl_pass, umaybe_strip. rewrite H1.
  assert (Hs : ustrip_nv x = x) by now apply ustrip_nv_id.
  destruct (t_templ t); destruct (t_strip t); rewrite ?Hs, (maybe_strip_free _ _ H3);
    now rewrite (fields_quote_one g x Hwf).
Qed.

(* the monitor form used on the real runs *)
Theorem mon_cli_joined g t args :
  inert t -> Forall wf_ustr args ->
  mon_argv (map sbytes args) (deliver_cli g (mkvariant Joined t) args) = true.
Proof. intros Ht Hwf. rewrite (deliver_cli_joined g t args Ht Hwf). apply mon_argv_refl. Qed.

Theorem mon_sq_inert g t x :
  inert t -> wf_ustr x -> mon_argv [sbytes x] (deliver_sq g t x) = true.
Proof. intros Ht Hwf. rewrite (deliver_sq_inert g t x Ht Hwf). apply mon_argv_refl. Qed.

Theorem mon_quote_one_holds s : wf_ustr s -> mon_quote_one (sbytes s) (quote s) = true.
Proof.
  intro Hwf. rewrite (quote_some _ Hwf). unfold mon_quote_one, fields.
  rewrite (fields_quote_one false s Hwf). cbn [olbeqb]. apply lbeqb_refl.
Qed.

(* Quote's only refusal is a NUL, which the bytes then contain *)
Theorem mon_quote_one_nul s : existsb u_isnul s = true -> mon_quote_one (sbytes s) (quote s) = true.
Proof.
  intro H. unfold quote. rewrite H. cbn [mon_quote_one].
  induction s as [|u s IH]; [discriminate|].
  cbn [existsb] in H. rewrite sbytes_cons, existsb_app. apply orb_true_iff.
  apply orb_true_iff in H as [Hu|Hs]; [left|right; now apply IH].
  destruct u as [r p|b]; [|discriminate]. cbn [u_isnul] in Hu. apply N.eqb_eq in Hu. subst r.
  reflexivity.
Qed.

(* the variants of the unrepaired tree *)
Definition ex_a : ustr := [Rune 97 true].
Definition ex_bc : ustr := [Rune 98 true; Rune 32 true; Rune 99 true].
Definition ex_nv : ustr := Rune 120 true :: map (fun r => Rune r true) no_value ++ [Rune 121 true].
Definition ex_tmpl : ustr := map (fun r => Rune r true) [123; 123; 46; 84; 65; 83; 75; 125; 125].   (* {{.TASK}} *)

Theorem deliver_cli_slice_refuted :
  exists args, Forall wf_ustr args /\
    mon_argv (map sbytes args) (deliver_cli true (mkvariant Slice repaired_t) args) = false.
Proof.
  exists [ex_a; ex_bc]. split; [|vm_compute; reflexivity].
  repeat constructor.
Qed.

(* no argument at all still starts the command with the argument "[]" *)
Theorem deliver_cli_slice_empty : deliver_cli true (mkvariant Slice repaired_t) [] = Argv [[lbr; rbr]].
Proof. vm_compute. reflexivity. Qed.

Theorem deliver_cli_strip_refuted :
  exists args, Forall wf_ustr args /\
    mon_argv (map sbytes args) (deliver_cli true (mkvariant Joined (mktcfg true true)) args) = false.
Proof.
  exists [ex_nv]. split; [|vm_compute; reflexivity].
  repeat constructor.
Qed.

Theorem deliver_sq_strip_refuted :
  exists x, wf_ustr x /\ mon_argv [sbytes x] (deliver_sq true (mktcfg true true) x) = false.
Proof.
  exists ex_nv. split; [|vm_compute; reflexivity].
  repeat constructor.
Qed.

(* a value with template syntax is handed to the template engine: the model cannot vouch for it *)
Theorem deliver_cli_templated_unmodelled :
  exists args, Forall wf_ustr args /\ deliver_cli true (mkvariant Joined (mktcfg true false)) args = Unmodelled.
Proof.
  exists [ex_tmpl]. split; [|vm_compute; reflexivity].
  repeat constructor.
Qed.

(* ------------------------------------------------------------------ *)
(* NAME=value *)

Lemma cut_first sep n v : existsb (N.eqb sep) n = false -> cut sep (n ++ sep :: v) = Some (n, v).
Proof.
  induction n as [|b n IH]; cbn [existsb app cut]; intro H.
  - now rewrite N.eqb_refl.
  - apply orb_false_elim in H as [Hb Hn]. rewrite N.eqb_sym, Hb, (IH Hn). reflexivity.
Qed.

Theorem split_var_first lim n v :
  lim = 2%nat -> existsb (N.eqb eq_sign) n = false ->
  split_var lim (n ++ eq_sign :: v) = Some (n, v).
Proof.
  intros -> H. unfold split_var. cbn [split_n]. now rewrite (cut_first _ _ _ H).
Qed.

Lemma cut_spec sep s a r : cut sep s = Some (a, r) -> s = a ++ sep :: r /\ existsb (N.eqb sep) a = false.
Proof.
  revert a r. induction s as [|b s IH]; intros a r; cbn [cut]; [discriminate|].
  destruct (b =? sep) eqn:E.
  - intros [= <- <-]. apply N.eqb_eq in E. subst. split; reflexivity.
  - destruct (cut sep s) as [[a' r']|]; [|discriminate]. intros [= <- <-].
    destruct (IH _ _ eq_refl) as [-> Hn]. split; [reflexivity|].
    cbn [existsb]. now rewrite N.eqb_sym, E, Hn.
Qed.

Lemma cut_none sep s : cut sep s = None -> existsb (N.eqb sep) s = false.
Proof.
  induction s as [|b s IH]; cbn [cut existsb]; [reflexivity|].
  destruct (b =? sep) eqn:E; [discriminate|].
  destruct (cut sep s) as [[a r]|]; [discriminate|]. intros _. now rewrite N.eqb_sym, E, IH.
Qed.

(* what args.Parse stores for one argument: a call, or the pair cut at the first '=' *)
Definition parse_one (lim : nat) (arg : bytes) : option (bytes * bytes) :=
  if existsb (N.eqb eq_sign) arg then split_var lim arg else None.

Theorem parse_one_mon lim arg : lim = 2%nat -> mon_split arg (parse_one lim arg) = true.
Proof.
  intros ->. unfold parse_one. destruct (existsb (N.eqb eq_sign) arg) eqn:E.
  - unfold split_var. cbn [split_n]. destruct (cut eq_sign arg) as [[a r]|] eqn:Ec.
    + destruct (cut_spec _ _ _ _ Ec) as [-> Hn]. cbn [mon_split]. now rewrite beqb_refl, Hn.
    + apply cut_none in Ec. congruence.
  - cbn [mon_split]. now rewrite E.
Qed.

Theorem split_all_refuted :
  exists n v, existsb (N.eqb eq_sign) n = false /\ split_var 3 (n ++ eq_sign :: v) <> Some (n, v).
Proof. exists [88], [97; 61; 98]. split; [reflexivity|]. vm_compute. discriminate. Qed.

(* ------------------------------------------------------------------ *)
(* --init *)

Lemma peqb_refl p : peqb p p = true.
Proof. apply lbeqb_refl. Qed.

Lemma peqb_eq p q : peqb p q = true -> p = q.
Proof. apply lbeqb_eq. Qed.

Lemma lookup_cons_ne f p n q : peqb p q = false -> lookup ((p, n) :: f) q = lookup f q.
Proof. intro H. cbn [lookup]. now rewrite H. Qed.

Lemma lookup_cons_eq f p n : lookup ((p, n) :: f) p = Some n.
Proof. cbn [lookup]. now rewrite peqb_refl. Qed.

Lemma same_on_refl f ps : same_on f f ps = true.
Proof.
  induction ps as [|p ps IH]; [reflexivity|]. cbn [same_on]. rewrite IH, andb_true_r.
  destruct (lookup f p) as [[c|]|]; [apply beqb_refl|reflexivity|reflexivity].
Qed.

Lemma same_on_add f d n ps :
  Forall (fun p => peqb d p = false) ps -> same_on f ((d, n) :: f) ps = true.
Proof.
  induction 1 as [|p ps Hp Hps IH]; [reflexivity|]. cbn [same_on]. rewrite IH, andb_true_r.
  rewrite (lookup_cons_ne _ _ _ _ Hp).
  destruct (lookup f p) as [[c|]|]; [apply beqb_refl|reflexivity|reflexivity].
Qed.

Lemma filter_ne_Forall d (l : list path) :
  Forall (fun p => peqb d p = false) (filter (fun p => negb (peqb d p)) l).
Proof.
  apply Forall_forall. intros p Hp. apply filter_In in Hp as [_ H]. now apply negb_true_iff in H.
Qed.

Definition created_of (r : init_result) : option path :=
  match r with Created p => Some p | _ => None end.

Lemma removelast_snoc {A} (l : list A) x : removelast (l ++ [x]) = l.
Proof. apply removelast_last. Qed.

Lemma mon_init_created default wd f pos :
  dest_free f (init_dest wd f pos) = true ->
  mon_init default wd f pos (Some (init_dest wd f pos)) ((init_dest wd f pos, NFile default) :: f) = true.
Proof.
  intro H. unfold mon_init. rewrite H.
  rewrite same_on_add by apply filter_ne_Forall.
  now rewrite lookup_cons_eq, peqb_refl, beqb_refl.
Qed.

Lemma mon_init_refused default wd f pos :
  dest_free f (init_dest wd f pos) = false ->
  mon_init default wd f pos None f = true.
Proof. intro H. unfold mon_init. rewrite H. now rewrite !same_on_refl. Qed.

(* InitTaskfile meets the monitor for the destination p itself, or
   p/Taskfile.yml when p is a directory *)
Lemma init_taskfile_mon default wd f pos p :
  init_dest wd f pos = (if is_dir f p then p ++ [default_name] else p) ->
  let '(f', r) := init_taskfile default f p in
  mon_init default wd f pos (created_of r) f' = true.
Proof.
  intro Hd. unfold init_taskfile.
  assert (Hdirp : is_dir f p = is_nil p || match lookup f p with Some NDir => true | _ => false end)
    by reflexivity.
  destruct (if is_nil p then Some NDir else lookup f p) as [[content|]|] eqn:E.
  - (* a file is there: refuse *)
    cbn [created_of]. apply mon_init_refused.
    destruct (is_nil p) eqn:En; [discriminate|].
    rewrite Hd, Hdirp, E. cbn [orb]. unfold dest_free. now rewrite E.
  - (* a directory *)
    assert (Hdir : is_dir f p = true).
    { rewrite Hdirp. destruct (is_nil p); [reflexivity|]. now rewrite E. }
    rewrite Hdir in Hd.
    destruct (lookup f (p ++ [default_name])) as [n|] eqn:El.
    + cbn [created_of]. apply mon_init_refused. rewrite Hd. unfold dest_free. now rewrite El.
    + cbn [created_of]. rewrite <- Hd. apply mon_init_created. rewrite Hd. unfold dest_free.
      rewrite El. unfold parent. now rewrite removelast_snoc.
  - (* nothing there *)
    destruct (is_nil p) eqn:En; [discriminate|].
    assert (Hdir : is_dir f p = false) by (rewrite Hdirp, E; reflexivity).
    rewrite Hdir in Hd.
    destruct (is_dir f (parent p)) eqn:Epar.
    + cbn [created_of]. rewrite <- Hd. apply mon_init_created. rewrite Hd. unfold dest_free. now rewrite E.
    + cbn [created_of]. apply mon_init_refused. rewrite Hd. unfold dest_free. now rewrite E.
Qed.

(* the repaired --init: path from the positional arguments, "." not an extension *)
Definition icfg_ok (c : icfg) : Prop := i_result c = 0%nat /\ i_dot_excluded c = true.

Theorem init_cmd_mon c default wd f pos after :
  icfg_ok c ->
  let '(f', r) := init_cmd c default wd f pos after in
  mon_init default wd f pos (created_of r) f' = true.
Proof.
  intros [Hr Hdot]. unfold init_cmd, init_path. rewrite Hr, Hdot. cbn [Nat.eqb].
  destruct pos as [|name pos'].
  - apply init_taskfile_mon. reflexivity.
  - destruct (is_ext_only true name) eqn:E; apply init_taskfile_mon;
      unfold init_dest, spec_ext_only; rewrite E; reflexivity.
Qed.

(* it does not depend on what follows "--" *)
Theorem init_cmd_ignores_after c default wd f pos after after' :
  i_result c = 0%nat ->
  init_cmd c default wd f pos after = init_cmd c default wd f pos after'.
Proof. intro H. unfold init_cmd, init_path. rewrite H. reflexivity. Qed.

(* whatever the variant, nothing that exists is overwritten or removed *)
Theorem init_never_overwrites c default wd f pos after q n :
  lookup f q = Some n -> lookup (fst (init_cmd c default wd f pos after)) q = Some n.
Proof.
  intro Hq. unfold init_cmd. destruct (init_path c wd pos after) as [p|]; [|exact Hq].
  unfold init_taskfile.
  assert (Hadd : forall d, lookup f d = None -> lookup ((d, NFile default) :: f) q = Some n).
  { intros d Hd. cbn [lookup]. destruct (peqb d q) eqn:E; [|exact Hq].
    apply peqb_eq in E. subst. congruence. }
  destruct (if is_nil p then Some NDir else lookup f p) as [[content|]|] eqn:E.
  - exact Hq.
  - destruct (lookup f (p ++ [default_name])) eqn:El; [exact Hq|]. cbn [fst]. now apply Hadd.
  - destruct (is_dir f (parent p)); [|exact Hq]. cbn [fst]. apply Hadd.
    destruct (is_nil p); [discriminate|exact E].
Qed.

(* the unrepaired variants *)
Definition ex_fs : fs := [([[115; 117; 98]], NDir)].           (* a directory "sub" *)
Definition ex_name : bytes := [120; 46; 121; 109; 108].          (* x.yml *)

Theorem init_after_dash_refuted :
  exists default wd f pos after,
    let '(f', r) := init_cmd (mkicfg 1 true) default wd f pos after in
    mon_init default wd f pos (created_of r) f' = false.
Proof. exists [100], [], ex_fs, [ex_name], []. vm_compute. reflexivity. Qed.

Theorem init_dot_refuted :
  exists default wd f pos after,
    let '(f', r) := init_cmd (mkicfg 0 false) default wd f pos after in
    mon_init default wd f pos (created_of r) f' = false.
Proof. exists [100], [], ex_fs, [[dot]], []. vm_compute. reflexivity. Qed.
