(* Model G "Quote": the statements for the tree under test.  The variant of the
   model that describes the current sources is computed from the extracted
   facts (Run/QuoteCases.v); the full statements hold for it exactly when
   those facts describe the repaired shapes. *)
From Coq Require Import List NArith Arith Bool.
Import ListNotations.
From TV Require Import Quote.Model Quote.ProofsCodec Quote.ProofsMisc Extracted.Facts Run.QuoteCases.
Local Open Scope N_scope.

Lemma tcfg_inert_iff t : tcfg_inert t = true -> inert t.
Proof.
  unfold tcfg_inert, inert. intro H. apply andb_true_iff in H as [H1 H2].
  split; now apply negb_true_iff.
Qed.

Lemma cli_sound_gen g k t args :
  match k with Joined => tcfg_inert t | _ => false end = true -> Forall wf_ustr args ->
  mon_argv (map sbytes args) (deliver_cli g (mkvariant k t) args) = true.
Proof.
  intros Hok Hwf. destruct k; try discriminate Hok.
  apply mon_cli_joined; [apply tcfg_inert_iff; exact Hok|assumption].
Qed.

Theorem current_cli_sound g args :
  current_cli_ok = true -> Forall wf_ustr args ->
  mon_argv (map sbytes args) (deliver_cli g current_variant args) = true.
Proof. exact (cli_sound_gen g current_kind current_cli_t args). Qed.

Lemma sq_sound_gen g t x :
  tcfg_inert t = true -> wf_ustr x -> mon_argv [sbytes x] (deliver_sq g t x) = true.
Proof. intros Hok Hwf. apply mon_sq_inert; [apply tcfg_inert_iff; exact Hok|assumption]. Qed.

Theorem current_sq_sound g x :
  current_var_ok = true -> wf_ustr x ->
  mon_argv [sbytes x] (deliver_sq g current_var_t x) = true.
Proof. exact (sq_sound_gen g current_var_t x). Qed.

Lemma init_sound_gen c default wd f pos after :
  Nat.eqb (i_result c) 0 && i_dot_excluded c = true ->
  let '(f', r) := init_cmd c default wd f pos after in
  mon_init default wd f pos (created_of r) f' = true.
Proof.
  intro Hok. apply andb_true_iff in Hok as [H1 H2].
  apply init_cmd_mon. split; [apply Nat.eqb_eq; exact H1|exact H2].
Qed.

Theorem current_init_sound default wd f pos after :
  current_init_ok = true ->
  let '(f', r) := init_cmd current_icfg default wd f pos after in
  mon_init default wd f pos (created_of r) f' = true.
Proof. exact (init_sound_gen current_icfg default wd f pos after). Qed.
