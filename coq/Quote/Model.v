(* Model G "Quote": how a command-line argument travels CLI -> variable ->
   template -> shell -> argv.

   Go code this stands for
     args/args.go            Get (quotes each argument after "--"), Parse, splitVar
     cmd/task/task.go        CLI_ARGS construction, --init, globals merge
     init.go                 InitTaskfile
     internal/templater      shellQuote (funcs.go), "<no value>" stripping (templater.go)
     mvdan.cc/sh/v3/syntax   Quote(LangBash)                  -- [quote]
     the shell's word parsing of the quoted forms             -- [fields]

   Bytes are [N].  An input string is given as the list of units Go's
   utf8.DecodeRuneInString yields ([Rune r printable] with printable =
   unicode.IsPrint r, or [BadByte b] for a byte that does not start a valid
   encoding); the harness supplies that decoding, Coq re-encodes it ([sbytes])
   and the correspondence checks the re-encoding equals the real bytes.

   Only executable definitions here; proofs are in Proofs*.v. *)
From Coq Require Import List NArith Bool.
Import ListNotations.
Local Open Scope N_scope.

Definition bytes := list N.

(* linear-time reverse (List.rev is quadratic) *)
Definition frev {A} (l : list A) : list A := rev_append l [].

Fixpoint beqb (a b : bytes) : bool :=
  match a, b with
  | [], [] => true
  | x :: a', y :: b' => N.eqb x y && beqb a' b'
  | _, _ => false
  end.

Fixpoint lbeqb (a b : list bytes) : bool :=
  match a, b with
  | [], [] => true
  | x :: a', y :: b' => beqb x y && lbeqb a' b'
  | _, _ => false
  end.

Fixpoint strip_prefix (p s : bytes) : option bytes :=
  match p, s with
  | [], _ => Some s
  | x :: p', y :: s' => if N.eqb x y then strip_prefix p' s' else None
  | _ :: _, [] => None
  end.

Definition has_prefix (p s : bytes) : bool :=
  match strip_prefix p s with Some _ => true | None => false end.

Fixpoint contains (p s : bytes) : bool :=
  has_prefix p s || match s with [] => false | _ :: s' => contains p s' end.

(* ------------------------------------------------------------------ *)
(* UTF-8 encoding (utf8.AppendRune): surrogates and values above
   U+10FFFF are written as U+FFFD. *)

Definition rune_error : N := 65533.          (* U+FFFD *)
Definition max_rune : N := 1114111.          (* U+10FFFF *)

Definition utf8 (r : N) : bytes :=
  if r <? 128 then [r]
  else if r <? 2048 then [192 + r / 64; 128 + r mod 64]
  else if (55296 <=? r) && (r <=? 57343) then [239; 191; 189]
  else if r <? 65536 then [224 + r / 4096; 128 + (r / 64) mod 64; 128 + r mod 64]
  else if r <=? max_rune then
         [240 + r / 262144; 128 + (r / 4096) mod 64; 128 + (r / 64) mod 64; 128 + r mod 64]
  else [239; 191; 189].

(* ------------------------------------------------------------------ *)
(* Input strings as decoded units *)

Inductive unit_ :=
| Rune (r : N) (printable : bool)
| BadByte (b : N).

Definition ustr := list unit_.

Definition ubytes (u : unit_) : bytes :=
  match u with Rune r _ => utf8 r | BadByte b => [b] end.

Definition sbytes (s : ustr) : bytes := flat_map ubytes s.

(* what the Go decoder can produce for a string without NUL *)
Definition wf_unitb (u : unit_) : bool :=
  match u with
  | Rune r _ => (0 <? r) && (r <=? max_rune)
  | BadByte b => (0 <? b) && (b <? 256)
  end.
Definition wf_ustrb (s : ustr) : bool := forallb wf_unitb s.

(* ------------------------------------------------------------------ *)
(* syntax.Quote(s, LangBash) *)

(* ; dquote squote ( ) $ | & > < backquote   space \t \r \n   backslash   #   {   ~   * ? [   = *)
Definition shell_chars : list N :=
  [59; 34; 39; 40; 41; 36; 124; 38; 62; 60; 96; 32; 9; 13; 10; 92; 35; 123; 126; 42; 63; 91; 61].

Definition shell_char (r : N) : bool := existsb (N.eqb r) shell_chars.

Definition u_shellchar (u : unit_) : bool :=
  match u with Rune r _ => shell_char r | BadByte _ => false end.

(* r == utf8.RuneError || !unicode.IsPrint(r) *)
Definition u_nonprint (u : unit_) : bool :=
  match u with Rune r p => (r =? rune_error) || negb p | BadByte _ => true end.

Definition u_isnul (u : unit_) : bool :=
  match u with Rune r _ => r =? 0 | BadByte _ => false end.

(* syntax.IsKeyword *)
Definition keywords : list bytes :=
  [ [33];                              (* !  *)
    [91; 91];                          (* [[ *)
    [93; 93];                          (* ]] *)
    [99; 97; 115; 101];                (* case *)
    [99; 111; 112; 114; 111; 99];      (* coproc *)
    [100; 111];                        (* do *)
    [100; 111; 110; 101];              (* done *)
    [101; 108; 115; 101];              (* else *)
    [101; 115; 97; 99];                (* esac *)
    [102; 105];                        (* fi *)
    [102; 111; 114];                   (* for *)
    [102; 117; 110; 99; 116; 105; 111; 110]; (* function *)
    [105; 102];                        (* if *)
    [105; 110];                        (* in *)
    [115; 101; 108; 101; 99; 116];     (* select *)
    [116; 104; 101; 110];              (* then *)
    [116; 105; 109; 101];              (* time *)
    [117; 110; 116; 105; 108];         (* until *)
    [119; 104; 105; 108; 101];         (* while *)
    [123];                             (* { *)
    [125] ].                           (* } *)

Definition is_keyword (s : bytes) : bool := existsb (beqb s) keywords.

Definition hexdigit (d : N) : N := if d <? 10 then 48 + d else 87 + d.   (* lower case *)

Definition hex2 (v : N) : bytes := [hexdigit ((v / 16) mod 16); hexdigit (v mod 16)].
Definition hex4 (v : N) : bytes := hex2 ((v / 256) mod 256) ++ hex2 (v mod 256).
Definition hex8 (v : N) : bytes := hex4 ((v / 65536) mod 65536) ++ hex4 (v mod 65536).

Definition bs : N := 92.   (* backslash *)
Definition sq : N := 39.   (* ' *)
Definition dq : N := 34.   (* double quote *)
Definition dollar : N := 36.
Definition bquote : N := 96.
Definition sp : N := 32.

(* one rune inside $'...' *)
Definition ansi_unit (u : unit_) : bytes :=
  match u with
  | Rune r p =>
      if (r =? sq) || (r =? bs) then [bs; r]
      else if p && negb (r =? rune_error) then utf8 r
      else if r =? 7 then [bs; 97]          (* \a *)
      else if r =? 8 then [bs; 98]          (* \b *)
      else if r =? 12 then [bs; 102]        (* \f *)
      else if r =? 10 then [bs; 110]        (* \n *)
      else if r =? 13 then [bs; 114]        (* \r *)
      else if r =? 9 then [bs; 116]         (* \t *)
      else if r =? 11 then [bs; 118]        (* \v *)
      else if r <? 128 then bs :: 120 :: hex2 r          (* \xHH *)
      else if r <? 65536 then bs :: 117 :: hex4 r        (* \uHHHH *)
      else bs :: 85 :: hex8 r                            (* \UHHHHHHHH *)
  | BadByte b => bs :: 120 :: hex2 b
  end.

(* one rune inside double quotes (for _, r := range s: an invalid byte would come out as U+FFFD) *)
Definition dq_unit (u : unit_) : bytes :=
  match u with
  | Rune r _ =>
      if (r =? dq) || (r =? bs) || (r =? bquote) || (r =? dollar) then bs :: utf8 r else utf8 r
  | BadByte _ => [239; 191; 189]
  end.

Definition is_nil {A} (l : list A) : bool := match l with [] => true | _ => false end.

Definition quote_raw (s : ustr) : bytes :=
  if is_nil s then [sq; sq]
  else
    let raw := sbytes s in
    if negb (existsb u_shellchar s) && negb (existsb u_nonprint s) && negb (is_keyword raw) then raw
    else if existsb u_nonprint s then [dollar; sq] ++ flat_map ansi_unit s ++ [sq]
    else if negb (existsb (N.eqb sq) raw) then sq :: raw ++ [sq]
    else dq :: flat_map dq_unit s ++ [dq].

(* None = *QuoteError (NUL) *)
Definition quote (s : ustr) : option bytes :=
  if existsb u_isnul s then None else Some (quote_raw s).

Fixpoint join (sep : bytes) (l : list bytes) : bytes :=
  match l with
  | [] => []
  | [x] => x
  | x :: r => x ++ sep ++ join sep r
  end.

(* ------------------------------------------------------------------ *)
(* The shell's reading of a command's argument text: a one-byte-at-a-time
   machine for the word forms Quote emits (and their free concatenation):
   bare characters, '...', double-quoted text with backslash escapes, $'...' with the
   ANSI-C escapes.  Anything whose meaning is not determined by the text
   alone (expansions, operators, comments, glob characters when [g] is
   false) is rejected ([MFail] -> None); so is a line continuation (backslash
   newline), which Quote never emits and on which mvdan/sh and bash differ
   inside double quotes after an escaped backslash.  With [g = true] the glob
   characters * ? [ are literal, which is what the shell does when no
   file matches (the harness runs in a directory where none does). *)

Inductive hexkind := HX | HU.

Inductive mode :=
| MBlank | MBare | MBareEsc | MDollar
| MSq
| MDq | MDqEsc
| MAq | MAqEsc
| MAqHex (k : hexkind) (nleft : nat) (acc : N)
| MFail.

Record st := mkst { st_mode : mode; st_cur : bytes (* reversed *); st_words : list bytes (* reversed *) }.

Definition is_blank (b : N) : bool := (b =? 32) || (b =? 9).

(* \n \r ; & | < > ( ) ` # { ~  always; * ? [ unless g *)
Definition bare_special (g : bool) (b : N) : bool :=
  existsb (N.eqb b) [10; 13; 59; 38; 124; 60; 62; 40; 41; 96; 35; 123; 126]
  || (negb g && existsb (N.eqb b) [42; 63; 91]).

Definition hexval (c : N) : option N :=
  if (48 <=? c) && (c <=? 57) then Some (c - 48)
  else if (97 <=? c) && (c <=? 102) then Some (c - 87)
  else if (65 <=? c) && (c <=? 70) then Some (c - 55)
  else None.

Definition push (s : st) (m : mode) (b : N) : st := mkst m (b :: st_cur s) (st_words s).
Definition pushl (s : st) (m : mode) (l : bytes) : st := mkst m (rev_append l (st_cur s)) (st_words s).
Definition goto (s : st) (m : mode) : st := mkst m (st_cur s) (st_words s).

Definition step_bare (g : bool) (s : st) (b : N) : st :=
  if b =? sq then goto s MSq
  else if b =? dq then goto s MDq
  else if b =? dollar then goto s MDollar
  else if b =? bs then goto s MBareEsc
  else if bare_special g b then goto s MFail
  else push s MBare b.

Definition ansi_simple (b : N) : option N :=
  if b =? 97 then Some 7 else if b =? 98 then Some 8 else if b =? 102 then Some 12
  else if b =? 110 then Some 10 else if b =? 114 then Some 13 else if b =? 116 then Some 9
  else if b =? 118 then Some 11 else if b =? bs then Some bs else if b =? sq then Some sq
  else if b =? dq then Some dq else None.

Definition hex_done (s : st) (k : hexkind) (v : N) : st :=
  if v =? 0 then goto s MFail
  else match k with
       | HX => push s MAq v
       | HU => if v <=? max_rune then pushl s MAq (utf8 v) else goto s MFail
       end.

Definition step (g : bool) (s : st) (b : N) : st :=
  match st_mode s with
  | MFail => s
  | MBlank => if is_blank b then s else step_bare g s b
  | MBare =>
      if is_blank b then mkst MBlank [] (frev (st_cur s) :: st_words s)
      else step_bare g s b
  | MBareEsc => if b =? 10 then goto s MFail else push s MBare b
  | MDollar => if b =? sq then goto s MAq else goto s MFail
  | MSq => if b =? sq then goto s MBare else push s MSq b
  | MDq =>
      if b =? dq then goto s MBare
      else if b =? bs then goto s MDqEsc
      else if (b =? dollar) || (b =? bquote) then goto s MFail
      else push s MDq b
  | MDqEsc =>
      if (b =? dq) || (b =? bs) || (b =? bquote) || (b =? dollar) then push s MDq b
      else if b =? 10 then goto s MFail
      else push (push s MDq bs) MDq b
  | MAq =>
      if b =? sq then goto s MBare
      else if b =? bs then goto s MAqEsc
      else push s MAq b
  | MAqEsc =>
      match ansi_simple b with
      | Some c => push s MAq c
      | None =>
          if b =? 120 then goto s (MAqHex HX 2 0)
          else if b =? 117 then goto s (MAqHex HU 4 0)
          else if b =? 85 then goto s (MAqHex HU 8 0)
          else goto s MFail
      end
  | MAqHex k nleft acc =>
      match hexval b with
      | None => goto s MFail
      | Some d =>
          let acc' := acc * 16 + d in
          match nleft with
          | O => goto s MFail
          | S O => hex_done s k acc'
          | S l => goto s (MAqHex k l acc')
          end
      end
  end.

Definition run (g : bool) (s : st) (text : bytes) : st := fold_left (step g) text s.

Definition st0 : st := mkst MBlank [] [].

Definition finish (s : st) : option (list bytes) :=
  match st_mode s with
  | MBlank => Some (frev (st_words s))
  | MBare => Some (frev (frev (st_cur s) :: st_words s))
  | _ => None
  end.

Definition fields_g (g : bool) (text : bytes) : option (list bytes) := finish (run g st0 text).
Definition fields : bytes -> option (list bytes) := fields_g false.

(* ------------------------------------------------------------------ *)
(* The template pass (internal/templater.ReplaceWithExtra) as far as it is
   modelled: with [strip] the engine's output loses every "<no value>"
   (strings.ReplaceAll, leftmost non-overlapping); text containing "{{" is
   an action for the engine: outside the model (None). *)

Definition no_value : bytes := [60; 110; 111; 32; 118; 97; 108; 117; 101; 62].   (* <no value> *)
Definition tmpl_open : bytes := [123; 123].                                       (* {{ *)

Fixpoint strip_go (skip : nat) (s : bytes) : bytes :=
  match s with
  | [] => []
  | b :: s' =>
      match skip with
      | S k => strip_go k s'
      | O => if has_prefix no_value s then strip_go 9 s' else b :: strip_go 0 s'
      end
  end.
Definition strip_nv (s : bytes) : bytes := strip_go 0 s.

(* the same on decoded units ("<no value>" is ASCII, so it can only match Rune units) *)
Fixpoint u_has_prefix (p : bytes) (s : ustr) : bool :=
  match p, s with
  | [], _ => true
  | x :: p', Rune r _ :: s' => (x =? r) && u_has_prefix p' s'
  | _, _ => false
  end.
Fixpoint ustrip_go (skip : nat) (s : ustr) : ustr :=
  match s with
  | [] => []
  | u :: s' =>
      match skip with
      | S k => ustrip_go k s'
      | O => if u_has_prefix no_value s then ustrip_go 9 s' else u :: ustrip_go 0 s'
      end
  end.
Definition ustrip_nv (s : ustr) : ustr := ustrip_go 0 s.
Fixpoint u_contains (p : bytes) (s : ustr) : bool :=
  u_has_prefix p s || match s with [] => false | _ :: s' => u_contains p s' end.
Definition u_contains_nv (s : ustr) : bool := u_contains no_value s.

Record tcfg := mktcfg {
  t_templ : bool;    (* values given on the command line are themselves run through the template engine *)
  t_strip : bool     (* rendered text loses "<no value>" *)
}.

Definition maybe_strip (t : tcfg) (s : bytes) : bytes := if t_strip t then strip_nv s else s.
Definition umaybe_strip (t : tcfg) (s : ustr) : ustr := if t_strip t then ustrip_nv s else s.

(* the pass over a stored variable value when variables are resolved *)
Definition tmpl_pass (t : tcfg) (s : bytes) : option bytes :=
  if t_templ t then (if contains tmpl_open s then None else Some (maybe_strip t s)) else Some s.
Definition utmpl_pass (t : tcfg) (s : ustr) : option ustr :=
  if t_templ t then (if contains tmpl_open (sbytes s) then None else Some (umaybe_strip t s)) else Some s.

Fixpoint all_some {A} (l : list (option A)) : option (list A) :=
  match l with
  | [] => Some []
  | Some x :: r => match all_some r with Some r' => Some (x :: r') | None => None end
  | None :: _ => None
  end.

(* ------------------------------------------------------------------ *)
(* CLI_ARGS: args.Get quotes each argument after "--"; cmd/task stores the
   result in the variable CLI_ARGS, either joined with blanks (a string) or
   as the []string itself, which text/template prints as [a b c]. *)

Inductive cli_kind := Joined | Slice | KindUnknown.

Record variant := mkvariant { v_kind : cli_kind; v_t : tcfg }.

Inductive outcome :=
| Argv (l : list bytes)      (* the command was started with exactly these arguments *)
| Rejected                   (* the shell does not read the text as plain words *)
| Unmodelled.                (* the value went through the template engine as a template *)

Definition lbr : N := 91.  Definition rbr : N := 93.

Definition of_fields (o : option (list bytes)) : outcome :=
  match o with Some l => Argv l | None => Rejected end.

(* argument text of the command [helper {{.CLI_ARGS}}] after rendering *)
Definition cli_text (v : variant) (args : list ustr) : option bytes :=
  let qs := map quote_raw args in
  match v_kind v with
  | Joined =>
      match tmpl_pass (v_t v) (join [sp] qs) with
      | Some s => Some (maybe_strip (v_t v) s)
      | None => None
      end
  | Slice =>
      match all_some (map (tmpl_pass (v_t v)) qs) with
      | Some qs' => Some (maybe_strip (v_t v) ([lbr] ++ join [sp] qs' ++ [rbr]))
      | None => None
      end
  | KindUnknown => None
  end.

Definition deliver_cli (g : bool) (v : variant) (args : list ustr) : outcome :=
  match cli_text v args with
  | Some t => of_fields (fields_g g t)
  | None => Unmodelled
  end.

(* argument text of [helper {{shellQuote .X}}] with X given as X=value *)
Definition sq_text (t : tcfg) (x : ustr) : option bytes :=
  match utmpl_pass t x with
  | Some x' => Some (maybe_strip t (quote_raw x'))
  | None => None
  end.

Definition deliver_sq (g : bool) (t : tcfg) (x : ustr) : outcome :=
  match sq_text t x with
  | Some s => of_fields (fields_g g s)
  | None => Unmodelled
  end.

(* the C19 monitor: what the command received is what was passed *)
Definition mon_argv (passed : list bytes) (o : outcome) : bool :=
  match o with Argv l => lbeqb l passed | _ => false end.

(* the C19_shellquote_one monitor: read back by the shell (strictly: nothing
   left to expansion) the quoted text is the one input; Quote may only refuse NUL *)
Definition olbeqb (a b : option (list bytes)) : bool :=
  match a, b with Some x, Some y => lbeqb x y | None, None => true | _, _ => false end.
Definition mon_quote_one (s : bytes) (quoted : option bytes) : bool :=
  match quoted with
  | Some q => olbeqb (fields q) (Some [s])
  | None => existsb (N.eqb 0) s
  end.

(* the C19_template_inert monitor: text without template actions is rendered as itself *)
Definition mon_inert (i o : bytes) : bool := beqb i o.

Definition repaired_t : tcfg := mktcfg false false.
Definition repaired : variant := mkvariant Joined repaired_t.

(* ------------------------------------------------------------------ *)
(* NAME=value: strings.SplitN(s, "=", n) then pair[0], pair[1] *)

Fixpoint cut (sep : N) (s : bytes) : option (bytes * bytes) :=
  match s with
  | [] => None
  | b :: r =>
      if b =? sep then Some ([], r)
      else match cut sep r with Some (a, c) => Some (b :: a, c) | None => None end
  end.

Fixpoint split_n (sep : N) (n : nat) (s : bytes) : list bytes :=
  match n with
  | O => []
  | S O => [s]
  | S n' => match cut sep s with Some (a, r) => a :: split_n sep n' r | None => [s] end
  end.

Definition eq_sign : N := 61.

Definition split_var (limit : nat) (s : bytes) : option (bytes * bytes) :=
  match split_n eq_sign limit s with
  | a :: b :: _ => Some (a, b)
  | _ => None      (* index out of range *)
  end.

(* the C19_splitvar monitor: the stored (name, value) is the argument cut at its first '=' *)
Definition mon_split (arg : bytes) (nv : option (bytes * bytes)) : bool :=
  match nv with
  | Some (n, v) => beqb arg (n ++ eq_sign :: v) && negb (existsb (N.eqb eq_sign) n)
  | None => negb (existsb (N.eqb eq_sign) arg)
  end.

(* args.Parse: arguments without '=' are task calls, the others set globals
   (ast.Vars.Set: an existing key keeps its position and gets the new value) *)
Fixpoint set_var (k v : bytes) (m : list (bytes * bytes)) : list (bytes * bytes) :=
  match m with
  | [] => [(k, v)]
  | (k', v') :: r => if beqb k k' then (k, v) :: r else (k', v') :: set_var k v r
  end.

Fixpoint parse_args (limit : nat) (args : list bytes) (calls : list bytes) (globals : list (bytes * bytes))
  : option (list bytes * list (bytes * bytes)) :=
  match args with
  | [] => Some (rev calls, globals)
  | a :: r =>
      if existsb (N.eqb eq_sign) a then
        match split_var limit a with
        | Some (k, v) => parse_args limit r calls (set_var k v globals)
        | None => None
        end
      else parse_args limit r (a :: calls) globals
  end.

(* ------------------------------------------------------------------ *)
(* --init [path] *)

Definition path := list bytes.        (* cleaned components below the root *)

Definition peqb (a b : path) : bool := lbeqb a b.

Inductive node := NFile (content : bytes) | NDir.

Definition fs := list (path * node).

Fixpoint lookup (f : fs) (p : path) : option node :=
  match f with
  | [] => None
  | (q, n) :: r => if peqb q p then Some n else lookup r p
  end.

Definition slash : N := 47.
Definition dot : N := 46.

(* split at '/' *)
Fixpoint split_slash (acc : bytes) (s : bytes) : list bytes :=
  match s with
  | [] => [rev acc]
  | b :: r => if b =? slash then rev acc :: split_slash [] r else split_slash (b :: acc) r
  end.

Definition is_dot (c : bytes) : bool := beqb c [dot].
Definition is_dotdot (c : bytes) : bool := beqb c [dot; dot].

(* filepath.Clean on components, below an absolute root *)
Definition clean_step (acc : path) (c : bytes) : path :=
  if is_nil c || is_dot c then acc
  else if is_dotdot c then removelast acc
  else acc ++ [c].
Definition clean (cs : list bytes) : path := fold_left clean_step cs [].

Definition is_abs (s : bytes) : bool := match s with b :: _ => b =? slash | [] => false end.

(* filepathext.SmartJoin(a, b) with a absolute and clean *)
Definition smart_join (a : path) (b : bytes) : path :=
  if is_abs b then clean (split_slash [] b) else clean (a ++ split_slash [] b).

(* filepath.Ext of the last element: from its last '.' *)
Fixpoint ext_go (s : bytes) : option bytes :=
  match s with
  | [] => None
  | b :: r =>
      match ext_go r with
      | Some e => Some e
      | None => if b =? dot then Some s else None
      end
  end.
Definition ext (elem : bytes) : bytes := match ext_go elem with Some e => e | None => [] end.

(* filepath.Base: last non-empty element; "." for the empty string; "/" for all slashes *)
Definition base (s : bytes) : bytes :=
  match s with
  | [] => [dot]
  | _ => match rev (filter (fun c => negb (is_nil c)) (split_slash [] s)) with
         | b :: _ => b
         | [] => [slash]
         end
  end.

(* element after the last '/' (what filepath.Ext looks at) *)
Definition last_elem (s : bytes) : bytes := last (split_slash [] s) [].

(* filepathext.IsExtOnly: Base(path) == Ext(path); [dot_excluded] = the
   repaired test that does not take "." for an extension *)
Definition is_ext_only (dot_excluded : bool) (s : bytes) : bool :=
  beqb (base s) (ext (last_elem s)) && negb (dot_excluded && is_dot (base s)).

Definition taskfile_stem : bytes := [84; 97; 115; 107; 102; 105; 108; 101].           (* Taskfile *)
Definition default_name : bytes := taskfile_stem ++ [dot; 121; 109; 108].             (* Taskfile.yml *)

Record icfg := mkicfg {
  i_result : nat;        (* which result of args.Get --init reads its path from: 0 = positional, 1 = after "--" *)
  i_dot_excluded : bool
}.

(* filepath.Join + Clean of the components of an argument, relative ones below wd *)
Definition resolve (wd : path) (abs : bool) (cs : list bytes) : path :=
  if abs then clean cs else clean (wd ++ cs).

(* where a path argument points, and where it points when it is "extension only":
   SmartJoin(wd, SmartJoin(Dir(name), "Taskfile"+Ext(name))) *)
Definition arg_path (wd : path) (name : bytes) : path :=
  resolve wd (is_abs name) (split_slash [] name).
Definition arg_ext_path (wd : path) (name : bytes) : path :=
  resolve wd (is_abs name) (removelast (split_slash [] name)) ++ [taskfile_stem ++ ext (last_elem name)].

(* the path cmd/task hands to InitTaskfile *)
Definition init_path (c : icfg) (wd : path) (positional after_dash : list bytes) : option path :=
  match i_result c with
  | 0%nat | 1%nat =>
      let args := if Nat.eqb (i_result c) 0 then positional else after_dash in
      match args with
      | [] => Some wd
      | name :: _ =>
          if is_ext_only (i_dot_excluded c) name then Some (arg_ext_path wd name)
          else Some (arg_path wd name)
      end
  | _ => None
  end.

Inductive init_result := Created (p : path) | AlreadyExists | IOError | InitUnknown.

Definition parent (p : path) : path := removelast p.

Definition is_dir (f : fs) (p : path) : bool :=
  is_nil p || match lookup f p with Some NDir => true | _ => false end.

(* InitTaskfile *)
Definition init_taskfile (default : bytes) (f : fs) (p : path) : fs * init_result :=
  match (if is_nil p then Some NDir else lookup f p) with
  | Some (NFile _) => (f, AlreadyExists)
  | Some NDir =>
      let p' := p ++ [default_name] in
      match lookup f p' with
      | Some _ => (f, AlreadyExists)
      | None => ((p', NFile default) :: f, Created p')
      end
  | None =>
      if is_dir f (parent p) then ((p, NFile default) :: f, Created p) else (f, IOError)
  end.

Definition init_cmd (c : icfg) (default : bytes) (wd : path) (f : fs) (positional after_dash : list bytes)
  : fs * init_result :=
  match init_path c wd positional after_dash with
  | Some p => init_taskfile default f p
  | None => (f, InitUnknown)
  end.

(* what the property asks of the destination, from the positional argument alone *)
Definition spec_ext_only (s : bytes) : bool := is_ext_only true s.

Definition init_dest (wd : path) (f : fs) (positional : list bytes) : path :=
  let p := match positional with
           | [] => wd
           | name :: _ => if spec_ext_only name then arg_ext_path wd name else arg_path wd name
           end in
  if is_dir f p then p ++ [default_name] else p.

(* monitor for one --init run.  The destination is free when nothing is there
   and its directory exists; then the run must have created exactly that file
   with the default content.  Otherwise it must have refused.  Nothing else
   may differ between the state before and the state after. *)
Fixpoint same_on (f f' : fs) (ps : list path) : bool :=
  match ps with
  | [] => true
  | p :: r =>
      match lookup f p, lookup f' p with
      | Some (NFile a), Some (NFile b) => beqb a b
      | Some NDir, Some NDir => true
      | None, None => true
      | _, _ => false
      end && same_on f f' r
  end.

Definition dest_free (f : fs) (dest : path) : bool :=
  match lookup f dest with None => is_dir f (parent dest) | Some _ => false end.

Definition mon_init (default : bytes) (wd : path) (f : fs) (positional : list bytes)
           (created : option path) (f' : fs) : bool :=
  let dest := init_dest wd f positional in
  let others := filter (fun p => negb (peqb dest p)) (map fst f ++ map fst f') in
  same_on f f' others &&
  if dest_free f dest then
    match created, lookup f' dest with
    | Some p, Some (NFile c) => peqb p dest && beqb c default
    | _, _ => false
    end
  else
    match created with
    | Some _ => false
    | None => same_on f f' [dest]
    end.
