(* Model G "Quote": the codec round trip.  Whatever syntax.Quote (Model.quote_raw)
   emits for a string, the shell's word reader (Model.fields_g) turns back into
   exactly that string, one word per argument, for every argument vector. *)
From Coq Require Import List NArith ZArith Bool Lia.
Import ListNotations.
From TV Require Import Quote.Model.
Local Open Scope N_scope.

(* let lia see through division and remainder by constants *)
Ltac Zify.zify_post_hook ::= Z.div_mod_to_equations.

(* ------------------------------------------------------------------ *)
(* generalities *)

Lemma frev_rev {A} (l : list A) : frev l = rev l.
Proof. unfold frev. now rewrite rev_append_rev, app_nil_r. Qed.

Lemma beqb_refl (a : bytes) : beqb a a = true.
Proof. induction a as [|x a IH]; cbn [beqb]; [reflexivity|]. now rewrite N.eqb_refl, IH. Qed.

Lemma lbeqb_refl (l : list bytes) : lbeqb l l = true.
Proof. induction l as [|x l IH]; cbn [lbeqb]; [reflexivity|]. now rewrite beqb_refl, IH. Qed.

Lemma beqb_eq (a b : bytes) : beqb a b = true -> a = b.
Proof.
  revert b; induction a as [|x a IH]; intros [|y b] H; cbn [beqb] in H; try discriminate; [reflexivity|].
  apply andb_true_iff in H as [Hx Hr]. apply N.eqb_eq in Hx. subst. f_equal. now apply IH.
Qed.

Lemma lbeqb_eq (a b : list bytes) : lbeqb a b = true -> a = b.
Proof.
  revert b; induction a as [|x a IH]; intros [|y b] H; cbn [lbeqb] in H; try discriminate; [reflexivity|].
  apply andb_true_iff in H as [Hx Hr]. apply beqb_eq in Hx. subst. f_equal. now apply IH.
Qed.

Lemma existsb_false_Forall {A} (f : A -> bool) (l : list A) :
  existsb f l = false -> Forall (fun x => f x = false) l.
Proof.
  induction l as [|x l IH]; cbn [existsb]; intro H; constructor.
  - now apply orb_false_elim in H.
  - apply IH. now apply orb_false_elim in H.
Qed.

Lemma run_app g s a b : run g s (a ++ b) = run g (run g s a) b.
Proof. unfold run. apply fold_left_app. Qed.

Lemma run_cons g s b t : run g s (b :: t) = run g (step g s b) t.
Proof. reflexivity. Qed.

Lemma run_nil g s : run g s [] = s.
Proof. reflexivity. Qed.

(* a stretch of bytes that the machine, in mode [M], simply appends to the current word *)
Lemma run_plain g (M : mode) (P : N -> Prop) :
  (forall cur ws b, P b -> step g (mkst M cur ws) b = mkst M (b :: cur) ws) ->
  forall l cur ws rest, Forall P l ->
    run g (mkst M cur ws) (l ++ rest) = run g (mkst M (rev l ++ cur) ws) rest.
Proof.
  intros Hstep l. induction l as [|b l IH]; intros cur ws rest HP.
  - reflexivity.
  - inversion HP as [|? ? Hb Hl]; subst.
    cbn [app]. rewrite run_cons, (Hstep _ _ _ Hb), (IH _ _ _ Hl).
    cbn [rev]. now rewrite <- app_assoc.
Qed.

(* ------------------------------------------------------------------ *)
(* which bytes are plain in which mode *)

Definition plain_sq (b : N) : Prop := (b =? 39) = false.
Definition plain_aq (b : N) : Prop := (b =? 39) = false /\ (b =? 92) = false.
Definition plain_dq (b : N) : Prop :=
  (b =? 34) = false /\ (b =? 92) = false /\ (b =? 36) = false /\ (b =? 96) = false.
Definition plain_bare (g : bool) (b : N) : Prop :=
  is_blank b = false /\ (b =? 39) = false /\ (b =? 34) = false /\ (b =? 36) = false /\
  (b =? 92) = false /\ bare_special g b = false.

Lemma step_sq_plain g cur ws b : plain_sq b -> step g (mkst MSq cur ws) b = mkst MSq (b :: cur) ws.
Proof. unfold plain_sq, step, sq; cbn [st_mode]. intros ->. reflexivity. Qed.

Lemma step_aq_plain g cur ws b : plain_aq b -> step g (mkst MAq cur ws) b = mkst MAq (b :: cur) ws.
Proof. unfold plain_aq, step, sq, bs; cbn [st_mode]. intros [-> ->]. reflexivity. Qed.

Lemma step_dq_plain g cur ws b : plain_dq b -> step g (mkst MDq cur ws) b = mkst MDq (b :: cur) ws.
Proof.
  unfold plain_dq, step, dq, bs, dollar, bquote; cbn [st_mode]. intros (-> & -> & -> & ->). reflexivity.
Qed.

Lemma step_bare_plain g cur ws b : plain_bare g b -> step g (mkst MBare cur ws) b = mkst MBare (b :: cur) ws.
Proof.
  unfold plain_bare, step, step_bare, sq, dq, dollar, bs; cbn [st_mode].
  intros (-> & -> & -> & -> & -> & ->). reflexivity.
Qed.

Lemma step_blank_plain g ws b : plain_bare g b -> step g (mkst MBlank [] ws) b = mkst MBare [b] ws.
Proof.
  unfold plain_bare, step, step_bare, sq, dq, dollar, bs; cbn [st_mode].
  intros (-> & -> & -> & -> & -> & ->). reflexivity.
Qed.

Definition run_sq g := run_plain g MSq plain_sq (step_sq_plain g).
Definition run_aq g := run_plain g MAq plain_aq (step_aq_plain g).
Definition run_dq g := run_plain g MDq plain_dq (step_dq_plain g).
Definition run_bare g := run_plain g MBare (plain_bare g) (step_bare_plain g).

Ltac neq_small := match goal with |- (?b =? ?c) = false => apply N.eqb_neq; lia end.

Lemma high_plain_sq b : 128 <= b -> plain_sq b.
Proof. intro H; unfold plain_sq; neq_small. Qed.
Lemma high_plain_aq b : 128 <= b -> plain_aq b.
Proof. intro H; unfold plain_aq; split; neq_small. Qed.
Lemma high_plain_dq b : 128 <= b -> plain_dq b.
Proof. intro H; unfold plain_dq; repeat split; neq_small. Qed.
Lemma high_plain_bare g b : 128 <= b -> plain_bare g b.
Proof.
  intro H; unfold plain_bare, is_blank, bare_special; cbn [existsb].
  repeat match goal with
         | |- _ /\ _ => split
         | |- context [b =? ?c] => replace (b =? c) with false by (symmetry; apply N.eqb_neq; lia)
         end; try reflexivity.
  now destruct g.
Qed.

(* ------------------------------------------------------------------ *)
(* UTF-8 *)

Lemma utf8_ascii r : r < 128 -> utf8 r = [r].
Proof. intro H. unfold utf8. now apply N.ltb_lt in H as ->. Qed.

Lemma utf8_high r : 128 <= r -> Forall (fun b => 128 <= b) (utf8 r).
Proof.
  intro H. unfold utf8.
  destruct (r <? 128) eqn:E1; [apply N.ltb_lt in E1; lia|].
  assert (G : forall c x, 128 <= c -> 128 <= c + x)
    by (intros c x Hcx; apply (N.le_trans _ c); [assumption|apply N.le_add_r]).
  assert (G0 : forall c, 128 <= c -> 128 <= c) by auto.
  destruct (r <? 2048); [repeat (apply Forall_cons; [first [apply G; lia|lia]|]); apply Forall_nil|].
  destruct ((55296 <=? r) && (r <=? 57343)); [repeat (apply Forall_cons; [first [apply G; lia|lia]|]); apply Forall_nil|].
  destruct (r <? 65536); [repeat (apply Forall_cons; [first [apply G; lia|lia]|]); apply Forall_nil|].
  destruct (r <=? max_rune); repeat (apply Forall_cons; [first [apply G; lia|lia]|]); apply Forall_nil.
Qed.

Lemma Forall_impl' {A} (P Q : A -> Prop) l : (forall x, P x -> Q x) -> Forall P l -> Forall Q l.
Proof. intros H HF. eapply Forall_impl; eauto. Qed.

(* the bytes of a rune are plain wherever the rune itself is *)
Lemma utf8_plain (P : N -> Prop) r :
  (forall b, 128 <= b -> P b) -> (r < 128 -> P r) -> Forall P (utf8 r).
Proof.
  intros Hhigh Hlow. destruct (N.lt_ge_cases r 128) as [Hr|Hr].
  - rewrite (utf8_ascii _ Hr). constructor; auto.
  - eapply Forall_impl'; [|apply (utf8_high _ Hr)]. auto.
Qed.

(* ------------------------------------------------------------------ *)
(* hexadecimal escapes *)

Lemma hexval_hexdigit d : d < 16 -> hexval (hexdigit d) = Some d.
Proof.
  intro H. unfold hexdigit. destruct (d <? 10) eqn:E.
  - apply N.ltb_lt in E. unfold hexval.
    replace ((48 <=? 48 + d) && (48 + d <=? 57)) with true
      by (symmetry; apply andb_true_intro; split; apply N.leb_le; lia).
    f_equal. lia.
  - apply N.ltb_ge in E. unfold hexval.
    replace ((48 <=? 87 + d) && (87 + d <=? 57)) with false
      by (symmetry; apply andb_false_intro2; apply N.leb_gt; lia).
    replace ((97 <=? 87 + d) && (87 + d <=? 102)) with true
      by (symmetry; apply andb_true_intro; split; apply N.leb_le; lia).
    f_equal. lia.
Qed.

Definition hex_result (k : hexkind) (v : N) (cur : bytes) (ws : list bytes) : st :=
  if v =? 0 then mkst MFail cur ws
  else match k with
       | HX => mkst MAq (v :: cur) ws
       | HU => if v <=? max_rune then mkst MAq (rev_append (utf8 v) cur) ws else mkst MFail cur ws
       end.

Lemma hex_done_eq m cur ws k v : hex_done (mkst m cur ws) k v = hex_result k v cur ws.
Proof. unfold hex_done, hex_result, goto, push, pushl; cbn [st_cur st_words]. destruct (v =? 0), k; try reflexivity. Qed.

Definition hexacc (ds : list N) (acc : N) : N := fold_left (fun a d => a * 16 + d) ds acc.

Lemma run_hexdigits g k : forall ds acc cur ws rest,
  ds <> [] -> Forall (fun d => d < 16) ds ->
  run g (mkst (MAqHex k (length ds) acc) cur ws) (map hexdigit ds ++ rest)
  = run g (hex_result k (hexacc ds acc) cur ws) rest.
Proof.
  induction ds as [|d ds IH]; intros acc cur ws rest Hne HF; [congruence|].
  inversion HF as [|? ? Hd Hds]; subst.
  cbn [map app length]. rewrite run_cons.
  unfold step at 1; cbn [st_mode]. rewrite (hexval_hexdigit _ Hd).
  destruct ds as [|d' ds'].
  - cbn [length]. rewrite hex_done_eq. reflexivity.
  - cbn [length]. unfold goto; cbn [st_cur st_words].
    change (S (length ds')) with (length (d' :: ds')).
    rewrite IH; [reflexivity|discriminate|assumption].
Qed.

Definition digits2 (a : N) : list N := [(a / 16) mod 16; a mod 16].
Definition digits4 (v : N) : list N := digits2 ((v / 256) mod 256) ++ digits2 (v mod 256).
Definition digits8 (v : N) : list N := digits4 ((v / 65536) mod 65536) ++ digits4 (v mod 65536).

Lemma hex2_digits v : hex2 v = map hexdigit (digits2 v).
Proof. reflexivity. Qed.
Lemma hex4_digits v : hex4 v = map hexdigit (digits4 v).
Proof. unfold hex4, digits4. now rewrite map_app, !hex2_digits. Qed.
Lemma hex8_digits v : hex8 v = map hexdigit (digits8 v).
Proof. unfold hex8, digits8. now rewrite map_app, !hex4_digits. Qed.

Lemma digits2_lt a : Forall (fun d => d < 16) (digits2 a).
Proof. unfold digits2. repeat (apply Forall_cons; [apply N.mod_lt; discriminate|]). apply Forall_nil. Qed.
Lemma digits4_lt a : Forall (fun d => d < 16) (digits4 a).
Proof. unfold digits4. apply Forall_app; split; apply digits2_lt. Qed.
Lemma digits8_lt a : Forall (fun d => d < 16) (digits8 a).
Proof. unfold digits8. apply Forall_app; split; apply digits4_lt. Qed.

Lemma hexacc_app a b acc : hexacc (a ++ b) acc = hexacc b (hexacc a acc).
Proof. unfold hexacc. apply fold_left_app. Qed.

Lemma hexacc2 a acc : a < 256 -> hexacc (digits2 a) acc = acc * 256 + a.
Proof.
  intro H. unfold hexacc, digits2; cbn [fold_left].
  assert (Hq : a / 16 < 16) by (apply N.div_lt_upper_bound; lia).
  rewrite (N.mod_small _ _ Hq).
  pose proof (N.div_mod a 16 ltac:(discriminate)) as Hdm.
  lia.
Qed.

Lemma hexacc4 v acc : v < 65536 -> hexacc (digits4 v) acc = acc * 65536 + v.
Proof.
  intro H. unfold digits4. rewrite hexacc_app.
  assert (Hq : v / 256 < 256) by (apply N.div_lt_upper_bound; lia).
  rewrite (N.mod_small _ _ Hq).
  rewrite (hexacc2 _ _ Hq), (hexacc2 (v mod 256)) by (apply N.mod_lt; discriminate).
  pose proof (N.div_mod v 256 ltac:(discriminate)) as Hdm.
  lia.
Qed.

Lemma hexacc8 v acc : v < 4294967296 -> hexacc (digits8 v) acc = acc * 4294967296 + v.
Proof.
  intro H. unfold digits8. rewrite hexacc_app.
  assert (Hq : v / 65536 < 65536) by (apply N.div_lt_upper_bound; lia).
  rewrite (N.mod_small _ _ Hq).
  rewrite (hexacc4 _ _ Hq), (hexacc4 (v mod 65536)) by (apply N.mod_lt; discriminate).
  pose proof (N.div_mod v 65536 ltac:(discriminate)) as Hdm.
  lia.
Qed.

(* ------------------------------------------------------------------ *)
(* $'...' : one unit *)

Definition wf_unit (u : unit_) : Prop := wf_unitb u = true.
Definition wf_ustr (s : ustr) : Prop := Forall wf_unit s.

Lemma wf_ustrb_iff s : wf_ustrb s = true <-> wf_ustr s.
Proof. unfold wf_ustrb, wf_ustr, wf_unit. rewrite forallb_forall, Forall_forall. reflexivity. Qed.

Lemma wf_rune r p : wf_unit (Rune r p) -> 0 < r /\ r <= max_rune.
Proof.
  unfold wf_unit; cbn [wf_unitb]. intro H. apply andb_true_iff in H as [H1 H2].
  apply N.ltb_lt in H1. apply N.leb_le in H2. auto.
Qed.

Lemma wf_bad b : wf_unit (BadByte b) -> 0 < b /\ b < 256.
Proof.
  unfold wf_unit; cbn [wf_unitb]. intro H. apply andb_true_iff in H as [H1 H2].
  apply N.ltb_lt in H1. apply N.ltb_lt in H2. auto.
Qed.

Lemma hex_result_x v cur ws : 0 < v -> hex_result HX v cur ws = mkst MAq (v :: cur) ws.
Proof. intro H. unfold hex_result. replace (v =? 0) with false by (symmetry; apply N.eqb_neq; lia). reflexivity. Qed.

Lemma hex_result_u v cur ws : 0 < v -> v <= max_rune ->
  hex_result HU v cur ws = mkst MAq (rev (utf8 v) ++ cur) ws.
Proof.
  intros H H'. unfold hex_result. replace (v =? 0) with false by (symmetry; apply N.eqb_neq; lia).
  apply N.leb_le in H' as ->. now rewrite rev_append_rev.
Qed.

(* \xHH *)
Lemma run_esc_x g v cur ws rest : 0 < v -> v < 256 ->
  run g (mkst MAq cur ws) ((bs :: 120 :: hex2 v) ++ rest) = run g (mkst MAq (v :: cur) ws) rest.
Proof.
  intros H0 H1. cbn [app]. rewrite !run_cons.
  change (step g (step g (mkst MAq cur ws) bs) 120) with (mkst (MAqHex HX (length (digits2 v)) 0) cur ws).
  rewrite hex2_digits, run_hexdigits; [|discriminate|apply digits2_lt].
  rewrite hexacc2 by assumption. now rewrite N.mul_0_l, N.add_0_l, hex_result_x.
Qed.

(* \uHHHH *)
Lemma run_esc_u4 g v cur ws rest : 0 < v -> v < 65536 ->
  run g (mkst MAq cur ws) ((bs :: 117 :: hex4 v) ++ rest) = run g (mkst MAq (rev (utf8 v) ++ cur) ws) rest.
Proof.
  intros H0 H1. cbn [app]. rewrite !run_cons.
  change (step g (step g (mkst MAq cur ws) bs) 117) with (mkst (MAqHex HU (length (digits4 v)) 0) cur ws).
  rewrite hex4_digits, run_hexdigits; [|discriminate|apply digits4_lt].
  rewrite hexacc4 by assumption. rewrite N.mul_0_l, N.add_0_l, hex_result_u; [reflexivity|assumption|].
  unfold max_rune. lia.
Qed.

(* \UHHHHHHHH *)
Lemma run_esc_u8 g v cur ws rest : 0 < v -> v <= max_rune ->
  run g (mkst MAq cur ws) ((bs :: 85 :: hex8 v) ++ rest) = run g (mkst MAq (rev (utf8 v) ++ cur) ws) rest.
Proof.
  intros H0 H1. cbn [app]. rewrite !run_cons.
  change (step g (step g (mkst MAq cur ws) bs) 85) with (mkst (MAqHex HU (length (digits8 v)) 0) cur ws).
  rewrite hex8_digits, run_hexdigits; [|discriminate|apply digits8_lt].
  rewrite hexacc8 by (unfold max_rune in H1; lia).
  now rewrite N.mul_0_l, N.add_0_l, hex_result_u.
Qed.

(* a two-byte escape \c standing for the byte v *)
Lemma run_esc_simple g c v cur ws rest : ansi_simple c = Some v ->
  run g (mkst MAq cur ws) ([bs; c] ++ rest) = run g (mkst MAq (v :: cur) ws) rest.
Proof.
  intro H. cbn [app]. rewrite !run_cons.
  change (step g (mkst MAq cur ws) bs) with (mkst MAqEsc cur ws).
  unfold step at 1; cbn [st_mode]. rewrite H. reflexivity.
Qed.

Lemma aq_unit g u cur ws rest : wf_unit u ->
  run g (mkst MAq cur ws) (ansi_unit u ++ rest) = run g (mkst MAq (rev (ubytes u) ++ cur) ws) rest.
Proof.
  intro Hwf. destruct u as [r p|b].
  - apply wf_rune in Hwf as [H0 Hmax]. cbn [ansi_unit ubytes].
    destruct ((r =? sq) || (r =? bs)) eqn:Eq.
    { (* \' and \\ *)
      assert (Hr : r = 39 \/ r = 92).
      { apply orb_true_iff in Eq as [E|E]; apply N.eqb_eq in E; unfold sq, bs in E; auto. }
      destruct Hr; subst r; (rewrite run_esc_simple with (v := _) by reflexivity); reflexivity. }
    apply orb_false_elim in Eq as [Esq Ebs]. unfold sq in Esq. unfold bs in Ebs.
    destruct (p && negb (r =? rune_error)).
    { (* the rune itself *)
      apply run_aq. apply utf8_plain; [apply high_plain_aq|]. intros _. split; assumption. }
    destruct (r =? 7) eqn:E7; [apply N.eqb_eq in E7; subst r; now rewrite run_esc_simple with (v := 7)|].
    destruct (r =? 8) eqn:E8; [apply N.eqb_eq in E8; subst r; now rewrite run_esc_simple with (v := 8)|].
    destruct (r =? 12) eqn:E12; [apply N.eqb_eq in E12; subst r; now rewrite run_esc_simple with (v := 12)|].
    destruct (r =? 10) eqn:E10; [apply N.eqb_eq in E10; subst r; now rewrite run_esc_simple with (v := 10)|].
    destruct (r =? 13) eqn:E13; [apply N.eqb_eq in E13; subst r; now rewrite run_esc_simple with (v := 13)|].
    destruct (r =? 9) eqn:E9; [apply N.eqb_eq in E9; subst r; now rewrite run_esc_simple with (v := 9)|].
    destruct (r =? 11) eqn:E11; [apply N.eqb_eq in E11; subst r; now rewrite run_esc_simple with (v := 11)|].
    destruct (r <? 128) eqn:E128.
    { apply N.ltb_lt in E128. rewrite run_esc_x by lia. now rewrite (utf8_ascii _ E128). }
    destruct (r <? 65536) eqn:E64k.
    { apply N.ltb_lt in E64k. now rewrite run_esc_u4. }
    now rewrite run_esc_u8.
  - apply wf_bad in Hwf as [H0 H1]. cbn [ansi_unit ubytes]. now rewrite run_esc_x.
Qed.

Lemma sbytes_cons u s : sbytes (u :: s) = ubytes u ++ sbytes s.
Proof. reflexivity. Qed.

Lemma aq_str g : forall s cur ws rest, wf_ustr s ->
  run g (mkst MAq cur ws) (flat_map ansi_unit s ++ rest) = run g (mkst MAq (rev (sbytes s) ++ cur) ws) rest.
Proof.
  induction s as [|u s IH]; intros cur ws rest Hwf; [reflexivity|].
  inversion Hwf as [|? ? Hu Hs]; subst.
  cbn [flat_map]. rewrite <- app_assoc, (aq_unit _ _ _ _ _ Hu), (IH _ _ _ Hs).
  rewrite sbytes_cons, rev_app_distr, <- app_assoc. reflexivity.
Qed.

(* ------------------------------------------------------------------ *)
(* double quotes : one unit *)

Lemma dq_unit_run g r p cur ws rest :
  run g (mkst MDq cur ws) (dq_unit (Rune r p) ++ rest) = run g (mkst MDq (rev (utf8 r) ++ cur) ws) rest.
Proof.
  cbn [dq_unit].
  destruct ((r =? dq) || (r =? bs) || (r =? bquote) || (r =? dollar)) eqn:E.
  - assert (Hr : r < 128).
    { repeat (apply orb_true_iff in E as [E|E]); apply N.eqb_eq in E; subst r; reflexivity. }
    rewrite (utf8_ascii _ Hr). cbn [app rev]. rewrite !run_cons.
    change (step g (mkst MDq cur ws) bs) with (mkst MDqEsc cur ws).
    unfold step at 1; cbn [st_mode]. rewrite E. reflexivity.
  - apply run_dq. apply utf8_plain; [apply high_plain_dq|]. intros _.
    repeat (apply orb_false_elim in E as [E ?]). unfold dq, bs, bquote, dollar in *.
    unfold plain_dq. auto.
Qed.

Definition all_runes (s : ustr) : Prop := Forall (fun u => match u with Rune _ _ => True | BadByte _ => False end) s.

Lemma dq_str g : forall s cur ws rest, all_runes s ->
  run g (mkst MDq cur ws) (flat_map dq_unit s ++ rest) = run g (mkst MDq (rev (sbytes s) ++ cur) ws) rest.
Proof.
  induction s as [|u s IH]; intros cur ws rest Hr; [reflexivity|].
  inversion Hr as [|? ? Hu Hs]; subst. destruct u as [r p|b]; [|contradiction].
  cbn [flat_map]. rewrite <- app_assoc, dq_unit_run, (IH _ _ _ Hs).
  rewrite sbytes_cons, rev_app_distr, <- app_assoc. reflexivity.
Qed.

Lemma nonprint_false_runes s : existsb u_nonprint s = false -> all_runes s.
Proof.
  intro H. apply existsb_false_Forall in H. eapply Forall_impl'; [|exact H].
  intros [r p|b]; cbn [u_nonprint]; [auto|discriminate].
Qed.

(* ------------------------------------------------------------------ *)
(* bare words *)

Lemma shell_char_false_plain g r : shell_char r = false -> plain_bare g r.
Proof.
  unfold shell_char, shell_chars. cbn [existsb]. intro H.
  repeat (apply orb_false_elim in H as [? H]).
  unfold plain_bare, is_blank, bare_special. cbn [existsb].
  repeat match goal with E : (r =? _) = false |- _ => rewrite E; clear E end.
  repeat split; try reflexivity. now destruct g.
Qed.

Lemma bare_unit_plain g u : u_shellchar u = false -> u_nonprint u = false -> Forall (plain_bare g) (ubytes u).
Proof.
  destruct u as [r p|b]; cbn [u_shellchar u_nonprint ubytes]; [|discriminate].
  intros Hs _. apply utf8_plain; [apply high_plain_bare|]. intros _. now apply shell_char_false_plain.
Qed.

Lemma bare_str_plain g s :
  existsb u_shellchar s = false -> existsb u_nonprint s = false -> Forall (plain_bare g) (sbytes s).
Proof.
  intros Hs Hn. apply existsb_false_Forall in Hs. apply existsb_false_Forall in Hn.
  induction s as [|u s IH]; [constructor|].
  inversion Hs; inversion Hn; subst. rewrite sbytes_cons. apply Forall_app; split.
  - now apply bare_unit_plain.
  - now apply IH.
Qed.

Lemma run_bare_word g l ws : l <> [] -> Forall (plain_bare g) l ->
  run g (mkst MBlank [] ws) l = mkst MBare (rev l) ws.
Proof.
  intros Hne HF. destruct l as [|b l]; [congruence|]. inversion HF as [|? ? Hb Hl]; subst.
  rewrite run_cons, (step_blank_plain _ _ _ Hb).
  rewrite <- (app_nil_r l), (run_bare g l [b] ws [] Hl), run_nil.
  rewrite app_nil_r. reflexivity.
Qed.

Lemma utf8_nonempty r : utf8 r <> [].
Proof.
  unfold utf8. repeat match goal with |- context [if ?c then _ else _] => destruct c end; discriminate.
Qed.

Lemma sbytes_nonempty s : s <> [] -> wf_ustr s -> sbytes s <> [].
Proof.
  destruct s as [|u s]; [congruence|]. intros _ _. rewrite sbytes_cons.
  destruct u as [r p|b]; cbn [ubytes].
  - pose proof (utf8_nonempty r). destruct (utf8 r); [congruence|discriminate].
  - discriminate.
Qed.

(* ------------------------------------------------------------------ *)
(* one quoted word, whatever the quoting mode *)

Theorem quote_word g s ws : wf_ustr s ->
  run g (mkst MBlank [] ws) (quote_raw s) = mkst MBare (rev (sbytes s)) ws.
Proof.
  intro Hwf. unfold quote_raw.
  destruct (is_nil s) eqn:En.
  { destruct s; [reflexivity|discriminate]. }
  assert (Hne : s <> []) by (intro; subst; discriminate).
  destruct (existsb u_shellchar s) eqn:Esh; cbn [negb andb].
  2: destruct (existsb u_nonprint s) eqn:Enp; cbn [negb andb].
  3: destruct (is_keyword (sbytes s)) eqn:Ekw; cbn [negb].
  4: { (* verbatim *)
       apply run_bare_word; [now apply sbytes_nonempty|now apply bare_str_plain]. }
  all: destruct (existsb u_nonprint s) eqn:Enp'.
  all: try discriminate.
  all: try solve [
    (* $'...' *)
    cbn [app]; rewrite !run_cons;
    change (step g (step g (mkst MBlank [] ws) dollar) sq) with (mkst MAq [] ws);
    rewrite (aq_str g s [] ws [sq] Hwf), run_cons, run_nil, app_nil_r; reflexivity ].
  all: destruct (existsb (N.eqb sq) (sbytes s)) eqn:Eq; cbn [negb].
  all: try solve [
    (* "..." *)
    rewrite run_cons;
    change (step g (mkst MBlank [] ws) dq) with (mkst MDq [] ws);
    rewrite (dq_str g s [] ws [dq] (nonprint_false_runes _ Enp')), run_cons, run_nil, app_nil_r; reflexivity ].
  all: (* '...' *)
    rewrite run_cons;
    change (step g (mkst MBlank [] ws) sq) with (mkst MSq [] ws);
    rewrite (run_sq g (sbytes s) [] ws [sq]);
    [ rewrite run_cons, run_nil, app_nil_r; reflexivity
    | apply existsb_false_Forall in Eq; eapply Forall_impl'; [|exact Eq];
      intros b Hb; unfold plain_sq; now rewrite N.eqb_sym ].
Qed.

(* ------------------------------------------------------------------ *)
(* argument vectors *)

Lemma finish_join g : forall args ws, Forall wf_ustr args ->
  finish (run g (mkst MBlank [] ws) (join [sp] (map quote_raw args))) = Some (rev ws ++ map sbytes args).
Proof.
  induction args as [|a args IH]; intros ws Hwf.
  - cbn [map join]. rewrite run_nil. unfold finish; cbn [st_mode st_words].
    now rewrite frev_rev, app_nil_r.
  - inversion Hwf as [|? ? Ha Hr]; subst. destruct args as [|b args'].
    + cbn [map join]. rewrite (quote_word g a ws Ha). unfold finish; cbn [st_mode st_cur st_words].
      rewrite !frev_rev. cbn [rev]. now rewrite rev_involutive.
    + change (join [sp] (map quote_raw (a :: b :: args')))
        with (quote_raw a ++ [sp] ++ join [sp] (map quote_raw (b :: args'))).
      rewrite run_app, (quote_word g a ws Ha). cbn [app]. rewrite run_cons.
      change (step g (mkst MBare (rev (sbytes a)) ws) sp)
        with (mkst MBlank [] (frev (rev (sbytes a)) :: ws)).
      rewrite (IH _ Hr). rewrite frev_rev, rev_involutive. cbn [rev map].
      now rewrite <- app_assoc.
Qed.

(* every argument vector: quoted, joined with blanks and read by the shell, it comes back *)
Theorem fields_join_quote g args : Forall wf_ustr args ->
  fields_g g (join [sp] (map quote_raw args)) = Some (map sbytes args).
Proof. intro H. unfold fields_g, st0. now rewrite finish_join. Qed.

Theorem fields_quote_one g s : wf_ustr s -> fields_g g (quote_raw s) = Some [sbytes s].
Proof. intro H. exact (fields_join_quote g [s] (Forall_cons _ H (Forall_nil _))). Qed.

(* behind a command word: helper q1 q2 ... *)
Theorem fields_command g helper args :
  helper <> [] -> Forall (plain_bare g) helper -> Forall wf_ustr args ->
  fields_g g (helper ++ [sp] ++ join [sp] (map quote_raw args)) = Some (helper :: map sbytes args).
Proof.
  intros Hne Hp Hwf. unfold fields_g, st0.
  rewrite run_app, (run_bare_word g helper [] Hne Hp). cbn [app]. rewrite run_cons.
  change (step g (mkst MBare (rev helper) []) sp) with (mkst MBlank [] [frev (rev helper)]).
  rewrite (finish_join g args _ Hwf). now rewrite frev_rev, rev_involutive.
Qed.

(* wf strings are the ones Quote accepts *)
Lemma wf_no_nul s : wf_ustr s -> existsb u_isnul s = false.
Proof.
  induction 1 as [|u s Hu Hs IH]; [reflexivity|]. cbn [existsb]. rewrite IH, orb_false_r.
  destruct u as [r p|b]; [|reflexivity]. apply wf_rune in Hu as [H0 _]. cbn [u_isnul].
  apply N.eqb_neq. lia.
Qed.

Theorem quote_some s : wf_ustr s -> quote s = Some (quote_raw s).
Proof. intro H. unfold quote. now rewrite (wf_no_nul _ H). Qed.

(* every byte string without NUL has a decoding the theorems apply to (the one Go
   computes is another one; the theorems hold for all of them) *)
Theorem decoding_exists (b : bytes) : Forall (fun x => 0 < x /\ x < 256) b ->
  exists s, wf_ustr s /\ sbytes s = b.
Proof.
  induction 1 as [|x b [Hx0 Hx1] Hb (s & Hs & Hsb)]; [exists []; split; [constructor|reflexivity]|].
  exists (BadByte x :: s). split.
  - constructor; [|assumption]. unfold wf_unit; cbn [wf_unitb].
    apply andb_true_intro; split; apply N.ltb_lt; assumption.
  - rewrite sbytes_cons, Hsb. reflexivity.
Qed.
