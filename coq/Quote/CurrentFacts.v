(* Model G "Quote": helper lemmas for Properties/C19Current.v (statements about the tree as
   it is now).  Nothing here depends on Extracted.Facts: monitor forms of the _partial
   theorems, and the "template syntax is outside the model" witness for the configuration in
   which values are templated AND "<no value>" is stripped. *)
From Coq Require Import List NArith Arith Bool.
Import ListNotations.
From TV Require Import Quote.Model Quote.ProofsCodec Quote.ProofsMisc.
Local Open Scope N_scope.

(* whatever the template configuration: text free of template syntax is delivered verbatim *)
Theorem mon_cli_joined_partial g t args :
  Forall wf_ustr args ->
  contains tmpl_open (join [sp] (map quote_raw args)) = false ->
  contains no_value (join [sp] (map quote_raw args)) = false ->
  mon_argv (map sbytes args) (deliver_cli g (mkvariant Joined t) args) = true.
Proof. intros Hwf H1 H2. rewrite (deliver_cli_joined_partial g t args Hwf H1 H2). apply mon_argv_refl. Qed.

Theorem mon_sq_partial g t x :
  wf_ustr x ->
  contains tmpl_open (sbytes x) = false -> u_contains_nv x = false ->
  contains no_value (quote_raw x) = false ->
  mon_argv [sbytes x] (deliver_sq g t x) = true.
Proof. intros Hwf H1 H2 H3. rewrite (deliver_sq_partial g t x Hwf H1 H2 H3). apply mon_argv_refl. Qed.

(* templated and stripped (what the current tree does): a value with template syntax is
   handed to the template engine, on both paths *)
Theorem deliver_templated_strip_unmodelled :
  (exists args, Forall wf_ustr args /\ deliver_cli true (mkvariant Joined (mktcfg true true)) args = Unmodelled) /\
  (exists x, wf_ustr x /\ deliver_sq true (mktcfg true true) x = Unmodelled).
Proof.
  split.
  - exists [ex_tmpl]. split; [repeat constructor | vm_compute; reflexivity].
  - exists ex_tmpl. split; [repeat constructor | vm_compute; reflexivity].
Qed.
