(* Model J "Race": the executable happens-before checker is complete (so a
   computed "no path" is a proof of "not ordered"), a concrete racy execution,
   a concrete disciplined execution (non-vacuity), and the check of the table
   extracted from the sources. *)
From Coq Require Import List String Bool Arith Lia Relations Operators_Properties.
Import ListNotations.
From TV Require Import Race.Model Race.Proofs Extracted.Facts Run.RaceCases.
Local Open Scope string_scope.

(* ---------- hb_b is complete ---------- *)

Lemma hb_b_complete_1n : forall tr i j, clos_trans_1n nat (edge tr) i j ->
  forall fuel, j - i <= S fuel -> hb_b fuel tr i j = true.
Proof.
  intros tr i j H; induction H as [i j He | i k j He Hkj IH]; intros fuel Hf.
  - destruct fuel; simpl; unfold edge in He; rewrite He; reflexivity.
  - assert (Hik : i < k) by (eapply edge_lt; eauto).
    assert (Hkj' : k < j) by (apply hb_lt with (tr := tr); apply clos_t1n_trans; assumption).
    destruct fuel as [|f]; [lia|]. simpl.
    apply orb_true_iff; right. apply existsb_exists. exists k. split.
    + apply in_seq. lia.
    + unfold edge in He. rewrite He. simpl. apply IH. lia.
Qed.

Lemma hb_b_complete : forall tr i j, hb tr i j -> hb_b (List.length tr) tr i j = true.
Proof.
  intros tr i j H. apply hb_b_complete_1n; [apply clos_trans_t1n; assumption|].
  assert (i < j) by (eapply hb_lt; eauto).
  assert (j < List.length tr).
  { clear H0. induction H as [i j He | i k j _ _ _ IH]; [|assumption].
    unfold edge, edge_b in He. apply andb_true_iff in He; destruct He as [_ He].
    destruct (nth_error tr i); [|discriminate]. destruct (nth_error tr j) eqn:E; [|discriminate].
    apply nth_error_Some. congruence. }
  lia.
Qed.

Lemma not_hb : forall tr i j, hb_b (List.length tr) tr i j = false -> ~ hb tr i j.
Proof. intros tr i j Hb H. apply hb_b_complete in H. congruence. Qed.

Ltac nth_cases H :=
  repeat (match type of H with nth_error _ ?i = _ => destruct i as [|i]; simpl in H; try discriminate end).

(* ---------- a concrete race: an unlocked write of a shared instance from two task goroutines ---------- *)

Definition bad_entry : entry :=
  mkEn "task.resolveMatrixRefs" "row.Value" "taskfile/ast.MatrixRow.Value" Wr [] false true true.
Definition bad_table : table := [bad_entry].
Definition bad_obj : oid := ("taskfile/ast.MatrixRow.Value", 0).
Definition bad_trace : trace :=
  [ mkEv 0 (Fork 1); mkEv 0 (Fork 2);
    mkEv 1 (Acc ("task.resolveMatrixRefs", "row.Value") bad_obj Wr false);
    mkEv 2 (Acc ("task.resolveMatrixRefs", "row.Value") bad_obj Wr false) ].

Lemma bad_table_rejected : lockset_ok bad_table = false.
Proof. vm_compute; reflexivity. Qed.

Lemma bad_trace_valid : valid bad_trace.
Proof. unfold valid; vm_compute; discriminate. Qed.

Lemma bad_trace_annotated : annotated (fun _ => None) (fun _ => None) bad_table bad_trace.
Proof.
  split.
  - intros i t s o k a H.
    nth_cases H; inversion H; subst; exists bad_entry;
      (split; [left; reflexivity|]); repeat (split; try reflexivity; try discriminate); constructor.
  - intros i t ch H. nth_cases H.
Qed.

Lemma bad_trace_races : race bad_trace 2 3.
Proof.
  split; [lia|]. split.
  - eexists; eexists; split; [reflexivity|]. split; [reflexivity|]. vm_compute; reflexivity.
  - apply not_hb. vm_compute; reflexivity.
Qed.

Theorem unlocked_write_refuted :
  exists T owner sig_owner tr, lockset_ok T = false /\ valid tr /\ annotated owner sig_owner T tr /\ ~ race_free tr.
Proof.
  exists bad_table, (fun _ => None), (fun _ => None), bad_trace.
  split; [exact bad_table_rejected|]. split; [exact bad_trace_valid|]. split; [exact bad_trace_annotated|].
  intro H. exact (H 2 3 bad_trace_races).
Qed.

(* ---------- non-vacuity: a disciplined table and an execution that meets every hypothesis ---------- *)

Definition good_table : table :=
  [ mkEn "f" "c.m[k] = v" "C.m" Wr [("C.mu", Excl)] false true true;
    mkEn "g" "c.m[k]" "C.m" Rd [("C.mu", Shared)] false true true;
    mkEn "setup" "c.m = make" "C.m" Wr [] false false true;
    mkEn "start" "x.err = " "X.err" Wr [("X.done", BeforeClose)] false true true;
    mkEn "wait" "x.err" "X.err" Rd [("X.done", AfterWait)] false true true;
    mkEn "compile" "new.Dir = " "T.Dir" Wr [] false true false ].

Definition good_trace : trace :=
  [ mkEv 0 (Acc ("setup", "c.m = make") ("C.m", 0) Wr false);
    mkEv 0 (Fork 1); mkEv 0 (Fork 2);
    mkEv 1 (Acq ("C.mu", 0) Excl);
    mkEv 1 (Acc ("f", "c.m[k] = v") ("C.m", 0) Wr false);
    mkEv 1 (Acc ("compile", "new.Dir = ") ("T.Dir", 1) Wr false);
    mkEv 1 (Rel ("C.mu", 0) Excl);
    mkEv 2 (Acq ("C.mu", 0) Shared);
    mkEv 2 (Acc ("g", "c.m[k]") ("C.m", 0) Rd false);
    mkEv 2 (Rel ("C.mu", 0) Shared);
    mkEv 2 (Acc ("compile", "new.Dir = ") ("T.Dir", 2) Wr false);
    mkEv 1 (Acc ("start", "x.err = ") ("X.err", 7) Wr false);
    mkEv 1 (Close ("X.done", 7));
    mkEv 2 (Wait ("X.done", 7));
    mkEv 2 (Acc ("wait", "x.err") ("X.err", 7) Rd false);
    mkEv 1 (Send ("sem", 0)); mkEv 2 (Recv ("sem", 0));     (* a semaphore slot handed over *)
    mkEv 0 (Join 1); mkEv 0 (Join 2) ].

Definition good_owner (o : oid) : option tid :=
  if String.eqb (fst o) "T.Dir" then Some (snd o) else None.
Definition good_sig_owner (o : oid) : option tid :=
  if String.eqb (fst o) "X.done" then Some 1 else None.

Lemma good_table_ok : lockset_ok good_table = true.
Proof. vm_compute; reflexivity. Qed.

Lemma good_trace_valid : valid good_trace.
Proof. unfold valid; vm_compute; discriminate. Qed.


Lemma good_trace_annotated : annotated good_owner good_sig_owner good_table good_trace.
Proof.
  split.
  - intros i t s o k a H. nth_cases H; inversion H; subst; clear H.
    + exists (nth 2 good_table bad_entry). split; [simpl; tauto|].
      repeat (split; try reflexivity; try discriminate).
      * intros k e Hk; lia.
      * constructor.
    + exists (nth 0 good_table bad_entry). split; [simpl; tauto|].
      repeat (split; try reflexivity; try discriminate).
      constructor; [|constructor]. eexists; split; [vm_compute; reflexivity|]. cbv; auto.
    + exists (nth 5 good_table bad_entry). split; [simpl; tauto|].
      repeat (split; try reflexivity; try discriminate). constructor.
    + exists (nth 1 good_table bad_entry). split; [simpl; tauto|].
      repeat (split; try reflexivity; try discriminate).
      constructor; [|constructor]. eexists; split; [vm_compute; reflexivity|]. cbv; auto.
    + exists (nth 5 good_table bad_entry). split; [simpl; tauto|].
      repeat (split; try reflexivity; try discriminate). constructor.
    + exists (nth 3 good_table bad_entry). split; [simpl; tauto|].
      repeat (split; try reflexivity; try discriminate).
      constructor; [|constructor]. split; [reflexivity|].
      intros k e Hk He Hc. nth_cases He; try lia; inversion He; subst; simpl in Hc; discriminate.
    + exists (nth 4 good_table bad_entry). split; [simpl; tauto|].
      repeat (split; try reflexivity; try discriminate).
      constructor; [|constructor]. exists 13. split; [lia | reflexivity].
  - intros i t ch H. nth_cases H; inversion H; subst; reflexivity.
Qed.

(* ---------- the table extracted from the sources ---------- *)

Lemma extract_ok : race_extract_ok = true.
Proof. reflexivity. Qed.

(* the table extracted from the current tree meets the discipline: no class offends *)
Lemma table_ok : lockset_ok current_table = true.
Proof. vm_compute; reflexivity. Qed.

Lemma table_no_offenders : offenders current_table = [].
Proof. vm_compute; reflexivity. Qed.

(* the pre-fix variant: the entries as extracted before 25abf76 / 3d636e5 offend, class by class *)
Lemma prefix_table_offenders :
  offenders (current_table ++ prefix_offending_table)%list
  = ["internal/output.groupWriter.buff"; "internal/output.prefixWriter.buff"; "taskfile/ast.MatrixRow.Value"].
Proof. vm_compute; reflexivity. Qed.

Lemma In_bad_prefix : In bad_entry prefix_offending_table.
Proof. simpl; tauto. Qed.

Theorem prefix_matrix_refuted :
  In bad_entry prefix_offending_table /\
  exists owner sig_owner tr, lockset_ok [bad_entry] = false /\ valid tr /\ annotated owner sig_owner [bad_entry] tr /\ ~ race_free tr.
Proof.
  split; [exact In_bad_prefix|].
  exists (fun _ => None), (fun _ => None), bad_trace.
  split; [exact bad_table_rejected|]. split; [exact bad_trace_valid|]. split; [exact bad_trace_annotated|].
  intro H. exact (H 2 3 bad_trace_races).
Qed.

Lemma In_dedup : forall x l, In x l -> In x (dedup l).
Proof.
  intros x l; induction l as [|y r IH]; simpl; [tauto|].
  intros [Hy | Hr].
  - subst y. destruct (existsb (String.eqb x) r) eqn:E.
    + apply IH. apply existsb_exists in E. destruct E as [z [Hz Hq]]. apply String.eqb_eq in Hq; subst; assumption.
    + left; reflexivity.
  - destruct (existsb (String.eqb y) r); [auto | right; auto].
Qed.

Lemma offenders_nil_ok : forall T, offenders T = [] -> lockset_ok T = true.
Proof.
  intros T H. unfold lockset_ok. apply forallb_forall. intros c Hc.
  destruct (class_ok T c) eqn:E; [reflexivity|]. exfalso.
  assert (Hin : In c (offenders T)).
  { unfold offenders. apply filter_In. split; [apply In_dedup; assumption | rewrite E; reflexivity]. }
  rewrite H in Hin. inversion Hin.
Qed.

Section Current.
  Variable owner : oid -> option tid.
  Variable sig_owner : oid -> option tid.

  (* every execution annotated by the table extracted from the current tree is race free *)
  Theorem current_sound :
    forall tr, valid tr -> annotated owner sig_owner current_table tr -> race_free tr.
  Proof. intros tr Hv Ha. eapply discipline_sound; eauto. exact table_ok. Qed.
End Current.
