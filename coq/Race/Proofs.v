(* Model J "Race": the locking discipline implies happens-before race freedom,
   for every execution (unbounded traces, any number of threads). *)
From Coq Require Import List String Bool Arith Lia Relations.
Import ListNotations.
From TV Require Import Race.Model.

(* ---------- boolean equalities ---------- *)

Lemma lmode_eqb_eq : forall a b, lmode_eqb a b = true <-> a = b.
Proof. intros a b; destruct a, b; simpl; split; intro H; try reflexivity; try discriminate. Qed.

Lemma oid_eqb_eq : forall a b : oid, oid_eqb a b = true <-> a = b.
Proof.
  intros [a1 a2] [b1 b2]; unfold oid_eqb; simpl. rewrite andb_true_iff, String.eqb_eq, Nat.eqb_eq.
  split; [intros [H1 H2]; subst; reflexivity | intro H; inversion H; auto].
Qed.

Lemma oid_eqb_refl : forall a, oid_eqb a a = true.
Proof. intro a; apply oid_eqb_eq; reflexivity. Qed.

Lemma oid_eqb_neq : forall a b : oid, oid_eqb a b = false <-> a <> b.
Proof.
  intros a b; split; intro H.
  - intro E; apply oid_eqb_eq in E; congruence.
  - destruct (oid_eqb a b) eqn:E; [apply oid_eqb_eq in E; contradiction | reflexivity].
Qed.

Lemma holder_eqb_eq : forall a b, holder_eqb a b = true <-> a = b.
Proof.
  intros [a1 a2] [b1 b2]; unfold holder_eqb; simpl. rewrite andb_true_iff, Nat.eqb_eq, lmode_eqb_eq.
  split; [intros [H1 H2]; subst; reflexivity | intro H; inversion H; auto].
Qed.

Lemma memh_In : forall h l, memh h l = true <-> In h l.
Proof.
  intros h l; unfold memh; rewrite existsb_exists; split.
  - intros [x [Hin He]]; apply holder_eqb_eq in He; subst; assumption.
  - intro Hin; exists h; split; [assumption | apply holder_eqb_eq; reflexivity].
Qed.

Lemma remove_one_subset : forall h x l, In h (remove_one x l) -> In h l.
Proof.
  intros h x l; induction l as [|y r IH]; simpl; [tauto|].
  destruct (holder_eqb y x); simpl; intro H; [right; assumption | destruct H; [left; assumption | right; auto]].
Qed.

Lemma remove_one_keeps : forall h x l, In h l -> h <> x -> In h (remove_one x l).
Proof.
  intros h x l; induction l as [|y r IH]; simpl; [tauto|].
  intros [Hy | Hr] Hne.
  - subst y. destruct (holder_eqb h x) eqn:E; [apply holder_eqb_eq in E; contradiction | left; reflexivity].
  - destruct (holder_eqb y x); [assumption | right; auto].
Qed.

(* ---------- runs and prefixes ---------- *)

Lemma run_app : forall a b s, run s (a ++ b) = match run s a with Some s' => run s' b | None => None end.
Proof.
  induction a as [|e a IH]; intros b s; simpl; [reflexivity|].
  destruct (step s e); [apply IH | reflexivity].
Qed.

Definition state_at (tr : trace) (n : nat) (s : state) : Prop := run init (firstn n tr) = Some s.

Lemma state_at_fun : forall tr n s1 s2, state_at tr n s1 -> state_at tr n s2 -> s1 = s2.
Proof. unfold state_at; intros; congruence. Qed.

Lemma firstn_snoc : forall (tr : trace) n e, nth_error tr n = Some e -> firstn (S n) tr = firstn n tr ++ [e].
Proof.
  induction tr as [|x tr IH]; intros [|n] e H; simpl in *; try discriminate.
  - inversion H; reflexivity.
  - f_equal; apply IH; assumption.
Qed.

Lemma valid_state_at : forall tr, valid tr -> forall n, exists s, state_at tr n s.
Proof.
  intros tr Hv n. unfold valid in Hv. unfold state_at.
  rewrite <- (firstn_skipn n tr) in Hv. rewrite run_app in Hv.
  destruct (run init (firstn n tr)) as [s|]; [exists s; reflexivity | congruence].
Qed.

Lemma state_at_step : forall tr n s e,
  valid tr -> state_at tr n s -> nth_error tr n = Some e ->
  exists s', step s e = Some s' /\ state_at tr (S n) s'.
Proof.
  intros tr n s e Hv Hs Hn.
  destruct (valid_state_at tr Hv (S n)) as [s' Hs'].
  unfold state_at in *. rewrite (firstn_snoc _ _ _ Hn), run_app, Hs in Hs'. simpl in Hs'.
  destruct (step s e) as [s1|] eqn:E; [|discriminate].
  exists s1; split; [reflexivity|]. rewrite (firstn_snoc _ _ _ Hn), run_app, Hs; simpl; rewrite E; reflexivity.
Qed.

Lemma state_at_0 : forall tr, state_at tr 0 init.
Proof. intros; reflexivity. Qed.

(* induction over the prefixes of a valid trace *)
Lemma prefix_ind : forall tr (P : nat -> state -> Prop),
  valid tr -> P 0 init ->
  (forall n s e s', state_at tr n s -> P n s -> nth_error tr n = Some e -> step s e = Some s' -> P (S n) s') ->
  forall n s, n <= List.length tr -> state_at tr n s -> P n s.
Proof.
  intros tr P Hv H0 Hstep; induction n as [|n IH]; intros s Hle Hs.
  - rewrite (state_at_fun _ _ _ _ Hs (state_at_0 tr)); assumption.
  - destruct (nth_error tr n) as [e|] eqn:En.
    2:{ apply nth_error_None in En; lia. }
    destruct (valid_state_at tr Hv n) as [s0 Hs0].
    destruct (state_at_step tr n s0 e Hv Hs0 En) as [s1 [Hst Hs1]].
    rewrite (state_at_fun _ _ _ _ Hs Hs1).
    eapply Hstep; eauto. apply IH; [lia | assumption].
Qed.

Lemma nth_lt : forall (tr : trace) n e, nth_error tr n = Some e -> n < List.length tr.
Proof. intros tr n e H; apply nth_error_Some; congruence. Qed.

(* ---------- step inversion ---------- *)

Lemma step_runnable : forall s e s', step s e = Some s' -> runnable s (ev_tid e) = true.
Proof.
  intros s e s' H; unfold step in H. destruct (runnable s (ev_tid e)); [reflexivity | simpl in H; discriminate].
Qed.

Ltac step_inv H :=
  unfold step in H;
  match type of H with context [negb (runnable ?s ?t)] => destruct (runnable s t); simpl in H; [|discriminate] end.

(* how one step changes the holders of a lock *)
Lemma step_holders : forall s e s', step s e = Some s' -> forall l,
  holders s' l = holders s l
  \/ (exists m, ev_op e = Acq l m /\ holders s' l = (ev_tid e, m) :: holders s l
        /\ (m = Excl \/ m = Shared)
        /\ (m = Excl -> holders s l = [])
        /\ (m = Shared -> forall h, In h (holders s l) -> snd h = Shared))
  \/ (exists m, ev_op e = Rel l m /\ In (ev_tid e, m) (holders s l)
        /\ holders s' l = remove_one (ev_tid e, m) (holders s l)).
Proof.
  intros s e s' H l. step_inv H.
  destruct (ev_op e) as [st o k a | l0 m | l0 m | c | c | c | c | c | c] eqn:Eop.
  - inversion H; subst; left; reflexivity.
  - destruct m; try discriminate.
    + (* Shared *)
      destruct (forallb (fun h => lmode_eqb (snd h) Shared) (holders s l0)) eqn:Ef; [|discriminate].
      inversion H; subst; simpl. unfold updo. destruct (oid_eqb l l0) eqn:El.
      * apply oid_eqb_eq in El; subst l0. right; left. exists Shared.
        split; [reflexivity|]. split; [reflexivity|]. split; [right; reflexivity|]. split; [discriminate|].
        intros _ h Hin. rewrite forallb_forall in Ef. apply Ef in Hin. apply lmode_eqb_eq in Hin; assumption.
      * left; reflexivity.
    + (* Excl *)
      destruct (holders s l0) eqn:Eh; [|discriminate].
      inversion H; subst; simpl. unfold updo. destruct (oid_eqb l l0) eqn:El.
      * apply oid_eqb_eq in El; subst l0. right; left. exists Excl. rewrite Eh.
        split; [reflexivity|]. split; [reflexivity|]. split; [left; reflexivity|]. split; [reflexivity|].
        intros _ h Hin; inversion Hin.
      * left; reflexivity.
  - destruct (memh (ev_tid e, m) (holders s l0)) eqn:Em; [|discriminate].
    inversion H; subst; simpl. unfold updo. destruct (oid_eqb l l0) eqn:El.
    + apply oid_eqb_eq in El; subst l0. right; right. exists m.
      split; [reflexivity|]. split; [apply memh_In; assumption | reflexivity].
    + left; reflexivity.
  - destruct (Nat.eqb c 0 || started s c); [discriminate|]. inversion H; subst; left; reflexivity.
  - destruct (started s c && negb (joined s c) && negb (Nat.eqb c (ev_tid e))); [|discriminate]. inversion H; subst; left; reflexivity.
  - inversion H; subst; left; reflexivity.
  - destruct (Nat.ltb (rcvd s c) (sent s c)); [|discriminate]. inversion H; subst; left; reflexivity.
  - destruct (closed s c); [discriminate|]. inversion H; subst; left; reflexivity.
  - destruct (closed s c); [|discriminate]. inversion H; subst; left; reflexivity.
Qed.

(* mutual exclusion: the holders of a lock are all readers, or exactly one writer *)
Definition excl_inv (s : state) : Prop :=
  forall l, (forall h, In h (holders s l) -> snd h = Shared) \/ (exists t, holders s l = [(t, Excl)]).

Lemma excl_inv_step : forall s e s', excl_inv s -> step s e = Some s' -> excl_inv s'.
Proof.
  intros s e s' Hinv Hst l.
  destruct (step_holders s e s' Hst l) as [Heq | [[m [_ [Hnew [Hm [Hx Hs]]]]] | [m [_ [Hin Hnew]]]]].
  - rewrite Heq; apply Hinv.
  - rewrite Hnew. destruct Hm as [Hm | Hm]; subst m.
    + right. exists (ev_tid e). rewrite (Hx eq_refl); reflexivity.
    + left. intros h [Hh | Hh]; [subst h; reflexivity | apply (Hs eq_refl); assumption].
  - rewrite Hnew. destruct (Hinv l) as [Ha | [t Ht]].
    + left. intros h Hh. apply Ha. eapply remove_one_subset; eauto.
    + rewrite Ht in *. destruct Hin as [Hin | []]. inversion Hin; subst. left. simpl.
      assert (E : holder_eqb (ev_tid e, Excl) (ev_tid e, Excl) = true) by (apply holder_eqb_eq; reflexivity).
      rewrite E. intros h [].
Qed.

Lemma excl_inv_at : forall tr, valid tr -> forall n s, n <= List.length tr -> state_at tr n s -> excl_inv s.
Proof.
  intros tr Hv. apply (prefix_ind tr (fun _ s => excl_inv s) Hv).
  - intro l; left; intros h [].
  - intros n s e s' _ Hinv _ Hst. eapply excl_inv_step; eauto.
Qed.

Lemma incompat : forall s l t1 m1 t2 m2,
  excl_inv s -> In (t1, m1) (holders s l) -> In (t2, m2) (holders s l) -> (m1 = Excl \/ m2 = Excl) -> t1 = t2.
Proof.
  intros s l t1 m1 t2 m2 Hinv H1 H2 Hx. destruct (Hinv l) as [Ha | [t Ht]].
  - apply Ha in H1; apply Ha in H2; simpl in *. destruct Hx; congruence.
  - rewrite Ht in *. destruct H1 as [H1|[]]; destruct H2 as [H2|[]]. congruence.
Qed.

Lemma holder_dec : forall a b : tid * lmode, {a = b} + {a <> b}.
Proof. decide equality; [decide equality | apply Nat.eq_dec]. Qed.

(* (A) a hold that disappears was released by its holder *)
Lemma release_exists : forall tr, valid tr -> forall h l i si, state_at tr i si -> In h (holders si l) ->
  forall j sj, i <= j -> j <= List.length tr -> state_at tr j sj -> ~ In h (holders sj l) ->
  exists k sk, i <= k /\ k < j /\ nth_error tr k = Some (mkEv (fst h) (Rel l (snd h)))
               /\ state_at tr k sk /\ In h (holders sk l).
Proof.
  intros tr Hv h l i si Hsi Hin. induction j as [|j IH]; intros sj Hij Hjl Hsj Hnot.
  - assert (i = 0) by lia; subst i. rewrite (state_at_fun _ _ _ _ Hsi Hsj) in Hin; contradiction.
  - destruct (Nat.eq_dec i (S j)) as [E | NE].
    { subst i. rewrite (state_at_fun _ _ _ _ Hsi Hsj) in Hin; contradiction. }
    destruct (nth_error tr j) as [e|] eqn:En.
    2:{ apply nth_error_None in En; lia. }
    destruct (valid_state_at tr Hv j) as [s0 Hs0].
    destruct (state_at_step tr j s0 e Hv Hs0 En) as [s1 [Hst Hs1]].
    rewrite (state_at_fun _ _ _ _ Hsj Hs1) in Hnot.
    destruct (in_dec holder_dec h (holders s0 l)) as [Hin0 | Hnot0].
    + (* still held before step j: the step released it *)
      destruct (step_holders s0 e s1 Hst l) as [Heq | [[m [_ [Hnew _]]] | [m [Hop [Hm Hnew]]]]].
      * rewrite Heq in Hnot; contradiction.
      * rewrite Hnew in Hnot; exfalso; apply Hnot; right; assumption.
      * destruct (holder_eqb h (ev_tid e, m)) eqn:Eh.
        -- apply holder_eqb_eq in Eh. exists j, s0. subst h; simpl.
           split; [lia|]. split; [lia|]. split; [|split; assumption].
           rewrite En. destruct e as [t o]; simpl in *. subst o. reflexivity.
        -- exfalso; apply Hnot. rewrite Hnew. apply remove_one_keeps; [assumption|].
           intro Q; subst h. assert (holder_eqb (ev_tid e, m) (ev_tid e, m) = true) by (apply holder_eqb_eq; reflexivity). congruence.
    + destruct (IH s0) as [k [sk [H1 [H2 H3]]]]; try assumption; try lia.
      exists k, sk. split; [assumption|]. split; [lia | assumption].
Qed.

(* (B) a hold that appears was acquired by its holder *)
Lemma acquire_exists : forall tr, valid tr -> forall h l i si, state_at tr i si -> ~ In h (holders si l) ->
  forall j sj, i <= j -> j <= List.length tr -> state_at tr j sj -> In h (holders sj l) ->
  exists k, i <= k /\ k < j /\ nth_error tr k = Some (mkEv (fst h) (Acq l (snd h))).
Proof.
  intros tr Hv h l i si Hsi Hnot. induction j as [|j IH]; intros sj Hij Hjl Hsj Hin.
  - assert (i = 0) by lia; subst i. rewrite (state_at_fun _ _ _ _ Hsi Hsj) in Hnot; contradiction.
  - destruct (Nat.eq_dec i (S j)) as [E | NE].
    { subst i. rewrite (state_at_fun _ _ _ _ Hsi Hsj) in Hnot; contradiction. }
    destruct (nth_error tr j) as [e|] eqn:En.
    2:{ apply nth_error_None in En; lia. }
    destruct (valid_state_at tr Hv j) as [s0 Hs0].
    destruct (state_at_step tr j s0 e Hv Hs0 En) as [s1 [Hst Hs1]].
    rewrite (state_at_fun _ _ _ _ Hsj Hs1) in Hin.
    destruct (in_dec holder_dec h (holders s0 l)) as [Hin0 | Hnot0].
    + destruct (IH s0) as [k [H1 [H2 H3]]]; try assumption; try lia.
      exists k. split; [assumption|]. split; [lia | assumption].
    + destruct (step_holders s0 e s1 Hst l) as [Heq | [[m [Hop [Hnew _]]] | [m [_ [_ Hnew]]]]].
      * rewrite Heq in Hin; contradiction.
      * rewrite Hnew in Hin. destruct Hin as [Hh | Hh]; [|contradiction].
        exists j. split; [lia|]. split; [lia|]. rewrite En. subst h; simpl.
        destruct e as [t o]; simpl in *. subst o. reflexivity.
      * rewrite Hnew in Hin. apply remove_one_subset in Hin. contradiction.
Qed.

(* ---------- edges ---------- *)

Lemma edge_lt : forall tr i j, edge tr i j -> i < j.
Proof. unfold edge, edge_b; intros tr i j H. apply andb_true_iff in H; destruct H as [H _]. apply Nat.ltb_lt; assumption. Qed.

Lemma hb_lt : forall tr i j, hb tr i j -> i < j.
Proof. intros tr i j H; induction H as [i j H | i k j _ IH1 _ IH2]; [eapply edge_lt; eauto | lia]. Qed.

Lemma edge_intro : forall tr i j a b, i < j -> nth_error tr i = Some a -> nth_error tr j = Some b ->
  edge_ev tr i j a b = true -> edge tr i j.
Proof.
  intros tr i j a b Hlt Ha Hb He. unfold edge, edge_b. rewrite Ha, Hb, He.
  apply andb_true_iff; split; [apply Nat.ltb_lt; assumption | reflexivity].
Qed.

Lemma edge_po : forall tr i j a b, i < j -> nth_error tr i = Some a -> nth_error tr j = Some b ->
  ev_tid a = ev_tid b -> hb tr i j.
Proof.
  intros tr i j a b Hlt Ha Hb Ht. apply t_step. eapply edge_intro; eauto.
  unfold edge_ev. rewrite Ht, Nat.eqb_refl. reflexivity.
Qed.

Lemma edge_fork : forall tr i j t c b, i < j -> nth_error tr i = Some (mkEv t (Fork c)) -> nth_error tr j = Some b ->
  ev_tid b = c -> hb tr i j.
Proof.
  intros tr i j t c b Hlt Ha Hb Ht. apply t_step. eapply edge_intro; eauto.
  unfold edge_ev; simpl. rewrite Ht, Nat.eqb_refl. rewrite orb_true_r. reflexivity.
Qed.

Lemma edge_lock : forall tr i j t1 t2 l m1 m2, i < j ->
  nth_error tr i = Some (mkEv t1 (Rel l m1)) -> nth_error tr j = Some (mkEv t2 (Acq l m2)) ->
  (m1 = Excl \/ m2 = Excl) -> hb tr i j.
Proof.
  intros tr i j t1 t2 l m1 m2 Hlt Ha Hb Hm. apply t_step. eapply edge_intro; eauto.
  unfold edge_ev; simpl. rewrite oid_eqb_refl.
  assert (E : negb (lmode_eqb m1 Shared && lmode_eqb m2 Shared) = true).
  { destruct Hm; subst; [|destruct m1]; reflexivity. }
  rewrite E; simpl. rewrite orb_true_r. reflexivity.
Qed.

Lemma edge_close : forall tr i j t1 t2 c, i < j ->
  nth_error tr i = Some (mkEv t1 (Close c)) -> nth_error tr j = Some (mkEv t2 (Wait c)) -> hb tr i j.
Proof.
  intros tr i j t1 t2 c Hlt Ha Hb. apply t_step. eapply edge_intro; eauto.
  unfold edge_ev; simpl. rewrite oid_eqb_refl. rewrite orb_true_r. reflexivity.
Qed.

Lemma hb_trans : forall tr i k j, hb tr i k -> hb tr k j -> hb tr i j.
Proof. intros; eapply t_trans; eauto. Qed.

(* ---------- where threads and closed channels come from ---------- *)

Lemma started_has_fork : forall tr, valid tr -> forall n s, n <= List.length tr -> state_at tr n s ->
  forall t, started s t = true -> exists f t', f < n /\ nth_error tr f = Some (mkEv t' (Fork t)).
Proof.
  intros tr Hv.
  apply (prefix_ind tr (fun n s => forall t, started s t = true -> exists f t', f < n /\ nth_error tr f = Some (mkEv t' (Fork t))) Hv).
  - intros t H; discriminate.
  - intros n s e s' Hs IH En Hst t Ht.
    assert (Hcase : started s t = true \/ (ev_op e = Fork t)).
    { clear - Hst Ht. step_inv Hst. destruct (ev_op e) as [st o k a | l0 m | l0 m | c | c | c | c | c | c] eqn:Eop.
      - inversion Hst; subst; auto.
      - destruct m; try discriminate.
        + destruct (forallb _ _); [|discriminate]. inversion Hst; subst; auto.
        + destruct (holders s l0); [|discriminate]. inversion Hst; subst; auto.
      - destruct (memh _ _); [|discriminate]. inversion Hst; subst; auto.
      - destruct (Nat.eqb c 0 || started s c); [discriminate|]. inversion Hst; subst; simpl in Ht.
        unfold updt in Ht. destruct (Nat.eqb t c) eqn:E; [apply Nat.eqb_eq in E; subst; auto | auto].
      - destruct (_ && _); [|discriminate]. inversion Hst; subst; auto.
      - inversion Hst; subst; auto.
      - destruct (Nat.ltb _ _); [|discriminate]. inversion Hst; subst; auto.
      - destruct (closed s c); [discriminate|]. inversion Hst; subst; auto.
      - destruct (closed s c); [|discriminate]. inversion Hst; subst; auto. }
    destruct Hcase as [Hold | Hop].
    + destruct (IH t Hold) as [f [t' [Hf Hn]]]. exists f, t'. split; [lia | assumption].
    + exists n, (ev_tid e). split; [lia|]. rewrite En. destruct e as [te oe]; simpl in *; subst; reflexivity.
Qed.

Lemma closed_has_close : forall tr, valid tr -> forall n s, n <= List.length tr -> state_at tr n s ->
  forall c, closed s c = true -> exists k t', k < n /\ nth_error tr k = Some (mkEv t' (Close c)).
Proof.
  intros tr Hv.
  apply (prefix_ind tr (fun n s => forall c, closed s c = true -> exists k t', k < n /\ nth_error tr k = Some (mkEv t' (Close c))) Hv).
  - intros c H; discriminate.
  - intros n s e s' Hs IH En Hst c Hc.
    assert (Hcase : closed s c = true \/ (ev_op e = Close c)).
    { clear - Hst Hc. step_inv Hst. destruct (ev_op e) as [st o k a | l0 m | l0 m | c0 | c0 | c0 | c0 | c0 | c0] eqn:Eop.
      - inversion Hst; subst; auto.
      - destruct m; try discriminate.
        + destruct (forallb _ _); [|discriminate]. inversion Hst; subst; auto.
        + destruct (holders s l0); [|discriminate]. inversion Hst; subst; auto.
      - destruct (memh _ _); [|discriminate]. inversion Hst; subst; auto.
      - destruct (Nat.eqb c0 0 || started s c0); [discriminate|]. inversion Hst; subst; auto.
      - destruct (_ && _); [|discriminate]. inversion Hst; subst; auto.
      - inversion Hst; subst; auto.
      - destruct (Nat.ltb _ _); [|discriminate]. inversion Hst; subst; auto.
      - destruct (closed s c0) eqn:Ec; [discriminate|]. inversion Hst; subst; simpl in Hc.
        unfold updo in Hc. destruct (oid_eqb c c0) eqn:E; [apply oid_eqb_eq in E; subst; auto | auto].
      - destruct (closed s c0); [|discriminate]. inversion Hst; subst; auto. }
    destruct Hcase as [Hold | Hop].
    + destruct (IH c Hold) as [k [t' [Hk Hn]]]. exists k, t'. split; [lia | assumption].
    + exists n, (ev_tid e). split; [lia|]. rewrite En. destruct e as [te oe]; simpl in *; subst; reflexivity.
Qed.

(* every event of a thread other than 0 is preceded by the go statement that started it *)
Lemma event_has_fork : forall tr, valid tr -> forall j b, nth_error tr j = Some b ->
  ev_tid b = 0 \/ exists f t', f < j /\ nth_error tr f = Some (mkEv t' (Fork (ev_tid b))).
Proof.
  intros tr Hv j b Hb.
  destruct (valid_state_at tr Hv j) as [s Hs].
  destruct (state_at_step tr j s b Hv Hs Hb) as [s' [Hst _]].
  apply step_runnable in Hst. unfold runnable in Hst. apply andb_true_iff in Hst; destruct Hst as [Hst _].
  apply orb_true_iff in Hst; destruct Hst as [H0 | Hstd].
  - left; apply Nat.eqb_eq; assumption.
  - right. eapply started_has_fork; eauto. apply Nat.lt_le_incl. eapply nth_lt; eauto.
Qed.

(* a Wait returns only after the Close *)
Lemma wait_has_close : forall tr, valid tr -> forall r t c, nth_error tr r = Some (mkEv t (Wait c)) ->
  exists k t', k < r /\ nth_error tr k = Some (mkEv t' (Close c)).
Proof.
  intros tr Hv r t c Hr.
  destruct (valid_state_at tr Hv r) as [s Hs].
  destruct (state_at_step tr r s _ Hv Hs Hr) as [s' [Hst _]].
  assert (Hc : closed s c = true).
  { clear - Hst. step_inv Hst. simpl in Hst. destruct (closed s c); [reflexivity | discriminate]. }
  eapply closed_has_close; eauto. apply Nat.lt_le_incl. eapply nth_lt; eauto.
Qed.

(* ---------- the four ordering arguments ---------- *)

(* (1) an event of thread 0 that precedes every go statement happens before everything later *)
Lemma main_before : forall tr, valid tr -> forall i a, nth_error tr i = Some a -> ev_tid a = 0 ->
  (forall k e, k < i -> nth_error tr k = Some e -> ~ (exists c, ev_op e = Fork c)) ->
  forall j b, i < j -> nth_error tr j = Some b -> hb tr i j.
Proof.
  intros tr Hv i a Ha Ht0 Hnf. induction j as [j IH] using lt_wf_ind. intros b Hlt Hb.
  destruct (event_has_fork tr Hv j b Hb) as [H0 | [f [t' [Hf Hfork]]]].
  - eapply edge_po; eauto. congruence.
  - destruct (Nat.lt_trichotomy f i) as [Hfi | [Hfi | Hfi]].
    + exfalso. eapply (Hnf f); eauto. simpl. eexists; reflexivity.
    + subst f. eapply (edge_fork tr i j t' (ev_tid b) b); eauto.
    + eapply hb_trans; [eapply (IH f Hf); eauto | eapply edge_fork; eauto].
Qed.

(* (2) two holds of the same lock by different threads, one of them exclusive *)
Lemma lock_handover : forall tr, valid tr -> forall i j si sj l ti mi tj mj,
  i < j -> j <= List.length tr -> state_at tr i si -> state_at tr j sj ->
  In (ti, mi) (holders si l) -> In (tj, mj) (holders sj l) -> ti <> tj -> (mi = Excl \/ mj = Excl) ->
  exists i' j', i <= i' /\ i' < j' /\ j' < j
    /\ nth_error tr i' = Some (mkEv ti (Rel l mi)) /\ nth_error tr j' = Some (mkEv tj (Acq l mj)).
Proof.
  intros tr Hv i j si sj l ti mi tj mj Hlt Hjl Hsi Hsj Hini Hinj Hne Hx.
  assert (Hinvj : excl_inv sj) by (apply (excl_inv_at tr Hv j sj); assumption).
  assert (Hnotj : ~ In (ti, mi) (holders sj l)).
  { intro Q. apply Hne. eapply incompat; eauto. }
  destruct (release_exists tr Hv (ti, mi) l i si Hsi Hini j sj) as [k [sk [Hik [Hkj [Hrel [Hsk Hink]]]]]]; try assumption; try lia.
  simpl in Hrel.
  assert (Hinvk : excl_inv sk) by (apply (excl_inv_at tr Hv k sk); [lia | assumption]).
  assert (Hnotk : ~ In (tj, mj) (holders sk l)).
  { intro Q. apply Hne. eapply incompat; eauto. }
  destruct (acquire_exists tr Hv (tj, mj) l k sk Hsk Hnotk j sj) as [k' [Hkk' [Hk'j Hacq]]]; try assumption; try lia.
  simpl in Hacq.
  assert (k <> k') by (intro Q; subst k'; rewrite Hrel in Hacq; discriminate).
  exists k, k'. repeat split; try assumption; lia.
Qed.

Lemma holds_mode : forall H t m, holds H t m -> exists m', In (t, m') H /\ (m = Excl -> m' = Excl) /\ (m' = Excl \/ m' = Shared).
Proof.
  intros H t m Hh; destruct m; simpl in Hh; try contradiction.
  - destruct Hh as [Hh | Hh]; [exists Shared | exists Excl]; (split; [assumption | split; [discriminate | auto]]).
  - exists Excl; split; [assumption | split; auto].
Qed.

Lemma lock_order : forall tr, valid tr -> forall i j a b si sj l mi mj,
  i < j -> nth_error tr i = Some a -> nth_error tr j = Some b ->
  (forall l' m', ev_op a <> Rel l' m') ->
  state_at tr i si -> state_at tr j sj ->
  holds (holders si l) (ev_tid a) mi -> holds (holders sj l) (ev_tid b) mj -> (mi = Excl \/ mj = Excl) ->
  hb tr i j.
Proof.
  intros tr Hv i j a b si sj l mi mj Hlt Ha Hb Hnr Hsi Hsj Hhi Hhj Hx.
  destruct (Nat.eq_dec (ev_tid a) (ev_tid b)) as [E | NE]; [eapply edge_po; eauto|].
  destruct (holds_mode _ _ _ Hhi) as [mi' [Hini [Hxi _]]].
  destruct (holds_mode _ _ _ Hhj) as [mj' [Hinj [Hxj _]]].
  assert (Hx' : mi' = Excl \/ mj' = Excl) by (destruct Hx; [left | right]; auto).
  destruct (lock_handover tr Hv i j si sj l (ev_tid a) mi' (ev_tid b) mj' Hlt) as [i' [j' [H1 [H2 [H3 [Hrel Hacq]]]]]]; try assumption.
  { apply Nat.lt_le_incl. eapply nth_lt; eauto. }
  assert (i <> i').
  { intro Q; subst i'. rewrite Ha in Hrel. inversion Hrel as [Q]. destruct a as [ta oa]; simpl in *. inversion Q. eapply Hnr; eauto. }
  eapply hb_trans; [eapply (edge_po tr i i'); eauto; try lia |].
  eapply hb_trans; [eapply (edge_lock tr i' j'); eauto |].
  eapply (edge_po tr j' j); eauto.
Qed.

Lemma mem_lock_In : forall l m ls, mem_lock l m ls = true -> In (l, m) ls.
Proof.
  intros l m ls H. unfold mem_lock in H. apply existsb_exists in H. destruct H as [[x1 x2] [Hin Hx]].
  simpl in Hx. apply andb_true_iff in Hx. destruct Hx as [H1 H2].
  apply String.eqb_eq in H1. apply lmode_eqb_eq in H2. subst. assumption.
Qed.

Section Sound.
  Variable owner : oid -> option tid.
  Variable sig_owner : oid -> option tid.

  (* (3) written by the creator before it closes the channel, read after waiting for the close *)
  Lemma sig_order : forall tr, valid tr ->
    (forall k t ch, nth_error tr k = Some (mkEv t (Close ch)) -> sig_owner ch = Some t) ->
    forall i j a b o c mi mj, i < j -> nth_error tr i = Some a -> nth_error tr j = Some b ->
    (forall ch, ev_op a <> Close ch) ->
    lock_ok sig_owner tr i (ev_tid a) o (c, mi) -> lock_ok sig_owner tr j (ev_tid b) o (c, mj) ->
    (mi = BeforeClose \/ mi = AfterWait) -> (mj = BeforeClose \/ mj = AfterWait) ->
    (mi = BeforeClose \/ mj = BeforeClose) -> hb tr i j.
  Proof.
    intros tr Hv Hcl i j a b o c mi mj Hlt Ha Hb Hnc Hli Hlj Hmi Hmj Hx.
    unfold lock_ok in Hli, Hlj; simpl in Hli, Hlj.
    destruct Hmi as [Hmi | Hmi]; destruct Hmj as [Hmj | Hmj]; subst mi mj.
    - destruct Hli as [Hoi _]; destruct Hlj as [Hoj _]. eapply edge_po; eauto. congruence.
    - destruct Hli as [Hoi Hnb]. destruct Hlj as [r [Hrj Hr]].
      destruct (wait_has_close tr Hv r _ _ Hr) as [cl [t' [Hclr Hclose]]].
      pose proof (Hcl _ _ _ Hclose) as Hown. rewrite Hoi in Hown. inversion Hown; subst t'.
      destruct (Nat.lt_trichotomy cl i) as [Q | [Q | Q]].
      + exfalso. eapply (Hnb cl); eauto.
      + subst cl. rewrite Ha in Hclose. inversion Hclose as [Q]. destruct a as [ta oa]; simpl in *. inversion Q. exfalso; eapply Hnc; eauto.
      + eapply hb_trans; [eapply (edge_po tr i cl); eauto |].
        eapply hb_trans; [eapply (edge_close tr cl r); eauto |].
        eapply (edge_po tr r j); eauto.
    - exfalso. destruct Hli as [r [Hri Hr]]. destruct Hlj as [_ Hnb].
      destruct (wait_has_close tr Hv r _ _ Hr) as [cl [t' [Hclr Hclose]]].
      eapply (Hnb cl); eauto. lia.
    - destruct Hx; discriminate.
  Qed.

  Lemma in_relevant : forall T en, In en T -> en_conc en = true -> en_shared en = true ->
    In en (relevant (en_class en) T).
  Proof.
    intros T en Hin Hc Hs. unfold relevant. apply filter_In. split; [assumption|].
    rewrite String.eqb_refl, Hc, Hs; reflexivity.
  Qed.

  Theorem discipline_sound : forall T tr,
    lockset_ok T = true -> valid tr -> annotated owner sig_owner T tr -> race_free tr.
  Proof.
    intros T tr Hok Hv [Hann Hcl] i j [Hlt [[a [b [Ha [Hb Hc]]]] Hnhb]]. apply Hnhb.
    destruct a as [ta opa]; destruct b as [tb opb]. unfold conflict_ev in Hc; simpl in Hc.
    destruct opa as [s1 o1 k1 a1 | | | | | | | |]; try discriminate.
    destruct opb as [s2 o2 k2 a2 | | | | | | | |]; try discriminate.
    apply andb_true_iff in Hc; destruct Hc as [Hc Hat]. apply andb_true_iff in Hc; destruct Hc as [Ho Hk].
    apply oid_eqb_eq in Ho; subst o2.
    destruct (Hann _ _ _ _ _ _ Ha) as [e1 [Hin1 [_ [Hcls1 [Hk1 [Hat1 [Hsh1 [Hfr1 [Hph1 Hl1]]]]]]]]].
    destruct (Hann _ _ _ _ _ _ Hb) as [e2 [Hin2 [_ [Hcls2 [Hk2 [Hat2 [Hsh2 [Hfr2 [Hph2 Hl2]]]]]]]]].
    (* per-call copies are confined to one thread *)
    destruct (en_shared e1) eqn:Es1.
    2:{ destruct (en_shared e2) eqn:Es2.
        - rewrite (Hsh2 eq_refl) in Hfr1. specialize (Hfr1 eq_refl). discriminate.
        - specialize (Hfr1 eq_refl). specialize (Hfr2 eq_refl). eapply edge_po; eauto. simpl. congruence. }
    destruct (en_shared e2) eqn:Es2.
    2:{ rewrite (Hsh1 eq_refl) in Hfr2. specialize (Hfr2 eq_refl). discriminate. }
    (* accesses made before any goroutine exists *)
    destruct (en_conc e1) eqn:Ec1.
    2:{ destruct (Hph1 eq_refl) as [Ht0 Hnf]. eapply (main_before tr Hv i _ Ha); eauto.
        all: try (intros k e Hk' He [c Hc]; eapply (Hnf k e); eauto). }
    destruct (en_conc e2) eqn:Ec2.
    2:{ destruct (Hph2 eq_refl) as [Ht0 Hnf].
        destruct (event_has_fork tr Hv i _ Ha) as [H0 | [f [t' [Hf Hfork]]]].
        - eapply edge_po; eauto. simpl in *. congruence.
        - exfalso. eapply (Hnf f); eauto; [lia|]. simpl. eexists; reflexivity. }
    (* both can run on task goroutines and reach a shared instance: the class discipline applies *)
    assert (Hr1 : In e1 (relevant (fst o1) T)) by (rewrite Hcls1; apply in_relevant; assumption).
    assert (Hr2 : In e2 (relevant (fst o1) T)) by (rewrite Hcls2; apply in_relevant; assumption).
    assert (Hclass : class_ok T (fst o1) = true).
    { unfold lockset_ok in Hok. rewrite forallb_forall in Hok. apply Hok. rewrite Hcls1. apply in_map; assumption. }
    unfold class_ok in Hclass.
    apply orb_true_iff in Hclass; destruct Hclass as [Hclass | Hsig].
    apply orb_true_iff in Hclass; destruct Hclass as [Hclass | Hgrd].
    apply orb_true_iff in Hclass; destruct Hclass as [Hatm | Hrd].
    - (* all atomic *)
      rewrite forallb_forall in Hatm. pose proof (Hatm _ Hr1) as Q1. pose proof (Hatm _ Hr2) as Q2.
      rewrite <- Hat1 in Q1. rewrite <- Hat2 in Q2. rewrite Q1, Q2 in Hat. simpl in Hat. discriminate.
    - (* all reads *)
      rewrite forallb_forall in Hrd. pose proof (Hrd _ Hr1) as Q1. pose proof (Hrd _ Hr2) as Q2.
      unfold is_read in Q1, Q2. rewrite <- Hk1 in Q1. rewrite <- Hk2 in Q2.
      destruct k1, k2; simpl in *; discriminate.
    - (* one mutex *)
      apply existsb_exists in Hgrd. destruct Hgrd as [l [_ Hg]]. unfold guarded_by in Hg. rewrite forallb_forall in Hg.
      pose proof (Hg _ Hr1) as Q1. pose proof (Hg _ Hr2) as Q2. rewrite <- Hk1 in Q1. rewrite <- Hk2 in Q2.
      assert (G1 : exists m1, In (l, m1) (en_locks e1) /\ (m1 = Excl \/ m1 = Shared) /\ (k1 = Wr -> m1 = Excl)).
      { destruct k1.
        - apply orb_true_iff in Q1. destruct Q1 as [Q1 | Q1]; apply mem_lock_In in Q1;
            [exists Excl | exists Shared]; (split; [assumption | split; [auto | discriminate]]).
        - apply mem_lock_In in Q1. exists Excl. split; [assumption | split; auto]. }
      assert (G2 : exists m2, In (l, m2) (en_locks e2) /\ (m2 = Excl \/ m2 = Shared) /\ (k2 = Wr -> m2 = Excl)).
      { destruct k2.
        - apply orb_true_iff in Q2. destruct Q2 as [Q2 | Q2]; apply mem_lock_In in Q2;
            [exists Excl | exists Shared]; (split; [assumption | split; [auto | discriminate]]).
        - apply mem_lock_In in Q2. exists Excl. split; [assumption | split; auto]. }
      destruct G1 as [m1 [Hi1 [Hm1 Hw1]]]. destruct G2 as [m2 [Hi2 [Hm2 Hw2]]].
      rewrite Forall_forall in Hl1, Hl2. pose proof (Hl1 _ Hi1) as L1. pose proof (Hl2 _ Hi2) as L2.
      unfold lock_ok in L1, L2; simpl in L1, L2.
      assert (L1' : exists s, run init (firstn i tr) = Some s /\ holds (holders s (l, snd o1)) ta m1) by (destruct Hm1; subst m1; exact L1).
      assert (L2' : exists s, run init (firstn j tr) = Some s /\ holds (holders s (l, snd o1)) tb m2) by (destruct Hm2; subst m2; exact L2).
      destruct L1' as [si [Hsi Hh1]]. destruct L2' as [sj [Hsj Hh2]].
      eapply (lock_order tr Hv i j _ _ si sj (l, snd o1) m1 m2 Hlt Ha Hb); eauto.
      + intros l' m'; simpl; discriminate.
      + apply orb_true_iff in Hk. destruct Hk as [Hk | Hk]; [left; apply Hw1 | right; apply Hw2]; destruct k1, k2; simpl in *; try reflexivity; discriminate.
    - (* one signal channel *)
      apply existsb_exists in Hsig. destruct Hsig as [c [_ Hg]]. unfold signalled_by in Hg. rewrite forallb_forall in Hg.
      pose proof (Hg _ Hr1) as Q1. pose proof (Hg _ Hr2) as Q2. rewrite <- Hk1 in Q1. rewrite <- Hk2 in Q2.
      assert (G1 : exists m1, In (c, m1) (en_locks e1) /\ (m1 = BeforeClose \/ m1 = AfterWait) /\ (k1 = Wr -> m1 = BeforeClose)).
      { destruct k1.
        - apply orb_true_iff in Q1. destruct Q1 as [Q1 | Q1]; apply mem_lock_In in Q1;
            [exists BeforeClose | exists AfterWait]; (split; [assumption | split; [auto | discriminate]]).
        - apply mem_lock_In in Q1. exists BeforeClose. split; [assumption | split; auto]. }
      assert (G2 : exists m2, In (c, m2) (en_locks e2) /\ (m2 = BeforeClose \/ m2 = AfterWait) /\ (k2 = Wr -> m2 = BeforeClose)).
      { destruct k2.
        - apply orb_true_iff in Q2. destruct Q2 as [Q2 | Q2]; apply mem_lock_In in Q2;
            [exists BeforeClose | exists AfterWait]; (split; [assumption | split; [auto | discriminate]]).
        - apply mem_lock_In in Q2. exists BeforeClose. split; [assumption | split; auto]. }
      destruct G1 as [m1 [Hi1 [Hm1 Hw1]]]. destruct G2 as [m2 [Hi2 [Hm2 Hw2]]].
      rewrite Forall_forall in Hl1, Hl2. pose proof (Hl1 _ Hi1) as L1. pose proof (Hl2 _ Hi2) as L2.
      eapply (sig_order tr Hv Hcl i j _ _ o1 c m1 m2 Hlt Ha Hb); eauto.
      + intros ch; simpl; discriminate.
      + apply orb_true_iff in Hk. destruct Hk as [Hk | Hk]; [left; apply Hw1 | right; apply Hw2]; destruct k1, k2; simpl in *; try reflexivity; discriminate.
  Qed.
End Sound.
