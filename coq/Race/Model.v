(* Model J "Race": events, executions, happens-before, data races, and the
   locking discipline checked on the access table extracted from the sources.
   Definitions only (proofs are in Race/Proofs*.v). *)
From Coq Require Import List String Bool Arith Relations.
Import ListNotations.

(* ---------- events ---------- *)

Inductive rw := Rd | Wr.

(* how a synchronisation object protects an access:
   Shared / Excl   : the accessing thread holds the mutex (RLock / Lock);
   BeforeClose     : the access is made by the creator of a signal channel, before it closes it;
   AfterWait       : the access follows, in the same thread, a receive on that (closed) channel *)
Inductive lmode := Shared | Excl | BeforeClose | AfterWait.

Definition tid := nat.                      (* thread 0 = the goroutine that called Setup and Run *)
Definition oid := (string * nat)%type.     (* (class, instance); locks and channels are named the same way *)
Definition site := (string * string)%type. (* (function, expression) of the access table *)

Inductive op :=
| Acc (s : site) (o : oid) (k : rw) (atomic : bool)
| Acq (l : oid) (m : lmode)
| Rel (l : oid) (m : lmode)
| Fork (c : tid)
| Join (c : tid)
| Send (c : oid)      (* channel carrying values / semaphore slots: k-th send is received by the k-th receive *)
| Recv (c : oid)
| Close (c : oid)     (* signal-only channel (done channels): closed once, never sent on *)
| Wait (c : oid).     (* a receive on a signal-only channel: returns only after the close *)

Record event := mkEv { ev_tid : tid; ev_op : op }.
Definition trace := list event.

Definition rw_eqb (a b : rw) : bool := match a, b with Rd, Rd | Wr, Wr => true | _, _ => false end.
Definition lmode_eqb (a b : lmode) : bool :=
  match a, b with Shared, Shared | Excl, Excl | BeforeClose, BeforeClose | AfterWait, AfterWait => true | _, _ => false end.
Definition oid_eqb (a b : oid) : bool := String.eqb (fst a) (fst b) && Nat.eqb (snd a) (snd b).
Definition holder_eqb (a b : tid * lmode) : bool := Nat.eqb (fst a) (fst b) && lmode_eqb (snd a) (snd b).

(* ---------- executions: the machine that decides which traces can happen ---------- *)

Record state := mkSt {
  holders : oid -> list (tid * lmode);
  started : tid -> bool;
  joined  : tid -> bool;
  closed  : oid -> bool;
  sent    : oid -> nat;
  rcvd    : oid -> nat
}.

Definition init : state :=
  mkSt (fun _ => []) (fun _ => false) (fun _ => false) (fun _ => false) (fun _ => 0) (fun _ => 0).

Definition updo {A} (f : oid -> A) (k : oid) (v : A) : oid -> A := fun x => if oid_eqb x k then v else f x.
Definition updt {A} (f : tid -> A) (k : tid) (v : A) : tid -> A := fun x => if Nat.eqb x k then v else f x.

Fixpoint remove_one (h : tid * lmode) (l : list (tid * lmode)) : list (tid * lmode) :=
  match l with
  | [] => []
  | x :: r => if holder_eqb x h then r else x :: remove_one h r
  end.

Definition memh (h : tid * lmode) (l : list (tid * lmode)) : bool := existsb (holder_eqb h) l.

Definition runnable (s : state) (t : tid) : bool :=
  (Nat.eqb t 0 || started s t) && negb (joined s t).

Definition step (s : state) (e : event) : option state :=
  let t := ev_tid e in
  if negb (runnable s t) then None else
  match ev_op e with
  | Acc _ _ _ _ => Some s
  | Acq l Excl =>
      match holders s l with
      | [] => Some (mkSt (updo (holders s) l [(t, Excl)]) (started s) (joined s) (closed s) (sent s) (rcvd s))
      | _ => None
      end
  | Acq l Shared =>
      if forallb (fun h => lmode_eqb (snd h) Shared) (holders s l)
      then Some (mkSt (updo (holders s) l ((t, Shared) :: holders s l)) (started s) (joined s) (closed s) (sent s) (rcvd s))
      else None
  | Acq _ _ => None
  | Rel l m =>
      if memh (t, m) (holders s l)
      then Some (mkSt (updo (holders s) l (remove_one (t, m) (holders s l))) (started s) (joined s) (closed s) (sent s) (rcvd s))
      else None
  | Fork c =>
      if Nat.eqb c 0 || started s c then None
      else Some (mkSt (holders s) (updt (started s) c true) (joined s) (closed s) (sent s) (rcvd s))
  | Join c =>
      if started s c && negb (joined s c) && negb (Nat.eqb c t)
      then Some (mkSt (holders s) (started s) (updt (joined s) c true) (closed s) (sent s) (rcvd s))
      else None
  | Send c => Some (mkSt (holders s) (started s) (joined s) (closed s) (updo (sent s) c (S (sent s c))) (rcvd s))
  | Recv c =>
      if Nat.ltb (rcvd s c) (sent s c)
      then Some (mkSt (holders s) (started s) (joined s) (closed s) (sent s) (updo (rcvd s) c (S (rcvd s c))))
      else None
  | Close c =>
      if closed s c then None
      else Some (mkSt (holders s) (started s) (joined s) (updo (closed s) c true) (sent s) (rcvd s))
  | Wait c => if closed s c then Some s else None
  end.

Fixpoint run (s : state) (tr : trace) : option state :=
  match tr with
  | [] => Some s
  | e :: r => match step s e with Some s' => run s' r | None => None end
  end.

Definition valid (tr : trace) : Prop := run init tr <> None.
Definition valid_b (tr : trace) : bool := match run init tr with Some _ => true | None => false end.

(* ---------- happens-before ---------- *)

Definition is_send (c : oid) (e : event) : bool := match ev_op e with Send c' => oid_eqb c' c | _ => false end.
Definition is_recv (c : oid) (e : event) : bool := match ev_op e with Recv c' => oid_eqb c' c | _ => false end.
Definition count_before (p : event -> bool) (tr : trace) (i : nat) : nat := List.length (filter p (firstn i tr)).

(* the synchronisation edges of the Go memory model that Task relies on *)
Definition edge_ev (tr : trace) (i j : nat) (a b : event) : bool :=
  Nat.eqb (ev_tid a) (ev_tid b)                                            (* program order *)
  || match ev_op a with
     | Fork c => Nat.eqb c (ev_tid b)                                      (* go statement -> first event of the goroutine *)
     | Rel l m =>
         match ev_op b with
         | Acq l' m' => oid_eqb l l' && negb (lmode_eqb m Shared && lmode_eqb m' Shared)   (* Unlock -> Lock, RUnlock -> Lock, Unlock -> RLock *)
         | _ => false
         end
     | Send c =>
         match ev_op b with
         | Recv c' => oid_eqb c c' && Nat.eqb (count_before (is_send c) tr i) (count_before (is_recv c) tr j)
         | _ => false
         end
     | Close c => match ev_op b with Wait c' => oid_eqb c c' | _ => false end
     | _ => false
     end
  || match ev_op b with Join c => Nat.eqb c (ev_tid a) | _ => false end.   (* last event of the goroutine -> Wait returns *)

Definition edge_b (tr : trace) (i j : nat) : bool :=
  Nat.ltb i j &&
  match nth_error tr i, nth_error tr j with
  | Some a, Some b => edge_ev tr i j a b
  | _, _ => false
  end.

Definition edge (tr : trace) (i j : nat) : Prop := edge_b tr i j = true.
Definition hb (tr : trace) : nat -> nat -> Prop := clos_trans nat (edge tr).

(* ---------- data races ---------- *)

Definition conflict_ev (a b : event) : bool :=
  match ev_op a, ev_op b with
  | Acc _ o1 k1 a1, Acc _ o2 k2 a2 =>
      oid_eqb o1 o2 && (rw_eqb k1 Wr || rw_eqb k2 Wr) && negb (a1 && a2)
  | _, _ => false
  end.

Definition conflict (tr : trace) (i j : nat) : Prop :=
  exists a b, nth_error tr i = Some a /\ nth_error tr j = Some b /\ conflict_ev a b = true.

Definition race (tr : trace) (i j : nat) : Prop := i < j /\ conflict tr i j /\ ~ hb tr i j.
Definition race_free (tr : trace) : Prop := forall i j, ~ race tr i j.

(* executable versions (finite traces): bounded reachability over the edges *)
Fixpoint hb_b (fuel : nat) (tr : trace) (i j : nat) : bool :=
  edge_b tr i j ||
  match fuel with
  | O => false
  | S f => existsb (fun k => edge_b tr i k && hb_b f tr k j) (seq (S i) (j - S i))
  end.

Definition conflict_b (tr : trace) (i j : nat) : bool :=
  match nth_error tr i, nth_error tr j with
  | Some a, Some b => conflict_ev a b
  | _, _ => false
  end.

Definition race_b (tr : trace) (i j : nat) : bool :=
  Nat.ltb i j && conflict_b tr i j && negb (hb_b (List.length tr) tr i j).

Definition race_free_b (tr : trace) : bool :=
  forallb (fun i => forallb (fun j => negb (race_b tr i j)) (seq 0 (List.length tr))) (seq 0 (List.length tr)).

(* ---------- the access table and the discipline ---------- *)

Record entry := mkEn {
  en_fn     : string;                   (* function (closures folded into it) *)
  en_expr   : string;                   (* the field expression *)
  en_class  : string;                   (* object class = package.Type.field *)
  en_kind   : rw;
  en_locks  : list (string * lmode);    (* synchronisation objects OF THE SAME INSTANCE protecting the access *)
  en_atomic : bool;
  en_conc   : bool;                     (* can run on a task goroutine (false: only on thread 0 before any go statement) *)
  en_shared : bool                      (* false: the object was created by the running call itself (per-call copy) *)
}.

Definition table := list entry.

Definition mem_lock (l : string) (m : lmode) (ls : list (string * lmode)) : bool :=
  existsb (fun x => String.eqb (fst x) l && lmode_eqb (snd x) m) ls.

Definition relevant (c : string) (T : table) : table :=
  filter (fun en => String.eqb (en_class en) c && en_conc en && en_shared en) T.

Definition is_read (en : entry) : bool := rw_eqb (en_kind en) Rd.

Definition guarded_by (l : string) (es : table) : bool :=
  forallb (fun en => match en_kind en with
                     | Wr => mem_lock l Excl (en_locks en)
                     | Rd => mem_lock l Excl (en_locks en) || mem_lock l Shared (en_locks en)
                     end) es.

Definition signalled_by (c : string) (es : table) : bool :=
  forallb (fun en => match en_kind en with
                     | Wr => mem_lock c BeforeClose (en_locks en)
                     | Rd => mem_lock c BeforeClose (en_locks en) || mem_lock c AfterWait (en_locks en)
                     end) es.

Definition lock_names (es : table) : list string := map fst (List.concat (map en_locks es)).

(* a class is fine when, among the accesses that can run on task goroutines and
   reach shared instances, (1) all are atomic, or (2) all are reads (immutable
   after Setup), or (3) one mutex of the instance is held at every access
   (exclusively at every write), or (4) one signal channel orders them (written
   by the creator before close, read after waiting for the close).  Accesses to
   per-call copies and accesses made before any goroutine exists never matter. *)
Definition class_ok (T : table) (c : string) : bool :=
  let es := relevant c T in
  forallb en_atomic es
  || forallb is_read es
  || existsb (fun l => guarded_by l es) (lock_names es)
  || existsb (fun l => signalled_by l es) (lock_names es).

Fixpoint dedup (l : list string) : list string :=
  match l with
  | [] => []
  | x :: r => if existsb (String.eqb x) r then dedup r else x :: dedup r
  end.

Definition classes (T : table) : list string := dedup (map en_class T).
Definition lockset_ok (T : table) : bool := forallb (class_ok T) (map en_class T).
Definition offenders (T : table) : list string := filter (fun c => negb (class_ok T c)) (classes T).
Definition offending_entries (T : table) : list (string * string * string) :=
  map (fun en => (en_class en, en_fn en, en_expr en))
      (filter (fun en => negb (class_ok T (en_class en)) && en_conc en && en_shared en && rw_eqb (en_kind en) Wr) T).

(* ---------- executions annotated by a table ---------- *)

Definition holds (H : list (tid * lmode)) (t : tid) (m : lmode) : Prop :=
  match m with
  | Excl => In (t, Excl) H
  | Shared => In (t, Shared) H \/ In (t, Excl) H
  | _ => False
  end.

Section Annotated.
  Variable owner : oid -> option tid.      (* per-call copies: the one thread that uses the instance *)
  Variable sig_owner : oid -> option tid.  (* signal channels: the thread that created (and closes) it *)

  Definition no_before (tr : trace) (i : nat) (p : op -> Prop) : Prop :=
    forall k e, k < i -> nth_error tr k = Some e -> ~ p (ev_op e).

  Definition lock_ok (tr : trace) (i : nat) (t : tid) (o : oid) (lk : string * lmode) : Prop :=
    let ch := (fst lk, snd o) in
    match snd lk with
    | Excl | Shared => exists s, run init (firstn i tr) = Some s /\ holds (holders s ch) t (snd lk)
    | BeforeClose => sig_owner ch = Some t /\ no_before tr i (fun x => x = Close ch)
    | AfterWait => exists r, r < i /\ nth_error tr r = Some (mkEv t (Wait ch))
    end.

  Definition acc_ok (T : table) (tr : trace) (i : nat) (t : tid) (s : site) (o : oid) (k : rw) (a : bool) : Prop :=
    exists en, In en T /\ s = (en_fn en, en_expr en) /\ fst o = en_class en /\ k = en_kind en /\ a = en_atomic en
      /\ (en_shared en = true -> owner o = None)
      /\ (en_shared en = false -> owner o = Some t)
      /\ (en_conc en = false -> t = 0 /\ no_before tr i (fun x => exists c, x = Fork c))
      /\ Forall (lock_ok tr i t o) (en_locks en).

  (* every access of the execution is an instance of a table entry, made under
     the synchronisation the entry records; signal channels are closed by their creator *)
  Definition annotated (T : table) (tr : trace) : Prop :=
    (forall i t s o k a, nth_error tr i = Some (mkEv t (Acc s o k a)) -> acc_ok T tr i t s o k a)
    /\ (forall i t ch, nth_error tr i = Some (mkEv t (Close ch)) -> sig_owner ch = Some t).
End Annotated.
