Base/Shuffle.vo Base/Shuffle.glob Base/Shuffle.v.beautified Base/Shuffle.required_vo: Base/Shuffle.v 
Base/Shuffle.vio: Base/Shuffle.v 
Base/Shuffle.vos Base/Shuffle.vok Base/Shuffle.required_vos: Base/Shuffle.v 
Base/ShuffleFacts.vo Base/ShuffleFacts.glob Base/ShuffleFacts.v.beautified Base/ShuffleFacts.required_vo: Base/ShuffleFacts.v Base/Shuffle.vo
Base/ShuffleFacts.vio: Base/ShuffleFacts.v Base/Shuffle.vio
Base/ShuffleFacts.vos Base/ShuffleFacts.vok Base/ShuffleFacts.required_vos: Base/ShuffleFacts.v Base/Shuffle.vos
Extracted/Facts.vo Extracted/Facts.glob Extracted/Facts.v.beautified Extracted/Facts.required_vo: Extracted/Facts.v 
Extracted/Facts.vio: Extracted/Facts.v 
Extracted/Facts.vos Extracted/Facts.vok Extracted/Facts.required_vos: Extracted/Facts.v 
Merge/Model.vo Merge/Model.glob Merge/Model.v.beautified Merge/Model.required_vo: Merge/Model.v 
Merge/Model.vio: Merge/Model.v 
Merge/Model.vos Merge/Model.vok Merge/Model.required_vos: Merge/Model.v 
Merge/Spec.vo Merge/Spec.glob Merge/Spec.v.beautified Merge/Spec.required_vo: Merge/Spec.v Merge/Model.vo
Merge/Spec.vio: Merge/Spec.v Merge/Model.vio
Merge/Spec.vos Merge/Spec.vok Merge/Spec.required_vos: Merge/Spec.v Merge/Model.vos
Merge/ProofsBase.vo Merge/ProofsBase.glob Merge/ProofsBase.v.beautified Merge/ProofsBase.required_vo: Merge/ProofsBase.v Merge/Model.vo Merge/Spec.vo
Merge/ProofsBase.vio: Merge/ProofsBase.v Merge/Model.vio Merge/Spec.vio
Merge/ProofsBase.vos Merge/ProofsBase.vok Merge/ProofsBase.required_vos: Merge/ProofsBase.v Merge/Model.vos Merge/Spec.vos
Merge/ProofsRun.vo Merge/ProofsRun.glob Merge/ProofsRun.v.beautified Merge/ProofsRun.required_vo: Merge/ProofsRun.v Merge/Model.vo Merge/Spec.vo Merge/ProofsBase.vo
Merge/ProofsRun.vio: Merge/ProofsRun.v Merge/Model.vio Merge/Spec.vio Merge/ProofsBase.vio
Merge/ProofsRun.vos Merge/ProofsRun.vok Merge/ProofsRun.required_vos: Merge/ProofsRun.v Merge/Model.vos Merge/Spec.vos Merge/ProofsBase.vos
Merge/ProofsC09.vo Merge/ProofsC09.glob Merge/ProofsC09.v.beautified Merge/ProofsC09.required_vo: Merge/ProofsC09.v Merge/Model.vo Merge/Spec.vo Merge/ProofsBase.vo Merge/ProofsRun.vo
Merge/ProofsC09.vio: Merge/ProofsC09.v Merge/Model.vio Merge/Spec.vio Merge/ProofsBase.vio Merge/ProofsRun.vio
Merge/ProofsC09.vos Merge/ProofsC09.vok Merge/ProofsC09.required_vos: Merge/ProofsC09.v Merge/Model.vos Merge/Spec.vos Merge/ProofsBase.vos Merge/ProofsRun.vos
Merge/ProofsMerge.vo Merge/ProofsMerge.glob Merge/ProofsMerge.v.beautified Merge/ProofsMerge.required_vo: Merge/ProofsMerge.v Merge/Model.vo Merge/Spec.vo Merge/ProofsBase.vo Merge/ProofsRun.vo
Merge/ProofsMerge.vio: Merge/ProofsMerge.v Merge/Model.vio Merge/Spec.vio Merge/ProofsBase.vio Merge/ProofsRun.vio
Merge/ProofsMerge.vos Merge/ProofsMerge.vok Merge/ProofsMerge.required_vos: Merge/ProofsMerge.v Merge/Model.vos Merge/Spec.vos Merge/ProofsBase.vos Merge/ProofsRun.vos
Merge/ProofsC08.vo Merge/ProofsC08.glob Merge/ProofsC08.v.beautified Merge/ProofsC08.required_vo: Merge/ProofsC08.v Merge/Model.vo Merge/Spec.vo Merge/ProofsBase.vo Merge/ProofsRun.vo Merge/ProofsMerge.vo
Merge/ProofsC08.vio: Merge/ProofsC08.v Merge/Model.vio Merge/Spec.vio Merge/ProofsBase.vio Merge/ProofsRun.vio Merge/ProofsMerge.vio
Merge/ProofsC08.vos Merge/ProofsC08.vok Merge/ProofsC08.required_vos: Merge/ProofsC08.v Merge/Model.vos Merge/Spec.vos Merge/ProofsBase.vos Merge/ProofsRun.vos Merge/ProofsMerge.vos
Merge/ProofsC08Mon.vo Merge/ProofsC08Mon.glob Merge/ProofsC08Mon.v.beautified Merge/ProofsC08Mon.required_vo: Merge/ProofsC08Mon.v Merge/Model.vo Merge/Spec.vo Merge/ProofsBase.vo Merge/ProofsRun.vo Merge/ProofsMerge.vo Merge/ProofsC08.vo
Merge/ProofsC08Mon.vio: Merge/ProofsC08Mon.v Merge/Model.vio Merge/Spec.vio Merge/ProofsBase.vio Merge/ProofsRun.vio Merge/ProofsMerge.vio Merge/ProofsC08.vio
Merge/ProofsC08Mon.vos Merge/ProofsC08Mon.vok Merge/ProofsC08Mon.required_vos: Merge/ProofsC08Mon.v Merge/Model.vos Merge/Spec.vos Merge/ProofsBase.vos Merge/ProofsRun.vos Merge/ProofsMerge.vos Merge/ProofsC08.vos
Merge/ProofsC08Refs.vo Merge/ProofsC08Refs.glob Merge/ProofsC08Refs.v.beautified Merge/ProofsC08Refs.required_vo: Merge/ProofsC08Refs.v Merge/Model.vo Merge/Spec.vo Merge/ProofsBase.vo Merge/ProofsRun.vo Merge/ProofsMerge.vo Merge/ProofsC08.vo Merge/ProofsC08Mon.vo
Merge/ProofsC08Refs.vio: Merge/ProofsC08Refs.v Merge/Model.vio Merge/Spec.vio Merge/ProofsBase.vio Merge/ProofsRun.vio Merge/ProofsMerge.vio Merge/ProofsC08.vio Merge/ProofsC08Mon.vio
Merge/ProofsC08Refs.vos Merge/ProofsC08Refs.vok Merge/ProofsC08Refs.required_vos: Merge/ProofsC08Refs.v Merge/Model.vos Merge/Spec.vos Merge/ProofsBase.vos Merge/ProofsRun.vos Merge/ProofsMerge.vos Merge/ProofsC08.vos Merge/ProofsC08Mon.vos
Merge/ProofsKeys.vo Merge/ProofsKeys.glob Merge/ProofsKeys.v.beautified Merge/ProofsKeys.required_vo: Merge/ProofsKeys.v Merge/Model.vo Merge/Spec.vo Merge/ProofsBase.vo Merge/ProofsRun.vo Merge/ProofsMerge.vo Merge/ProofsC08.vo Merge/ProofsC08Mon.vo
Merge/ProofsKeys.vio: Merge/ProofsKeys.v Merge/Model.vio Merge/Spec.vio Merge/ProofsBase.vio Merge/ProofsRun.vio Merge/ProofsMerge.vio Merge/ProofsC08.vio Merge/ProofsC08Mon.vio
Merge/ProofsKeys.vos Merge/ProofsKeys.vok Merge/ProofsKeys.required_vos: Merge/ProofsKeys.v Merge/Model.vos Merge/Spec.vos Merge/ProofsBase.vos Merge/ProofsRun.vos Merge/ProofsMerge.vos Merge/ProofsC08.vos Merge/ProofsC08Mon.vos
Merge/ProofsErrors.vo Merge/ProofsErrors.glob Merge/ProofsErrors.v.beautified Merge/ProofsErrors.required_vo: Merge/ProofsErrors.v Merge/Model.vo Merge/Spec.vo Merge/ProofsBase.vo Merge/ProofsRun.vo Merge/ProofsMerge.vo Merge/ProofsC08.vo Merge/ProofsC08Mon.vo
Merge/ProofsErrors.vio: Merge/ProofsErrors.v Merge/Model.vio Merge/Spec.vio Merge/ProofsBase.vio Merge/ProofsRun.vio Merge/ProofsMerge.vio Merge/ProofsC08.vio Merge/ProofsC08Mon.vio
Merge/ProofsErrors.vos Merge/ProofsErrors.vok Merge/ProofsErrors.required_vos: Merge/ProofsErrors.v Merge/Model.vos Merge/Spec.vos Merge/ProofsBase.vos Merge/ProofsRun.vos Merge/ProofsMerge.vos Merge/ProofsC08.vos Merge/ProofsC08Mon.vos
Merge/ProofsC09b.vo Merge/ProofsC09b.glob Merge/ProofsC09b.v.beautified Merge/ProofsC09b.required_vo: Merge/ProofsC09b.v Merge/Model.vo Merge/Spec.vo Merge/ProofsBase.vo Merge/ProofsRun.vo Merge/ProofsMerge.vo Merge/ProofsC08.vo Merge/ProofsC08Mon.vo Merge/ProofsC08Refs.vo Merge/ProofsKeys.vo
Merge/ProofsC09b.vio: Merge/ProofsC09b.v Merge/Model.vio Merge/Spec.vio Merge/ProofsBase.vio Merge/ProofsRun.vio Merge/ProofsMerge.vio Merge/ProofsC08.vio Merge/ProofsC08Mon.vio Merge/ProofsC08Refs.vio Merge/ProofsKeys.vio
Merge/ProofsC09b.vos Merge/ProofsC09b.vok Merge/ProofsC09b.required_vos: Merge/ProofsC09b.v Merge/Model.vos Merge/Spec.vos Merge/ProofsBase.vos Merge/ProofsRun.vos Merge/ProofsMerge.vos Merge/ProofsC08.vos Merge/ProofsC08Mon.vos Merge/ProofsC08Refs.vos Merge/ProofsKeys.vos
Run/MergeCases.vo Run/MergeCases.glob Run/MergeCases.v.beautified Run/MergeCases.required_vo: Run/MergeCases.v Merge/Model.vo Merge/Spec.vo Extracted/Facts.vo
Run/MergeCases.vio: Run/MergeCases.v Merge/Model.vio Merge/Spec.vio Extracted/Facts.vio
Run/MergeCases.vos Run/MergeCases.vok Run/MergeCases.required_vos: Run/MergeCases.v Merge/Model.vos Merge/Spec.vos Extracted/Facts.vos
Merge/ProofsCurrent.vo Merge/ProofsCurrent.glob Merge/ProofsCurrent.v.beautified Merge/ProofsCurrent.required_vo: Merge/ProofsCurrent.v Merge/Model.vo Merge/Spec.vo Merge/ProofsBase.vo Merge/ProofsRun.vo Merge/ProofsMerge.vo Merge/ProofsC08.vo Merge/ProofsC08Mon.vo Merge/ProofsC08Refs.vo Merge/ProofsC09.vo Merge/ProofsKeys.vo Extracted/Facts.vo Run/MergeCases.vo
Merge/ProofsCurrent.vio: Merge/ProofsCurrent.v Merge/Model.vio Merge/Spec.vio Merge/ProofsBase.vio Merge/ProofsRun.vio Merge/ProofsMerge.vio Merge/ProofsC08.vio Merge/ProofsC08Mon.vio Merge/ProofsC08Refs.vio Merge/ProofsC09.vio Merge/ProofsKeys.vio Extracted/Facts.vio Run/MergeCases.vio
Merge/ProofsCurrent.vos Merge/ProofsCurrent.vok Merge/ProofsCurrent.required_vos: Merge/ProofsCurrent.v Merge/Model.vos Merge/Spec.vos Merge/ProofsBase.vos Merge/ProofsRun.vos Merge/ProofsMerge.vos Merge/ProofsC08.vos Merge/ProofsC08Mon.vos Merge/ProofsC08Refs.vos Merge/ProofsC09.vos Merge/ProofsKeys.vos Extracted/Facts.vos Run/MergeCases.vos
Properties/C08.vo Properties/C08.glob Properties/C08.v.beautified Properties/C08.required_vo: Properties/C08.v Merge/Model.vo Merge/Spec.vo Merge/ProofsRun.vo Merge/ProofsC08.vo Merge/ProofsC08Mon.vo Merge/ProofsC08Refs.vo Merge/ProofsKeys.vo Merge/ProofsErrors.vo Extracted/Facts.vo Run/MergeCases.vo Merge/ProofsCurrent.vo
Properties/C08.vio: Properties/C08.v Merge/Model.vio Merge/Spec.vio Merge/ProofsRun.vio Merge/ProofsC08.vio Merge/ProofsC08Mon.vio Merge/ProofsC08Refs.vio Merge/ProofsKeys.vio Merge/ProofsErrors.vio Extracted/Facts.vio Run/MergeCases.vio Merge/ProofsCurrent.vio
Properties/C08.vos Properties/C08.vok Properties/C08.required_vos: Properties/C08.v Merge/Model.vos Merge/Spec.vos Merge/ProofsRun.vos Merge/ProofsC08.vos Merge/ProofsC08Mon.vos Merge/ProofsC08Refs.vos Merge/ProofsKeys.vos Merge/ProofsErrors.vos Extracted/Facts.vos Run/MergeCases.vos Merge/ProofsCurrent.vos
Properties/C09.vo Properties/C09.glob Properties/C09.v.beautified Properties/C09.required_vo: Properties/C09.v Merge/Model.vo Merge/Spec.vo Merge/ProofsRun.vo Merge/ProofsC08Mon.vo Merge/ProofsC08Refs.vo Merge/ProofsC09.vo Merge/ProofsKeys.vo Merge/ProofsC09b.vo Extracted/Facts.vo Run/MergeCases.vo Merge/ProofsCurrent.vo
Properties/C09.vio: Properties/C09.v Merge/Model.vio Merge/Spec.vio Merge/ProofsRun.vio Merge/ProofsC08Mon.vio Merge/ProofsC08Refs.vio Merge/ProofsC09.vio Merge/ProofsKeys.vio Merge/ProofsC09b.vio Extracted/Facts.vio Run/MergeCases.vio Merge/ProofsCurrent.vio
Properties/C09.vos Properties/C09.vok Properties/C09.required_vos: Properties/C09.v Merge/Model.vos Merge/Spec.vos Merge/ProofsRun.vos Merge/ProofsC08Mon.vos Merge/ProofsC08Refs.vos Merge/ProofsC09.vos Merge/ProofsKeys.vos Merge/ProofsC09b.vos Extracted/Facts.vos Run/MergeCases.vos Merge/ProofsCurrent.vos
