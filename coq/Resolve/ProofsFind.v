(* Proofs about model D (Resolve), part 2: the table level.
   exact name first; else the first task in table order whose pattern matches;
   else the unique alias; 203 for an ambiguous alias; 200 for an unknown name,
   nothing runs, the suggestion oracle sees every name and alias. *)
From Coq Require Import List Ascii Bool Arith Lia.
Import ListNotations.
From TV Require Import Resolve.Model Resolve.Proofs.

(* a variant that reads names the way the property states *)
Definition good (v : variant) : Prop := v_quote v = true /\ v_dotall v = true.

Lemma good_spec : good spec_variant.
Proof. split; reflexivity. Qed.

(* ---------------- exact lookup ---------------- *)

Lemma find_exact_some : forall tbl req t, find_exact tbl req = Some t -> t_name t = req /\ In t tbl.
Proof.
  induction tbl as [|t0 tbl IH]; intros req t H; cbn in H; [discriminate|].
  destruct (str_eqb (t_name t0) req) eqn:E.
  - inversion H; subst. apply str_eqb_spec in E. split; [exact E | left; reflexivity].
  - destruct (IH _ _ H) as [Hn Hin]. split; [exact Hn | right; exact Hin].
Qed.

Lemma find_exact_none : forall tbl req, find_exact tbl req = None <-> ~ In req (names tbl).
Proof.
  induction tbl as [|t0 tbl IH]; intros req; cbn.
  - split; [intros _ [] | reflexivity].
  - destruct (str_eqb (t_name t0) req) eqn:E.
    + apply str_eqb_spec in E. split; [discriminate | intros H; exfalso; apply H; left; exact E].
    + apply str_eqb_false in E. rewrite IH. split.
      * intros H [H1 | H1]; [exact (E H1) | exact (H H1)].
      * intros H H1. apply H. right. exact H1.
Qed.

Lemma find_exact_in : forall tbl req, In req (names tbl) -> exists t, find_exact tbl req = Some t /\ t_name t = req.
Proof.
  intros tbl req Hin. destruct (find_exact tbl req) as [t|] eqn:E.
  - exists t. split; [reflexivity | apply (find_exact_some _ _ _ E)].
  - apply find_exact_none in E. contradiction.
Qed.

Theorem exact_first : forall v tbl req, In req (names tbl) -> find v tbl req = Found Exact req [].
Proof.
  intros v tbl req Hin. unfold find. destruct (find_exact_in _ _ Hin) as [t [-> <-]]. reflexivity.
Qed.

(* ---------------- the wildcard scan of a good variant ---------------- *)

Lemma task_match_good : forall v n r, good v ->
  task_match v n r = match wildcard_match n r with Some ws => MYes ws | None => MNo end.
Proof. intros v n r [Hq Hd]. unfold task_match, wildcard_match. rewrite Hq, Hd. reflexivity. Qed.

Lemma scan_good : forall v tbl req, good v ->
  scan v tbl req = match first_wild tbl req with Some (n, ws) => SHit n ws | None => SNone end.
Proof.
  intros v tbl req Hg. unfold first_wild. induction tbl as [|t tbl IH]; cbn; [reflexivity|].
  rewrite (task_match_good _ _ _ Hg). destruct (wildcard_match (t_name t) req) as [ws|]; cbn.
  - rewrite IH. destruct (first_some _ tbl) as [[n ws']|]; reflexivity.
  - exact IH.
Qed.

Definition no_pattern (tbl : table) (req : str) : Prop :=
  forall t, In t tbl -> wildcard_match (t_name t) req = None.

Lemma first_wild_none : forall tbl req, first_wild tbl req = None <-> no_pattern tbl req.
Proof.
  intros tbl req. unfold first_wild, no_pattern. rewrite first_some_none. split.
  - intros H t Hin. specialize (H t Hin). destruct (wildcard_match (t_name t) req); [discriminate | reflexivity].
  - intros H t Hin. rewrite (H t Hin). reflexivity.
Qed.

Lemma first_wild_some : forall tbl req n ws,
  first_wild tbl req = Some (n, ws) <->
  exists pre t post, tbl = pre ++ t :: post /\ t_name t = n /\ wildcard_match n req = Some ws /\
                     no_pattern pre req.
Proof.
  intros tbl req n ws. unfold first_wild. split.
  - intros H. apply first_some_split in H. destruct H as [pre [t [post [-> [Ht Hpre]]]]].
    exists pre, t, post. destruct (wildcard_match (t_name t) req) as [ws0|] eqn:E; [|discriminate].
    cbn in Ht. inversion Ht; subst. repeat split; auto.
    intros t' Hin. specialize (Hpre t' Hin). destruct (wildcard_match (t_name t') req); [discriminate | reflexivity].
  - intros [pre [t [post [-> [<- [Hm Hpre]]]]]]. apply first_some_intro.
    + intros t' Hin. rewrite (Hpre t' Hin). reflexivity.
    + rewrite Hm. reflexivity.
Qed.

Theorem first_in_order : forall v tbl req pre t post ws, good v ->
  ~ In req (names tbl) -> tbl = pre ++ t :: post -> no_pattern pre req ->
  wildcard_match (t_name t) req = Some ws ->
  find v tbl req = Found Wild (t_name t) ws.
Proof.
  intros v tbl req pre t post ws Hg Hno Htbl Hpre Hm. unfold find.
  apply find_exact_none in Hno. rewrite Hno, (scan_good _ _ _ Hg).
  assert (first_wild tbl req = Some (t_name t, ws)) as ->.
  { apply first_wild_some. exists pre, t, post. auto. }
  reflexivity.
Qed.

(* ---------------- aliases ---------------- *)

Lemma aliased_in : forall tbl req n,
  In n (aliased tbl req) <-> exists t, In t tbl /\ t_name t = n /\ In req (t_aliases t).
Proof.
  intros tbl req n. unfold aliased. rewrite in_map_iff. split.
  - intros [t [Hn Hin]]. apply filter_In in Hin. destruct Hin as [Hin Hm]. apply mem_spec in Hm. exists t. auto.
  - intros [t [Hin [Hn Ha]]]. exists t. split; [exact Hn|]. apply filter_In. split; [exact Hin | apply mem_spec; exact Ha].
Qed.

(* ---------------- one statement for every outcome ---------------- *)

Theorem find_characterisation : forall v tbl req, good v ->
  match find v tbl req with
  | Found Exact n ws => n = req /\ ws = [] /\ In req (names tbl)
  | Found Wild n ws =>
      ~ In req (names tbl) /\
      exists pre t post, tbl = pre ++ t :: post /\ t_name t = n /\ wildcard_match n req = Some ws /\ no_pattern pre req
  | Found Alias n ws =>
      ws = [] /\ ~ In req (names tbl) /\ no_pattern tbl req /\ aliased tbl req = [n]
  | Ambiguous ns =>
      ~ In req (names tbl) /\ no_pattern tbl req /\ aliased tbl req = ns /\ length ns >= 2
  | NotFound w =>
      ~ In req (names tbl) /\ no_pattern tbl req /\ aliased tbl req = [] /\
      w = (if v_fuzzy v then Some (words tbl) else None)
  | Panicked | Unmodelled => False
  end.
Proof.
  intros v tbl req Hg. unfold find. destruct (find_exact tbl req) as [t|] eqn:Ee.
  - destruct (find_exact_some _ _ _ Ee) as [Hn Hin]. repeat split; auto. rewrite <- Hn. apply in_map. exact Hin.
  - apply find_exact_none in Ee. rewrite (scan_good _ _ _ Hg).
    destruct (first_wild tbl req) as [[n ws]|] eqn:Ew.
    + split; [exact Ee|]. apply first_wild_some. exact Ew.
    + apply first_wild_none in Ew. destruct (aliased tbl req) as [|n [|n2 l]] eqn:Ea.
      * repeat split; auto.
      * repeat split; auto.
      * repeat split; auto. cbn. lia.
Qed.

Theorem spec_total : forall v tbl req, good v -> find v tbl req <> Panicked /\ find v tbl req <> Unmodelled.
Proof.
  intros v tbl req Hg. assert (H := find_characterisation v tbl req Hg).
  destruct (find v tbl req); try contradiction; split; discriminate.
Qed.

Theorem alias_unique : forall v tbl req n, good v ->
  ~ In req (names tbl) -> no_pattern tbl req -> aliased tbl req = [n] ->
  find v tbl req = Found Alias n [].
Proof.
  intros v tbl req n Hg Hno Hnp Ha. unfold find.
  apply find_exact_none in Hno. apply first_wild_none in Hnp.
  rewrite Hno, (scan_good _ _ _ Hg), Hnp, Ha. reflexivity.
Qed.

Theorem alias_ambiguous : forall v k tbl req, good v ->
  ~ In req (names tbl) -> no_pattern tbl req -> length (aliased tbl req) >= 2 ->
  find v tbl req = Ambiguous (aliased tbl req) /\
  outcome_code k (find v tbl req) = Some (code_conflict k).
Proof.
  intros v k tbl req Hg Hno Hnp Hlen. unfold find.
  apply find_exact_none in Hno. apply first_wild_none in Hnp.
  rewrite Hno, (scan_good _ _ _ Hg), Hnp.
  destruct (aliased tbl req) as [|n [|n2 l]]; cbn in Hlen; try lia. split; reflexivity.
Qed.

Theorem unknown_not_found : forall v k tbl req, good v ->
  ~ In req (names tbl) -> no_pattern tbl req -> aliased tbl req = [] ->
  find v tbl req = NotFound (if v_fuzzy v then Some (words tbl) else None) /\
  outcome_code k (find v tbl req) = Some (code_not_found k).
Proof.
  intros v k tbl req Hg Hno Hnp Ha. unfold find.
  apply find_exact_none in Hno. apply first_wild_none in Hnp.
  rewrite Hno, (scan_good _ _ _ Hg), Hnp, Ha. split; reflexivity.
Qed.

(* ---------------- Run: nothing runs unless every requested name resolves ---------------- *)

Theorem run_nothing_on_error : forall v k tbl reqs r,
  In r reqs -> is_found (find v tbl r) = false -> fst (run_calls v k tbl reqs) = [].
Proof.
  intros v k tbl reqs r Hin Hbad. unfold run_calls.
  destruct (filter (fun o => negb (is_found o)) (map (find v tbl) reqs)) as [|bad rest] eqn:E; [|reflexivity].
  exfalso. assert (Hf : In (find v tbl r) (filter (fun o => negb (is_found o)) (map (find v tbl) reqs))).
  { apply filter_In. split; [apply in_map; exact Hin | rewrite Hbad; reflexivity]. }
  rewrite E in Hf. destruct Hf.
Qed.

Theorem run_unknown : forall v k tbl pre req post, good v ->
  (forall r, In r pre -> is_found (find v tbl r) = true) ->
  ~ In req (names tbl) -> no_pattern tbl req -> aliased tbl req = [] ->
  run_calls v k tbl (pre ++ req :: post) = ([], Some (code_not_found k)).
Proof.
  intros v k tbl pre req post Hg Hpre Hno Hnp Ha. unfold run_calls.
  rewrite map_app, filter_app. cbn.
  assert (filter (fun o => negb (is_found o)) (map (find v tbl) pre) = []) as ->.
  { induction pre as [|p pre IH]; cbn; [reflexivity|].
    rewrite (Hpre p (or_introl eq_refl)). cbn. apply IH. intros r Hr. apply Hpre. right. exact Hr. }
  destruct (unknown_not_found v k tbl req Hg Hno Hnp Ha) as [-> _]. reflexivity.
Qed.

(* ---------------- the suggestion oracle is asked over every name and alias ---------------- *)

Lemma words_in : forall tbl w,
  In w (words tbl) <-> In w (names tbl) \/ exists t, In t tbl /\ In w (t_aliases t).
Proof.
  intros tbl w. unfold words, names. rewrite in_flat_map. split.
  - intros [t [Hin [<- | Ha]]].
    + left. apply in_map. exact Hin.
    + right. exists t. auto.
  - intros [Hn | [t [Hin Ha]]].
    + apply in_map_iff in Hn. destruct Hn as [t [<- Hin]]. exists t. split; [exact Hin | left; reflexivity].
    + exists t. split; [exact Hin | right; exact Ha].
Qed.

Theorem suggestion_attempted : forall v tbl req wds, good v -> v_fuzzy v = true ->
  find v tbl req = NotFound wds ->
  wds = Some (words tbl) /\
  (forall n, In n (names tbl) -> In n (words tbl)) /\
  (forall t a, In t tbl -> In a (t_aliases t) -> In a (words tbl)).
Proof.
  intros v tbl req wds Hg Hf H. assert (Hc := find_characterisation v tbl req Hg). rewrite H in Hc.
  destruct Hc as [_ [_ [_ ->]]]. rewrite Hf. repeat split.
  - intros n Hn. apply words_in. left. exact Hn.
  - intros t a Hin Ha. apply words_in. right. exists t. auto.
Qed.

(* ---------------- the monitor ---------------- *)

Theorem mon_choice_holds : forall v tbl req closest, good v ->
  mon_choice tbl req (observe closest req (find v tbl req)) = true.
Proof.
  intros v tbl req closest Hg. unfold mon_choice, find.
  destruct (find_exact tbl req) as [t|] eqn:Ee.
  - destruct (find_exact_some _ _ _ Ee) as [Hn Hin].
    assert (mem req (names tbl) = true) as ->.
    { apply mem_spec. rewrite <- Hn. apply in_map. exact Hin. }
    cbn. rewrite Hn, str_eqb_refl. reflexivity.
  - assert (mem req (names tbl) = false) as -> by (apply mem_false; apply find_exact_none; exact Ee).
    rewrite (scan_good _ _ _ Hg). destruct (first_wild tbl req) as [[n ws]|].
    + apply obs_eqb_refl.
    + destruct (aliased tbl req) as [|n [|n2 l]]; cbn.
      * destruct (v_fuzzy v); reflexivity.
      * rewrite str_eqb_refl. reflexivity.
      * rewrite !str_eqb_refl, strl_eqb_refl. reflexivity.
Qed.

Section Oracle.
  (* the suggestion library: returns a word it was trained on, and returns one
     whenever a word-like request is one edit away from a word-like word *)
  Variable closest : oracle.
  Hypothesis closest_sound : forall wds r w, closest wds r = Some w -> In w wds /\ w <> [].
  Hypothesis closest_complete : forall wds r, has_close wds r = true -> closest wds r <> None.

  Theorem mon_suggest_holds : forall v tbl req, good v -> v_fuzzy v = true ->
    mon_suggest tbl req (observe closest req (find v tbl req)) = true.
  Proof.
    intros v tbl req Hg Hf. assert (Hc := find_characterisation v tbl req Hg).
    destruct (find v tbl req) as [h n ws|ns|wds| |]; try reflexivity; try contradiction.
    destruct Hc as [_ [_ [_ ->]]]. rewrite Hf. cbn.
    destruct (closest (words tbl) req) as [w|] eqn:Ec.
    - destruct (closest_sound _ _ _ Ec) as [Hin Hne]. destruct w as [|c w]; [congruence|].
      apply andb_true_iff. split.
      + apply mem_spec. exact Hin.
      + destruct (has_close (words tbl) req); reflexivity.
    - cbn. destruct (has_close (words tbl) req) eqn:Eh; [|reflexivity].
      exfalso. exact (closest_complete _ _ Eh Ec).
  Qed.

  Theorem monitor_holds : forall v tbl req, good v -> v_fuzzy v = true ->
    mon_C15 tbl req (observe closest req (find v tbl req)) = true.
  Proof.
    intros v tbl req Hg Hf. unfold mon_C15.
    rewrite (mon_choice_holds v tbl req closest Hg), (mon_suggest_holds v tbl req Hg Hf). reflexivity.
  Qed.
End Oracle.

(* ---------------- CLI level: exit status and what ran ---------------- *)

Lemma ran_eqb_refl : forall a, ran_eqb a a = true.
Proof.
  induction a as [|[n ws] a IH]; cbn; [reflexivity|].
  rewrite str_eqb_refl, strl_eqb_refl, IH. reflexivity.
Qed.

Definition ran_of (o : outcome) : list (str * list str) :=
  match o with Found _ n ws => [(n, ws)] | _ => [] end.

Lemma find_expected : forall v tbl req, good v ->
  outcome_code spec_codes (find v tbl req) = Some (expected_code tbl req) /\
  ran_of (find v tbl req) = expected_run tbl req /\
  (is_found (find v tbl req) = true <-> expected_code tbl req = 0).
Proof.
  intros v tbl req Hg. unfold expected_code, expected_run, find.
  destruct (find_exact tbl req) as [t|] eqn:Ee.
  - destruct (find_exact_some _ _ _ Ee) as [Hn Hin].
    assert (mem req (names tbl) = true) as ->.
    { apply mem_spec. rewrite <- Hn. apply in_map. exact Hin. }
    cbn. rewrite Hn. repeat split; auto.
  - assert (mem req (names tbl) = false) as -> by (apply mem_false; apply find_exact_none; exact Ee).
    rewrite (scan_good _ _ _ Hg). destruct (first_wild tbl req) as [[n ws]|].
    + cbn. repeat split; auto.
    + destruct (aliased tbl req) as [|n [|n2 l]]; cbn; repeat split; auto; try discriminate.
Qed.

Lemma run_calls_expected : forall v tbl reqs, good v ->
  match filter (fun o => negb (is_found o)) (map (find v tbl) reqs) with
  | [] => first_nonzero (map (expected_code tbl) reqs) = 0 /\
          flat_map ran_of (map (find v tbl) reqs) = flat_map (expected_run tbl) reqs
  | bad :: _ => exists c, outcome_code spec_codes bad = Some c /\ c <> 0 /\
                          first_nonzero (map (expected_code tbl) reqs) = c
  end.
Proof.
  intros v tbl reqs Hg. induction reqs as [|r reqs IH]; cbn [map filter flat_map first_nonzero].
  - split; reflexivity.
  - destruct (find_expected v tbl r Hg) as [Hcode [Hran Hfound]].
    destruct (is_found (find v tbl r)) eqn:Ef; cbn [negb].
    + assert (E0 : expected_code tbl r = 0) by (apply Hfound; reflexivity). rewrite E0.
      destruct (filter (fun o => negb (is_found o)) (map (find v tbl) reqs)) as [|bad rest].
      * destruct IH as [IH1 IH2]. split; [exact IH1|]. rewrite Hran, IH2. reflexivity.
      * exact IH.
    + assert (En : expected_code tbl r <> 0).
      { intros E0. apply Hfound in E0. congruence. }
      exists (expected_code tbl r). repeat split; auto.
      destruct (expected_code tbl r); [congruence | reflexivity].
Qed.

Theorem mon_cli_holds : forall v tbl reqs ran code, good v ->
  run_calls v spec_codes tbl reqs = (ran, Some code) -> mon_cli tbl reqs code ran = true.
Proof.
  intros v tbl reqs ran code Hg. unfold run_calls, mon_cli.
  assert (H := run_calls_expected v tbl reqs Hg).
  destruct (filter (fun o => negb (is_found o)) (map (find v tbl) reqs)) as [|bad rest].
  - destruct H as [H1 H2]. intros E. inversion E; subst. rewrite H1. cbn.
    change (flat_map _ (map (find v tbl) reqs)) with (flat_map ran_of (map (find v tbl) reqs)).
    rewrite H2. apply ran_eqb_refl.
  - destruct H as [c [Hc [Hne Hf]]]. intros E. inversion E as [[Hr Hcode]]. rewrite Hc in Hcode.
    inversion Hcode; subst. rewrite Nat.eqb_refl. cbn.
    destruct (first_nonzero (map (expected_code tbl) reqs)); [congruence | reflexivity].
Qed.
