(* Proofs about model D (Resolve), part 1: the property's reading of a pattern.
   wildcard_match is sound and complete for "put strings in place of the stars,
   everything else literally", and returns the left-most greedy solution. *)
From Coq Require Import List Ascii Bool Arith Lia.
Import ListNotations.
From TV Require Import Resolve.Model.

(* ---------------- boolean equalities ---------------- *)

Lemma str_eqb_spec : forall a b, str_eqb a b = true <-> a = b.
Proof.
  induction a as [|x a IH]; destruct b as [|y b]; cbn; try (split; congruence).
  rewrite andb_true_iff, Ascii.eqb_eq, IH. split.
  - intros [-> ->]; reflexivity.
  - intros H; inversion H; auto.
Qed.

Lemma str_eqb_refl : forall a, str_eqb a a = true.
Proof. intros a; apply str_eqb_spec; reflexivity. Qed.

Lemma str_eqb_false : forall a b, str_eqb a b = false <-> a <> b.
Proof.
  intros a b. destruct (str_eqb a b) eqn:E.
  - apply str_eqb_spec in E. split; [discriminate | congruence].
  - split; [|reflexivity]. intros _ H. apply str_eqb_spec in H. congruence.
Qed.

Lemma str_eqb_sym : forall a b, str_eqb a b = str_eqb b a.
Proof.
  intros a b. destruct (str_eqb a b) eqn:E1, (str_eqb b a) eqn:E2; auto.
  - apply str_eqb_spec in E1. subst. rewrite str_eqb_refl in E2. discriminate.
  - apply str_eqb_spec in E2. subst. rewrite str_eqb_refl in E1. discriminate.
Qed.

Lemma strl_eqb_spec : forall a b, strl_eqb a b = true <-> a = b.
Proof.
  induction a as [|x a IH]; destruct b as [|y b]; cbn; try (split; congruence).
  rewrite andb_true_iff, str_eqb_spec, IH. split.
  - intros [-> ->]; reflexivity.
  - intros H; inversion H; auto.
Qed.

Lemma strl_eqb_refl : forall a, strl_eqb a a = true.
Proof. intros a; apply strl_eqb_spec; reflexivity. Qed.

Lemma mem_spec : forall x l, mem x l = true <-> In x l.
Proof.
  intros x l. unfold mem. rewrite existsb_exists. split.
  - intros [y [Hin Heq]]. apply str_eqb_spec in Heq. subst. exact Hin.
  - intros Hin. exists x. split; [exact Hin | apply str_eqb_refl].
Qed.

Lemma mem_false : forall x l, mem x l = false <-> ~ In x l.
Proof.
  intros x l. destruct (mem x l) eqn:E.
  - apply mem_spec in E. split; [discriminate | tauto].
  - split; [|reflexivity]. intros _ H. apply mem_spec in H. congruence.
Qed.

Lemma obs_eqb_refl : forall o, obs_eqb o o = true.
Proof.
  destruct o; cbn; rewrite ?str_eqb_refl, ?strl_eqb_refl; reflexivity.
Qed.

Lemma obs_eqb_spec : forall a b, obs_eqb a b = true <-> a = b.
Proof.
  intros a b. split.
  - destruct a, b; cbn; try discriminate; try reflexivity.
    + rewrite andb_true_iff, str_eqb_spec, strl_eqb_spec. intros [-> ->]. reflexivity.
    + rewrite strl_eqb_spec. intros ->. reflexivity.
    + rewrite str_eqb_spec. intros ->. reflexivity.
  - intros ->. apply obs_eqb_refl.
Qed.

(* ---------------- first_some ---------------- *)

Lemma first_some_app : forall {A B} (f : A -> option B) l1 l2,
  first_some f (l1 ++ l2) = match first_some f l1 with Some y => Some y | None => first_some f l2 end.
Proof.
  induction l1 as [|x l1 IH]; intros l2; cbn; [reflexivity|].
  destruct (f x); [reflexivity | apply IH].
Qed.

Lemma first_some_map : forall {A B C} (f : B -> option C) (g : A -> B) l,
  first_some f (map g l) = first_some (fun x => f (g x)) l.
Proof.
  induction l as [|x l IH]; cbn; [reflexivity|]. destruct (f (g x)); [reflexivity | exact IH].
Qed.

Lemma first_some_none : forall {A B} (f : A -> option B) l,
  first_some f l = None <-> forall x, In x l -> f x = None.
Proof.
  induction l as [|x l IH]; cbn.
  - split; [intros _ y [] | reflexivity].
  - destruct (f x) eqn:E.
    + split; [discriminate|]. intros H. specialize (H x (or_introl eq_refl)). congruence.
    + rewrite IH. split.
      * intros H y [<- | Hy]; auto.
      * intros H y Hy. apply H. right. exact Hy.
Qed.

(* the first hit, with everything before it failing *)
Lemma first_some_split : forall {A B} (f : A -> option B) l y,
  first_some f l = Some y ->
  exists pre x post, l = pre ++ x :: post /\ f x = Some y /\ forall z, In z pre -> f z = None.
Proof.
  induction l as [|x l IH]; cbn; intros y H; [discriminate|].
  destruct (f x) eqn:E.
  - inversion H; subst. exists [], x, l. repeat split; auto. intros z [].
  - destruct (IH y H) as [pre [x' [post [-> [Hx Hpre]]]]].
    exists (x :: pre), x', post. repeat split; auto.
    intros z [<- | Hz]; auto.
Qed.

Lemma first_some_intro : forall {A B} (f : A -> option B) pre x post y,
  (forall z, In z pre -> f z = None) -> f x = Some y ->
  first_some f (pre ++ x :: post) = Some y.
Proof.
  intros A B f pre x post y Hpre Hx. rewrite first_some_app.
  assert (first_some f pre = None) as -> by (apply first_some_none; exact Hpre).
  cbn. rewrite Hx. reflexivity.
Qed.

(* ---------------- strip_prefix, cuts ---------------- *)

Lemma strip_prefix_spec : forall l s r, strip_prefix l s = Some r <-> s = l ++ r.
Proof.
  induction l as [|a l IH]; intros s r; cbn.
  - split; [intros H; inversion H; reflexivity | intros ->; reflexivity].
  - destruct s as [|b s].
    + split; discriminate.
    + destruct (Ascii.eqb a b) eqn:E.
      * apply Ascii.eqb_eq in E. subst. rewrite IH. split; [intros ->; reflexivity | intros H; inversion H; reflexivity].
      * split; [discriminate|]. intros H. inversion H. subst. rewrite Ascii.eqb_refl in E. discriminate.
Qed.

Lemma strip_prefix_app : forall l r, strip_prefix l (l ++ r) = Some r.
Proof. intros l r. apply strip_prefix_spec. reflexivity. Qed.

Lemma strip_prefix_none : forall l s, strip_prefix l s = None <-> forall r, s <> l ++ r.
Proof.
  intros l s. destruct (strip_prefix l s) eqn:E.
  - apply strip_prefix_spec in E. split; [discriminate|]. intros H. exfalso. exact (H _ E).
  - split; [|reflexivity]. intros _ r Hr. apply strip_prefix_spec in Hr. congruence.
Qed.

Lemma cuts_in : forall s w r, In (w, r) (cuts s) <-> s = w ++ r.
Proof.
  induction s as [|c s IH]; intros w r; cbn.
  - split.
    + intros [H | []]. inversion H. reflexivity.
    + intros H. symmetry in H. apply app_eq_nil in H. destruct H as [-> ->]. left. reflexivity.
  - rewrite in_app_iff, in_map_iff. split.
    + intros [[[w' r'] [Heq Hin]] | [Heq | []]].
      * cbn in Heq. inversion Heq; subst. apply IH in Hin. subst. reflexivity.
      * inversion Heq; subst. reflexivity.
    + intros H. destruct w as [|c' w].
      * cbn in H. subst r. right. left. reflexivity.
      * cbn in H. inversion H; subst. left. exists (w, r). split; [reflexivity|]. apply IH. reflexivity.
Qed.

(* the candidates are tried longest first *)
Lemma first_some_cuts : forall {B} (f : str * str -> option B) s y,
  first_some f (cuts s) = Some y ->
  exists w r, s = w ++ r /\ f (w, r) = Some y /\
              forall w' r', s = w' ++ r' -> length w' > length w -> f (w', r') = None.
Proof.
  intros B f s. revert f. induction s as [|c s IH]; intros f y H; cbn in H.
  - match type of H with match ?t with _ => _ end = _ => destruct t eqn:E end; [|discriminate]. inversion H; subst.
    exists [], []. repeat split; auto.
    intros w' r' Heq Hlen. symmetry in Heq. apply app_eq_nil in Heq. destruct Heq as [-> _]. cbn in Hlen. lia.
  - rewrite first_some_app, first_some_map in H.
    destruct (first_some (fun x => f (c :: fst x, snd x)) (cuts s)) eqn:E.
    + inversion H; subst. apply IH in E. destruct E as [w [r [-> [Hf Hmax]]]].
      exists (c :: w), r. repeat split; auto.
      intros w' r' Heq Hlen. destruct w' as [|c' w']; [cbn in Hlen; lia|].
      cbn in Heq. inversion Heq; subst. apply (Hmax w' r'); [assumption | cbn in Hlen; lia].
    + cbn in H. match type of H with match ?t with _ => _ end = _ => destruct t eqn:E0 end; [|discriminate]. inversion H; subst.
      exists [], (c :: s). repeat split; auto.
      intros w' r' Heq Hlen. destruct w' as [|c' w']; [cbn in Hlen; lia|].
      cbn in Heq. inversion Heq; subst.
      assert (Hn := proj1 (first_some_none _ _) E (w', r')).
      cbn in Hn. apply Hn. apply cuts_in. reflexivity.
Qed.

Lemma first_some_cuts_none : forall {B} (f : str * str -> option B) s,
  first_some f (cuts s) = None <-> forall w r, s = w ++ r -> f (w, r) = None.
Proof.
  intros B f s. rewrite first_some_none. split.
  - intros H w r Heq. apply H. apply cuts_in. exact Heq.
  - intros H [w r] Hin. apply H. apply cuts_in. exact Hin.
Qed.

(* ---------------- the declarative reading, in split form ---------------- *)

(* s = w1 ++ l1 ++ w2 ++ l2 ... *)
Fixpoint fill_tail (ls : list str) (ws : list str) : option str :=
  match ls, ws with
  | [], [] => Some []
  | l :: ls', w :: ws' => option_map (fun r => w ++ l ++ r) (fill_tail ls' ws')
  | _, _ => None
  end.

Lemma subst_split : forall p ws,
  subst p ws = option_map (app (fst (split_star p))) (fill_tail (snd (split_star p)) ws).
Proof.
  induction p as [|c p IH]; intros ws; cbn.
  - destruct ws; reflexivity.
  - destruct (split_star p) as [l ls] eqn:E. cbn in IH.
    destruct (Ascii.eqb c star); cbn.
    + destruct ws as [|w ws]; [reflexivity|]. rewrite IH.
      destruct (fill_tail ls ws); reflexivity.
    + rewrite IH. destruct (fill_tail ls ws); reflexivity.
Qed.

Lemma fill_tail_length : forall ls ws s, fill_tail ls ws = Some s -> length ws = length ls.
Proof.
  induction ls as [|l ls IH]; intros [|w ws] s H; cbn in *; try discriminate; auto.
  destruct (fill_tail ls ws) eqn:E; [|discriminate]. f_equal. eapply IH. exact E.
Qed.

Lemma app_eq_len : forall (a c b d : str), a ++ b = c ++ d -> length a = length c -> a = c /\ b = d.
Proof.
  induction a as [|x a IH]; intros [|y c] b d H Hl; cbn in *; try discriminate; auto.
  inversion H; subst. destruct (IH c b d) as [-> ->]; auto.
Qed.

(* ---------------- match_tail ---------------- *)

Lemma match_tail_sound : forall ok ls s ws,
  match_tail ok ls s = Some ws -> fill_tail ls ws = Some s /\ Forall (fun w => ok w = true) ws.
Proof.
  induction ls as [|l ls IH]; intros s ws H; cbn in H.
  - destruct s; [|discriminate]. inversion H; subst. split; [reflexivity | constructor].
  - apply first_some_cuts in H. destruct H as [w [r [-> [Hf _]]]]. cbn in Hf.
    destruct (ok w) eqn:Eok; [|discriminate].
    destruct (strip_prefix l r) as [r'|] eqn:Ep; [|discriminate].
    destruct (match_tail ok ls r') as [ws'|] eqn:Em; [|discriminate].
    inversion Hf; subst. apply strip_prefix_spec in Ep. subst r.
    destruct (IH _ _ Em) as [Hfill Hok]. split.
    + cbn. rewrite Hfill. reflexivity.
    + constructor; assumption.
Qed.

Lemma match_tail_complete : forall ok ls s ws',
  fill_tail ls ws' = Some s -> Forall (fun w => ok w = true) ws' ->
  exists ws, match_tail ok ls s = Some ws.
Proof.
  induction ls as [|l ls IH]; intros s ws' Hfill Hok.
  - destruct ws'; cbn in Hfill; [|discriminate]. inversion Hfill; subst. exists []. reflexivity.
  - destruct ws' as [|w ws']; cbn in Hfill; [discriminate|].
    destruct (fill_tail ls ws') as [r'|] eqn:E; [|discriminate]. inversion Hfill; subst.
    inversion Hok as [|? ? Hw Hws]; subst.
    destruct (IH _ _ E Hws) as [ws0 Hws0].
    cbn. match goal with |- exists ws, first_some ?f ?l = Some ws => destruct (first_some f l) eqn:Ef end.
    + eexists; reflexivity.
    + exfalso. assert (Hn := proj1 (first_some_cuts_none _ _) Ef w (l ++ r') eq_refl).
      cbn in Hn. rewrite Hw, strip_prefix_app, Hws0 in Hn. discriminate.
Qed.

Lemma match_tail_greedy : forall ok ls s ws,
  match_tail ok ls s = Some ws ->
  forall ws', fill_tail ls ws' = Some s -> Forall (fun w => ok w = true) ws' ->
  lex_ge (map (@length ascii) ws) (map (@length ascii) ws').
Proof.
  induction ls as [|l ls IH]; intros s ws H ws' Hfill Hok; cbn in H.
  - destruct s; [|discriminate]. inversion H; subst. cbn. exact I.
  - apply first_some_cuts in H. destruct H as [w [r [Hs [Hf Hmax]]]]. cbn in Hf.
    destruct (ok w) eqn:Eok; [|discriminate].
    destruct (strip_prefix l r) as [r1|] eqn:Ep; [|discriminate].
    destruct (match_tail ok ls r1) as [ws1|] eqn:Em; [|discriminate].
    inversion Hf; subst ws. apply strip_prefix_spec in Ep. subst r.
    destruct ws' as [|w' ws']; cbn in Hfill; [discriminate|].
    destruct (fill_tail ls ws') as [r2|] eqn:E2; [|discriminate]. inversion Hfill as [Hs2].
    inversion Hok as [|? ? Hw' Hws']; subst.
    cbn. destruct (Nat.lt_trichotomy (length w) (length w')) as [Hlt | [Heq | Hgt]].
    + (* a longer first filling exists: the algorithm would have taken it (or a longer one) *)
      exfalso. assert (Hn := Hmax w' (l ++ r2) (eq_sym Hs2) Hlt). cbn in Hn.
      rewrite Hw', strip_prefix_app in Hn.
      destruct (match_tail_complete ok ls r2 ws' E2 Hws') as [ws0 H0]. rewrite H0 in Hn. discriminate.
    + right. split; [exact Heq|].
      assert (w = w' /\ r1 = r2) as [-> ->].
      { assert (Hww : w ++ l ++ r1 = w' ++ l ++ r2) by congruence.
        destruct (app_eq_len _ _ _ _ Hww Heq) as [-> Hrest]. split; [reflexivity|].
        apply app_inv_head in Hrest. exact Hrest. }
      eapply IH; eauto.
    + left. exact Hgt.
Qed.

Lemma fill_tail_unique : forall ls ws ws' s,
  fill_tail ls ws = Some s -> fill_tail ls ws' = Some s ->
  map (@length ascii) ws = map (@length ascii) ws' -> ws = ws'.
Proof.
  induction ls as [|l ls IH]; intros [|w ws] [|w' ws'] s H H' Hl; cbn in *; try discriminate; auto.
  destruct (fill_tail ls ws) as [r|] eqn:E; [|discriminate].
  destruct (fill_tail ls ws') as [r'|] eqn:E'; [|discriminate].
  inversion H; inversion H'; subst. inversion Hl as [[Hlen Hrest]].
  assert (Hww : w ++ l ++ r = w' ++ l ++ r') by congruence.
  destruct (app_eq_len _ _ _ _ Hww Hlen) as [-> Hrest2]. f_equal.
  apply app_inv_head in Hrest2. subst r'.
  eapply IH; eauto.
Qed.

Lemma lex_ge_antisym : forall a b, length a = length b -> lex_ge a b -> lex_ge b a -> a = b.
Proof.
  induction a as [|x a IH]; intros [|y b] Hl H1 H2; cbn in *; try discriminate; auto.
  destruct H1 as [H1 | [-> H1]]; destruct H2 as [H2 | [E H2]]; try lia.
  f_equal. apply IH; auto.
Qed.

Lemma lex_ge_refl : forall a, lex_ge a a.
Proof. induction a as [|x a IH]; cbn; auto. Qed.

(* ---------------- the theorem about the specification ---------------- *)

Lemma all_any_ok : forall ws, Forall (fun w : str => any_ok w = true) ws.
Proof. induction ws; constructor; auto. Qed.

Theorem wildcard_sound_complete : forall p n ws,
  wildcard_match p n = Some ws <-> subst p ws = Some n /\ greedy p n ws.
Proof.
  intros p n ws. unfold wildcard_match, wildcard_match_gen, greedy.
  assert (Hsub := subst_split p). destruct (split_star p) as [l0 ls]. cbn in Hsub.
  split.
  - intros H. destruct (strip_prefix l0 n) as [r|] eqn:Ep; [|discriminate].
    apply strip_prefix_spec in Ep. subst n.
    destruct (match_tail_sound _ _ _ _ H) as [Hfill _]. split.
    + rewrite Hsub, Hfill. reflexivity.
    + intros ws' H'. rewrite Hsub in H'. destruct (fill_tail ls ws') as [r'|] eqn:E'; [|discriminate].
      cbn in H'. inversion H' as [Heq]. apply app_inv_head in Heq. subst r'.
      eapply match_tail_greedy; eauto. apply all_any_ok.
  - intros [Hs Hg]. rewrite Hsub in Hs. destruct (fill_tail ls ws) as [r|] eqn:E; [|discriminate].
    cbn in Hs. inversion Hs; subst n. rewrite strip_prefix_app.
    destruct (match_tail_complete any_ok ls r ws E (all_any_ok _)) as [ws0 H0]. rewrite H0. f_equal.
    destruct (match_tail_sound _ _ _ _ H0) as [Hfill0 _].
    assert (Hge0 : lex_ge (map (@length ascii) ws0) (map (@length ascii) ws)).
    { eapply match_tail_greedy; eauto. apply all_any_ok. }
    assert (Hge : lex_ge (map (@length ascii) ws) (map (@length ascii) ws0)).
    { apply Hg. rewrite Hsub, Hfill0. reflexivity. }
    eapply fill_tail_unique; eauto. apply lex_ge_antisym; auto.
    rewrite !map_length. transitivity (length ls); [eapply fill_tail_length; eauto | symmetry; eapply fill_tail_length; eauto].
Qed.

(* at most one answer, and it exists as soon as any filling exists *)
Theorem wildcard_complete : forall p n ws',
  subst p ws' = Some n -> exists ws, wildcard_match p n = Some ws.
Proof.
  intros p n ws' H. unfold wildcard_match, wildcard_match_gen.
  rewrite subst_split in H. destruct (split_star p) as [l0 ls]. cbn in H.
  destruct (fill_tail ls ws') as [r|] eqn:E; [|discriminate]. inversion H; subst n.
  rewrite strip_prefix_app. eapply match_tail_complete; eauto. apply all_any_ok.
Qed.

(* the number of .MATCH elements is the number of stars *)
Lemma subst_count : forall p ws n, subst p ws = Some n -> length ws = count_star p.
Proof.
  unfold count_star. induction p as [|c p IH]; intros ws n H; cbn in *.
  - destruct ws; [reflexivity | discriminate].
  - destruct (Ascii.eqb c star); cbn.
    + destruct ws as [|w ws]; [discriminate|]. destruct (subst p ws) eqn:E; [|discriminate].
      cbn. f_equal. eapply IH; eauto.
    + destruct (subst p ws) eqn:E; [|discriminate]. eapply IH; eauto.
Qed.

(* a name without a star matches itself and nothing else: every character is literal *)
Lemma subst_no_star : forall p, count_star p = 0 -> forall ws n, subst p ws = Some n <-> ws = [] /\ n = p.
Proof.
  unfold count_star. induction p as [|c p IH]; intros Hc ws n; cbn in *.
  - destruct ws; split; try discriminate.
    + intros H; inversion H; auto.
    + intros [_ ->]; reflexivity.
    + intros [H _]; discriminate.
  - destruct (Ascii.eqb c star); cbn in Hc; [discriminate|].
    specialize (IH Hc). split.
    + intros H. destruct (subst p ws) as [m|] eqn:E; [|discriminate]. cbn in H. inversion H; subst.
      apply IH in E. destruct E as [-> ->]. auto.
    + intros [-> ->]. assert (E : subst p [] = Some p) by (apply IH; auto). rewrite E. reflexivity.
Qed.

Theorem wildcard_literal : forall p n ws,
  count_star p = 0 -> (wildcard_match p n = Some ws <-> n = p /\ ws = []).
Proof.
  intros p n ws Hc. rewrite wildcard_sound_complete. split.
  - intros [Hs _]. apply (subst_no_star p Hc) in Hs. tauto.
  - intros [-> ->]. split.
    + apply (subst_no_star p Hc). auto.
    + intros ws' H'. apply (subst_no_star p Hc) in H'. destruct H' as [-> _]. cbn. exact I.
Qed.
