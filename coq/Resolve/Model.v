(* Model D "Resolve": requested name -> task.

   Go code this stands for: task.go (FindMatchingTasks, GetTask, the existence
   pre-check of Run), taskfile/ast/task.go (WildcardMatch), setup.go
   (setupFuzzyModel), errors/errors_task.go (codes), cmd/task/task.go (exit code).

   Only executable definitions here (no proofs).

   Two readings of a task name live side by side, selected by a [variant]:
     * v_quote = true : the reading the property states: '*' is the only special
       character; a name is split at '*' and matched left-most greedy
       ([wildcard_match]);
     * v_quote = false: what WildcardMatch does when it hands the name to
       regexp.MustCompile unquoted: the name IS a regular expression
       ([raw_match]: a parser for the RE2 syntax reachable from the harness
       alphabet and a leftmost-first backtracking matcher with Go's loop rules).
   The variant of the current tree is computed from extracted facts in
   Run/ResolveCases.v. *)
From Coq Require Import List Ascii Bool Arith.
Import ListNotations.

Definition str := list ascii.

Fixpoint str_eqb (a b : str) : bool :=
  match a, b with
  | [], [] => true
  | x :: a', y :: b' => Ascii.eqb x y && str_eqb a' b'
  | _, _ => false
  end.

Fixpoint strl_eqb (a b : list str) : bool :=
  match a, b with
  | [], [] => true
  | x :: a', y :: b' => str_eqb x y && strl_eqb a' b'
  | _, _ => false
  end.

Definition mem (x : str) (l : list str) : bool := existsb (str_eqb x) l.

Definition star : ascii := "*"%char.
Definition nl : ascii := ascii_of_nat 10.

Fixpoint first_some {A B} (f : A -> option B) (l : list A) : option B :=
  match l with
  | [] => None
  | x :: r => match f x with Some y => Some y | None => first_some f r end
  end.

(* ------------------------------------------------------------------ *)
(* The property's reading of a pattern                                  *)
(* ------------------------------------------------------------------ *)

(* declarative side: put ws in place of the stars of p, every other character as it is *)
Fixpoint subst (p : str) (ws : list str) : option str :=
  match p with
  | [] => match ws with [] => Some [] | _ => None end
  | c :: p' =>
      if Ascii.eqb c star
      then match ws with
           | w :: ws' => option_map (app w) (subst p' ws')
           | [] => None
           end
      else option_map (cons c) (subst p' ws)
  end.

(* lexicographic order on the lengths of the star fillings: the regexp
   built from the quoted literals with one greedy any-string group per star returns the solution whose first
   group is longest, then the second, ... *)
Fixpoint lex_ge (a b : list nat) : Prop :=
  match a, b with
  | x :: a', y :: b' => x > y \/ (x = y /\ lex_ge a' b')
  | _, _ => True
  end.

Definition greedy (p n : str) (ws : list str) : Prop :=
  forall ws', subst p ws' = Some n -> lex_ge (map (@length ascii) ws) (map (@length ascii) ws').

(* executable side *)
Fixpoint split_star (p : str) : str * list str :=
  match p with
  | [] => ([], [])
  | c :: p' =>
      let '(l, ls) := split_star p' in
      if Ascii.eqb c star then ([], l :: ls) else (c :: l, ls)
  end.

Fixpoint strip_prefix (l s : str) : option str :=
  match l, s with
  | [], _ => Some s
  | a :: l', b :: s' => if Ascii.eqb a b then strip_prefix l' s' else None
  | _ :: _, [] => None
  end.

(* every way to cut s as w ++ r, longest w first *)
Fixpoint cuts (s : str) : list (str * str) :=
  match s with
  | [] => [([], [])]
  | c :: s' => map (fun wr => (c :: fst wr, snd wr)) (cuts s') ++ [([], s)]
  end.

(* s must be w1 ++ l1 ++ w2 ++ l2 ... ; [ok] restricts what a star may swallow *)
Fixpoint match_tail (ok : str -> bool) (ls : list str) (s : str) : option (list str) :=
  match ls with
  | [] => match s with [] => Some [] | _ => None end
  | l :: ls' =>
      first_some
        (fun wr =>
           if ok (fst wr)
           then match strip_prefix l (snd wr) with
                | Some r => option_map (cons (fst wr)) (match_tail ok ls' r)
                | None => None
                end
           else None)
        (cuts s)
  end.

Definition wildcard_match_gen (ok : str -> bool) (p n : str) : option (list str) :=
  let '(l0, ls) := split_star p in
  match strip_prefix l0 n with
  | Some r => match_tail ok ls r
  | None => None
  end.

Definition any_ok (_ : str) : bool := true.
Definition no_nl (w : str) : bool := forallb (fun c => negb (Ascii.eqb c nl)) w.

(* the specification: a star stands for any substring *)
Definition wildcard_match (p n : str) : option (list str) := wildcard_match_gen any_ok p n.

(* ------------------------------------------------------------------ *)
(* The unquoted reading: the name is a regular expression (RE2 subset)  *)
(* ------------------------------------------------------------------ *)

Inductive re :=
| Eps | Chr (c : ascii) | Any | Cls (neg : bool) (rs : list (ascii * ascii)) | Bol | Eol
| Cat (a b : re) | Alt (a b : re)
| Plus (g : bool) (a : re) | Opt (g : bool) (a : re)     (* g = greedy; r* is Opt g (Plus g r), as regexp/syntax compiles it *)
| Grp (i : nat) (a : re) | NGrp (a : re).

Definition mkstar (g : bool) (a : re) : re := Opt g (Plus g a).

Fixpoint mkcat (l : list re) : re :=
  match l with [] => Eps | [x] => x | x :: r => Cat x (mkcat r) end.

Fixpoint mkalt (l : list re) : re :=
  match l with [] => Eps | [x] => x | x :: r => Alt x (mkalt r) end.

Definition caps := list (nat * str).

Fixpoint cap_get (i : nat) (c : caps) : str :=
  match c with [] => [] | (j, s) :: r => if Nat.eqb i j then s else cap_get i r end.

(* a notation, not a function: the second alternative is only evaluated when the first fails *)
Notation "'orelse' a b" := (match a with Some x => Some x | None => b end) (at level 10, a at level 9, b at level 9, only parsing).

Definition in_ranges (c : ascii) (rs : list (ascii * ascii)) : bool :=
  existsb (fun r => Nat.leb (nat_of_ascii (fst r)) (nat_of_ascii c) && Nat.leb (nat_of_ascii c) (nat_of_ascii (snd r))) rs.

Definition kont := str -> nat -> caps -> option caps.

(* the loop head L of r+ (and of r*, compiled as (r+)?), reached at the end of an
   iteration.  Rule of regexp (backtrack.go / pikevm): an (instruction, position)
   pair is entered at most once, so an iteration that ends where it began is a dead
   thread - except the very first one, after which only the exit of L remains. *)
Definition loop_gen (body : str -> nat -> caps -> kont -> option caps) (g : bool) (k : kont)
  : nat -> str -> nat -> caps -> option caps :=
  fix at_loop (fuel : nat) (s1 : str) (p1 : nat) (c1 : caps) {struct fuel} : option caps :=
    let again :=
      body s1 p1 c1
        (fun s2 p2 c2 =>
           if Nat.eqb p2 p1 then None
           else match fuel with 0 => None | S f => at_loop f s2 p2 c2 end) in
    if g then orelse again (k s1 p1 c1) else orelse (k s1 p1 c1) again.

(* leftmost-first backtracking in continuation-passing style.  [pos] = number of
   characters before [s]. *)
Fixpoint rmatch (dotall : bool) (r : re) (s : str) (pos : nat) (c : caps) (k : kont) {struct r} : option caps :=
  match r with
  | Eps => k s pos c
  | Chr a => match s with x :: s' => if Ascii.eqb x a then k s' (S pos) c else None | [] => None end
  | Any => match s with x :: s' => if dotall || negb (Ascii.eqb x nl) then k s' (S pos) c else None | [] => None end
  | Cls neg rs => match s with x :: s' => if xorb neg (in_ranges x rs) then k s' (S pos) c else None | [] => None end
  | Bol => if Nat.eqb pos 0 then k s pos c else None
  | Eol => match s with [] => k s pos c | _ => None end
  | Cat a b => rmatch dotall a s pos c (fun s1 p1 c1 => rmatch dotall b s1 p1 c1 k)
  | Alt a b => orelse (rmatch dotall a s pos c k) (rmatch dotall b s pos c k)
  | Opt g a => if g then orelse (rmatch dotall a s pos c k) (k s pos c)
               else orelse (k s pos c) (rmatch dotall a s pos c k)
  | Plus g a =>
      rmatch dotall a s pos c
        (fun s1 p1 c1 => if Nat.eqb p1 pos then k s1 p1 c1
                         else loop_gen (rmatch dotall a) g k (length s1) s1 p1 c1)
  | Grp i a => rmatch dotall a s pos c (fun s1 p1 c1 => k s1 p1 ((i, firstn (p1 - pos) s) :: c1))
  | NGrp a => rmatch dotall a s pos c k
  end.

(* FindStringSubmatch: first start position that matches *)
Fixpoint rsearch (dotall : bool) (r : re) (s : str) (pos : nat) (fuel : nat) : option caps :=
  match rmatch dotall r s pos [] (fun _ _ c => Some c) with
  | Some c => Some c
  | None => match fuel, s with
            | S f, _ :: s' => rsearch dotall r s' (S pos) f
            | _, _ => None
            end
  end.

(* --- parser: a left fold over the characters, like regexp/syntax.parse --- *)

Record frame := { f_alts : list re;         (* finished alternatives, last first *)
                  f_cat : list re;          (* current concatenation, last first *)
                  f_cap : option nat }.     (* Some i: capturing group i; None: (?: *)

Inductive cread := RLo | RHi (lo : ascii).
Record cstate := { c_neg : bool; c_first : bool; c_items : list (ascii * ascii);
                   c_pending : option ascii;   (* a lo waiting for a possible '-' *)
                   c_dash : bool;              (* pending lo followed by '-' *)
                   c_esc : bool;               (* previous character was a backslash *)
                   c_lbr : bool;               (* previous character was a literal '[' *)
                   c_caret_ok : bool }.        (* '^' here negates *)

Inductive pmode := MNormal | MEsc | MParen | MParenQ | MClass (cs : cstate).

Record pst := { p_stack : list frame; p_cur : frame; p_ncap : nat; p_mode : pmode;
                p_after_rep : bool;     (* the previous token was a repetition *)
                p_can_lazy : bool }.    (* the previous character was the repetition operator itself *)

Inductive pres := PGo (s : pst) | PError | PUnsup.

Definition is_alnum (c : ascii) : bool :=
  let n := nat_of_ascii c in
  (Nat.leb 48 n && Nat.leb n 57) || (Nat.leb 65 n && Nat.leb n 90) || (Nat.leb 97 n && Nat.leb n 122).

Definition is_ascii7 (c : ascii) : bool := Nat.leb (nat_of_ascii c) 127.

Definition push_item (x : re) (st : pst) : pst :=
  let f := p_cur st in
  {| p_stack := p_stack st; p_cur := {| f_alts := f_alts f; f_cat := x :: f_cat f; f_cap := f_cap f |};
     p_ncap := p_ncap st; p_mode := MNormal; p_after_rep := false; p_can_lazy := false |}.

Definition set_mode (m : pmode) (st : pst) : pst :=
  {| p_stack := p_stack st; p_cur := p_cur st; p_ncap := p_ncap st; p_mode := m;
     p_after_rep := false; p_can_lazy := false |}.

Definition close_frame (f : frame) : re :=
  let body := mkalt (rev (mkcat (rev (f_cat f)) :: f_alts f)) in
  match f_cap f with Some i => Grp i body | None => NGrp body end.

Definition is_rep (x : re) : bool :=
  match x with
  | Plus _ _ | Opt _ _ => true
  | NGrp (Plus _ _) | NGrp (Opt _ _) => true
  | _ => false
  end.

Definition apply_rep (op : ascii) (x : re) : re :=
  if Ascii.eqb op "+"%char then Plus true x
  else if Ascii.eqb op "?"%char then Opt true x
  else mkstar true x.

Definition make_lazy (x : re) : re :=
  match x with
  | Plus _ a => Plus false a
  | Opt _ (Plus _ a) => Opt false (Plus false a)
  | Opt _ a => Opt false a
  | _ => x
  end.

Definition open_group (cap : bool) (st : pst) : pst :=
  let n := if cap then S (p_ncap st) else p_ncap st in
  {| p_stack := p_cur st :: p_stack st;
     p_cur := {| f_alts := []; f_cat := []; f_cap := if cap then Some n else None |};
     p_ncap := n; p_mode := MNormal; p_after_rep := false; p_can_lazy := false |}.

Definition class_start : cstate :=
  {| c_neg := false; c_first := true; c_items := []; c_pending := None; c_dash := false;
     c_esc := false; c_lbr := false; c_caret_ok := true |}.

Definition step_normal (st : pst) (c : ascii) : pres :=
  if negb (is_ascii7 c) then PUnsup
  else if Ascii.eqb c "("%char then PGo (set_mode MParen st)
  else if Ascii.eqb c ")"%char then
    match p_stack st with
    | [] => PError                                    (* unexpected ) *)
    | parent :: rest =>
        PGo {| p_stack := rest;
               p_cur := {| f_alts := f_alts parent; f_cat := close_frame (p_cur st) :: f_cat parent; f_cap := f_cap parent |};
               p_ncap := p_ncap st; p_mode := MNormal; p_after_rep := false; p_can_lazy := false |}
    end
  else if Ascii.eqb c "|"%char then
    let f := p_cur st in
    PGo {| p_stack := p_stack st;
           p_cur := {| f_alts := mkcat (rev (f_cat f)) :: f_alts f; f_cat := []; f_cap := f_cap f |};
           p_ncap := p_ncap st; p_mode := MNormal; p_after_rep := false; p_can_lazy := false |}
  else if Ascii.eqb c "^"%char then PGo (push_item Bol st)
  else if Ascii.eqb c "$"%char then PGo (push_item Eol st)
  else if Ascii.eqb c "."%char then PGo (push_item Any st)
  else if Ascii.eqb c "["%char then PGo (set_mode (MClass class_start) st)
  else if Ascii.eqb c "{"%char then PUnsup
  else if Ascii.eqb c "\"%char then PGo (set_mode MEsc st)
  else if Ascii.eqb c "*"%char || Ascii.eqb c "+"%char || Ascii.eqb c "?"%char then
    if p_can_lazy st && Ascii.eqb c "?"%char then
      (* x+? x?? x*? : the non-greedy forms *)
      let f := p_cur st in
      match f_cat f with
      | x :: r => PGo {| p_stack := p_stack st;
                         p_cur := {| f_alts := f_alts f; f_cat := make_lazy x :: r; f_cap := f_cap f |};
                         p_ncap := p_ncap st; p_mode := MNormal; p_after_rep := true; p_can_lazy := false |}
      | [] => PError
      end
    else if p_after_rep st then PError                 (* invalid nested repetition operator *)
    else
      let f := p_cur st in
      match f_cat f with
      | [] => PError                                  (* missing argument to repetition operator *)
      | x :: r =>
          if is_rep x then PUnsup                     (* a repetition of a non-capturing repetition is squashed by the parser; not modelled *)
          else PGo {| p_stack := p_stack st;
                      p_cur := {| f_alts := f_alts f; f_cat := apply_rep c x :: r; f_cap := f_cap f |};
                      p_ncap := p_ncap st; p_mode := MNormal; p_after_rep := true; p_can_lazy := true |}
      end
  else PGo (push_item (Chr c) st).

Definition cs_with (cs : cstate) (items : list (ascii * ascii)) (pending : option ascii) (dash : bool) (esc lbr : bool) : cstate :=
  {| c_neg := c_neg cs; c_first := false; c_items := items; c_pending := pending; c_dash := dash;
     c_esc := esc; c_lbr := lbr; c_caret_ok := false |}.

Inductive cres := CGo (cs : cstate) | CClose (x : re) | CError | CUnsup.

(* a complete class character [ch] has been read *)
Definition class_char (cs : cstate) (ch : ascii) (lbr : bool) : cres :=
  match c_pending cs, c_dash cs with
  | Some lo, true =>
      if Nat.ltb (nat_of_ascii ch) (nat_of_ascii lo) then CError      (* invalid character class range *)
      else CGo (cs_with cs ((lo, ch) :: c_items cs) None false false lbr)
  | Some lo, false => CGo (cs_with cs ((lo, lo) :: c_items cs) (Some ch) false false lbr)
  | None, _ => CGo (cs_with cs (c_items cs) (Some ch) false false lbr)
  end.

Definition class_step (cs : cstate) (c : ascii) : cres :=
  if negb (is_ascii7 c) then CUnsup
  else if c_esc cs then
    if is_alnum c then CUnsup else class_char cs c false
  else if c_caret_ok cs && Ascii.eqb c "^"%char then
    CGo {| c_neg := true; c_first := true; c_items := []; c_pending := None; c_dash := false;
           c_esc := false; c_lbr := false; c_caret_ok := false |}
  else if c_lbr cs && Ascii.eqb c ":"%char then CUnsup                (* [[:alpha:]] *)
  else if Ascii.eqb c "]"%char && negb (c_first cs) then
    match c_pending cs, c_dash cs with
    | Some lo, true => CClose (Cls (c_neg cs) ((lo, lo) :: ("-"%char, "-"%char) :: c_items cs))
    | Some lo, false => CClose (Cls (c_neg cs) ((lo, lo) :: c_items cs))
    | None, _ => CClose (Cls (c_neg cs) (c_items cs))
    end
  else if Ascii.eqb c "\"%char then
    CGo {| c_neg := c_neg cs; c_first := false; c_items := c_items cs; c_pending := c_pending cs; c_dash := c_dash cs;
           c_esc := true; c_lbr := false; c_caret_ok := false |}
  else if Ascii.eqb c "-"%char then
    match c_pending cs, c_dash cs with
    | Some lo, false =>
        CGo {| c_neg := c_neg cs; c_first := false; c_items := c_items cs; c_pending := Some lo; c_dash := true;
               c_esc := false; c_lbr := false; c_caret_ok := false |}
    | _, _ => class_char cs c false
    end
  else class_char cs c (Ascii.eqb c "["%char).

(* backslash + letter/digit outside a class (regexp/syntax: the Perl flags) *)
Inductive escres := EItem (x : re) | EBad | EUnsup.

Definition ch (n : nat) : ascii := ascii_of_nat n.
Definition digit_ranges : list (ascii * ascii) := [(ch 48, ch 57)].
Definition space_ranges : list (ascii * ascii) := [(ch 9, ch 10); (ch 12, ch 13); (ch 32, ch 32)].
Definition word_ranges : list (ascii * ascii) := [(ch 48, ch 57); (ch 65, ch 90); (ch 95, ch 95); (ch 97, ch 122)].

Definition esc_alnum (c : ascii) : escres :=
  let is x := Ascii.eqb c x in
  if is "a"%char then EItem (Chr (ch 7))
  else if is "f"%char then EItem (Chr (ch 12))
  else if is "n"%char then EItem (Chr (ch 10))
  else if is "r"%char then EItem (Chr (ch 13))
  else if is "t"%char then EItem (Chr (ch 9))
  else if is "v"%char then EItem (Chr (ch 11))
  else if is "d"%char then EItem (Cls false digit_ranges)
  else if is "D"%char then EItem (Cls true digit_ranges)
  else if is "s"%char then EItem (Cls false space_ranges)
  else if is "S"%char then EItem (Cls true space_ranges)
  else if is "w"%char then EItem (Cls false word_ranges)
  else if is "W"%char then EItem (Cls true word_ranges)
  else if is "A"%char then EItem Bol                 (* beginning of text *)
  else if is "z"%char then EItem Eol                 (* end of text *)
  else if is "b"%char || is "B"%char                 (* word boundaries: need the previous character *)
          || is "Q"%char || is "E"%char              (* quoting *)
          || is "p"%char || is "P"%char              (* Unicode classes *)
          || is "x"%char                             (* hex escapes *)
          || (Nat.leb 48 (nat_of_ascii c) && Nat.leb (nat_of_ascii c) 57)   (* octal / back-references *)
  then EUnsup
  else EBad.

Definition step (st : pst) (c : ascii) : pres :=
  match p_mode st with
  | MNormal => step_normal st c
  | MEsc =>
      if negb (is_ascii7 c) then PUnsup
      else if negb (is_alnum c) then PGo (push_item (Chr c) st)      (* escaped punctuation is literal *)
      else match esc_alnum c with
           | EItem x => PGo (push_item x st)
           | EBad => PError                                          (* invalid escape sequence *)
           | EUnsup => PUnsup
           end
  | MParen => if Ascii.eqb c "?"%char then PGo (set_mode MParenQ st) else step_normal (open_group true st) c
  | MParenQ =>
      if Ascii.eqb c ":"%char then PGo (open_group false st)
      else if Ascii.eqb c ")"%char || Ascii.eqb c "-"%char || Ascii.eqb c "i"%char || Ascii.eqb c "m"%char
              || Ascii.eqb c "s"%char || Ascii.eqb c "U"%char || Ascii.eqb c "P"%char || Ascii.eqb c "<"%char
      then PUnsup
      else PError                                      (* invalid or unsupported Perl syntax *)
  | MClass cs =>
      match class_step cs c with
      | CGo cs' => PGo (set_mode (MClass cs') st)
      | CClose x => PGo (push_item x st)
      | CError => PError
      | CUnsup => PUnsup
      end
  end.

Fixpoint pfold (r : pres) (s : str) : pres :=
  match s with
  | [] => r
  | c :: s' => match r with PGo st => pfold (step st c) s' | _ => r end
  end.

Definition pinit : pst :=
  {| p_stack := []; p_cur := {| f_alts := []; f_cat := []; f_cap := None |}; p_ncap := 0;
     p_mode := MNormal; p_after_rep := false; p_can_lazy := false |}.

Inductive parsed := POk (r : re) (ncap : nat) | PBad | PUnknown.

Definition parse_re (s : str) : parsed :=
  match pfold (PGo pinit) s with
  | PGo st =>
      match p_mode st, p_stack st with
      | MNormal, [] =>
          let f := p_cur st in
          POk (mkalt (rev (mkcat (rev (f_cat f)) :: f_alts f))) (p_ncap st)
      | MNormal, _ :: _ => PBad        (* missing closing ) *)
      | MEsc, _ => PBad                (* trailing backslash *)
      | MClass _, _ => PBad            (* missing closing ] *)
      | MParen, _ => PBad
      | MParenQ, _ => PBad
      end
  | PError => PBad
  | PUnsup => PUnknown
  end.

(* the characters regexp/syntax gives a meaning to (the star is handled by WildcardMatch itself) *)
Definition meta_chars : str :=
  ["\"; "."; "+"; "?"; "("; ")"; "["; "]"; "{"; "}"; "|"; "^"; "$"]%char.
Definition is_meta (c : ascii) : bool := existsb (Ascii.eqb c) meta_chars.
Definition name_plain (n : str) : bool := forallb (fun c => negb (is_meta c) && is_ascii7 c) n.
Definition has_nl (x : str) : bool := existsb (Ascii.eqb nl) x.

(* the text WildcardMatch compiles: ^ name $ with every star replaced by a capturing any-string group *)
Definition star_group : str := ["("; "."; "*"; ")"]%char.
Definition regex_text (name : str) : str :=
  "^"%char :: flat_map (fun c => if Ascii.eqb c star then star_group else [c]) name ++ ["$"%char].

Definition count_star (name : str) : nat := length (filter (fun c => Ascii.eqb c star) name).

Inductive mres := MNo | MYes (ws : list str) | MPanic | MUnm.

Definition raw_match (dotall : bool) (name req : str) : mres :=
  match parse_re (regex_text name) with
  | PBad => MPanic                       (* regexp.MustCompile panics *)
  | PUnknown => MUnm
  | POk r ncap =>
      match rsearch dotall r req 0 (length req) with
      | None => MNo
      | Some c =>
          (* len(wildcards) != strings.Count(name, "*") => no match *)
          if Nat.eqb ncap (count_star name)
          then MYes (map (fun i => cap_get i c) (seq 1 ncap))
          else MNo
      end
  end.

(* ------------------------------------------------------------------ *)
(* The table, and resolution                                            *)
(* ------------------------------------------------------------------ *)

Record task := { t_name : str; t_aliases : list str }.
Definition table := list task.       (* in Taskfile order (parent file first: model C) *)

Record variant := { v_quote : bool;     (* WildcardMatch quotes the literal parts of the name *)
                    v_dotall : bool;    (* a star also swallows newlines *)
                    v_fuzzy : bool }.   (* the fuzzy model is built by Setup *)

Definition spec_variant : variant := {| v_quote := true; v_dotall := true; v_fuzzy := true |}.
(* what the pinned tree does: regexp.MustCompile of the unquoted name; fuzzy model never built *)
Definition raw_variant : variant := {| v_quote := false; v_dotall := false; v_fuzzy := false |}.

Definition task_match (v : variant) (name req : str) : mres :=
  if v_quote v then
    match wildcard_match_gen (if v_dotall v then any_ok else no_nl) name req with
    | Some ws => MYes ws
    | None => MNo
    end
  else raw_match (v_dotall v) name req.

Inductive how := Exact | Wild | Alias.

Inductive outcome :=
| Found (h : how) (n : str) (ws : list str)     (* task chosen, .MATCH *)
| Ambiguous (ns : list str)                     (* TaskNameConflictError *)
| NotFound (words : option (list str))          (* TaskNotFoundError; Some ws: the suggestion oracle is asked over ws *)
| Panicked
| Unmodelled.

Definition names (tbl : table) : list str := map t_name tbl.
Definition words (tbl : table) : list str := flat_map (fun t => t_name t :: t_aliases t) tbl.
Definition aliased (tbl : table) (req : str) : list str :=
  map t_name (filter (fun t => mem req (t_aliases t)) tbl).

Fixpoint find_exact (tbl : table) (req : str) : option task :=
  match tbl with
  | [] => None
  | t :: r => if str_eqb (t_name t) req then Some t else find_exact r req
  end.

(* FindMatchingTasks' loop visits every task (MustCompile runs for each of them) and keeps the first hit *)
Inductive scanres := SNone | SHit (n : str) (ws : list str) | SPanic | SUnm.

Fixpoint scan (v : variant) (tbl : table) (req : str) : scanres :=
  match tbl with
  | [] => SNone
  | t :: r =>
      match task_match v (t_name t) req with
      | MPanic => SPanic
      | MUnm => match scan v r req with SPanic => SPanic | _ => SUnm end
      | MYes ws => match scan v r req with SPanic => SPanic | SUnm => SUnm | _ => SHit (t_name t) ws end
      | MNo => scan v r req
      end
  end.

Definition find (v : variant) (tbl : table) (req : str) : outcome :=
  match find_exact tbl req with
  | Some t => Found Exact (t_name t) []
  | None =>
      match scan v tbl req with
      | SPanic => Panicked
      | SUnm => Unmodelled
      | SHit n ws => Found Wild n ws
      | SNone =>
          match aliased tbl req with
          | [] => NotFound (if v_fuzzy v then Some (words tbl) else None)
          | [n] => Found Alias n []
          | ns => Ambiguous ns
          end
      end
  end.

Definition table_plain (tbl : table) : bool := forallb (fun t => name_plain (t_name t)) tbl.

(* exit codes (values are tied to errors/errors.go through Extracted.Facts in Run/ResolveCases.v) *)
Record codes := { code_not_found : nat; code_conflict : nat }.
Definition spec_codes : codes := {| code_not_found := 200; code_conflict := 203 |}.

Definition outcome_code (k : codes) (o : outcome) : option nat :=
  match o with
  | Found _ _ _ => Some 0
  | Ambiguous _ => Some (code_conflict k)
  | NotFound _ => Some (code_not_found k)
  | Panicked => Some 2            (* the Go runtime's exit status for an unrecovered panic *)
  | Unmodelled => None
  end.

(* Executor.Run: every requested name is resolved before anything runs *)
Definition is_found (o : outcome) : bool := match o with Found _ _ _ => true | _ => false end.

Definition run_calls (v : variant) (k : codes) (tbl : table) (reqs : list str) : list (str * list str) * option nat :=
  let os := map (find v tbl) reqs in
  match filter (fun o => negb (is_found o)) os with
  | bad :: _ => ([], outcome_code k bad)
  | [] => (flat_map (fun o => match o with Found _ n ws => [(n, ws)] | _ => [] end) os, Some 0)
  end.

(* ------------------------------------------------------------------ *)
(* Observations and the C15 monitor                                     *)
(* ------------------------------------------------------------------ *)

Inductive obs :=
| OFound (n : str) (ws : list str)
| OAmbig (ns : list str)
| ONotFound (dym : str)
| OPanic
| OOther.

Definition obs_eqb (a b : obs) : bool :=
  match a, b with
  | OFound n ws, OFound n' ws' => str_eqb n n' && strl_eqb ws ws'
  | OAmbig ns, OAmbig ns' => strl_eqb ns ns'
  | ONotFound d, ONotFound d' => str_eqb d d'
  | OPanic, OPanic => true
  | OOther, OOther => true
  | _, _ => false
  end.

(* the suggestion library is an oracle: closest words request *)
Definition oracle := list str -> str -> option str.

Definition observe (closest : oracle) (req : str) (o : outcome) : obs :=
  match o with
  | Found _ n ws => OFound n ws
  | Ambiguous ns => OAmbig ns
  | NotFound (Some wds) => ONotFound (match closest wds req with Some w => w | None => [] end)
  | NotFound None => ONotFound []
  | Panicked => OPanic
  | Unmodelled => OOther
  end.

(* first task, in table order, whose name read as a pattern matches *)
Definition first_wild (tbl : table) (req : str) : option (str * list str) :=
  first_some (fun t => option_map (pair (t_name t)) (wildcard_match (t_name t) req)) tbl.

(* which task, which .MATCH, which error *)
Definition mon_choice (tbl : table) (req : str) (o : obs) : bool :=
  if mem req (names tbl) then obs_eqb o (OFound req [])
  else match first_wild tbl req with
       | Some (n, ws) => obs_eqb o (OFound n ws)
       | None =>
           match aliased tbl req with
           | [] => match o with ONotFound _ => true | _ => false end
           | [n] => obs_eqb o (OFound n [])
           | ns => obs_eqb o (OAmbig ns)
           end
       end.

(* "close": one edit (substitution, insertion, deletion, transposition of neighbours) apart *)
Fixpoint edit1 (a b : str) : bool :=
  match a, b with
  | [], [] => false
  | [], [_] => true
  | [_], [] => true
  | x :: a', y :: b' =>
      if Ascii.eqb x y then edit1 a' b'
      else str_eqb a' b'                       (* substitution *)
           || str_eqb a' b                     (* x deleted *)
           || str_eqb a b'                     (* y inserted *)
           || match a', b' with
              | x2 :: a'', y2 :: b'' => Ascii.eqb x y2 && Ascii.eqb x2 y && str_eqb a'' b''
              | _, _ => false
              end
  | _, _ => false
  end.

(* the requests for which the property demands a suggestion: lower-case
   letters and digits only, at least four of them (what the fuzzy library is
   specified for), and some existing name or alias of the same kind one edit away *)
Definition is_lower_alnum (c : ascii) : bool :=
  let n := nat_of_ascii c in
  (Nat.leb 48 n && Nat.leb n 57) || (Nat.leb 97 n && Nat.leb n 122).
Definition wordlike (s : str) : bool := forallb is_lower_alnum s && Nat.leb 4 (length s).
Definition has_close (wds : list str) (req : str) : bool :=
  wordlike req && existsb (fun w => wordlike w && edit1 req w) wds.

Definition mon_suggest (tbl : table) (req : str) (o : obs) : bool :=
  match o with
  | ONotFound dym =>
      (match dym with [] => true | _ => mem dym (words tbl) end)
      && (if has_close (words tbl) req then match dym with [] => false | _ => true end else true)
  | _ => true
  end.

Definition mon_C15 (tbl : table) (req : str) (o : obs) : bool :=
  mon_choice tbl req o && mon_suggest tbl req o.

(* CLI level: exit status and what ran, for a list of requested names *)
Definition expected_code (tbl : table) (req : str) : nat :=
  if mem req (names tbl) then 0
  else match first_wild tbl req with
       | Some _ => 0
       | None => match aliased tbl req with [] => 200 | [_] => 0 | _ => 203 end
       end.

Fixpoint first_nonzero (l : list nat) : nat :=
  match l with [] => 0 | 0 :: r => first_nonzero r | n :: _ => n end.

Definition expected_run (tbl : table) (req : str) : list (str * list str) :=
  if mem req (names tbl) then [(req, [])]
  else match first_wild tbl req with
       | Some (n, ws) => [(n, ws)]
       | None => match aliased tbl req with [n] => [(n, [])] | _ => [] end
       end.

Fixpoint ran_eqb (a b : list (str * list str)) : bool :=
  match a, b with
  | [], [] => true
  | (n, ws) :: a', (n', ws') :: b' => str_eqb n n' && strl_eqb ws ws' && ran_eqb a' b'
  | _, _ => false
  end.

Definition mon_cli (tbl : table) (reqs : list str) (exit : nat) (ran : list (str * list str)) : bool :=
  let code := first_nonzero (map (expected_code tbl) reqs) in
  Nat.eqb exit code
  && (if Nat.eqb code 0 then ran_eqb ran (flat_map (expected_run tbl) reqs)
      else match ran with [] => true | _ => false end).
