(* Proofs about model D (Resolve), part 3: the unquoted reading (the task name
   handed to regexp.MustCompile as it is).

   - On names free of regexp metacharacters the regular-expression reading and
     the property's reading coincide (parser and backtracking matcher included).
   - On requests without a newline, a star that cannot swallow a newline is as
     good as one that can.
   - Hence the partial theorems for the variants of the pinned tree, and the
     refutations (by computation) of the full statement for them. *)
From Coq Require Import List Ascii Bool Arith Lia.
Import ListNotations.
From TV Require Import Resolve.Model Resolve.Proofs Resolve.ProofsFind.

(* ---------------- a name-directed form of the specification matcher ---------------- *)

Fixpoint nmatch (ok : str -> bool) (name s : str) : option (list str) :=
  match name with
  | [] => match s with [] => Some [] | _ => None end
  | c :: name' =>
      if Ascii.eqb c star
      then first_some (fun wr => if ok (fst wr) then option_map (cons (fst wr)) (nmatch ok name' (snd wr)) else None) (cuts s)
      else match s with
           | x :: s' => if Ascii.eqb x c then nmatch ok name' s' else None
           | [] => None
           end
  end.

Lemma first_some_ext_in : forall {A B} (f g : A -> option B) l,
  (forall x, In x l -> f x = g x) -> first_some f l = first_some g l.
Proof.
  induction l as [|x l IH]; intros H; cbn; [reflexivity|].
  rewrite (H x (or_introl eq_refl)). destruct (g x); [reflexivity|]. apply IH. intros y Hy. apply H. right. exact Hy.
Qed.

Lemma first_some_option_map : forall {A B C} (h : B -> C) (g : A -> option B) l,
  first_some (fun x => option_map h (g x)) l = option_map h (first_some g l).
Proof.
  induction l as [|x l IH]; cbn; [reflexivity|]. destruct (g x); cbn; [reflexivity | exact IH].
Qed.

Lemma nmatch_spec : forall ok name s, nmatch ok name s = wildcard_match_gen ok name s.
Proof.
  intros ok. unfold wildcard_match_gen. induction name as [|c name IH]; intros s; cbn.
  - destruct s; reflexivity.
  - destruct (split_star name) as [l ls] eqn:E. destruct (Ascii.eqb c star) eqn:Ec; cbn.
    + apply first_some_ext_in. intros [w r] _. cbn. destruct (ok w); [|reflexivity].
      rewrite IH. destruct (strip_prefix l r); reflexivity.
    + destruct s as [|x s]; [reflexivity|]. rewrite Ascii.eqb_sym. destruct (Ascii.eqb c x); [apply IH | reflexivity].
Qed.

Lemma nmatch_length : forall ok name s ws, nmatch ok name s = Some ws -> length ws = count_star name.
Proof.
  intros ok. unfold count_star. induction name as [|c name IH]; intros s ws H; cbn in *.
  - destruct s; [|discriminate]. inversion H. reflexivity.
  - destruct (Ascii.eqb c star); cbn.
    + apply first_some_split in H. destruct H as [_ [[w r] [_ [_ [Hf _]]]]]. cbn in Hf.
      destruct (ok w); [|discriminate]. destruct (nmatch ok name r) eqn:E; [|discriminate].
      inversion Hf; subst. cbn. f_equal. eapply IH; eauto.
    + destruct s as [|x s]; [discriminate|]. destruct (Ascii.eqb x c); [|discriminate]. eapply IH; eauto.
Qed.

(* ---------------- the parser on plain names ---------------- *)

(* the regular expression a plain name stands for: a character or a capturing greedy any-string group *)
Fixpoint items (name : str) (i : nat) : list re :=
  match name with
  | [] => []
  | c :: name' => if Ascii.eqb c star then Grp i (mkstar true Any) :: items name' (S i)
                  else Chr c :: items name' i
  end.

Definition mkst (acc : list re) (n : nat) : pst :=
  {| p_stack := []; p_cur := {| f_alts := []; f_cat := acc; f_cap := None |}; p_ncap := n;
     p_mode := MNormal; p_after_rep := false; p_can_lazy := false |}.

Lemma step_plain : forall acc n c,
  is_meta c = false -> Ascii.eqb c star = false -> is_ascii7 c = true ->
  step (mkst acc n) c = PGo (mkst (Chr c :: acc) n).
Proof.
  intros acc n c Hm Hs Ha. unfold is_meta, meta_chars in Hm. cbn [existsb] in Hm.
  repeat (apply orb_false_iff in Hm; destruct Hm as [? Hm]).
  unfold step. cbn [p_mode mkst]. unfold step_normal. unfold star in Hs.
  repeat match goal with H : Ascii.eqb c _ = false |- _ => rewrite H; clear H end.
  rewrite Ha. reflexivity.
Qed.

Lemma step_star_group : forall acc n rest,
  pfold (PGo (mkst acc n)) (star_group ++ rest) =
  pfold (PGo (mkst (Grp (S n) (mkstar true Any) :: acc) (S n))) rest.
Proof. intros. reflexivity. Qed.

Lemma parse_items : forall name acc n rest, name_plain name = true ->
  pfold (PGo (mkst acc n)) (flat_map (fun c => if Ascii.eqb c star then star_group else [c]) name ++ rest) =
  pfold (PGo (mkst (rev (items name (S n)) ++ acc) (n + count_star name))) rest.
Proof.
  unfold count_star. induction name as [|c name IH]; intros acc n rest Hp.
  - cbn. rewrite Nat.add_0_r. reflexivity.
  - cbn in Hp. apply andb_true_iff in Hp. destruct Hp as [Hc Hp]. apply andb_true_iff in Hc. destruct Hc as [Hm Ha].
    apply negb_true_iff in Hm. cbn [flat_map items filter].
    destruct (Ascii.eqb c star) eqn:Es.
    + rewrite <- app_assoc, step_star_group, (IH _ _ _ Hp). cbn [rev length]. rewrite <- app_assoc. cbn.
      rewrite Nat.add_succ_r. reflexivity.
    + cbn [app pfold]. rewrite (step_plain _ _ _ Hm Es Ha), (IH _ _ _ Hp). cbn [rev]. rewrite <- app_assoc. reflexivity.
Qed.

Lemma parse_plain : forall name, name_plain name = true ->
  parse_re (regex_text name) = POk (mkcat (Bol :: items name 1 ++ [Eol])) (count_star name).
Proof.
  intros name Hp. unfold parse_re, regex_text. cbn [pfold].
  change (step pinit "^"%char) with (PGo (mkst [Bol] 0)).
  rewrite (parse_items name [Bol] 0 ["$"%char] Hp). cbn [pfold].
  change (step (mkst (rev (items name 1) ++ [Bol]) (0 + count_star name)) "$"%char)
    with (PGo (mkst (Eol :: rev (items name 1) ++ [Bol]) (0 + count_star name))).
  cbn [p_mode p_stack mkst p_cur f_cat f_alts p_ncap mkalt rev app].
  rewrite rev_app_distr, rev_involutive. cbn. reflexivity.
Qed.

(* ---------------- the matcher on such expressions ---------------- *)

Definition okw (d : bool) : str -> bool := if d then any_ok else no_nl.
Definition okc (d : bool) (x : ascii) : bool := d || negb (Ascii.eqb x nl).

Lemma okw_cons : forall d x w, okw d (x :: w) = okc d x && okw d w.
Proof. intros [] x w; reflexivity. Qed.

Lemma okw_nil : forall d, okw d [] = true.
Proof. intros []; reflexivity. Qed.

Lemma loop_gen_unfold : forall body g k fuel s1 p1 c1,
  loop_gen body g k fuel s1 p1 c1 =
  let again := body s1 p1 c1
                 (fun s2 p2 c2 => if Nat.eqb p2 p1 then None
                                  else match fuel with 0 => None | S f => loop_gen body g k f s2 p2 c2 end) in
  if g then match again with Some y => Some y | None => k s1 p1 c1 end
  else match k s1 p1 c1 with Some y => Some y | None => again end.
Proof. intros body g k [|f] s1 p1 c1; reflexivity. Qed.

Lemma rmatch_any_cons : forall d x s pos c k,
  rmatch d Any (x :: s) pos c k = if okc d x then k s (S pos) c else None.
Proof. reflexivity. Qed.

Lemma rmatch_any_nil : forall d pos c k, rmatch d Any [] pos c k = None.
Proof. reflexivity. Qed.

Lemma cuts_cons_first : forall d (k : kont) x s2 p1 c,
  first_some (fun wr => if okw d (fst wr) then k (snd wr) (p1 + length (fst wr)) c else None) (cuts (x :: s2)) =
  match (if okc d x
         then first_some (fun wr => if okw d (fst wr) then k (snd wr) (S p1 + length (fst wr)) c else None) (cuts s2)
         else None)
  with Some y => Some y | None => k (x :: s2) p1 c end.
Proof.
  intros d k x s2 p1 c. cbn [cuts]. rewrite first_some_app, first_some_map. cbn [fst snd first_some].
  rewrite okw_nil, Nat.add_0_r.
  assert (E : first_some (fun x0 => if okw d (x :: fst x0) then k (snd x0) (p1 + length (x :: fst x0)) c else None) (cuts s2)
              = if okc d x
                then first_some (fun wr => if okw d (fst wr) then k (snd wr) (S p1 + length (fst wr)) c else None) (cuts s2)
                else None).
  { destruct (okc d x) eqn:Ex.
    - apply first_some_ext_in. intros [w r] _. cbn [fst snd length]. rewrite okw_cons, Ex. cbn.
      rewrite Nat.add_succ_r. reflexivity.
    - apply first_some_none. intros [w r] _. cbn [fst]. rewrite okw_cons, Ex. reflexivity. }
  rewrite E. destruct (okc d x); [destruct (first_some _ (cuts s2)); [reflexivity|]|]; destruct (k (x :: s2) p1 c); reflexivity.
Qed.

(* the loop head of ( . )+ : every split of the rest, longest first, as long as the swallowed part is allowed *)
Lemma loop_any : forall d k s1 fuel p1 c, length s1 <= fuel ->
  loop_gen (rmatch d Any) true k fuel s1 p1 c =
  first_some (fun wr => if okw d (fst wr) then k (snd wr) (p1 + length (fst wr)) c else None) (cuts s1).
Proof.
  intros d k. induction s1 as [|x s2 IH]; intros fuel p1 c Hf.
  - rewrite loop_gen_unfold. cbv zeta. rewrite rmatch_any_nil. cbn. rewrite okw_nil, Nat.add_0_r.
    destruct (k [] p1 c); reflexivity.
  - destruct fuel as [|f]; [cbn in Hf; lia|]. cbn in Hf.
    rewrite cuts_cons_first, loop_gen_unfold. cbv zeta. rewrite rmatch_any_cons.
    destruct (okc d x); [|reflexivity].
    replace (Nat.eqb (S p1) p1) with false by (symmetry; apply Nat.eqb_neq; lia).
    rewrite (IH f (S p1) c) by lia. reflexivity.
Qed.

Lemma rmatch_opt_greedy : forall d a s pos c k,
  rmatch d (Opt true a) s pos c k = match rmatch d a s pos c k with Some y => Some y | None => k s pos c end.
Proof. reflexivity. Qed.

Lemma rmatch_plus : forall d g a s pos c k,
  rmatch d (Plus g a) s pos c k =
  rmatch d a s pos c (fun s1 p1 c1 => if Nat.eqb p1 pos then k s1 p1 c1
                                      else loop_gen (rmatch d a) g k (length s1) s1 p1 c1).
Proof. reflexivity. Qed.

Lemma star_any : forall d k s pos c,
  rmatch d (mkstar true Any) s pos c k =
  first_some (fun wr => if okw d (fst wr) then k (snd wr) (pos + length (fst wr)) c else None) (cuts s).
Proof.
  intros d k s pos c. unfold mkstar. rewrite rmatch_opt_greedy, rmatch_plus. destruct s as [|x s1].
  - rewrite rmatch_any_nil. cbn. rewrite okw_nil, Nat.add_0_r. destruct (k [] pos c); reflexivity.
  - rewrite cuts_cons_first, rmatch_any_cons. destruct (okc d x); [|reflexivity].
    replace (Nat.eqb (S pos) pos) with false by (symmetry; apply Nat.eqb_neq; lia).
    rewrite (loop_any d k s1 (length s1) (S pos) c (le_n _)). reflexivity.
Qed.

(* captures pushed by the groups i, i+1, ... *)
Fixpoint caps_of (i : nat) (ws : list str) (c : caps) : caps :=
  match ws with [] => c | w :: ws' => caps_of (S i) ws' ((i, w) :: c) end.

Lemma mkcat_cons : forall d x r s pos c k, r <> [] ->
  rmatch d (mkcat (x :: r)) s pos c k = rmatch d x s pos c (fun s1 p1 c1 => rmatch d (mkcat r) s1 p1 c1 k).
Proof. intros d x [|y r] s pos c k H; [congruence | reflexivity]. Qed.

Lemma items_tail_nonempty : forall name i, items name i ++ [Eol] <> [].
Proof. intros name i H. apply app_eq_nil in H. destruct H; discriminate. Qed.

Definition kfinal : kont := fun _ _ c => Some c.

Lemma rmatch_items : forall d name i s pos c,
  rmatch d (mkcat (items name i ++ [Eol])) s pos c kfinal =
  option_map (fun ws => caps_of i ws c) (nmatch (okw d) name s).
Proof.
  intros d. induction name as [|ch name IH]; intros i s pos c.
  - cbn. destruct s; reflexivity.
  - cbn [items nmatch]. destruct (Ascii.eqb ch star) eqn:Es.
    + cbn [app]. rewrite mkcat_cons by apply items_tail_nonempty.
      cbn [rmatch]. rewrite star_any.
      rewrite <- first_some_option_map. apply first_some_ext_in. intros [w r] Hin. cbn [fst snd].
      apply cuts_in in Hin. destruct (okw d w); [|reflexivity].
      rewrite IH. replace (pos + length w - pos) with (length w) by lia.
      rewrite Hin, firstn_app, Nat.sub_diag, firstn_all. cbn [firstn]. rewrite app_nil_r.
      destruct (nmatch (okw d) name r); reflexivity.
    + cbn [app]. rewrite mkcat_cons by apply items_tail_nonempty.
      cbn [rmatch]. destruct s as [|x s]; [reflexivity|]. destruct (Ascii.eqb x ch); [apply IH | reflexivity].
Qed.

Lemma rsearch_unfold : forall d r s pos fuel,
  rsearch d r s pos fuel =
  match rmatch d r s pos [] kfinal with
  | Some c => Some c
  | None => match fuel, s with
            | S f, _ :: s' => rsearch d r s' (S pos) f
            | _, _ => None
            end
  end.
Proof. intros d r [|x s] pos [|f]; reflexivity. Qed.

Lemma rmatch_cat_bol : forall d x s pos c k,
  rmatch d (Cat Bol x) s pos c k = if Nat.eqb pos 0 then rmatch d x s pos c k else None.
Proof. reflexivity. Qed.

Lemma rsearch_bol_later : forall d x fuel s pos, pos >= 1 -> rsearch d (Cat Bol x) s pos fuel = None.
Proof.
  intros d x. induction fuel as [|f IH]; intros s pos Hp; rewrite rsearch_unfold, rmatch_cat_bol;
    (destruct pos; [lia|]); cbn [Nat.eqb].
  - destruct s; reflexivity.
  - destruct s; [reflexivity|]. apply IH. lia.
Qed.

Lemma rsearch_plain : forall d name req,
  rsearch d (mkcat (Bol :: items name 1 ++ [Eol])) req 0 (length req) =
  option_map (fun ws => caps_of 1 ws []) (nmatch (okw d) name req).
Proof.
  intros d name req.
  assert (Hc : mkcat (Bol :: items name 1 ++ [Eol]) = Cat Bol (mkcat (items name 1 ++ [Eol]))).
  { destruct (items name 1 ++ [Eol]) eqn:E; [exfalso; exact (items_tail_nonempty _ _ E) | reflexivity]. }
  rewrite Hc, rsearch_unfold, rmatch_cat_bol. cbn [Nat.eqb]. rewrite rmatch_items.
  destruct (nmatch (okw d) name req); cbn [option_map]; [reflexivity|].
  destruct (length req); [reflexivity|]. destruct req; [reflexivity|]. apply rsearch_bol_later. lia.
Qed.

Lemma cap_get_caps_of_lt : forall ws i j c, j < i -> cap_get j (caps_of i ws c) = cap_get j c.
Proof.
  induction ws as [|w ws IH]; intros i j c Hlt; cbn; [reflexivity|].
  rewrite IH by lia. cbn. replace (Nat.eqb j i) with false by (symmetry; apply Nat.eqb_neq; lia). reflexivity.
Qed.

Lemma caps_of_read : forall ws i c, map (fun j => cap_get j (caps_of i ws c)) (seq i (length ws)) = ws.
Proof.
  induction ws as [|w ws IH]; intros i c; cbn [length seq map caps_of]; [reflexivity|].
  f_equal.
  - rewrite cap_get_caps_of_lt by lia. cbn. rewrite Nat.eqb_refl. reflexivity.
  - apply IH.
Qed.

(* on a name free of metacharacters the regexp reading is the property's reading *)
Theorem raw_plain : forall d name req, name_plain name = true ->
  raw_match d name req =
  match wildcard_match_gen (okw d) name req with Some ws => MYes ws | None => MNo end.
Proof.
  intros d name req Hp. unfold raw_match. rewrite (parse_plain name Hp), rsearch_plain, <- nmatch_spec.
  destruct (nmatch (okw d) name req) as [ws|] eqn:E; cbn [option_map]; [|reflexivity].
  rewrite Nat.eqb_refl. rewrite <- (nmatch_length _ _ _ _ E). rewrite caps_of_read. reflexivity.
Qed.

(* ---------------- newlines ---------------- *)

Lemma no_nl_app : forall a b, no_nl (a ++ b) = no_nl a && no_nl b.
Proof. intros a b. unfold no_nl. apply forallb_app. Qed.

Lemma has_nl_no_nl : forall s, has_nl s = false <-> no_nl s = true.
Proof.
  intros s. unfold has_nl, no_nl. induction s as [|x s IH]; cbn; [tauto|].
  rewrite orb_false_iff, andb_true_iff, IH, negb_true_iff, Ascii.eqb_sym. tauto.
Qed.

Lemma match_tail_no_nl : forall ls s, no_nl s = true -> match_tail no_nl ls s = match_tail any_ok ls s.
Proof.
  induction ls as [|l ls IH]; intros s Hs; cbn; [reflexivity|].
  apply first_some_ext_in. intros [w r] Hin. cbn [fst snd]. apply cuts_in in Hin. subst s.
  rewrite no_nl_app in Hs. apply andb_true_iff in Hs. destruct Hs as [Hw Hr]. rewrite Hw. cbn.
  destruct (strip_prefix l r) as [r'|] eqn:Ep; [|reflexivity].
  apply strip_prefix_spec in Ep. subst r. rewrite no_nl_app in Hr. apply andb_true_iff in Hr.
  rewrite IH by tauto. reflexivity.
Qed.

Lemma wildcard_no_nl : forall p n, has_nl n = false -> wildcard_match_gen no_nl p n = wildcard_match p n.
Proof.
  intros p n Hn. apply has_nl_no_nl in Hn. unfold wildcard_match, wildcard_match_gen.
  destruct (split_star p) as [l0 ls]. destruct (strip_prefix l0 n) as [r|] eqn:Ep; [|reflexivity].
  apply strip_prefix_spec in Ep. subst n. rewrite no_nl_app in Hn. apply andb_true_iff in Hn.
  apply match_tail_no_nl. tauto.
Qed.

(* ---------------- the partial theorem for any variant ---------------- *)

(* what a variant gets right: names it reads as regular expressions must be free of
   metacharacters; a request with a newline needs a star that can swallow one *)
Definition within_reach (v : variant) (tbl : table) (req : str) : Prop :=
  (v_quote v = false -> table_plain tbl = true) /\ (v_dotall v = false -> has_nl req = false).

Definition repaired (v : variant) : variant := {| v_quote := true; v_dotall := true; v_fuzzy := v_fuzzy v |}.

Lemma repaired_good : forall v, good (repaired v).
Proof. intros v. split; reflexivity. Qed.

Lemma task_match_partial : forall v name req,
  (v_quote v = false -> name_plain name = true) -> (v_dotall v = false -> has_nl req = false) ->
  task_match v name req = task_match (repaired v) name req.
Proof.
  intros v name req Hq Hd. unfold task_match, repaired. cbn [v_quote v_dotall].
  fold (wildcard_match name req).
  assert (Hgen : wildcard_match_gen (okw (v_dotall v)) name req = wildcard_match name req).
  { destruct (v_dotall v) eqn:Ed; [reflexivity|]. apply wildcard_no_nl. auto. }
  destruct (v_quote v) eqn:Eq.
  - fold (okw (v_dotall v)). rewrite Hgen. reflexivity.
  - rewrite (raw_plain _ _ _ (Hq eq_refl)), Hgen. reflexivity.
Qed.

Lemma scan_partial : forall v tbl req,
  (v_quote v = false -> table_plain tbl = true) -> (v_dotall v = false -> has_nl req = false) ->
  scan v tbl req = scan (repaired v) tbl req.
Proof.
  intros v tbl req Hq Hd. induction tbl as [|t tbl IH]; cbn [scan]; [reflexivity|].
  assert (Hq' : v_quote v = false -> name_plain (t_name t) = true /\ table_plain tbl = true).
  { intros E. specialize (Hq E). cbn in Hq. apply andb_true_iff in Hq. exact Hq. }
  rewrite (task_match_partial v (t_name t) req (fun E => proj1 (Hq' E)) Hd).
  rewrite IH by (intros E; apply (Hq' E)). reflexivity.
Qed.

Theorem find_partial : forall v tbl req, within_reach v tbl req -> find v tbl req = find (repaired v) tbl req.
Proof.
  intros v tbl req [Hq Hd]. unfold find. rewrite (scan_partial v tbl req Hq Hd). reflexivity.
Qed.

Theorem mon_choice_partial : forall v tbl req closest, within_reach v tbl req ->
  mon_choice tbl req (observe closest req (find v tbl req)) = true.
Proof.
  intros v tbl req closest H. rewrite (find_partial v tbl req H).
  apply mon_choice_holds. apply repaired_good.
Qed.

Theorem run_calls_partial : forall v k tbl reqs,
  (forall r, In r reqs -> within_reach v tbl r) ->
  run_calls v k tbl reqs = run_calls (repaired v) k tbl reqs.
Proof.
  intros v k tbl reqs H. unfold run_calls.
  assert (E : map (find v tbl) reqs = map (find (repaired v) tbl) reqs).
  { apply map_ext_in. intros r Hr. apply find_partial. apply H. exact Hr. }
  rewrite E. reflexivity.
Qed.

(* ---------------- refutations: the variant of the pinned tree violates the full statement ---------------- *)

Definition L (x : list nat) : str := map ascii_of_nat x.

(* task "x.y", request "xay": the dot is not literal *)
Lemma raw_not_literal :
  let tbl := [{| t_name := L [120; 46; 121]; t_aliases := [] |}] in
  let req := L [120; 97; 121] in
  find raw_variant tbl req = Found Wild (L [120; 46; 121]) [] /\
  mon_choice tbl req (observe (fun _ _ => None) req (find raw_variant tbl req)) = false.
Proof. vm_compute. split; reflexivity. Qed.

(* task "a(b" next to task "ok", request "zz": MustCompile panics although the request is simply unknown *)
Lemma raw_panics :
  let tbl := [{| t_name := L [111; 107]; t_aliases := [] |}; {| t_name := L [97; 40; 98]; t_aliases := [] |}] in
  let req := L [122; 122] in
  find raw_variant tbl req = Panicked /\
  mon_choice tbl req (observe (fun _ _ => None) req (find raw_variant tbl req)) = false /\
  outcome_code spec_codes (find raw_variant tbl req) = Some 2.
Proof. vm_compute. repeat split; reflexivity. Qed.

(* task "b-*", request "b-x\ny": the star does not swallow the newline *)
Lemma nodotall_misses_newline :
  let v := {| v_quote := true; v_dotall := false; v_fuzzy := true |} in
  let tbl := [{| t_name := L [98; 45; 42]; t_aliases := [] |}] in
  let req := L [98; 45; 120; 10; 121] in
  find v tbl req = NotFound (Some [L [98; 45; 42]]) /\
  find spec_variant tbl req = Found Wild (L [98; 45; 42]) [L [120; 10; 121]] /\
  mon_choice tbl req (observe (fun _ _ => None) req (find v tbl req)) = false.
Proof. vm_compute. repeat split; reflexivity. Qed.

(* task "lint", request "linte": without the fuzzy model no oracle can make the suggestion appear *)
Lemma nofuzzy_no_suggestion : forall closest : oracle,
  let v := {| v_quote := true; v_dotall := true; v_fuzzy := false |} in
  let tbl := [{| t_name := L [108; 105; 110; 116]; t_aliases := [] |}] in
  let req := L [108; 105; 110; 116; 101] in
  find v tbl req = NotFound None /\
  mon_suggest tbl req (observe closest req (find v tbl req)) = false.
Proof. intros closest. vm_compute. split; reflexivity. Qed.

(* the same, in the form Properties/C15.v states *)
Lemma no_dotall_refuted :
  exists v tbl req, v_quote v = true /\ v_fuzzy v = true /\
    mon_choice tbl req (observe (fun _ _ => None) req (find v tbl req)) = false.
Proof.
  exists {| v_quote := true; v_dotall := false; v_fuzzy := true |},
         [{| t_name := L [98; 45; 42]; t_aliases := [] |}], (L [98; 45; 120; 10; 121]).
  vm_compute. repeat split; reflexivity.
Qed.

Lemma no_fuzzy_refuted :
  exists v tbl req, good v /\ forall closest : oracle,
    mon_suggest tbl req (observe closest req (find v tbl req)) = false.
Proof.
  exists {| v_quote := true; v_dotall := true; v_fuzzy := false |},
         [{| t_name := L [108; 105; 110; 116]; t_aliases := [] |}], (L [108; 105; 110; 116; 101]).
  split; [split; reflexivity|]. intros closest. vm_compute. reflexivity.
Qed.
