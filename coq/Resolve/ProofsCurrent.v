(* Proofs about model D (Resolve), part 4: the tree under check.
   The variant and the codes of the current tree come from Extracted.Facts
   (Run/ResolveCases.v); the obligations below are re-checked on every run, so a
   change of the extracted shape reaches coqc. *)
From Coq Require Import List Ascii String Bool Arith Lia.
Import ListNotations.
From TV Require Import Resolve.Model Resolve.Proofs Resolve.ProofsFind Resolve.ProofsRaw Extracted.Facts Run.ResolveCases.

(* shape obligations *)
Lemma facts_recognised_ok : facts_recognised = true.
Proof. reflexivity. Qed.

Lemma shape_as_modelled_ok : shape_as_modelled = true.
Proof. reflexivity. Qed.

Lemma current_codes_ok : current_codes = spec_codes.
Proof. reflexivity. Qed.

(* what holds for the tree as it is, whatever its variant *)
Theorem current_partial : forall tbl req closest, within_reach current_variant tbl req ->
  mon_choice tbl req (observe closest req (find current_variant tbl req)) = true.
Proof. intros. apply mon_choice_partial. assumption. Qed.

Theorem current_cli_partial : forall tbl reqs ran code,
  (forall r, In r reqs -> within_reach current_variant tbl r) ->
  run_calls current_variant current_codes tbl reqs = (ran, Some code) -> mon_cli tbl reqs code ran = true.
Proof.
  intros tbl reqs ran code Hr H. rewrite current_codes_ok, (run_calls_partial _ _ _ _ Hr) in H.
  eapply mon_cli_holds; [apply repaired_good | exact H].
Qed.

(* and the full statement as soon as the extracted facts say the tree is repaired *)
Theorem current_full_when_repaired : forall closest : oracle,
  (forall wds r w, closest wds r = Some w -> In w wds /\ w <> []) ->
  (forall wds r, has_close wds r = true -> closest wds r <> None) ->
  good current_variant -> v_fuzzy current_variant = true ->
  forall tbl req, mon_C15 tbl req (observe closest req (find current_variant tbl req)) = true.
Proof. intros closest Hs Hc Hg Hf tbl req. apply monitor_holds; assumption. Qed.

(* ---------------- non-vacuity ---------------- *)

(* an oracle with the two assumed laws exists *)
Definition simple_closest : oracle :=
  fun wds r => if wordlike r then List.find (fun w => wordlike w && edit1 r w) wds else None.

Lemma simple_closest_sound : forall wds r w, simple_closest wds r = Some w -> In w wds /\ w <> [].
Proof.
  unfold simple_closest. intros wds r w H. destruct (wordlike r); [|discriminate].
  apply find_some in H. destruct H as [Hin Hw]. split; [exact Hin|].
  apply andb_true_iff in Hw. destruct Hw as [Hw _]. unfold wordlike in Hw.
  apply andb_true_iff in Hw. destruct Hw as [_ Hl]. intros ->. cbn in Hl. discriminate.
Qed.

Lemma simple_closest_complete : forall wds r, has_close wds r = true -> simple_closest wds r <> None.
Proof.
  unfold simple_closest, has_close. intros wds r H. apply andb_true_iff in H. destruct H as [Hr He].
  rewrite Hr. apply existsb_exists in He. destruct He as [w [Hin Hw]].
  intros Hn. apply (find_none _ _ Hn) in Hin. congruence.
Qed.

Definition lit (x : string) : str := list_ascii_of_string x.

Example example_greedy :
  wildcard_match (lit "a*b*c") (lit "aXbYbZc") = Some [lit "XbY"; lit "Z"] /\
  wildcard_match (lit "x.y") (lit "xay") = None /\
  wildcard_match (lit "a(b") (lit "a(b") = Some [].
Proof. vm_compute. repeat split; reflexivity. Qed.

Example example_order :
  let tbl := [mk (lit "build") [lit "b"]; mk (lit "build-*") []; mk (lit "*-x") [lit "b"]; mk (lit "lint") [lit "l"; lit "li"]] in
  find spec_variant tbl (lit "build") = Found Exact (lit "build") [] /\
  find spec_variant tbl (lit "build-x") = Found Wild (lit "build-*") [lit "x"] /\
  find spec_variant tbl (lit "li") = Found Alias (lit "lint") [] /\
  find spec_variant tbl (lit "b") = Ambiguous [lit "build"; lit "*-x"] /\
  find spec_variant tbl (lit "lnit") = NotFound (Some [lit "build"; lit "b"; lit "build-*"; lit "*-x"; lit "b"; lit "lint"; lit "l"; lit "li"]) /\
  run_calls spec_variant spec_codes tbl [lit "build"; lit "nope"] = ([], Some 200) /\
  has_close (words tbl) (lit "lnit") = true /\
  within_reach raw_variant tbl (lit "build-x").
Proof. vm_compute. repeat split; try reflexivity; intros; reflexivity. Qed.
