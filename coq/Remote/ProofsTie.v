(* The tie between model H and the Go source: shape obligations over the facts
   that /verif/extract regenerates from /repo on every check.  A code change
   that alters one of these facts makes the corresponding [reflexivity] fail,
   i.e. the model (Remote/Model.v) has to be looked at again. *)
From Coq Require Import List NArith Bool String.
Import ListNotations.
From TV Require Import Remote.Model Remote.Proofs Extracted.Facts Run.RemoteCases.
Local Open Scope string_scope.

Fixpoint lookup {A} (k : string) (l : list (string * A)) : option A :=
  match l with
  | [] => None
  | (k', v) :: r => if String.eqb k k' then Some v else lookup k r
  end.

(* the exit code an error type ends the process with (cmd/task: TaskError.Code()) *)
Definition exit_code_of (ty : string) : option N :=
  match lookup ty remote_error_code_of with
  | Some c => lookup c remote_code_consts
  | None => None
  end.

(* the codes the model hard-wires are the ones of errors/errors.go *)
Lemma tie_exit_codes :
  [ lookup "CodeUnknown" remote_code_consts;
    exit_code_of "TaskfileNotFoundError";
    exit_code_of "TaskfileFetchFailedError";
    exit_code_of "TaskfileNotTrustedError";
    exit_code_of "TaskfileNotSecureError";
    exit_code_of "TaskfileCacheNotFoundError";
    exit_code_of "TaskfileNetworkTimeoutError" ]
  = map Some [code_unknown; code_not_found; code_fetch_failed; code_not_trusted;
              code_not_secure; code_cache_not_found; code_network_timeout].
Proof. reflexivity. Qed.

(* readRemoteNodeContent: the cache switch, its offline/download conditions, the
   validity test, the prompt before the three writes in the order of [store_writes] *)
Definition wr_name (w : wr) : string :=
  match w with WSum _ => "WriteChecksum" | WTime _ => "WriteTimestamp" | WContent _ => "Write" end.

Lemma tie_read_shape :
  remote_cache_switch = ["errors.Is()"; "!cacheValid"; "err!=nil"; "default"] /\
  remote_cache_conds = ["r.offline"; "r.offline"; "!r.download"] /\
  remote_cache_valid_expr = ["timestamp.Add()"; "now.Before()"] /\
  remote_write_order = map wr_name (store_writes 0 0 0) /\
  remote_prompt_before_writes = true /\
  remote_prompt_error_is_not_trusted = true /\
  remote_deadline_is_network_timeout = true.
Proof. repeat split; reflexivity. Qed.

(* the condition under which a failed download falls back to the cache is one the model knows *)
Lemma tie_fallback_known : remote_fallback_kind = 0%nat \/ remote_fallback_kind = 1%nat.
Proof. first [left; reflexivity | right; reflexivity]. Qed.

(* ChecksumPrompt, Logger.Prompt, NewHTTPNode, flags.Validate, the order in cmd/task *)
Lemma tie_prompt_and_flags :
  remote_checksum_prompt = ["cachedChecksum=="""" => taskfileUntrustedPrompt";
                            "cachedChecksum!=checksum => taskfileChangedPrompt";
                            "default => """""] /\
  firstn 2 remote_prompt_conds = ["l.AssumeYes => nil"; "!l.AssumeTerm&&!term.IsTerminal() => ErrNoTerminal"] /\
  remote_http_cond = "url.Scheme==""http""&&!insecure" /\
  remote_flag_conflicts = ["Download&&Offline"; "Download&&ClearCache"] /\
  remote_cli_order = ["flags.Validate"; "Setup"; "ClearCache"].
Proof. repeat split; reflexivity. Qed.

(* ---------- the tree as it is now ---------- *)

(* Whatever the extracted fallback fact says, one of the two holds for the
   variant the facts select: either the cache keeps tasks runnable over every
   history, or the recorded counterexample (approve, then the server is down)
   applies to it. *)
Lemma current_tree_keeps_running :
  (v_fetch_fallback current_variant = true /\
   forall digest http h st,
     forallb (mon_keeps_running digest http) (run digest current_variant http st h) = true)
  \/
  (v_fetch_fallback current_variant = false /\
   forallb (mon_keeps_running id_digest true) (run id_digest current_variant true empty_cache witness_733) = false).
Proof.
  destruct (v_fetch_fallback current_variant) eqn:E.
  - left. split; [reflexivity|]. intros digest http h st. now apply run_keeps_running_repaired.
  - right. split; [reflexivity|].
    assert (H : current_variant = mkVariant false) by (destruct current_variant; cbn in E; now subst).
    rewrite H. exact keeps_running_refuted_witness.
Qed.
