(* Model H: remote Taskfiles.  Stands for
     taskfile/reader.go   readRemoteNodeContent (cache / expiry / offline / download table, prompt, writes)
     taskfile/node_cache.go  CacheNode (three files per URL: <key>.yaml, .checksum, .timestamp), ChecksumPrompt
     taskfile/node_http.go   NewHTTPNode (http refused unless insecure), ReadContext
     taskfile/taskfile.go    RemoteExists (HEAD; non-200 => alternatives => "not found")
     setup.go readTaskfile   (context deadline => exit 108), internal/logger Prompt (--yes, terminal, answer)
     internal/flags Validate (--download with --offline / --clear-cache), cmd/task (--clear-cache after Setup)
   for ONE remote URL.  Only executable definitions here; proofs are in Proofs*.v.

   Contents are identified by a version number [N]; [digest] (sha256 in the code)
   is a parameter of every function that needs it.  Times are seconds ([i_now],
   [i_expiry], the cached timestamp is RFC3339, i.e. whole seconds); the server
   delay and --timeout are milliseconds. *)
From Coq Require Import List NArith Bool.
Import ListNotations.
Local Open Scope N_scope.

(* ---------- the world outside ---------- *)

(* what the server does during one invocation *)
Inductive server :=
| Serve (v : N)                 (* answers HEAD and GET with version v, content type text/yaml *)
| Down                          (* nothing listens: connection refused *)
| Refuse                        (* accepts and drops the connection without an answer *)
| Slow (delay : N) (v : N)      (* answers every request after [delay] ms with version v *)
| Status (code : N).            (* answers every request with a non-200 status *)

(* how a prompt would be answered *)
Inductive answer :=
| NoTerm                        (* stdin/stdout are not a terminal (whatever is piped in) *)
| TtyYes                        (* terminal, user types y *)
| TtyNo.                        (* terminal, user types n / anything else *)

Record inv := mkInv {
  i_yes : bool;                 (* --yes *)
  i_download : bool;            (* --download *)
  i_offline : bool;             (* --offline *)
  i_clear : bool;               (* --clear-cache *)
  i_expiry : N;                 (* --expiry, seconds (default 0) *)
  i_insecure : bool;            (* --insecure *)
  i_timeout : N;                (* --timeout, ms (default 10000) *)
  i_answer : answer;
  i_now : N                     (* wall clock at the start of the invocation, seconds *)
}.

(* ---------- the cache directory, for the one URL ---------- *)

Record cache := mkCache {
  c_content : option N;         (* <key>.yaml      : version stored *)
  c_sum : option N;             (* <key>.checksum  : digest the user approved last *)
  c_time : option N             (* <key>.timestamp : when it was fetched *)
}.

Definition empty_cache : cache := mkCache None None None.

(* behaviours in which the tree may differ from the property; the value for the
   current tree is derived from extracted facts in Run/RemoteCases.v *)
Record variant := mkVariant {
  v_fetch_fallback : bool       (* a failed connection (not only a context timeout) falls back to a found cache *)
}.

Inductive outcome :=
| Ran (v : N)                   (* exit 0, the probe of version v ran *)
| Exit (code : N).              (* exit code, nothing ran (code 0: --clear-cache) *)

Definition out_exit (o : outcome) : N := match o with Ran _ => 0 | Exit c => c end.
Definition out_ran (o : outcome) : list N := match o with Ran v => [v] | Exit _ => [] end.

(* exit codes of errors/errors.go (tied to the source by Proofs Tie) *)
Definition code_unknown : N := 1.
Definition code_not_found : N := 100.
Definition code_fetch_failed : N := 103.
Definition code_not_trusted : N := 104.
Definition code_not_secure : N := 105.
Definition code_cache_not_found : N := 106.
Definition code_network_timeout : N := 108.

(* ---------- the network, as node.ReadContext sees it ---------- *)

Inductive resp :=
| RServe (v : N)                (* 200 with the bytes of v *)
| RFail                         (* error while ctx.Err() == nil: TaskfileFetchFailedError *)
| RTimeout                      (* ctx deadline exceeded *)
| RNotFound.                    (* RemoteExists tried the alternatives: TaskfileNotFoundError *)

(* HEAD then GET, both delayed: answered in time iff 2*delay < timeout *)
Definition respond (s : server) (timeout : N) : resp :=
  match s with
  | Serve v => RServe v
  | Down => RFail
  | Refuse => RFail
  | Slow d v => if 2 * d <? timeout then RServe v else RTimeout
  | Status _ => RNotFound
  end.

(* ---------- cache writes, in the order the code issues them ---------- *)

Inductive wr := WSum (d : N) | WTime (t : N) | WContent (v : N).

Definition apply_wr (c : cache) (w : wr) : cache :=
  match w with
  | WSum d => mkCache (c_content c) (Some d) (c_time c)
  | WTime t => mkCache (c_content c) (c_sum c) (Some t)
  | WContent v => mkCache (Some v) (c_sum c) (c_time c)
  end.

Definition apply_writes (ws : list wr) (c : cache) : cache := fold_left apply_wr ws c.

(* WriteChecksum, WriteTimestamp, Write *)
Definition store_writes (d now v : N) : list wr := [WSum d; WTime now; WContent v].

(* ---------- readRemoteNodeContent ---------- *)

(* now.Before(timestamp.Add(expiry)); a missing/unparsable timestamp is the zero time *)
Definition cache_valid (st : cache) (i : inv) : bool :=
  match c_time st with
  | Some t => i_now i <? t + i_expiry i
  | None => false
  end.

(* ChecksumPrompt: "" => untrusted prompt, different => changed prompt, equal => none *)
Definition needs_prompt (sum : option N) (d : N) : bool :=
  match sum with
  | Some s => negb (s =? d)
  | None => true
  end.

(* Logger.Prompt: --yes first, then the terminal check, then the answer *)
Definition approves (i : inv) : bool :=
  i_yes i || match i_answer i with TtyYes => true | _ => false end.

Inductive rres :=
| Use (v : N) (ws : list wr)    (* these bytes are parsed and run; these writes were made *)
| Fail (code : N).

(* the part after "Try to read the remote file"; [found] = cacheFound with its bytes *)
Definition download (digest : N -> N) (V : variant) (st : cache) (r : resp) (i : inv)
           (found : option N) : rres :=
  match r with
  | RServe w =>
      let d := digest w in
      if needs_prompt (c_sum st) d && negb (approves i) then Fail code_not_trusted
      else Use w (store_writes d (i_now i) w)
  | RTimeout =>
      match found with
      | Some c => Use c []
      | None => Fail code_network_timeout
      end
  | RFail =>
      match found with
      | Some c => if v_fetch_fallback V then Use c [] else Fail code_fetch_failed
      | None => Fail code_fetch_failed
      end
  | RNotFound => Fail code_not_found
  end.

Definition remote_read (digest : N -> N) (V : variant) (st : cache) (r : resp) (i : inv) : rres :=
  match c_content st with
  | None =>
      (* no cache *)
      if i_offline i then Fail code_cache_not_found
      else download digest V st r i None
  | Some c =>
      if negb (cache_valid st i) then
        (* expired *)
        if i_offline i then Use c [] else download digest V st r i (Some c)
      else
        (* valid *)
        if negb (i_download i) then Use c [] else download digest V st r i (Some c)
  end.

(* ---------- one CLI invocation: task [flags] <ns>:probe ---------- *)

(* flags.Validate *)
Definition flags_ok (i : inv) : bool :=
  negb (i_download i && (i_offline i || i_clear i)).

(* [http]: the URL's scheme is plain http *)
Definition invoke (digest : N -> N) (V : variant) (http : bool)
           (st : cache) (s : server) (i : inv) : outcome * cache :=
  if negb (flags_ok i) then (Exit code_unknown, st)
  else if http && negb (i_insecure i) then (Exit code_not_secure, st)
  else
    match remote_read digest V st (respond s (i_timeout i)) i with
    | Fail c => (Exit c, st)
    | Use v ws =>
        let st' := apply_writes ws st in
        if i_clear i then (Exit 0, empty_cache) else (Ran v, st')
    end.

(* ---------- histories ---------- *)

(* what is observable of one step *)
Record obs := mkObs {
  o_pre : cache;
  o_srv : server;
  o_inv : inv;
  o_exit : N;
  o_ran : list N;
  o_post : cache
}.

Definition step_obs (digest : N -> N) (V : variant) (http : bool) (st : cache) (s : server) (i : inv) : obs :=
  let r := invoke digest V http st s i in
  mkObs st s i (out_exit (fst r)) (out_ran (fst r)) (snd r).

Fixpoint run (digest : N -> N) (V : variant) (http : bool) (st : cache) (h : list (server * inv)) : list obs :=
  match h with
  | [] => []
  | (s, i) :: rest =>
      let o := step_obs digest V http st s i in
      o :: run digest V http (o_post o) rest
  end.

Fixpoint final (digest : N -> N) (V : variant) (http : bool) (st : cache) (h : list (server * inv)) : cache :=
  match h with
  | [] => st
  | (s, i) :: rest => final digest V http (snd (invoke digest V http st s i)) rest
  end.

(* ---------- monitors: boolean, over observables only ---------- *)

Definition opt_eqb (a b : option N) : bool :=
  match a, b with
  | Some x, Some y => x =? y
  | None, None => true
  | _, _ => false
  end.

Definition cache_eqb (a b : cache) : bool :=
  opt_eqb (c_content a) (c_content b) && opt_eqb (c_sum a) (c_sum b) && opt_eqb (c_time a) (c_time b).

Fixpoint nlist_eqb (a b : list N) : bool :=
  match a, b with
  | [], [] => true
  | x :: a', y :: b' => (x =? y) && nlist_eqb a' b'
  | _, _ => false
  end.

Definition is_nil {A} (l : list A) : bool := match l with [] => true | _ => false end.

(* the version the server hands out in time during this invocation, if any *)
Definition served (s : server) (timeout : N) : option N :=
  match respond s timeout with RServe w => Some w | _ => None end.

(* the network is unavailable: no answer at all / no answer within --timeout *)
Definition unavailable (s : server) (timeout : N) : bool :=
  match respond s timeout with RFail | RTimeout => true | _ => false end.

Definition secure_ok (http : bool) (i : inv) : bool := negb http || i_insecure i.

(* the cached copy is the one whose checksum the user approved last *)
Definition approved_cache (digest : N -> N) (st : cache) : bool :=
  match c_content st, c_sum st with
  | Some c, Some s => s =? digest c
  | _, _ => false
  end.

(* does the documented table consult the server: not offline, and no usable fresh copy or --download *)
Definition contacts (st : cache) (i : inv) : bool :=
  negb (i_offline i) &&
  (i_download i || match c_content st with None => true | Some _ => negb (cache_valid st i) end).

(* C20 (a): whatever ran has the checksum recorded as approved, and the recorded
   approval only ever changes to the digest of what the server offered while the
   user approved (--yes or y on the terminal), or is wiped by --clear-cache. *)
Definition mon_only_approved (digest : N -> N) (o : obs) : bool :=
  forallb (fun v => opt_eqb (c_sum (o_post o)) (Some (digest v))) (o_ran o)
  &&
  (opt_eqb (c_sum (o_post o)) (c_sum (o_pre o))
   || (i_clear (o_inv o) && cache_eqb (o_post o) empty_cache)
   || (approves (o_inv o) &&
       match served (o_srv o) (i_timeout (o_inv o)) with
       | Some w => opt_eqb (c_sum (o_post o)) (Some (digest w))
       | None => false
       end)).

(* C20 (b): new or changed contents offered, no approval: exit 104, nothing ran, cache untouched *)
Definition mon_unapproved (digest : N -> N) (http : bool) (o : obs) : bool :=
  let i := o_inv o in
  if flags_ok i && secure_ok http i && contacts (o_pre o) i && negb (approves i) then
    match served (o_srv o) (i_timeout i) with
    | Some w =>
        if needs_prompt (c_sum (o_pre o)) (digest w) then
          (o_exit o =? code_not_trusted) && is_nil (o_ran o) && cache_eqb (o_post o) (o_pre o)
        else true
    | None => true
    end
  else true.

(* C20 (c): an approved copy in the cache and (offline or network unavailable): it runs, from the cache *)
Definition mon_keeps_running (digest : N -> N) (http : bool) (o : obs) : bool :=
  let i := o_inv o in
  if flags_ok i && negb (i_clear i) && secure_ok http i && approved_cache digest (o_pre o)
     && (i_offline i || unavailable (o_srv o) (i_timeout i)) then
    match c_content (o_pre o) with
    | Some c => (o_exit o =? 0) && nlist_eqb (o_ran o) [c] && cache_eqb (o_post o) (o_pre o)
    | None => true
    end
  else true.

(* C20 (d): plain http without --insecure: exit 105, nothing ran, cache untouched *)
Definition mon_http_refused (http : bool) (o : obs) : bool :=
  let i := o_inv o in
  if flags_ok i && http && negb (i_insecure i) then
    (o_exit o =? code_not_secure) && is_nil (o_ran o) && cache_eqb (o_post o) (o_pre o)
  else true.

(* ---------- a process killed between two cache writes ---------- *)

(* the cache left behind by an invocation that is killed after [k] of its cache
   writes (k >= their number: all written, killed before anything ran) *)
Definition invoke_killed (digest : N -> N) (V : variant) (http : bool)
           (st : cache) (s : server) (i : inv) (k : nat) : cache :=
  if negb (flags_ok i) then st
  else if http && negb (i_insecure i) then st
  else
    match remote_read digest V st (respond s (i_timeout i)) i with
    | Fail _ => st
    | Use _ ws => apply_writes (firstn k ws) st
    end.

Inductive hstep :=
| Call (s : server) (i : inv)
| Killed (s : server) (i : inv) (k : nat).

(* ghost state: the digests the user has approved so far, i.e. those of versions
   that were on offer (in time) during an invocation with --yes or a y on the terminal *)
Definition approvals_of (digest : N -> N) (s : server) (i : inv) : list N :=
  if approves i then
    match served s (i_timeout i) with Some w => [digest w] | None => [] end
  else [].

(* each completed call with the approvals given up to and including it *)
Fixpoint run_k (digest : N -> N) (V : variant) (http : bool) (st : cache) (A : list N)
         (h : list hstep) : list (obs * list N) :=
  match h with
  | [] => []
  | Call s i :: rest =>
      let o := step_obs digest V http st s i in
      let A' := approvals_of digest s i ++ A in
      (o, A') :: run_k digest V http (o_post o) A' rest
  | Killed s i k :: rest =>
      run_k digest V http (invoke_killed digest V http st s i k) (approvals_of digest s i ++ A) rest
  end.

(* C20 (a), the part that survives kills: what ran was approved at some point *)
Definition mon_ever_approved (digest : N -> N) (p : obs * list N) : bool :=
  forallb (fun v => existsb (N.eqb (digest v)) (snd p)) (o_ran (fst p)).

Definition mon_only_approved_k (digest : N -> N) (p : obs * list N) : bool :=
  mon_only_approved digest (fst p).

(* ---------- what ran against what the user approved; what may change the cached bytes ---------- *)

(* the approvals given during a history (most recent first), on top of [A] *)
Fixpoint approvals_after (digest : N -> N) (A : list N) (h : list (server * inv)) : list N :=
  match h with
  | [] => A
  | (s, i) :: rest => approvals_after digest (approvals_of digest s i ++ A) rest
  end.

(* the cached bytes, if any, are the ones whose digest is on record *)
Definition cache_consistent (digest : N -> N) (st : cache) : bool :=
  match c_content st with
  | Some c => opt_eqb (c_sum st) (Some (digest c))
  | None => true
  end.

(* C20 (a'), guarding the cache itself: the cached bytes only change to what the
   server offered in time, together with their checksum, and only if the user
   approved or that checksum was already the approved one (or everything is wiped
   by --clear-cache); and a consistent cache stays consistent.  A run that is
   declined (104) therefore leaves no unapproved bytes behind for a later
   --offline / fresh-cache / fallback run to pick up. *)
Definition mon_content_guarded (digest : N -> N) (o : obs) : bool :=
  (opt_eqb (c_content (o_post o)) (c_content (o_pre o))
   || (i_clear (o_inv o) && cache_eqb (o_post o) empty_cache)
   || match served (o_srv o) (i_timeout (o_inv o)) with
      | Some w =>
          opt_eqb (c_content (o_post o)) (Some w) && opt_eqb (c_sum (o_post o)) (Some (digest w))
          && (approves (o_inv o) || opt_eqb (c_sum (o_pre o)) (Some (digest w)))
      | None => false
      end)
  && (negb (cache_consistent digest (o_pre o)) || cache_consistent digest (o_post o)).
