(* Proofs about model H (Remote/Model.v): the four C20 statements, per step and
   over arbitrary histories (invariant [Inv]: what is cached is what was approved). *)
From Coq Require Import List NArith Bool Lia.
Import ListNotations.
From TV Require Import Remote.Model.
Local Open Scope N_scope.

(* ---------- small facts ---------- *)

Lemma opt_eqb_refl : forall a, opt_eqb a a = true.
Proof. intros [x|]; cbn; [apply N.eqb_refl | reflexivity]. Qed.

Lemma opt_eqb_eq : forall a b, opt_eqb a b = true <-> a = b.
Proof.
  intros [x|] [y|]; cbn; split; intro H; try discriminate; try reflexivity.
  - apply N.eqb_eq in H. now subst.
  - inversion H. apply N.eqb_refl.
Qed.

Lemma cache_eqb_refl : forall c, cache_eqb c c = true.
Proof. intros c. unfold cache_eqb. now rewrite !opt_eqb_refl. Qed.

Lemma cache_eqb_eq : forall a b, cache_eqb a b = true <-> a = b.
Proof.
  intros [a1 a2 a3] [b1 b2 b3]; unfold cache_eqb; cbn; split; intro H.
  - apply andb_true_iff in H as [H H3]. apply andb_true_iff in H as [H1 H2].
    apply opt_eqb_eq in H1, H2, H3. now subst.
  - inversion H; subst. now rewrite !opt_eqb_refl.
Qed.

Lemma nlist_eqb_refl : forall l, nlist_eqb l l = true.
Proof. induction l as [|x l IH]; cbn; [reflexivity|]. now rewrite N.eqb_refl, IH. Qed.

(* ---------- what one read can do ---------- *)

Section WithDigest.
Variable digest : N -> N.

(* the cached bytes are the ones whose digest is recorded as approved *)
Definition Inv (st : cache) : Prop :=
  forall c, c_content st = Some c -> c_sum st = Some (digest c).

Lemma Inv_empty : Inv empty_cache.
Proof. intros c H. discriminate. Qed.

(* the possible results of remote_read: either the cached copy with no write, or
   a download of what the server serves, approved or unchanged, stored in order *)
Lemma remote_read_cases :
  forall V st r i v ws,
    remote_read digest V st r i = Use v ws ->
    (c_content st = Some v /\ ws = []) \/
    (r = RServe v /\ ws = store_writes (digest v) (i_now i) v /\
     (approves i = true \/ c_sum st = Some (digest v))).
Proof.
  intros V st r i v ws H.
  assert (D : forall found, (forall c, found = Some c -> c_content st = Some c) ->
              download digest V st r i found = Use v ws ->
              (c_content st = Some v /\ ws = []) \/
              (r = RServe v /\ ws = store_writes (digest v) (i_now i) v /\
               (approves i = true \/ c_sum st = Some (digest v)))).
  { intros found Hf Hd. unfold download in Hd. destruct r as [w| | |].
    - destruct (needs_prompt (c_sum st) (digest w) && negb (approves i)) eqn:E; [discriminate|].
      inversion Hd; subst. right. repeat split.
      apply andb_false_iff in E as [E|E].
      + right. unfold needs_prompt in E. destruct (c_sum st) as [s|]; [|discriminate].
        apply negb_false_iff, N.eqb_eq in E. now subst.
      + left. now apply negb_false_iff in E.
    - destruct found as [c|]; [|discriminate].
      destruct (v_fetch_fallback V); [|discriminate].
      inversion Hd; subst. left. split; [now apply Hf|reflexivity].
    - destruct found as [c|]; [|discriminate].
      inversion Hd; subst. left. split; [now apply Hf|reflexivity].
    - discriminate. }
  unfold remote_read in H. destruct (c_content st) as [c|] eqn:Ec.
  - destruct (negb (cache_valid st i)).
    + destruct (i_offline i).
      * inversion H; subst. now left.
      * apply (D (Some c)); [intros c' Hc'; now inversion Hc'|exact H].
    + destruct (negb (i_download i)).
      * inversion H; subst. now left.
      * apply (D (Some c)); [intros c' Hc'; now inversion Hc'|exact H].
  - destruct (i_offline i); [discriminate|].
    apply (D None); [intros c' Hc'; discriminate|exact H].
Qed.

Lemma apply_store :
  forall st d t v, apply_writes (store_writes d t v) st = mkCache (Some v) (Some d) (Some t).
Proof. reflexivity. Qed.

(* every invocation: either the cache is left alone / wiped, or an approved (or unchanged) download is stored *)
Lemma invoke_cases :
  forall V http st s i o st',
    invoke digest V http st s i = (o, st') ->
    (exists c, o = Exit c /\ (st' = st \/ (i_clear i = true /\ st' = empty_cache))) \/
    (exists v, o = Ran v /\ st' = st /\ c_content st = Some v) \/
    (exists v, o = Ran v /\ respond s (i_timeout i) = RServe v /\
               st' = mkCache (Some v) (Some (digest v)) (Some (i_now i)) /\
               (approves i = true \/ c_sum st = Some (digest v))).
Proof.
  intros V http st s i o st' H. unfold invoke in H.
  destruct (negb (flags_ok i)).
  { inversion H; subst. left. eexists. split; [reflexivity|now left]. }
  destruct (http && negb (i_insecure i)).
  { inversion H; subst. left. eexists. split; [reflexivity|now left]. }
  destruct (remote_read digest V st (respond s (i_timeout i)) i) as [v ws|c] eqn:R.
  - destruct (i_clear i) eqn:Ec.
    + inversion H; subst. left. eexists. split; [reflexivity|]. right. now split.
    + inversion H; subst. apply remote_read_cases in R as [[Hc Hw]|[Hr [Hw Ha]]].
      * right. left. exists v. subst ws. cbn. now repeat split.
      * right. right. exists v. subst ws. rewrite apply_store. now repeat split.
  - inversion H; subst. left. eexists. split; [reflexivity|now left].
Qed.

Lemma invoke_preserves_Inv :
  forall V http st s i, Inv st -> Inv (snd (invoke digest V http st s i)).
Proof.
  intros V http st s i HI.
  destruct (invoke digest V http st s i) as [o st'] eqn:E. cbn.
  apply invoke_cases in E as [[c [_ [Hs|[_ Hs]]]]|[[v [_ [Hs _]]]|[v [_ [_ [Hs _]]]]]]; subst st'.
  - exact HI.
  - apply Inv_empty.
  - exact HI.
  - intros c Hc. cbn in *. now inversion Hc.
Qed.

Lemma final_Inv :
  forall V http h st, Inv st -> Inv (final digest V http st h).
Proof.
  intros V http h. induction h as [|[s i] h IH]; intros st HI; cbn; [exact HI|].
  apply IH. now apply invoke_preserves_Inv.
Qed.

(* ---------- (a) only approved contents run ---------- *)

Lemma step_only_approved :
  forall V http st s i, Inv st -> mon_only_approved digest (step_obs digest V http st s i) = true.
Proof.
  intros V http st s i HI. unfold step_obs.
  destruct (invoke digest V http st s i) as [o st'] eqn:E. cbn [fst snd].
  unfold mon_only_approved. cbn [o_ran o_post o_pre o_inv o_srv].
  apply invoke_cases in E as [[c [Ho [Hs|[Hcl Hs]]]]|[[v [Ho [Hs Hc]]]|[v [Ho [Hr [Hs Ha]]]]]]; subst o st'; cbn [out_ran forallb].
  - now rewrite opt_eqb_refl.
  - rewrite Hcl, cache_eqb_refl. cbn. now rewrite orb_true_r.
  - rewrite (HI v Hc). now rewrite !opt_eqb_refl.
  - cbn [c_sum]. rewrite opt_eqb_refl. cbn [andb].
    destruct Ha as [Ha|Ha].
    + rewrite Ha. unfold served. rewrite Hr. rewrite opt_eqb_refl. cbn. now rewrite !orb_true_r.
    + rewrite Ha, opt_eqb_refl. reflexivity.
Qed.

Lemma run_only_approved :
  forall V http h st, Inv st -> forallb (mon_only_approved digest) (run digest V http st h) = true.
Proof.
  intros V http h. induction h as [|[s i] h IH]; intros st HI; cbn [run forallb]; [reflexivity|].
  rewrite step_only_approved by exact HI. cbn [andb].
  apply IH. unfold step_obs. cbn [o_post]. now apply invoke_preserves_Inv.
Qed.

(* as a statement about outcomes: what ran is approved on record afterwards *)
Lemma ran_is_approved :
  forall V http st s i v st',
    Inv st -> invoke digest V http st s i = (Ran v, st') ->
    c_content st' = Some v /\ c_sum st' = Some (digest v) /\
    (st' = st \/ (approves i = true \/ c_sum st = Some (digest v)) /\ served s (i_timeout i) = Some v).
Proof.
  intros V http st s i v st' HI E.
  apply invoke_cases in E as [[c [Ho _]]|[[v' [Ho [Hs Hc]]]|[v' [Ho [Hr [Hs Ha]]]]]].
  - discriminate.
  - inversion Ho; subst. repeat split; auto.
  - inversion Ho; subst. cbn. repeat split; auto. right. split; [exact Ha|]. unfold served. now rewrite Hr.
Qed.

(* ---------- (b) unapproved new or changed contents: 104, nothing ran, cache untouched ---------- *)

Lemma step_unapproved :
  forall V http st s i, mon_unapproved digest http (step_obs digest V http st s i) = true.
Proof.
  intros V http st s i. unfold mon_unapproved, step_obs. cbn [o_inv o_pre o_srv o_exit o_ran o_post].
  destruct (flags_ok i) eqn:Ef; [|reflexivity].
  destruct (secure_ok http i) eqn:Es; [|reflexivity].
  destruct (contacts st i) eqn:Ec; [|reflexivity].
  destruct (approves i) eqn:Ea; [reflexivity|]. cbn [andb negb].
  unfold served. destruct (respond s (i_timeout i)) as [w| | |] eqn:Er; try reflexivity.
  destruct (needs_prompt (c_sum st) (digest w)) eqn:En; [|reflexivity].
  assert (Hinv : invoke digest V http st s i = (Exit code_not_trusted, st)).
  { unfold invoke. rewrite Ef. cbn [negb].
    unfold secure_ok in Es.
    destruct (http && negb (i_insecure i)) eqn:Eh.
    { apply andb_true_iff in Eh as [Eh1 Eh2]. rewrite Eh1 in Es. cbn in Es.
      rewrite Es in Eh2. discriminate. }
    rewrite Er. unfold contacts in Ec. apply andb_true_iff in Ec as [Eo Ec].
    apply negb_true_iff in Eo.
    assert (Hd : forall found, download digest V st (RServe w) i found = Fail code_not_trusted).
    { intros found. unfold download. now rewrite En, Ea. }
    unfold remote_read. rewrite Eo.
    destruct (c_content st) as [c|].
    - destruct (negb (cache_valid st i)) eqn:Ev.
      + now rewrite Hd.
      + cbn in Ec. rewrite orb_false_r in Ec. rewrite Ec. cbn [negb]. now rewrite Hd.
    - now rewrite Hd. }
  rewrite Hinv. cbn. now rewrite cache_eqb_refl.
Qed.

(* in terms of contents: the cache holds approved c, the server offers w <> c *)
Hypothesis digest_inj : forall a b, digest a = digest b -> a = b.

Lemma changed_content_needs_prompt :
  forall st c w, Inv st -> c_content st = Some c -> w <> c -> needs_prompt (c_sum st) (digest w) = true.
Proof.
  intros st c w HI Hc Hne. rewrite (HI c Hc). cbn.
  apply negb_true_iff, N.eqb_neq. intro H. apply Hne. symmetry. now apply digest_inj.
Qed.

Lemma changed_content_104 :
  forall V http st s i w,
    Inv st ->
    flags_ok i = true -> secure_ok http i = true -> contacts st i = true ->
    served s (i_timeout i) = Some w ->
    (forall c, c_content st = Some c -> w <> c) ->
    (c_content st = None -> c_sum st = None) ->
    approves i = false ->
    invoke digest V http st s i = (Exit code_not_trusted, st).
Proof.
  intros V http st s i w HI Hf Hs Hc Hw Hne Hnone Ha.
  pose proof (step_unapproved V http st s i) as M.
  unfold mon_unapproved, step_obs in M. cbn [o_inv o_pre o_srv o_exit o_ran o_post] in M.
  rewrite Hf, Hs, Hc, Ha, Hw in M. cbn [andb negb] in M.
  assert (En : needs_prompt (c_sum st) (digest w) = true).
  { destruct (c_content st) as [c|] eqn:Ec.
    - apply (changed_content_needs_prompt st c w HI Ec). now apply Hne.
    - now rewrite (Hnone eq_refl). }
  rewrite En in M.
  destruct (invoke digest V http st s i) as [o st'] eqn:E. cbn [fst snd] in M.
  apply andb_true_iff in M as [M M3]. apply andb_true_iff in M as [M1 M2].
  apply cache_eqb_eq in M3. subst st'.
  destruct o as [v|c]; cbn in M1, M2; [discriminate|].
  apply N.eqb_eq in M1. now subst c.
Qed.

(* ---------- (c) the cache keeps tasks runnable ---------- *)

(* when does the current decision table use the cached copy on an unavailable network *)
Definition falls_back (V : variant) (st : cache) (s : server) (i : inv) : bool :=
  v_fetch_fallback V
  || i_offline i
  || match respond s (i_timeout i) with RTimeout => true | _ => false end
  || (cache_valid st i && negb (i_download i)).

Lemma step_keeps_running_if :
  forall V http st s i,
    falls_back V st s i = true ->
    mon_keeps_running digest http (step_obs digest V http st s i) = true.
Proof.
  intros V http st s i HF. unfold mon_keeps_running, step_obs. cbn [o_inv o_pre o_srv o_exit o_ran o_post].
  destruct (flags_ok i) eqn:Ef; [|reflexivity].
  destruct (i_clear i) eqn:Ecl; [reflexivity|]. cbn [negb andb].
  destruct (secure_ok http i) eqn:Es; [|reflexivity].
  destruct (approved_cache digest st) eqn:Ea; [|reflexivity]. cbn [andb].
  destruct (i_offline i || unavailable s (i_timeout i)) eqn:Eu; [|reflexivity].
  destruct (c_content st) as [c|] eqn:Ec; [|reflexivity].
  assert (Hinv : invoke digest V http st s i = (Ran c, st)).
  { unfold invoke. rewrite Ef. cbn [negb].
    unfold secure_ok in Es.
    destruct (http && negb (i_insecure i)) eqn:Eh.
    { apply andb_true_iff in Eh as [Eh1 Eh2]. rewrite Eh1 in Es. cbn in Es.
      rewrite Es in Eh2. discriminate. }
    assert (R : remote_read digest V st (respond s (i_timeout i)) i = Use c []).
    { unfold remote_read. rewrite Ec.
      unfold falls_back in HF. unfold unavailable in Eu.
      destruct (i_offline i) eqn:Eo.
      - (* offline: download and offline together are rejected by flags_ok *)
        unfold flags_ok in Ef. rewrite Eo in Ef. cbn in Ef. rewrite andb_true_r in Ef.
        apply negb_true_iff in Ef. rewrite Ef. cbn.
        now destruct (negb (cache_valid st i)).
      - cbn in Eu. cbn in HF. rewrite orb_false_r in HF.
        destruct (respond s (i_timeout i)) eqn:Er; try discriminate.
        + (* RFail *)
          cbn in HF. rewrite orb_false_r in HF.
          destruct (cache_valid st i) eqn:Ev; cbn.
          * destruct (i_download i) eqn:Ed; cbn; [|reflexivity].
            rewrite andb_false_r, orb_false_r in HF. now rewrite HF.
          * rewrite orb_false_r in HF. now rewrite HF.
        + (* RTimeout *)
          destruct (negb (cache_valid st i)); [reflexivity|].
          now destruct (negb (i_download i)). }
    rewrite R, Ecl. reflexivity. }
  rewrite Hinv. cbn. now rewrite N.eqb_refl, cache_eqb_refl.
Qed.

Lemma step_keeps_running_repaired :
  forall V http st s i,
    v_fetch_fallback V = true ->
    mon_keeps_running digest http (step_obs digest V http st s i) = true.
Proof.
  intros V http st s i HV. apply step_keeps_running_if. unfold falls_back. now rewrite HV.
Qed.

Lemma run_keeps_running_repaired :
  forall V http h st,
    v_fetch_fallback V = true ->
    forallb (mon_keeps_running digest http) (run digest V http st h) = true.
Proof.
  intros V http h. induction h as [|[s i] h IH]; intros st HV; cbn [run forallb]; [reflexivity|].
  rewrite step_keeps_running_repaired by exact HV. cbn [andb]. now apply IH.
Qed.


(* the user-facing chain: once something ran, it keeps running offline *)
Lemma offline_runs_cached :
  forall V http st s i c,
    c_content st = Some c ->
    flags_ok i = true -> i_clear i = false -> secure_ok http i = true -> i_offline i = true ->
    invoke digest V http st s i = (Ran c, st).
Proof.
  intros V http st s i c Hc Hf Hcl Hs Ho.
  unfold invoke. rewrite Hf. cbn [negb].
  unfold secure_ok in Hs.
  destruct (http && negb (i_insecure i)) eqn:Eh.
  { apply andb_true_iff in Eh as [Eh1 Eh2]. rewrite Eh1 in Hs. cbn in Hs.
    rewrite Hs in Eh2. discriminate. }
  unfold flags_ok in Hf. rewrite Ho in Hf. cbn in Hf. rewrite andb_true_r in Hf.
  apply negb_true_iff in Hf.
  unfold remote_read. rewrite Hc, Ho, Hf. cbn.
  destruct (negb (cache_valid st i)); now rewrite Hcl.
Qed.

Lemma ran_then_offline :
  forall V http st s i v st' s2 i2,
    Inv st -> invoke digest V http st s i = (Ran v, st') ->
    flags_ok i2 = true -> i_clear i2 = false -> secure_ok http i2 = true -> i_offline i2 = true ->
    invoke digest V http st' s2 i2 = (Ran v, st').
Proof.
  intros V http st s i v st' s2 i2 HI E Hf Hcl Hs Ho.
  destruct (ran_is_approved V http st s i v st' HI E) as [Hc _].
  now apply offline_runs_cached.
Qed.

(* ---------- (d) plain http without --insecure ---------- *)

Lemma step_http_refused :
  forall V http st s i, mon_http_refused http (step_obs digest V http st s i) = true.
Proof.
  intros V http st s i. unfold mon_http_refused, step_obs. cbn [o_inv o_pre o_srv o_exit o_ran o_post].
  destruct (flags_ok i) eqn:Ef; [|reflexivity].
  destruct http; [|reflexivity].
  destruct (i_insecure i) eqn:Ei; [reflexivity|]. cbn [andb negb].
  unfold invoke. rewrite Ef, Ei. cbn. now rewrite cache_eqb_refl.
Qed.


Lemma http_refused_outcome :
  forall V st s i,
    flags_ok i = true -> i_insecure i = false ->
    invoke digest V true st s i = (Exit code_not_secure, st).
Proof. intros V st s i Hf Hi. unfold invoke. now rewrite Hf, Hi. Qed.

Lemma run_forall :
  forall (m : obs -> bool) V http,
    (forall st s i, m (step_obs digest V http st s i) = true) ->
    forall h st, forallb m (run digest V http st h) = true.
Proof.
  intros m V http Hm h. induction h as [|[s i] h IH]; intros st; cbn [run forallb]; [reflexivity|].
  now rewrite Hm, IH.
Qed.

End WithDigest.

(* ---------- the pinned tree: (c) fails, with a concrete history ---------- *)

Definition id_digest (v : N) : N := v.

Definition inv_default (now : N) : inv := mkInv false false false false 0 true 10000 NoTerm now.
Definition inv_yes (now : N) : inv := mkInv true false false false 0 true 10000 NoTerm now.

(* approve version 1, then the server goes away: the approved copy is not used *)
Definition witness_733 : list (server * inv) := [(Serve 1, inv_yes 10); (Down, inv_default 20)].

Lemma keeps_running_refuted_witness :
  forallb (mon_keeps_running id_digest true) (run id_digest (mkVariant false) true empty_cache witness_733) = false.
Proof. vm_compute. reflexivity. Qed.

Lemma keeps_running_repaired_witness :
  map (fun o => (o_exit o, o_ran o)) (run id_digest (mkVariant true) true empty_cache witness_733) = [(0, [1]); (0, [1])].
Proof. vm_compute. reflexivity. Qed.

(* ---------- kills between the cache writes ---------- *)

Section Kills.
Variable digest : N -> N.

(* everything in the cache was approved at some point *)
Definition KInv (st : cache) (A : list N) : Prop :=
  (forall c, c_content st = Some c -> In (digest c) A) /\
  (forall d, c_sum st = Some d -> In d A).

Lemma KInv_empty : forall A, KInv empty_cache A.
Proof. intros A. split; intros x H; discriminate. Qed.

Lemma KInv_mono : forall st A B, KInv st A -> KInv st (B ++ A).
Proof.
  intros st A B [H1 H2]. split; intros x Hx; apply in_or_app; right; auto.
Qed.

Lemma stored_digest_approved :
  forall st A s i v,
    KInv st A ->
    respond s (i_timeout i) = RServe v ->
    (approves i = true \/ c_sum st = Some (digest v)) ->
    In (digest v) (approvals_of digest s i ++ A).
Proof.
  intros st A s i v [_ H2] Hr [Ha|Hs]; apply in_or_app.
  - left. unfold approvals_of, served. rewrite Ha, Hr. now left.
  - right. now apply H2.
Qed.

Lemma call_preserves_KInv :
  forall V http st A s i,
    KInv st A ->
    KInv (snd (invoke digest V http st s i)) (approvals_of digest s i ++ A).
Proof.
  intros V http st A s i HK.
  destruct (invoke digest V http st s i) as [o st'] eqn:E. cbn [snd].
  apply invoke_cases in E as [[c [_ [Hs|[_ Hs]]]]|[[v [_ [Hs _]]]|[v [_ [Hr [Hs Ha]]]]]]; subst st'.
  - now apply KInv_mono.
  - apply KInv_empty.
  - now apply KInv_mono.
  - pose proof (stored_digest_approved st A s i v HK Hr Ha) as Hin.
    split; cbn; intros x Hx; inversion Hx; subst; exact Hin.
Qed.

Lemma kill_preserves_KInv :
  forall V http st A s i k,
    KInv st A ->
    KInv (invoke_killed digest V http st s i k) (approvals_of digest s i ++ A).
Proof.
  intros V http st A s i k HK. unfold invoke_killed.
  destruct (negb (flags_ok i)); [now apply KInv_mono|].
  destruct (http && negb (i_insecure i)); [now apply KInv_mono|].
  destruct (remote_read digest V st (respond s (i_timeout i)) i) as [v ws|c] eqn:R; [|now apply KInv_mono].
  apply remote_read_cases in R as [[_ Hw]|[Hr [Hw Ha]]]; subst ws.
  - destruct k; cbn; now apply KInv_mono.
  - pose proof (stored_digest_approved st A s i v HK Hr Ha) as Hin.
    pose proof (KInv_mono st A (approvals_of digest s i) HK) as [M1 M2].
    unfold store_writes.
    destruct k as [|[|[|k]]];
      cbn [apply_writes firstn fold_left apply_wr c_content c_sum c_time];
      rewrite ?firstn_nil; cbn [fold_left];
      split; cbn [c_content c_sum]; intros x Hx;
      first [ now apply M1 | now apply M2 | (inversion Hx; subst; exact Hin) ].
Qed.

Lemma call_ever_approved :
  forall V http st A s i,
    KInv st A ->
    mon_ever_approved digest (step_obs digest V http st s i, approvals_of digest s i ++ A) = true.
Proof.
  intros V http st A s i HK. unfold mon_ever_approved, step_obs. cbn [fst snd o_ran].
  destruct (invoke digest V http st s i) as [o st'] eqn:E. cbn [fst].
  pose proof (call_preserves_KInv V http st A s i HK) as HK'. rewrite E in HK'. cbn [snd] in HK'.
  destruct o as [v|c]; cbn [out_ran forallb]; [|reflexivity].
  assert (Hc : c_content st' = Some v).
  { apply invoke_cases in E as [[c [Ho _]]|[[v' [Ho [Hs Hc]]]|[v' [Ho [_ [Hs _]]]]]].
    - discriminate.
    - inversion Ho; subst. exact Hc.
    - inversion Ho; subst. reflexivity. }
  destruct HK' as [K1 _]. specialize (K1 v Hc).
  rewrite andb_true_r. apply existsb_exists. exists (digest v). split; [exact K1|apply N.eqb_refl].
Qed.

Lemma run_k_ever_approved :
  forall V http h st A,
    KInv st A -> forallb (mon_ever_approved digest) (run_k digest V http st A h) = true.
Proof.
  intros V http h. induction h as [|[s i|s i k] h IH]; intros st A HK; cbn [run_k forallb].
  - reflexivity.
  - rewrite call_ever_approved by exact HK. cbn [andb].
    apply IH. unfold step_obs. cbn [o_post]. now apply call_preserves_KInv.
  - apply IH. now apply kill_preserves_KInv.
Qed.

End Kills.

(* approve v1; approve v2 but the process dies after the first write (the
   checksum); then an --offline run executes v1 while the record says v2 *)
Definition witness_kill : list hstep :=
  [ Call (Serve 1) (inv_yes 10);
    Killed (Serve 2) (inv_yes 20) 1;
    Call Down (mkInv false false true false 0 true 10000 NoTerm 30) ].

Lemma only_approved_kill_refuted_witness :
  forallb (mon_only_approved_k id_digest) (run_k id_digest (mkVariant true) true empty_cache [] witness_kill) = false.
Proof. vm_compute. reflexivity. Qed.

(* ---------- the cached bytes are guarded by the approval ---------- *)

Section Guarded.
Variable digest : N -> N.

Lemma cache_consistent_Inv : forall st, cache_consistent digest st = true <-> Inv digest st.
Proof.
  intros st. unfold cache_consistent, Inv. split.
  - intros H c Hc. rewrite Hc in H. now apply opt_eqb_eq in H.
  - intros H. destruct (c_content st) as [c|]; [|reflexivity].
    rewrite (H c eq_refl). apply opt_eqb_refl.
Qed.

Lemma step_content_guarded :
  forall V http st s i, mon_content_guarded digest (step_obs digest V http st s i) = true.
Proof.
  intros V http st s i. unfold mon_content_guarded, step_obs.
  cbn [o_pre o_post o_inv o_srv].
  destruct (invoke digest V http st s i) as [o st'] eqn:E. cbn [fst snd].
  apply andb_true_iff. split.
  - apply invoke_cases in E as [[c [_ [Hs|[Hcl Hs]]]]|[[v [_ [Hs _]]]|[v [_ [Hr [Hs Ha]]]]]]; subst st'.
    + now rewrite opt_eqb_refl.
    + rewrite Hcl, cache_eqb_refl. cbn. now rewrite orb_true_r.
    + now rewrite opt_eqb_refl.
    + unfold served. rewrite Hr. cbn [c_content c_sum]. rewrite !opt_eqb_refl. cbn [andb].
      destruct Ha as [Ha|Ha].
      * rewrite Ha. cbn. now rewrite orb_true_r.
      * rewrite Ha, opt_eqb_refl. now rewrite !orb_true_r.
  - destruct (cache_consistent digest st) eqn:Ec; [|reflexivity]. cbn [negb orb].
    apply cache_consistent_Inv. apply cache_consistent_Inv in Ec.
    pose proof (invoke_preserves_Inv digest V http st s i Ec) as H. now rewrite E in H.
Qed.

(* what ran was approved, judged against the approvals the user gave (inputs only) *)
Lemma approvals_after_app :
  forall h A s i,
    approvals_after digest A (h ++ [(s, i)]) = approvals_of digest s i ++ approvals_after digest A h.
Proof.
  induction h as [|[s0 i0] h IH]; intros A s i; cbn; [reflexivity|]. apply IH.
Qed.

Lemma final_KInv :
  forall V http h st A,
    KInv digest st A -> KInv digest (final digest V http st h) (approvals_after digest A h).
Proof.
  intros V http h. induction h as [|[s i] h IH]; intros st A HK; cbn; [exact HK|].
  apply IH. now apply call_preserves_KInv.
Qed.

Lemma ran_was_approved :
  forall V http h s i,
    mon_ever_approved digest
      (step_obs digest V http (final digest V http empty_cache h) s i,
       approvals_after digest [] (h ++ [(s, i)])) = true.
Proof.
  intros V http h s i. rewrite approvals_after_app.
  apply call_ever_approved. apply final_KInv. apply KInv_empty.
Qed.

End Guarded.
