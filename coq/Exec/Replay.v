(* Replay of an observed controlled-scheduler run of the real Executor in the model.

   Observations: OArr id e hint  - a gated line arrived (event e; for EvSkipping the path is
                                   unknown, hint = path of the activation that last printed on the
                                   writing goroutine or on the goroutine that created it)
                 ORel id         - the harness released parked write id.
   The model is advanced by whole chunks: an activation runs micro-steps until it emits an
   observable event, blocks or ends.  Chunks that end silently are committed eagerly (closure);
   chunks that end by emitting are committed when the corresponding arrival is observed. *)
From Coq Require Import List Arith Bool.
Import ListNotations.
From TV Require Import Exec.Model Exec.Monitors.

Inductive obs := OArr (id : nat) (e : event) (hint : aid) | ORel (id : nat).

Definition first_observable (evs : list event) : option event := find observable evs.

Definition holds_of (s : state) (a : nat) : bool :=
  match get_act s a with Some x => a_holds x | None => false end.

(* run activation a until it emits an observable event, blocks, or ends *)
Fixpoint advance (fuel : nat) (p : prog) (c : cfg) (s : state) (a : nat) : state * option event :=
  match fuel with
  | O => (s, None)
  | S f =>
      match step p c s a with
      | None => (s, None)
      | Some s' =>
          match first_observable (skipn (length (trace s)) (trace s')) with
          | Some e => (s', Some e)
          | None =>
              (* a chunk also ends where the activation hands its slot back: the Go channel
                 passes the slot to a goroutine already blocked on it before the releaser goes on *)
              if holds_of s a && negb (holds_of s' a) then (s', None) else advance f p c s' a
          end
      end
  end.

Definition chunk_fuel : nat := 64.

Record rstate := { rs : state; parked : list (nat * nat) (* write id, activation *) }.

Definition is_parked (r : rstate) (a : nat) : bool := existsb (fun '(_, b) => Nat.eqb a b) (parked r).

Definition at_probe (s : state) (a : nat) : bool :=
  match get_act s a with
  | Some x => match a_pc x with PProbe _ | PDProbe _ _ => true | _ => false end
  | None => false
  end.

Definition state_size (s : state) : nat := length (acts s).

(* did activation a stay at the same (blocking) program point *)
Definition pc_same (s s' : state) (a : nat) : bool :=
  match get_act s a, get_act s' a with
  | Some x, Some y =>
      match a_pc x, a_pc y with
      | PAcquire, PAcquire | PDepsJoin, PDepsJoin | PDepsReacq, PDepsReacq => true
      | PWWait _, PWWait _ | PWReacq _, PWReacq _ | PCallWait _ _, PCallWait _ _ => true
      | PCallReacq _ _, PCallReacq _ _ | PDCallWait _ _, PDCallWait _ _ => true
      | PDCallReacq _, PDCallReacq _ | PDone _, PDone _ => true
      | _, _ => false
      end
  | _, _ => true
  end.

(* one pass of the closure: commit silent chunks and start roots *)
Fixpoint closure_pass (p : prog) (c : cfg) (r : rstate) (ids : list nat) : rstate * bool :=
  match ids with
  | [] => (r, false)
  | a :: rest =>
      if is_parked r a || at_probe (rs r) a then closure_pass p c r rest
      else
        match advance chunk_fuel p c (rs r) a with
        | (s', None) =>
            let progressed :=
              negb (Nat.eqb (length (trace s')) (length (trace (rs r)))) ||
              negb (Nat.eqb (state_size s') (state_size (rs r))) ||
              negb (pc_same (rs r) s' a) in
            if progressed then
              let '(r2, _) := closure_pass p c {| rs := s'; parked := parked r |} rest in (r2, true)
            else closure_pass p c r rest
        | (_, Some _) => closure_pass p c r rest
        end
  end.

Fixpoint start_roots (p : prog) (c : cfg) (s : state) (ks : list nat) : state :=
  match ks with
  | [] => s
  | k :: rest => start_roots p c (match start_root p c s k with Some s' => s' | None => s end) rest
  end.

Fixpoint closure (fuel : nat) (p : prog) (c : cfg) (r : rstate) : rstate :=
  match fuel with
  | O => r
  | S f =>
      let s0 := start_roots p c (rs r) (seq 0 (length (cf_roots c))) in
      let r0 := {| rs := s0; parked := parked r |} in
      let '(r1, progressed) := closure_pass p c r0 (seq 0 (length (acts s0))) in
      if progressed || negb (Nat.eqb (length (acts s0)) (length (acts (rs r)))) then closure f p c r1 else r1
  end.

Definition find_act_by_path (s : state) (path : aid) : option nat :=
  let fix go (i : nat) (l : list act) : option nat :=
    match l with
    | [] => None
    | x :: r => if aid_eqb (a_path x) path then Some i else go (S i) r
    end in go 0 (acts s).

Definition event_matches (obs_e model_e : event) : bool :=
  match obs_e, model_e with
  | EvStarted a t, EvStarted b t' => aid_eqb a b && Nat.eqb t t'
  | EvSkipping k _, EvSkipping k' _ => key_eqb k k'
  | EvAnnounce a i, EvAnnounce b j => aid_eqb a b && Nat.eqb i j
  | EvProbeBegin a i v, EvProbeBegin b j w => aid_eqb a b && Nat.eqb i j && Nat.eqb v w
  | EvFinished a, EvFinished b => aid_eqb a b
  | EvUpToDate a, EvUpToDate b => aid_eqb a b
  | EvPlatformSkip a, EvPlatformSkip b => aid_eqb a b
  | EvDAnnounce a i, EvDAnnounce b j => aid_eqb a b && Nat.eqb i j
  | EvDProbeBegin a i n, EvDProbeBegin b j m => aid_eqb a b && Nat.eqb i j && Nat.eqb n m
  | _, _ => false
  end.

Fixpoint prefix_of (a b : aid) : bool :=
  match a, b with
  | [], _ => true
  | x :: a', y :: b' => Nat.eqb x y && prefix_of a' b'
  | _, _ => false
  end.

(* activations whose next chunk emits an event matching e *)
Definition candidates (p : prog) (c : cfg) (r : rstate) (e : event) : list (nat * state) :=
  flat_map (fun a =>
              if is_parked r a || at_probe (rs r) a then []
              else match advance chunk_fuel p c (rs r) a with
                   | (s', Some e') => if event_matches e e' then [(a, s')] else []
                   | _ => []
                   end)
           (seq 0 (length (acts (rs r)))).

Definition pick (r : rstate) (e : event) (hint : aid) (cs : list (nat * state)) : option (nat * state) :=
  match e with
  | EvSkipping _ _ =>
      match find (fun '(a, _) => match get_act (rs r) a with
                                 | Some x => prefix_of (parent_of (a_path x)) hint
                                 | None => false end) cs with
      | Some x => Some x
      | None => hd_error cs
      end
  | _ => hd_error cs
  end.

Inductive verdict := VOk | VReject (at_obs : nat) (why : nat).
(* why: 1 no activation can emit the arrived event; 2 release of unknown write; 3 probe release step failed *)

Definition replay_one (p : prog) (c : cfg) (r : rstate) (o : obs) : option rstate + nat :=
  match o with
  | OArr id e hint =>
      match pick r e hint (candidates p c r e) with
      | Some (a, s') => inl (Some {| rs := s'; parked := (id, a) :: parked r |})
      | None => inr 1
      end
  | ORel id =>
      match find (fun '(i, _) => Nat.eqb i id) (parked r) with
      | None => inr 2
      | Some (_, a) =>
          let pk := filter (fun '(i, _) => negb (Nat.eqb i id)) (parked r) in
          if at_probe (rs r) a then
            match step p c (rs r) a with
            | Some s' => inl (Some (closure 200 p c {| rs := s'; parked := pk |}))
            | None => inr 3
            end
          else inl (Some (closure 200 p c {| rs := rs r; parked := pk |}))
      end
  end.

Fixpoint replay_from (p : prog) (c : cfg) (r : rstate) (os : list obs) (n : nat) : rstate * verdict :=
  match os with
  | [] => (r, VOk)
  | o :: rest =>
      match replay_one p c r o with
      | inl (Some r') => replay_from p c r' rest (S n)
      | inl None => (r, VReject n 0)
      | inr w => (r, VReject n w)
      end
  end.

(* At a quiescent point of the implementation (just before the harness releases a write, and at
   the end) every goroutine is blocked.  If the model, in the corresponding state, has an
   activation that is not parked and whose next chunk prints something, the implementation is
   blocked where the model says it can run: a task that should have started did not. *)
Definition stuck_ok (p : prog) (c : cfg) (r : rstate) : bool :=
  forallb (fun a =>
             if is_parked r a || at_probe (rs r) a then true
             else match advance chunk_fuel p c (rs r) a with
                  | (_, Some _) => false
                  | _ => true
                  end)
          (seq 0 (length (acts (rs r)))).

Fixpoint eager_from (p : prog) (c : cfg) (r : rstate) (os : list obs) : bool :=
  match os with
  | [] => true
  | o :: rest =>
      (match o with ORel _ => stuck_ok p c r | _ => true end) &&
      match replay_one p c r o with
      | inl (Some r') => eager_from p c r' rest
      | _ => true      (* the eager strategy lost track: judged by the search, not here *)
      end
  end.

Definition eager_ok (p : prog) (c : cfg) (os : list obs) : bool :=
  eager_from p c (closure 200 p c {| rs := init_state p; parked := [] |}) os.

Definition replay (p : prog) (c : cfg) (os : list obs) : rstate * verdict :=
  replay_from p c (closure 200 p c {| rs := init_state p; parked := [] |}) os 0.

Definition res_eqb (a b : res) : bool :=
  match a, b with
  | ROk, ROk => true
  | RErr (EExit n), RErr (EExit m) => Nat.eqb n m
  | RErr (ETaskRun (Some n)), RErr (ETaskRun (Some m)) => Nat.eqb n m
  | RErr (ETaskRun None), RErr (ETaskRun None) => true
  | RErr ECancel, RErr ECancel => true
  | RErr EPrecond, RErr EPrecond => true
  | RErr (ECode n), RErr (ECode m) => Nat.eqb n m
  | _, _ => false
  end.

(* ------------------------------------------------------------------ *)
(* Search: the eager strategy above commits silent chunks in index order, which is one of
   the orders the machine allows but not always the one the Go runtime took (e.g. who gets a
   freed slot first).  When it rejects, a depth-first search over the order of silent chunks
   decides: arrivals are matched as early as possible, silent chunks are only inserted when
   needed.  A node budget bounds the search; running out of it is "inconclusive". *)

Definition silent_moves (p : prog) (c : cfg) (r : rstate) : list rstate :=
  let s0 := start_roots p c (rs r) (seq 0 (length (cf_roots c))) in
  (if Nat.eqb (length (acts s0)) (length (acts (rs r))) then [] else [{| rs := s0; parked := parked r |}]) ++
  flat_map (fun a =>
              if is_parked r a || at_probe (rs r) a then []
              else match advance chunk_fuel p c (rs r) a with
                   | (s', None) =>
                       if negb (Nat.eqb (length (trace s')) (length (trace (rs r)))) ||
                          negb (Nat.eqb (state_size s') (state_size (rs r))) ||
                          negb (pc_same (rs r) s' a)
                       then [{| rs := s'; parked := parked r |}] else []
                   | _ => []
                   end)
           (seq 0 (length (acts (rs r)))).

Definition do_release (p : prog) (c : cfg) (r : rstate) (id : nat) : option rstate :=
  match find (fun '(i, _) => Nat.eqb i id) (parked r) with
  | None => None
  | Some (_, a) =>
      let pk := filter (fun '(i, _) => negb (Nat.eqb i id)) (parked r) in
      if at_probe (rs r) a then
        match step p c (rs r) a with
        | Some s' => Some {| rs := s'; parked := pk |}
        | None => None
        end
      else Some {| rs := rs r; parked := pk |}
  end.

Definition arrival_moves (p : prog) (c : cfg) (r : rstate) (id : nat) (e : event) (hint : aid) : list rstate :=
  let cs := candidates p c r e in
  let pref := match pick r e hint cs with Some x => [x] | None => [] end in
  map (fun '(a, s') => {| rs := s'; parked := (id, a) :: parked r |})
      (pref ++ filter (fun '(a, _) => match pref with [(b, _)] => negb (Nat.eqb a b) | _ => true end) cs).

(* result: (remaining budget, accepted) *)
(* [live]: additionally require, at every release (= quiescent point of the implementation), a
   model state in which no activation that is not parked can print (stuck_ok); silent chunks may
   be committed first to reach such a state. *)
Fixpoint search (live : bool) (depth : nat) (budget : nat) (p : prog) (c : cfg) (final : option res)
         (r : rstate) (os : list obs) : nat * bool :=
  match depth, budget with
  | O, _ => (0, false)
  | _, O => (0, false)
  | S d, S b =>
      let try_all :=
        fix try_all (bud : nat) (moves : list rstate) (os' : list obs) : nat * bool :=
          match moves with
          | [] => (bud, false)
          | m :: rest =>
              match search live d bud p c final m os' with
              | (bud', true) => (bud', true)
              | (bud', false) => match bud' with O => (0, false) | _ => try_all bud' rest os' end
              end
          end in
      match os with
      | ORel id :: rest =>
          let released :=
            (* the implementation is quiescent here: in the machine no activation may be able to print
               (stuck_ok) and every silent step must already have been taken *)
            if negb live || (stuck_ok p c r && match silent_moves p c r with [] => true | _ => false end) then
              match do_release p c r id with
              | Some r' => search live d b p c final r' rest
              | None => (b, false)
              end
            else (b, false) in
          if live then
            match released with
            | (bud, true) => (bud, true)
            | (bud, false) => match bud with O => (0, false) | _ => try_all bud (silent_moves p c r) os end
            end
          else released
      | OArr id e hint :: rest =>
          match try_all b (arrival_moves p c r id e hint) rest with
          | (bud, true) => (bud, true)
          | (bud, false) => match bud with O => (0, false) | _ => try_all bud (silent_moves p c r) os end
          end
      | [] =>
          match final with
          | None => (b, true)
          | Some fr =>
              match run_result p c (rs r) with
              | Some mr => (b, res_eqb mr fr)
              | None => try_all b (silent_moves p c r) []
              end
          end
      end
  end.

Definition search_budget : nat := 4000.

(* 0 = agreement; 1 = inconclusive (search budget exhausted); otherwise a code saying where
   model and implementation part *)
Definition agree_code (p : prog) (c : cfg) (os : list obs) (final : option res) : nat :=
  let eager :=
    match replay p c os with
    | (_, VReject n w) => 100 + 10 * n + w
    | (r, VOk) =>
        match final with
        | None => 0
        | Some fr =>
            match run_result p c (rs r) with
            | Some mr => if res_eqb mr fr then 0 else 2
            | None => 3
            end
        end
    end in
  match eager with
  | 0 => 0
  | code =>
      match search false (2 * length os + 400) search_budget p c final {| rs := init_state p; parked := [] |} os with
      | (_, true) => 0
      | (O, false) => 1
      | (_, false) => code
      end
  end.

(* Liveness at the quiescent points of the implementation.  The eager strategy fixes ONE order of
   the silent chunks; if the state it reaches can print where the implementation is blocked, that
   may only mean the Go runtime took another of the orders the machine allows (e.g. an errgroup
   cancellation that reached a sibling before it passed its context check).  So a failed eager
   check is decided by the search: 0 = some execution of the machine reproduces the observations
   and is blocked wherever the implementation was; 1 = inconclusive (budget); 2 = no execution of
   the machine is blocked there: the implementation is stuck where the model says it must run. *)
(* the liveness search must come to a verdict to have any power (an exhausted budget is "no
   verdict"); it only runs when the eager check fails, which is rare on a correct tree *)
Definition live_budget : nat := 60000.

Definition live_code (p : prog) (c : cfg) (os : list obs) : nat :=
  if eager_ok p c os then 0
  else match search true (3 * length os + 600) live_budget p c None {| rs := init_state p; parked := [] |} os with
       | (_, true) => 0
       | (O, false) => 1
       | (_, false) => 2
       end.

(* the observable trace of an observation list *)
Definition obs_trace (os : list obs) : list event :=
  let fix go (os : list obs) (pk : list (nat * event)) : list event :=
    match os with
    | [] => []
    | OArr id e _ :: rest => e :: go rest ((id, e) :: pk)
    | ORel id :: rest =>
        match find (fun '(i, _) => Nat.eqb i id) pk with
        | Some (_, EvProbeBegin a i _) => EvProbeEnd a i :: go rest pk
        | Some (_, EvDProbeBegin a i _) => EvDProbeEnd a i :: go rest pk
        | _ => go rest pk
        end
    end in go os [].
