(* C14: the deferred stack.  Per activation, the machine's (pc, a_defers, a_dexit) is tied to the
   events of the activation's path in the trace: the registered deferred entries are exactly the
   defer entries of the task below the index at which the command loop stands; once the loop is
   over they are popped one by one, every DeferShell entry popped is announced and then executed,
   nothing else is; an activation that returned popped all of them.  From this: mon_C14 without
   its EXIT_CODE conjunct for every program, configuration and schedule (safety in every reachable
   state, completeness for completed runs); EXIT_CODE seen by the deferred commands is the exit
   status of the activation's own failing command or 0; it is exactly that exit status when no
   failing command ended under a cancelled context.  The EXIT_CODE conjunct of mon_C14 as stated
   (0 only when a command outside the subtree failed) is refuted in the model (end of file). *)
From Coq Require Import List Arith Bool Lia Sorted.
Import ListNotations.
From TV Require Import Exec.Model Exec.Monitors Exec.Facts Exec.InvSlots Exec.Proj Exec.InvPaths Exec.Frame
  Exec.InvUniq Exec.InvPhase.

(* ------------------------------------------------------------------ *)
(* the part of the trace mon_C14 looks at, for one path, as a fold     *)

Record view := {
  v_ann : list nat;        (* deferred announcements, in order *)
  v_prb : list nat;        (* deferred probes begun, in order *)
  v_codes : list nat;      (* EXIT_CODE those probes printed *)
  v_la : option nat;       (* last shell command announced *)
  v_fin : bool;            (* "finished" printed *)
  v_fail : option nat      (* first own failing command that ran to its end *)
}.

Definition v0 : view := {| v_ann := []; v_prb := []; v_codes := []; v_la := None; v_fin := false; v_fail := None |}.

Definition failing_tk (tk : task) (i : nat) : bool :=
  match nth_error (t_cmds tk) i with
  | Some (Shell (S _) false) => negb (t_ignore tk)
  | _ => false
  end.

Definition vstep (tk : task) (a : aid) (v : view) (e : event) : view :=
  match e with
  | EvDAnnounce b i =>
      if aid_eqb a b then {| v_ann := v_ann v ++ [i]; v_prb := v_prb v; v_codes := v_codes v; v_la := v_la v;
                             v_fin := v_fin v; v_fail := v_fail v |} else v
  | EvDProbeBegin b i code =>
      if aid_eqb a b then {| v_ann := v_ann v; v_prb := v_prb v ++ [i]; v_codes := v_codes v ++ [code]; v_la := v_la v;
                             v_fin := v_fin v; v_fail := v_fail v |} else v
  | EvAnnounce b i =>
      if aid_eqb a b then {| v_ann := v_ann v; v_prb := v_prb v; v_codes := v_codes v; v_la := Some i;
                             v_fin := v_fin v; v_fail := v_fail v |} else v
  | EvFinished b =>
      if aid_eqb a b then {| v_ann := v_ann v; v_prb := v_prb v; v_codes := v_codes v; v_la := v_la v;
                             v_fin := true; v_fail := v_fail v |} else v
  | EvProbeEnd b i =>
      if aid_eqb a b && failing_tk tk i then
        {| v_ann := v_ann v; v_prb := v_prb v; v_codes := v_codes v; v_la := v_la v; v_fin := v_fin v;
           v_fail := match v_fail v with None => Some i | o => o end |} else v
  | _ => v
  end.

Definition vfold (tk : task) (a : aid) (tr : list event) : view := fold_left (vstep tk a) tr v0.

Lemma vfold_app tk a tr evs : vfold tk a (tr ++ evs) = fold_left (vstep tk a) evs (vfold tk a tr).
Proof. unfold vfold. apply fold_left_app. Qed.

Lemma vfold_snoc tk a tr e : vfold tk a (tr ++ [e]) = vstep tk a (vfold tk a tr) e.
Proof. rewrite vfold_app. reflexivity. Qed.

Lemma vstep_quiet tk a v e : ev_act e <> Some a -> vstep tk a v e = v.
Proof.
  intros H. destruct e; simpl in *; try reflexivity;
    try (rewrite aid_eqb_neq by congruence; reflexivity).
Qed.

Lemma vfold_quiet tk a evs : forall v, Forall (fun e => ev_act e <> Some a) evs -> fold_left (vstep tk a) evs v = v.
Proof.
  induction evs as [|e evs IH]; intros v H; simpl; [reflexivity|].
  inversion H as [|? ? He Hr]; subst. rewrite vstep_quiet by exact He. apply IH. exact Hr.
Qed.

(* the monitor's projections are the components of the fold *)
Lemma dann_vfold tk a tr : dann_of a tr = v_ann (vfold tk a tr).
Proof.
  induction tr as [|e tr IH] using rev_ind; [reflexivity|].
  rewrite vfold_snoc. unfold dann_of in *. rewrite flat_map_app, IH. simpl.
  destruct e; simpl; rewrite ?app_nil_r; try reflexivity;
    try (destruct (aid_eqb a a0); simpl; rewrite ?app_nil_r; reflexivity).
  destruct (aid_eqb a a0 && failing_tk tk i); reflexivity.
Qed.

Lemma dprobes_vfold tk a tr : dprobes_of a tr = v_prb (vfold tk a tr).
Proof.
  induction tr as [|e tr IH] using rev_ind; [reflexivity|].
  rewrite vfold_snoc. unfold dprobes_of in *. rewrite flat_map_app, IH. simpl.
  destruct e; simpl; rewrite ?app_nil_r; try reflexivity;
    try (destruct (aid_eqb a a0); simpl; rewrite ?app_nil_r; reflexivity).
  destruct (aid_eqb a a0 && failing_tk tk i); reflexivity.
Qed.

Definition dcodes_of (a : aid) (tr : list event) : list nat :=
  flat_map (fun e => match e with EvDProbeBegin b _ code => if aid_eqb a b then [code] else [] | _ => [] end) tr.

Lemma dcodes_vfold tk a tr : dcodes_of a tr = v_codes (vfold tk a tr).
Proof.
  induction tr as [|e tr IH] using rev_ind; [reflexivity|].
  rewrite vfold_snoc. unfold dcodes_of in *. rewrite flat_map_app, IH. simpl.
  destruct e; simpl; rewrite ?app_nil_r; try reflexivity;
    try (destruct (aid_eqb a a0); simpl; rewrite ?app_nil_r; reflexivity).
  destruct (aid_eqb a a0 && failing_tk tk i); reflexivity.
Qed.

Lemma la_vfold tk a tr : last_announced a tr = v_la (vfold tk a tr).
Proof.
  induction tr as [|e tr IH] using rev_ind; [reflexivity|].
  rewrite vfold_snoc. unfold last_announced in *. rewrite fold_left_app, IH. simpl.
  destruct e; simpl; try reflexivity;
    try (destruct (aid_eqb a a0); simpl; reflexivity).
  destruct (aid_eqb a a0 && failing_tk tk i); reflexivity.
Qed.

Lemma fin_vfold tk a tr : mem_aid a (finished_acts tr) = v_fin (vfold tk a tr).
Proof.
  induction tr as [|e tr IH] using rev_ind; [reflexivity|].
  rewrite vfold_snoc. unfold mem_aid, finished_acts in *. rewrite flat_map_app, existsb_app, IH. simpl.
  destruct e; simpl; rewrite ?orb_false_r; try reflexivity;
    try (destruct (aid_eqb a a0); simpl; rewrite ?orb_false_r; reflexivity).
  - destruct (aid_eqb a a0 && failing_tk tk i); reflexivity.
  - destruct (aid_eqb a a0); simpl; [apply orb_true_r|apply orb_false_r].
Qed.

Lemma find_app {A} (f : A -> bool) l1 l2 :
  find f (l1 ++ l2) = match find f l1 with Some x => Some x | None => find f l2 end.
Proof. induction l1 as [|x l1 IH]; simpl; [reflexivity|]. destruct (f x); [reflexivity|exact IH]. Qed.

Definition exit_of_tk (tk : task) (i : nat) : nat :=
  match nth_error (t_cmds tk) i with Some (Shell ex _) => ex | _ => 0 end.

Lemma failing_tk_shell tk i : failing_tk tk i = true ->
  exists n, nth_error (t_cmds tk) i = Some (Shell (S n) false) /\ t_ignore tk = false.
Proof.
  unfold failing_tk. destruct (nth_error (t_cmds tk) i) as [[[|n] [|]| | |]|]; try discriminate.
  intros H. exists n. split; [reflexivity|]. destruct (t_ignore tk); [discriminate|reflexivity].
Qed.

Definition own_fail_event (p : prog) (c : cfg) (a : aid) (e : event) : bool :=
  match e with EvProbeEnd b i => aid_eqb a b && failing_cmd p c a i | _ => false end.

Lemma find_vfold p c a tr :
  match find (own_fail_event p c a) tr with
  | Some (EvProbeEnd _ i) => v_fail (vfold (get_task p (task_of p c a)) a tr) = Some i /\
                             failing_tk (get_task p (task_of p c a)) i = true
  | Some _ => False
  | None => v_fail (vfold (get_task p (task_of p c a)) a tr) = None
  end.
Proof.
  induction tr as [|e tr IH] using rev_ind; [reflexivity|].
  rewrite vfold_snoc, find_app.
  destruct (find (own_fail_event p c a) tr) as [e0|].
  - destruct e0; try contradiction. destruct IH as [IH1 IH2]. split; [|exact IH2].
    destruct e; simpl; try exact IH1; try (destruct (aid_eqb a a1); exact IH1).
    destruct (aid_eqb a a1 && failing_tk _ i0); [simpl; rewrite IH1; reflexivity|exact IH1].
  - simpl. destruct e; simpl; try exact IH; try (destruct (aid_eqb a a0); exact IH).
    change (failing_cmd p c a i) with (failing_tk (get_task p (task_of p c a)) i).
    destruct (aid_eqb a a0 && failing_tk (get_task p (task_of p c a)) i) eqn:E.
    + simpl. rewrite IH. split; [reflexivity|]. apply andb_true_iff in E. apply E.
    + exact IH.
Qed.

Lemma own_failure_vfold p c a tr :
  own_failure p c a tr =
  match v_fail (vfold (get_task p (task_of p c a)) a tr) with
  | Some i => Some (exit_of_tk (get_task p (task_of p c a)) i)
  | None => None
  end.
Proof.
  unfold own_failure. fold (own_fail_event p c a).
  pose proof (find_vfold p c a tr) as H.
  destruct (find (own_fail_event p c a) tr) as [e0|].
  - destruct e0; try contradiction. destruct H as [H1 H2]. rewrite H1.
    destruct (failing_tk_shell _ _ H2) as [n [Hn _]]. unfold exit_of_tk. rewrite Hn. reflexivity.
  - rewrite H. reflexivity.
Qed.

(* exit_codes_ok is a statement about the codes printed *)
Definition code_ok (own : option nat) (foreign : bool) (code : nat) : bool :=
  match own with
  | Some ex => Nat.eqb code ex || (Nat.eqb code 0 && foreign)
  | None => true
  end.

Lemma exit_codes_ok_codes p c a tr :
  exit_codes_ok p c a tr = forallb (code_ok (own_failure p c a tr) (foreign_failure p c a tr)) (dcodes_of a tr).
Proof.
  unfold exit_codes_ok. generalize (own_failure p c a tr) (foreign_failure p c a tr). intros own fo.
  induction tr as [|e tr IH]; [reflexivity|]. simpl. rewrite IH.
  destruct e; simpl; try reflexivity.
  destruct (aid_eqb a a0); simpl; reflexivity.
Qed.

(* ------------------------------------------------------------------ *)
(* the per-activation invariant                                        *)

Definition dshell (tk : task) (i : nat) : bool :=
  match nth_error (t_cmds tk) i with Some (DeferShell _) => true | _ => false end.
Definition isdefer (tk : task) (i : nat) : bool :=
  match nth_error (t_cmds tk) i with Some (DeferShell _) | Some (DeferCall _) => true | _ => false end.

(* the defer entries with index below n, last first: what the loop has registered when it stands at n *)
Definition regs (tk : task) (n : nat) : list nat := filter (isdefer tk) (rev (seq 0 n)).

Lemma regs_S tk n : regs tk (S n) = if isdefer tk n then n :: regs tk n else regs tk n.
Proof. unfold regs. rewrite seq_S, rev_app_distr. simpl. reflexivity. Qed.

Lemma regs_0 tk : regs tk 0 = []. Proof. reflexivity. Qed.

Arguments regs : simpl never.

Definition la_bound (la : option nat) (n : nat) : Prop := match la with Some j => j <= n | None => True end.

Lemma la_bound_S la n : la_bound la n -> la_bound la (S n).
Proof. destruct la; simpl; auto. Qed.

Definition phase_pre (v : view) : Prop :=
  v_ann v = [] /\ v_prb v = [] /\ v_codes v = [] /\ v_fin v = false /\ v_fail v = None.

Definition inloop (tk : task) (n : nat) (ds : list nat) (dx : nat) (v : view) : Prop :=
  ds = regs tk n /\ dx = 0 /\ la_bound (v_la v) n /\ phase_pre v.

(* deferredExitCode against the trace: the exit status of the own failing command, or 0 with the
   excuse [X] (the command ended under a cancelled context) *)
Definition dx_rel (X : Prop) (tk : task) (dx : nat) (v : view) : Prop :=
  match v_fail v with
  | Some i => dx = exit_of_tk tk i \/ (X /\ dx = 0)
  | None => True
  end.

Definition stopped (strict : Prop) (tk : task) (n : nat) (ds : list nat) (dx : nat) (v : view) : Prop :=
  ds = regs tk n /\ la_bound (v_la v) n /\ v_ann v = [] /\ v_prb v = [] /\ v_codes v = [] /\ v_fin v = false /\
  dx_rel strict tk dx v.

(* the loop ended at n; [pre] has been popped already *)
Definition indefer (strict : Prop) (tk : task) (n : nat) (pre ds : list nat) (dx : nat) (v : view) : Prop :=
  regs tk n = pre ++ ds /\ v_ann v = filter (dshell tk) pre /\ la_bound (v_la v) n /\
  (v_fin v = true -> length (t_cmds tk) <= n) /\ dx_rel strict tk dx v /\ Forall (eq dx) (v_codes v).

Definition local (strict : Prop) (tk : task) (q : pc) (ds : list nat) (dx : nat) (v : view) : Prop :=
  match q with
  | PEntry | PPlatformEnd | PAcquire | PDedup | PWRelease _ | PWWait _ | PWReacq _ | PDepsFork | PDepsJoin
  | PDepsReacq | PBlock | PPrompt => ds = [] /\ dx = 0 /\ v_la v = None /\ phase_pre v
  | PCmd i => inloop tk i ds dx v
  | PRun i | PProbe i | PCallWait i _ | PCallReacq i _ => inloop tk (S i) ds dx v /\ isdefer tk i = false
  | PFail _ => exists n, stopped strict tk n ds dx v
  | PDefers _ | PDProbe _ _ | PDCallWait _ _ | PDCallReacq _ =>
      exists n pre, indefer strict tk n pre ds dx v /\ v_prb v = v_ann v
  | PDRun _ i => exists n pre, indefer strict tk n pre ds dx v /\ v_ann v = v_prb v ++ [i]
  | PEnd _ | PRelease _ | PDone _ => exists n pre, indefer strict tk n pre ds dx v /\ v_prb v = v_ann v /\ ds = []
  end.

Definition dq (x : act) : aid * nat * pc * list nat * nat := (a_path x, a_task x, a_pc x, a_defers x, a_dexit x).
Lemma dq_gerr x e : dq (set_gerr x e) = dq x. Proof. reflexivity. Qed.

(* the excuse may depend on the path and on the trace so far; it must be stable *)
Definition excuse := aid -> list event -> Prop.
Definition excuse_mono (X : excuse) : Prop := forall a tr evs, X a tr -> X a (tr ++ evs).

Definition dq_ok (X : excuse) (p : prog) (tr : list event) (y : aid * nat * pc * list nat * nat) : Prop :=
  let '(a, t, q, ds, dx) := y in local (X a tr) (get_task p t) q ds dx (vfold (get_task p t) a tr).

Lemma local_mono (X Y : Prop) tk q ds dx v : (X -> Y) -> local X tk q ds dx v -> local Y tk q ds dx v.
Proof.
  intros HXY.
  assert (Hd : dx_rel X tk dx v -> dx_rel Y tk dx v).
  { unfold dx_rel. destruct (v_fail v); tauto. }
  destruct q; simpl; auto; unfold stopped, indefer;
    try (intros [n H]; exists n; tauto);
    try (intros (n & pre & H); exists n, pre; tauto).
Qed.

Definition ev_in (s : state) (e : event) : Prop :=
  match ev_act e with Some a => In a (map a_path (acts s)) | None => True end.

Record inv_defer (strict : excuse) (p : prog) (c : cfg) (s : state) : Prop := {
  id_ph : inv_phase p c s;
  id_ev : Forall (ev_in s) (trace s);
  id_loc : Forall (dq_ok strict p (trace s)) (pj dq s)
}.

Lemma paths_of_dq s : map (fun y : aid * nat * pc * list nat * nat => fst (fst (fst (fst y)))) (pj dq s) = map a_path (acts s).
Proof. unfold pj. rewrite map_map. reflexivity. Qed.

Lemma defer_move strict p c s s' a x q' ds' dx' news evs :
  excuse_mono strict ->
  inv_defer strict p c s ->
  inv_phase p c s' ->
  get_act s a = Some x ->
  pj dq s' = upd (pj dq s) a (a_path x, a_task x, q', ds', dx') ++ map dq news ->
  Forall (fun y => a_pc y = PEntry /\ a_defers y = [] /\ a_dexit y = 0) news ->
  trace s' = trace s ++ evs ->
  Forall (fun e => ev_act e = Some (a_path x) \/ ev_act e = None) evs ->
  (forall v, v = vfold (get_task p (a_task x)) (a_path x) (trace s) ->
             local (strict (a_path x) (trace s ++ evs)) (get_task p (a_task x)) (a_pc x) (a_defers x) (a_dexit x) v ->
             local (strict (a_path x) (trace s ++ evs)) (get_task p (a_task x)) q' ds' dx'
                   (fold_left (vstep (get_task p (a_task x)) (a_path x)) evs v)) ->
  inv_defer strict p c s'.
Proof.
  intros Hmono [Hph Hev Hloc] Hph' Hx Hpq Hnews Htr Hevs Hsim.
  pose proof (pj_nth dq _ _ _ Hx) as Hn.
  assert (Hlt : a < length (pj dq s)) by (apply nth_error_Some; rewrite Hn; discriminate).
  assert (Hpaths' : map a_path (acts s') = map a_path (acts s) ++ map a_path news).
  { rewrite <- (paths_of_dq s'), Hpq, map_app, map_upd. simpl.
    rewrite upd_same by (rewrite nth_error_map, Hn; reflexivity).
    rewrite paths_of_dq, map_map. reflexivity. }
  assert (Hnd' : NoDup (map a_path (acts s) ++ map a_path news)).
  { rewrite <- Hpaths', <- paths_of_cs. apply (ip_uniq _ _ _ Hph'). }
  assert (Hnd : NoDup (map a_path (acts s))) by (rewrite <- paths_of_cs; apply (ip_uniq _ _ _ Hph)).
  assert (Hxin : In (a_path x) (map a_path (acts s))).
  { apply in_map. unfold get_act in Hx. eapply nth_error_In; eauto. }
  constructor; [exact Hph'| |].
  - rewrite Htr. apply Forall_app. split.
    + eapply Forall_impl; [|exact Hev]. intros e He. unfold ev_in in *.
      destruct (ev_act e); [|exact I]. rewrite Hpaths'. apply in_or_app. left. exact He.
    + eapply Forall_impl; [|exact Hevs]. intros e [He|He]; unfold ev_in; rewrite He; [|exact I].
      rewrite Hpaths'. apply in_or_app. left. exact Hxin.
  - rewrite Hpq, Htr. apply Forall_app. split.
    + apply Forall_forall. intros y Hy. apply In_nth_error in Hy. destruct Hy as [j Hj].
      assert (Hjl : j < length (pj dq s)).
      { rewrite <- (upd_length (pj dq s) a (a_path x, a_task x, q', ds', dx')). apply nth_error_Some. rewrite Hj. discriminate. }
      rewrite Forall_forall in Hloc.
      destruct (Nat.eq_dec a j) as [<-|Hne].
      * rewrite (nth_error_upd_same (pj dq s) a _ (dq x) Hn) in Hj. injection Hj as <-.
        unfold dq_ok. rewrite vfold_app. apply Hsim; [reflexivity|].
        eapply local_mono; [apply Hmono|]. apply (Hloc (dq x) (nth_error_In _ _ Hn)).
      * rewrite nth_error_upd_other in Hj by exact Hne.
        assert (Hpne : fst (fst (fst (fst y))) <> a_path x).
        { intros Heq. apply Hne.
          apply (NoDup_map_nth (fun z : aid * nat * pc * list nat * nat => fst (fst (fst (fst z)))) (pj dq s) a j (dq x) y); auto.
          rewrite paths_of_dq. exact Hnd. }
        specialize (Hloc y (nth_error_In _ _ Hj)). destruct y as [[[[pa t] q] ds] dx]. simpl in Hpne.
        unfold dq_ok in *. rewrite vfold_app, vfold_quiet; [eapply local_mono; [apply Hmono|exact Hloc]|].
        eapply Forall_impl; [|exact Hevs]. intros e [He|He]; rewrite He; congruence.
    + apply Forall_forall. intros y Hy. apply in_map_iff in Hy. destruct Hy as [n [<- Hn']].
      rewrite Forall_forall in Hnews. destruct (Hnews n Hn') as (Hq & Hd & Hdx). unfold dq, dq_ok. rewrite Hq, Hd, Hdx.
      assert (Hfresh : ~ In (a_path n) (map a_path (acts s))).
      { intros Hin. apply (NoDup_app_disjoint _ _ (a_path n) Hnd' Hin). apply in_map. exact Hn'. }
      assert (Hv : vfold (get_task p (a_task n)) (a_path n) (trace s ++ evs) = v0).
      { unfold vfold. apply vfold_quiet. apply Forall_app. split.
        - eapply Forall_impl; [|exact Hev]. intros e He Heq. unfold ev_in in He. rewrite Heq in He. exact (Hfresh He).
        - eapply Forall_impl; [|exact Hevs]. intros e [He|He] Heq; rewrite He in Heq; [|discriminate].
          injection Heq as Heq. apply Hfresh. rewrite <- Heq. exact Hxin. }
      rewrite Hv. simpl. unfold phase_pre. simpl. repeat split; reflexivity.
Qed.

(* fresh dep activations start with deferredExitCode 0 *)
Lemma fork_deps_dexit p : forall ds s a x gctx j s' ids,
  fork_deps p s a x gctx ds j = (s', ids) ->
  exists news, acts s' = acts s ++ news /\ Forall (fun y => a_dexit y = 0) news.
Proof.
  induction ds as [|d ds IH]; intros s a x gctx j s' ids H; simpl in H.
  - injection H as <- <-. exists []. rewrite app_nil_r. split; [reflexivity|constructor].
  - unfold add_act in H; simpl in H.
    match type of H with context [fork_deps ?a1 ?a2 ?a3 ?a4 ?a5 ?a6 ?a7] =>
      destruct (fork_deps a1 a2 a3 a4 a5 a6 a7) as [s2 ids2] eqn:E end.
    injection H as <- <-. apply IH in E. destruct E as [news [Ha Hf]]. simpl in Ha.
    eexists (_ :: news). rewrite Ha, <- app_assoc. split; [reflexivity|]. constructor; [reflexivity|exact Hf].
Qed.

Global Hint Rewrite (pj_set_act dq) (pj_emit dq) (pj_cancel dq) (pj_acquire dq) (pj_release dq)
  (pj_finish dq dq_gerr) : dqdb.

Ltac defer_setup Hmono Hinv Hph' Hx :=
  eapply defer_move with (news := []);
  [ exact Hmono | exact Hinv | exact Hph' | exact Hx
  | autorewrite with dqdb; unfold dq; simpl; rewrite ?app_nil_r; reflexivity
  | constructor
  | autorewrite with sigdb; simpl; rewrite <- ?app_assoc; first [reflexivity | symmetry; apply app_nil_r]
  | repeat (first [apply Forall_nil | apply Forall_cons; [first [left; reflexivity | right; reflexivity]|]])
  | ].

Definition probes_uncancelled (s : state) : Prop :=
  forall a x i, get_act s a = Some x -> a_pc x = PProbe i -> cancelled s (a_ectx x) = false.

(* whenever the first own failing command of an activation ends under a cancelled context, the
   excuse holds *)
Definition probe_excused (X : excuse) (p : prog) (s : state) : Prop :=
  forall a x i, get_act s a = Some x -> a_pc x = PProbe i -> cancelled s (a_ectx x) = true ->
    failing_tk (get_task p (a_task x)) i = true ->
    v_fail (vfold (get_task p (a_task x)) (a_path x) (trace s)) = None ->
    X (a_path x) (trace s).

(* local transitions *)
Lemma pre_to_end strict tk ds dx v :
  ds = [] /\ dx = 0 /\ v_la v = None /\ phase_pre v ->
  exists n pre, indefer strict tk n pre ds dx v /\ v_prb v = v_ann v /\ ds = [].
Proof.
  intros (Hds & Hdx & Hla & Ha & Hp & Hc & Hf & Hfl). exists 0, []. subst ds.
  unfold indefer, dx_rel. rewrite Ha, Hp, Hc, Hf, Hfl, Hla. simpl.
  repeat split; auto. discriminate.
Qed.

Lemma inloop_next tk i ds dx v : inloop tk i ds dx v -> isdefer tk i = false -> inloop tk (S i) ds dx v.
Proof.
  intros (Hds & Hdx & Hla & Hp) Hd. unfold inloop. rewrite regs_S, Hd. apply la_bound_S in Hla. tauto.
Qed.

Lemma inloop_push tk i ds dx v : inloop tk i ds dx v -> isdefer tk i = true -> inloop tk (S i) (i :: ds) dx v.
Proof.
  intros (Hds & Hdx & Hla & Hp) Hd. unfold inloop. rewrite regs_S, Hd, Hds. apply la_bound_S in Hla. tauto.
Qed.

Lemma inloop_stopped strict tk n ds dx v : inloop tk n ds dx v -> stopped strict tk n ds dx v.
Proof.
  intros (Hds & Hdx & Hla & Ha & Hp & Hc & Hf & Hfl). unfold stopped, dx_rel. rewrite Hfl. repeat split; auto.
Qed.

Lemma stopped_indefer strict tk n ds dx v :
  stopped strict tk n ds dx v -> exists n' pre, indefer strict tk n' pre ds dx v /\ v_prb v = v_ann v.
Proof.
  intros (Hds & Hla & Ha & Hp & Hc & Hf & Hdx). exists n, []. unfold indefer. rewrite Ha, Hp, Hc, Hf. simpl.
  repeat split; auto. discriminate.
Qed.

Lemma indefer_pop strict tk n pre i l dx v :
  indefer strict tk n pre (i :: l) dx v -> dshell tk i = false -> indefer strict tk n (pre ++ [i]) l dx v.
Proof.
  intros (Hr & Ha & Hrest) Hd. unfold indefer. rewrite <- app_assoc. simpl. split; [exact Hr|].
  rewrite filter_app. simpl. rewrite Hd, app_nil_r. split; [exact Ha|exact Hrest].
Qed.

Lemma stopped_fail strict tk i ds dx dx' v :
  inloop tk (S i) ds dx v ->
  dx' = exit_of_tk tk i \/ (strict /\ dx' = 0) ->
  stopped strict tk (S i) ds dx'
    {| v_ann := v_ann v; v_prb := v_prb v; v_codes := v_codes v; v_la := v_la v; v_fin := v_fin v;
       v_fail := match v_fail v with Some n => Some n | None => Some i end |}.
Proof.
  intros (Hds & Hdx & Hla & Ha & Hp & Hc & Hf & Hfl) Hx. unfold stopped, dx_rel. simpl. rewrite Hfl.
  repeat split; auto.
Qed.

Lemma stopped_dx strict tk n ds dx dx' v : inloop tk n ds dx v -> stopped strict tk n ds dx' v.
Proof.
  intros (Hds & Hdx & Hla & Ha & Hp & Hc & Hf & Hfl). unfold stopped, dx_rel. rewrite Hfl. repeat split; auto.
Qed.

Ltac loc_intro v Hl :=
  let Hv := fresh "Hv" in
  intros v Hv Hl; cbn [fold_left vstep]; rewrite ?aid_eqb_refl; cbn [andb];
  cbn [local] in Hl |- *.

Lemma step_inv_defer strict p c s a s' :
  excuse_mono strict ->
  inv_defer strict p c s -> probe_excused strict p s ->
  step p c s a = Some s' -> inv_defer strict p c s'.
Proof.
  intros Hmono Hinv Hunc H.
  pose proof (step_inv_phase p c s a s' (id_ph _ _ _ _ Hinv) H) as Hph'.
  destruct (get_act s a) as [x|] eqn:Hx; [|unfold step in H; rewrite Hx in H; discriminate].
  pose proof (pj_lt dq _ _ _ Hx) as Hlt.
  pose proof (Hunc a x) as Hunc'. clear Hunc.
  step_cases H Hx;
    try (defer_setup Hmono Hinv Hph' Hx; rewrite ?Hpc; loc_intro v Hl;
         first [ exact Hl
               | apply pre_to_end; exact Hl
               | destruct Hl as [Hl Hd]; eapply inloop_stopped in Hl; eexists; exact Hl
               | destruct Hl as [Hl Hd]; split; [exact Hl|exact Hd]
               | destruct Hl as [Hl Hd]; exact Hl
               | idtac ]).
  - (* fork deps *)
    pose proof (fork_deps_spec p _ _ _ _ _ _ _ _ Heqp0) as Hspec.
    pose proof (fork_deps_dexit p _ _ _ _ _ _ _ _ Heqp0) as Hdx.
    destruct Hspec as [news (Ha & _ & Ht & _ & _ & _ & _ & _ & _ & _ & Hf & _)].
    destruct Hdx as [news' [Ha' Hf']]. simpl in Ha, Ha', Ht. rewrite Ha in Ha'. apply app_inv_head in Ha'. subst news'.
    eapply defer_move with (a := a) (news := news) (evs := []);
      [exact Hmono|exact Hinv|exact Hph'|exact Hx| | | |constructor| ].
    + unfold pj at 1. rewrite acts_set_act, map_upd, Ha, release_acts, map_app.
      rewrite upd_app_l by exact Hlt. reflexivity.
    + apply Forall_forall. intros y Hy. rewrite Forall_forall in Hf, Hf'.
      destruct (Hf y Hy) as (H1 & _ & _ & _ & H5 & _). split; [exact H1|]. split; [exact H5|exact (Hf' y Hy)].
    + rewrite trace_set_act, Ht, release_trace. symmetry. apply app_nil_r.
    + rewrite Hpc. loc_intro v Hl. exact Hl.
  - (* PPrompt -> PCmd 0 *)
    destruct Hl as (Hds & Hdx & Hla & Hp). unfold inloop. rewrite Hla, regs_0. simpl. tauto.
  - (* announce *)
    assert (Hd : isdefer (get_task p (a_task x)) i = false) by (unfold isdefer; rewrite Heqo; reflexivity).
    split; [|exact Hd]. destruct Hl as (Hds & Hdx & Hla & Hp). unfold inloop, phase_pre in *. simpl.
    rewrite regs_S, Hd. repeat split; try tauto. lia.
  - (* call *)
    eapply defer_move with (a := a) (news := [_]) (evs := []);
      [exact Hmono|exact Hinv|exact Hph'|exact Hx| | | |constructor| ].
    + unfold pj at 1. rewrite acts_set_act, map_upd. simpl. rewrite release_acts, map_app.
      rewrite upd_app_l by exact Hlt. reflexivity.
    + repeat constructor.
    + rewrite trace_set_act. simpl. rewrite release_trace. symmetry. apply app_nil_r.
    + rewrite Hpc. loc_intro v Hl.
      assert (Hd : isdefer (get_task p (a_task x)) i = false) by (unfold isdefer; rewrite Heqo; reflexivity).
      split; [apply inloop_next; assumption|exact Hd].
  - (* defer shell registered *)
    apply inloop_push; [exact Hl|]. unfold isdefer. rewrite Heqo. reflexivity.
  - (* defer call registered *)
    apply inloop_push; [exact Hl|]. unfold isdefer. rewrite Heqo. reflexivity.
  - (* finished *)
    destruct Hl as (Hds & Hdx & Hla & Ha & Hp & Hc & Hf & Hfl). exists i, [].
    unfold indefer, dx_rel. simpl. rewrite Ha, Hp, Hc, Hfl. simpl.
    apply nth_error_None in Heqo. repeat split; auto.
  - (* probe end, exit 0 *)
    replace (failing_tk (get_task p (a_task x)) i) with false by (unfold failing_tk; rewrite Heqo; reflexivity).
    exact (proj1 Hl).
  - (* probe end under a cancelled context *)
    destruct (failing_tk (get_task p (a_task x)) i) eqn:Ef.
    + exists (S i). apply stopped_fail with (dx := a_dexit x); [exact (proj1 Hl)|]. right.
      destruct Hl as [(_ & Hdx0 & _ & _ & _ & _ & _ & Hfl) _]. split; [|exact Hdx0].
      apply Hmono. apply (Hunc' i Hx eq_refl eq_refl Ef). rewrite <- Hv. exact Hfl.
    + exists (S i). apply inloop_stopped. exact (proj1 Hl).
  - (* ignore_error on the command *)
    replace (failing_tk (get_task p (a_task x)) i) with false by (unfold failing_tk; rewrite Heqo; reflexivity).
    exact (proj1 Hl).
  - (* ignore_error on the task *)
    replace (failing_tk (get_task p (a_task x)) i) with false
      by (unfold failing_tk; rewrite Heqo, Heqb1; reflexivity).
    exact (proj1 Hl).
  - (* the command fails *)
    simpl in Heqo0. injection Heqo0 as <-.
    replace (failing_tk (get_task p (a_task x)) i) with true
      by (unfold failing_tk; rewrite Heqo, Heqb1; reflexivity).
    exists (S i). apply stopped_fail with (dx := a_dexit x); [exact (proj1 Hl)|]. left.
    unfold exit_of_tk. rewrite Heqo. reflexivity.
  - (* a callee failed with an exit status *)
    exists (S i). eapply stopped_dx. exact (proj1 Hl).
  - (* PFail -> PDefers *)
    destruct Hl as [n Hl]. exact (stopped_indefer _ _ _ _ _ _ Hl).
  - (* nothing left to pop *)
    destruct Hl as (n & pre & Hl & Hpa). exists n, pre. split; [exact Hl|split; [exact Hpa|exact Heql]].
  - (* pop: not a defer entry *)
    destruct Hl as (n0 & pre & Hl & Hpa). rewrite Heql in *. simpl. exists n0, (pre ++ [n]).
    split; [|exact Hpa]. apply indefer_pop; [exact Hl|]. unfold dshell. rewrite Heqo. reflexivity.
  - (* pop: not a defer entry *)
    destruct Hl as (n0 & pre & Hl & Hpa). rewrite Heql in *. simpl. exists n0, (pre ++ [n]).
    split; [|exact Hpa]. apply indefer_pop; [exact Hl|]. unfold dshell. rewrite Heqo. reflexivity.
  - (* pop a DeferShell entry: announce it *)
    destruct Hl as (n0 & pre & Hl & Hpa). rewrite Heql in *. simpl. exists n0, (pre ++ [n]).
    destruct Hl as (Hr & Ha & Hrest). unfold indefer, dx_rel in *. simpl. rewrite <- app_assoc. simpl.
    split; [split; [exact Hr|]|rewrite Hpa; reflexivity].
    rewrite filter_app. simpl. unfold dshell at 2. rewrite Heqo. rewrite Ha. split; [reflexivity|exact Hrest].
  - (* pop a DeferCall entry: call it *)
    eapply defer_move with (a := a) (news := [_]) (evs := []);
      [exact Hmono|exact Hinv|exact Hph'|exact Hx| | | |constructor| ].
    + unfold pj at 1. rewrite acts_set_act, map_upd. simpl. rewrite release_acts, map_app.
      rewrite upd_app_l by exact Hlt. reflexivity.
    + repeat constructor.
    + rewrite trace_set_act. simpl. rewrite release_trace. symmetry. apply app_nil_r.
    + rewrite Hpc. loc_intro v Hl. simpl.
      destruct Hl as (n0 & pre & Hl & Hpa). rewrite Heql in *. simpl. exists n0, (pre ++ [n]).
      split; [|exact Hpa]. apply indefer_pop; [exact Hl|]. unfold dshell. rewrite Heqo. reflexivity.
  - (* pop: not a defer entry *)
    destruct Hl as (n0 & pre & Hl & Hpa). rewrite Heql in *. simpl. exists n0, (pre ++ [n]).
    split; [|exact Hpa]. apply indefer_pop; [exact Hl|]. unfold dshell. rewrite Heqo. reflexivity.
  - (* the deferred probe arrives *)
    destruct Hl as (n0 & pre & Hl & Hpa). exists n0, pre.
    destruct Hl as (Hr & Ha & Hla & Hf & Hdx & Hc). unfold indefer, dx_rel in *. simpl.
    split; [|symmetry; exact Hpa]. repeat split; auto.
    apply Forall_app. split; [exact Hc|constructor; [reflexivity|constructor]].
Qed.

(* ------------------------------------------------------------------ *)
(* lifting to runs                                                     *)

Lemma inv_defer_init strict p c : inv_defer strict p c (init_state p).
Proof. constructor; [apply inv_phase_init|constructor|constructor]. Qed.

Lemma start_root_inv_defer strict p c s k s' :
  inv_defer strict p c s -> start_root p c s k = Some s' -> inv_defer strict p c s'.
Proof.
  intros [Hph Hev Hloc] H.
  pose proof (start_root_inv_phase p c s k s' Hph H) as Hph'.
  constructor; [exact Hph'| |]; unfold start_root in H;
    (destruct (nth_error (cf_roots c) k) as [cl|]; [|discriminate]);
    (destruct (negb (precheck_ok p c) || root_started s k); [discriminate|]);
    (match type of H with (if ?b then _ else _) = _ => destruct b end; [|discriminate]);
    injection H as <-; unfold add_act in *; simpl in *.
  - eapply Forall_impl; [|exact Hev]. intros e He. unfold ev_in in *. simpl.
    destruct (ev_act e); [|exact I]. rewrite map_app. apply in_or_app. left. exact He.
  - unfold pj. simpl. rewrite map_app. apply Forall_app. split; [exact Hloc|].
    constructor; [|constructor]. unfold dq, dq_ok. simpl.
    assert (Hfresh : ~ In [k] (map a_path (acts s))).
    { destruct (ip_uniq _ _ _ Hph') as [Hnd _]. rewrite paths_of_cs in Hnd. simpl in Hnd.
      rewrite map_app in Hnd. simpl in Hnd. intros Hin.
      apply (NoDup_app_disjoint _ _ [k] Hnd Hin). left. reflexivity. }
    assert (Hv : vfold (get_task p (c_task cl)) [k] (trace s) = v0).
    { unfold vfold. apply vfold_quiet. eapply Forall_impl; [|exact Hev].
      intros e He Heq. unfold ev_in in He. rewrite Heq in He. exact (Hfresh He). }
    rewrite Hv. unfold phase_pre. simpl. repeat split; reflexivity.
Qed.

(* a property of every state a schedule goes through *)
Fixpoint all_states (P : state -> Prop) (p : prog) (c : cfg) (s : state) (sched : list choice) : Prop :=
  P s /\ match sched with [] => True | ch :: r => all_states P p c (do_choice p c s ch) r end.

Lemma all_states_impl (P Q : state -> Prop) p c sched :
  (forall s, P s -> Q s) -> forall s, all_states P p c s sched -> all_states Q p c s sched.
Proof.
  intros HPQ. induction sched as [|ch sched IH]; intros s [H1 H2]; simpl; (split; [apply HPQ; exact H1|auto]).
Qed.

Lemma all_states_always (P : state -> Prop) p c sched : (forall s, P s) -> forall s, all_states P p c s sched.
Proof. intros HP. induction sched as [|ch sched IH]; intros s; simpl; (split; [apply HP|auto]). Qed.

Lemma fold_inv_defer X p c sched : excuse_mono X -> forall s,
  inv_defer X p c s -> all_states (probe_excused X p) p c s sched ->
  inv_defer X p c (fold_left (do_choice p c) sched s).
Proof.
  intros Hmono. induction sched as [|ch sched IH]; intros s Hs Hall; simpl; [exact Hs|].
  destruct Hall as [H1 H2]. apply IH; [|exact H2].
  destruct ch as [a|k]; simpl.
  - destruct (step p c s a) eqn:E; [|exact Hs]. eapply step_inv_defer; eauto.
  - destruct (start_root p c s k) eqn:E; [eapply start_root_inv_defer; eauto|exact Hs].
Qed.

(* the two extreme excuses: always (EXIT_CODE may be unset whenever the command was cancelled), never *)
Definition ex_any : excuse := fun _ _ => True.
Definition ex_none : excuse := fun _ _ => False.

Lemma run_inv_defer p c sched : inv_defer ex_any p c (run p c sched).
Proof.
  unfold run. apply fold_inv_defer; [intros a tr evs H; exact I|apply inv_defer_init|].
  apply all_states_always. intros s a x i _ _ _ _ _. exact I.
Qed.

Lemma run_inv_defer_strict p c sched :
  all_states probes_uncancelled p c (init_state p) sched -> inv_defer ex_none p c (run p c sched).
Proof.
  intros H. unfold run. apply fold_inv_defer; [intros a tr evs []|apply inv_defer_init|].
  eapply all_states_impl; [|exact H]. intros s Hs a x i Hx Hpc Hc _ _.
  rewrite (Hs a x i Hx Hpc) in Hc. discriminate.
Qed.

(* ------------------------------------------------------------------ *)
(* lists: decreasing sequences, defer_indices                           *)

Definition desc (l : list nat) : Prop := StronglySorted (fun a b => b < a) l.

Lemma desc_rev_seq n : desc (rev (seq 0 n)).
Proof.
  induction n as [|n IH]; [constructor|].
  rewrite seq_S, rev_app_distr. simpl. constructor; [exact IH|].
  apply Forall_forall. intros y Hy. apply in_rev in Hy. apply in_seq in Hy. lia.
Qed.

Lemma desc_filter f l : desc l -> desc (filter f l).
Proof.
  induction 1 as [|x l Hl IH Hx]; simpl; [constructor|].
  destruct (f x); [|exact IH]. constructor; [exact IH|].
  rewrite Forall_forall in *. intros y Hy. apply filter_In in Hy. apply Hx. apply Hy.
Qed.

Lemma desc_app_l l1 l2 : desc (l1 ++ l2) -> desc l1.
Proof.
  induction l1 as [|x l1 IH]; simpl; intros H; [constructor|].
  inversion H as [|? ? Hl Hx]; subst. constructor; [apply IH; exact Hl|].
  rewrite Forall_forall in *. intros y Hy. apply Hx. apply in_or_app. left. exact Hy.
Qed.

Lemma desc_sd l : desc l -> strictly_decreasing l = true.
Proof.
  induction 1 as [|x l Hl IH Hx]; [reflexivity|].
  destruct l as [|y r]; [reflexivity|]. cbn [strictly_decreasing].
  inversion Hx as [|? ? Hy _]; subst. apply Nat.ltb_lt in Hy. rewrite Hy. exact IH.
Qed.

Lemma nat_list_eqb_refl l : nat_list_eqb l l = true.
Proof.
  unfold nat_list_eqb. rewrite Nat.eqb_refl. simpl.
  induction l as [|x l IH]; simpl; [reflexivity|]. rewrite Nat.eqb_refl. exact IH.
Qed.

Lemma filter_filter_imp {A} (f g : A -> bool) l :
  (forall x, f x = true -> g x = true) -> filter f (filter g l) = filter f l.
Proof.
  intros H. induction l as [|x l IH]; simpl; [reflexivity|].
  destruct (g x) eqn:Eg; simpl; [rewrite IH; reflexivity|].
  destruct (f x) eqn:Ef; [rewrite (H x Ef) in Eg; discriminate|exact IH].
Qed.

Lemma filter_rev' {A} (f : A -> bool) l : filter f (rev l) = rev (filter f l).
Proof.
  induction l as [|x l IH]; simpl; [reflexivity|].
  rewrite filter_app, IH. simpl. destruct (f x); simpl; [reflexivity|apply app_nil_r].
Qed.

Lemma dshell_isdefer tk i : dshell tk i = true -> isdefer tk i = true.
Proof. unfold dshell, isdefer. destruct (nth_error (t_cmds tk) i) as [[| | |]|]; auto. Qed.

Definition dsh (l : list cmd) (i : nat) : bool :=
  match nth_error l i with Some (DeferShell _) => true | _ => false end.

Lemma combine_app' {A B} (l1 l2 : list A) (m1 m2 : list B) :
  length l1 = length m1 -> combine (l1 ++ l2) (m1 ++ m2) = combine l1 m1 ++ combine l2 m2.
Proof.
  revert m1; induction l1 as [|x l1 IH]; intros [|y m1] H; simpl in *; try discriminate; [reflexivity|].
  rewrite IH by congruence. reflexivity.
Qed.

Lemma defer_indices_filter_gen (l : list cmd) :
  map fst (filter (fun '(_, cm) => match cm with DeferShell _ => true | _ => false end)
                  (combine (seq 0 (length l)) l)) = filter (dsh l) (seq 0 (length l)).
Proof.
  induction l as [|cm l IH] using rev_ind; [reflexivity|].
  rewrite app_length. simpl. rewrite Nat.add_1_r, seq_S. simpl.
  rewrite combine_app' by apply seq_length. rewrite !filter_app, map_app, IH. simpl.
  f_equal.
  - apply filter_ext_in. intros i Hi. apply in_seq in Hi. unfold dsh.
    rewrite nth_error_app1 by lia. reflexivity.
  - unfold dsh. rewrite nth_error_app2 by lia. rewrite Nat.sub_diag. simpl.
    destruct cm; reflexivity.
Qed.

Lemma defer_indices_filter p t :
  defer_indices p t = filter (dshell (get_task p t)) (seq 0 (length (t_cmds (get_task p t)))).
Proof. unfold defer_indices. apply defer_indices_filter_gen. Qed.

Lemma filter_none {A} (f : A -> bool) l : (forall x, In x l -> f x = false) -> filter f l = [].
Proof.
  induction l as [|x l IH]; intros H; simpl; [reflexivity|].
  rewrite (H x (or_introl eq_refl)). apply IH. intros y Hy. apply H. right. exact Hy.
Qed.

Lemma dshell_regs_full tk n :
  length (t_cmds tk) <= n ->
  filter (dshell tk) (regs tk n) = rev (filter (dshell tk) (seq 0 (length (t_cmds tk)))).
Proof.
  intros Hn. unfold regs. rewrite filter_filter_imp by apply dshell_isdefer.
  rewrite filter_rev'. f_equal.
  replace n with (length (t_cmds tk) + (n - length (t_cmds tk))) by lia.
  rewrite seq_app, filter_app. simpl.
  rewrite (filter_none (dshell tk) (seq (length (t_cmds tk)) _)); [apply app_nil_r|].
  intros i Hi. apply in_seq in Hi. unfold dshell.
  replace (nth_error (t_cmds tk) i) with (@None cmd); [reflexivity|].
  symmetry. apply nth_error_None. lia.
Qed.

Lemma dshell_regs_mem tk n j :
  j < n -> dshell tk j = true -> In j (filter (dshell tk) (regs tk n)).
Proof.
  intros Hj Hd. apply filter_In. split; [|exact Hd]. unfold regs. apply filter_In.
  split; [|apply dshell_isdefer; exact Hd]. apply -> in_rev. apply in_seq. lia.
Qed.

(* ------------------------------------------------------------------ *)
(* mon_C14 = its part about order/completeness && its EXIT_CODE part    *)

Definition c14_core (p : prog) (c : cfg) (complete : bool) (tr : list event) (a : aid) : bool :=
  strictly_decreasing (dann_of a tr) &&
  forallb (fun i => is_defer_shell p (task_of p c a) i) (dann_of a tr) &&
  (if complete then
     nat_list_eqb (dann_of a tr) (dprobes_of a tr) &&
     if mem_aid a (finished_acts tr) then nat_list_eqb (dann_of a tr) (rev (defer_indices p (task_of p c a)))
     else
       match last_announced a tr with
       | Some i => forallb (fun j => existsb (Nat.eqb j) (dann_of a tr))
                           (filter (fun j => Nat.ltb j i) (defer_indices p (task_of p c a)))
       | None => true
       end
   else true).

(* mon_C14 without its EXIT_CODE conjunct *)
Definition mon_C14_noexit (p : prog) (c : cfg) (complete : bool) (tr : list event) : bool :=
  forallb (c14_core p c complete tr) (started_acts tr).

Definition mon_C14_exit (p : prog) (c : cfg) (tr : list event) : bool :=
  forallb (fun a => exit_codes_ok p c a tr) (started_acts tr).

Lemma andb_shuffle (A B E K X Y : bool) : (A && B && E && K) && (X && Y) = (A && B && K && X) && (E && Y).
Proof. destruct A, B, E, K, X, Y; reflexivity. Qed.

Theorem mon_C14_split p c complete tr :
  mon_C14 p c complete tr = mon_C14_noexit p c complete tr && mon_C14_exit p c tr.
Proof.
  unfold mon_C14, mon_C14_noexit, mon_C14_exit. generalize (started_acts tr) as l.
  induction l as [|a l IH]; [reflexivity|]. cbn [forallb]. rewrite IH. cbv zeta. unfold c14_core.
  apply andb_shuffle.
Qed.

(* what the local invariant says about the announcements *)
Lemma local_ann strict tk q ds dx v :
  local strict tk q ds dx v ->
  exists n pre rest, regs tk n = pre ++ rest /\ v_ann v = filter (dshell tk) pre.
Proof.
  destruct q; simpl; intros H;
    try (destruct H as (_ & _ & _ & Ha & _); exists 0, [], []; split; [reflexivity|exact Ha]);
    try (destruct H as [(_ & _ & _ & Ha & _) _]; exists 0, [], []; split; [reflexivity|exact Ha]);
    try (destruct H as [n (_ & _ & Ha & _)]; exists 0, [], []; split; [reflexivity|exact Ha]);
    try (destruct H as (n & pre & (Hr & Ha & _) & _); exists n, pre, ds; split; [exact Hr|exact Ha]).
Qed.

Lemma local_done strict tk r ds dx v :
  local strict tk (PDone r) ds dx v ->
  exists n, v_ann v = filter (dshell tk) (regs tk n) /\ v_prb v = v_ann v /\ la_bound (v_la v) n /\
            (v_fin v = true -> length (t_cmds tk) <= n).
Proof.
  simpl. intros (n & pre & (Hr & Ha & Hla & Hf & _) & Hp & Hds). subst ds. rewrite app_nil_r in Hr.
  exists n. rewrite Hr. repeat split; assumption.
Qed.

Lemma core_of_local strict p c tr a complete q ds dx :
  local strict (get_task p (task_of p c a)) q ds dx (vfold (get_task p (task_of p c a)) a tr) ->
  (complete = true -> exists r, q = PDone r) ->
  c14_core p c complete tr a = true.
Proof.
  set (tk := get_task p (task_of p c a)). intros Hl Hc. unfold c14_core.
  rewrite (dann_vfold tk), (dprobes_vfold tk), (la_vfold tk), (fin_vfold tk), defer_indices_filter.
  fold tk. set (v := vfold tk a tr) in *.
  destruct (local_ann _ _ _ _ _ _ Hl) as (n & pre & rest & Hr & Ha).
  assert (Hsd : strictly_decreasing (v_ann v) = true).
  { rewrite Ha. apply desc_sd, desc_filter. apply (desc_app_l pre rest). rewrite <- Hr.
    unfold regs. apply desc_filter, desc_rev_seq. }
  assert (Hsh : forallb (fun i => is_defer_shell p (task_of p c a) i) (v_ann v) = true).
  { rewrite Ha. apply forallb_forall. intros i Hi. apply filter_In in Hi. exact (proj2 Hi). }
  rewrite Hsd, Hsh. simpl.
  destruct complete; [|reflexivity].
  destruct (Hc eq_refl) as [r ->].
  destruct (local_done _ _ _ _ _ _ Hl) as (m & Ha' & Hp & Hla & Hf).
  rewrite Hp, nat_list_eqb_refl. simpl.
  destruct (v_fin v).
  - rewrite Ha', (dshell_regs_full tk m (Hf eq_refl)). apply nat_list_eqb_refl.
  - destruct (v_la v) as [i|]; [|reflexivity]. simpl in Hla.
    apply forallb_forall. intros j Hj. apply filter_In in Hj. destruct Hj as [Hj Hji].
    apply filter_In in Hj. destruct Hj as [_ Hjd]. apply Nat.ltb_lt in Hji.
    apply existsb_exists. exists j. split; [|apply Nat.eqb_refl].
    rewrite Ha'. apply dshell_regs_mem; [lia|exact Hjd].
Qed.

(* every started path belongs to an activation, whose local invariant holds *)
Lemma started_act strict p c s a :
  inv_defer strict p c s -> In a (started_acts (trace s)) ->
  exists x, In x (acts s) /\ a_path x = a /\ task_of p c a = a_task x /\
            local (strict a (trace s)) (get_task p (a_task x)) (a_pc x) (a_defers x) (a_dexit x)
                  (vfold (get_task p (a_task x)) a (trace s)).
Proof.
  intros [Hph Hev Hloc] Ha. unfold started_acts in Ha. apply in_flat_map in Ha. destruct Ha as [e [He Hae]].
  destruct e; try contradiction. destruct Hae as [<-|[]].
  rewrite Forall_forall in Hev. specialize (Hev _ He). unfold ev_in in Hev. simpl in Hev.
  apply in_map_iff in Hev. destruct Hev as [x [Hp Hx]]. subst a0. exists x. split; [exact Hx|]. split; [reflexivity|].
  destruct (In_nth_error _ _ Hx) as [j Hj].
  split; [apply (task_of_get p c s j x (ip_ids _ _ _ Hph) Hj)|].
  rewrite Forall_forall in Hloc. apply (Hloc (dq x)). unfold pj. apply in_map. exact Hx.
Qed.

Lemma noexit_of_inv strict p c s complete :
  inv_defer strict p c s ->
  (complete = true -> forall x, In x (acts s) -> exists r, a_pc x = PDone r) ->
  mon_C14_noexit p c complete (trace s) = true.
Proof.
  intros Hinv Hc. unfold mon_C14_noexit. apply forallb_forall. intros a Ha.
  destruct (started_act _ _ _ _ _ Hinv Ha) as (x & Hx & Hp & Ht & Hl).
  eapply core_of_local.
  - rewrite Ht. exact Hl.
  - intros Hcomp. exact (Hc Hcomp x Hx).
Qed.

(* EXIT_CODE *)
Lemma local_codes strict tk q ds dx v :
  local strict tk q ds dx v -> dx_rel strict tk dx v /\ Forall (eq dx) (v_codes v).
Proof.
  destruct q; simpl; intros H;
    try (destruct H as (_ & _ & _ & _ & _ & Hc & _ & Hf); unfold dx_rel; rewrite Hc, Hf; split; [exact I|constructor]);
    try (destruct H as [(_ & _ & _ & _ & _ & Hc & _ & Hf) _]; unfold dx_rel; rewrite Hc, Hf; split; [exact I|constructor]);
    try (destruct H as [n (_ & _ & _ & _ & Hc & _ & Hd)]; rewrite Hc; split; [exact Hd|constructor]);
    try (destruct H as (n & pre & (_ & _ & _ & _ & Hd & Hc) & _); split; [exact Hd|exact Hc]).
Qed.

Lemma codes_of_local (strict : Prop) p c tr a q ds dx fo :
  local strict (get_task p (task_of p c a)) q ds dx (vfold (get_task p (task_of p c a)) a tr) ->
  (strict -> fo = true) ->
  forallb (code_ok (own_failure p c a tr) fo) (dcodes_of a tr) = true.
Proof.
  set (tk := get_task p (task_of p c a)). intros Hl Hfo.
  rewrite own_failure_vfold, (dcodes_vfold tk). fold tk. set (v := vfold tk a tr) in *.
  destruct (local_codes _ _ _ _ _ _ Hl) as [Hd Hc]. unfold dx_rel in Hd.
  apply forallb_forall. intros code Hcode. rewrite Forall_forall in Hc. rewrite <- (Hc code Hcode).
  destruct (v_fail v) as [i|]; [|reflexivity]. simpl.
  destruct Hd as [->|[Hs ->]]; [rewrite Nat.eqb_refl; reflexivity|].
  rewrite (Hfo Hs). simpl. apply orb_true_r.
Qed.

(* EXIT_CODE is the exit status of the own failing command, or unset *)
Definition exit_codes_weak (p : prog) (c : cfg) (a : aid) (tr : list event) : bool :=
  forallb (code_ok (own_failure p c a tr) true) (dcodes_of a tr).

Lemma weak_of_inv p c s :
  inv_defer ex_any p c s -> forallb (fun a => exit_codes_weak p c a (trace s)) (started_acts (trace s)) = true.
Proof.
  intros Hinv. apply forallb_forall. intros a Ha.
  destruct (started_act _ _ _ _ _ Hinv Ha) as (x & Hx & Hp & Ht & Hl).
  unfold exit_codes_weak. eapply codes_of_local; [rewrite Ht; exact Hl|reflexivity].
Qed.

Lemma exit_of_inv_strict p c s : inv_defer ex_none p c s -> mon_C14_exit p c (trace s) = true.
Proof.
  intros Hinv. apply forallb_forall. intros a Ha.
  destruct (started_act _ _ _ _ _ Hinv Ha) as (x & Hx & Hp & Ht & Hl).
  rewrite exit_codes_ok_codes. eapply codes_of_local; [rewrite Ht; exact Hl|intros []].
Qed.

Lemma code_ok_weak own fo code : code_ok own true code = true -> fo = true -> code_ok own fo code = true.
Proof. intros H ->. exact H. Qed.

(* ------------------------------------------------------------------ *)
(* the theorems                                                        *)

Lemma precheck_false_run p c sched : precheck_ok p c = false -> run p c sched = init_state p.
Proof.
  intros Hp. unfold run.
  assert (H : forall s, acts s = [] -> fold_left (do_choice p c) sched s = s).
  { induction sched as [|ch sched IH]; intros s Hs; simpl; [reflexivity|].
    assert (E : do_choice p c s ch = s).
    { destruct ch as [a|k]; simpl.
      - unfold step, get_act. rewrite Hs. destruct a; reflexivity.
      - unfold start_root. destruct (nth_error (cf_roots c) k); [|reflexivity]. rewrite Hp. reflexivity. }
    rewrite E. apply IH. exact Hs. }
  apply H. reflexivity.
Qed.

Lemma complete_all_done p c s r :
  precheck_ok p c = true -> run_result p c s = Some r ->
  forall x, In x (acts s) -> exists r', a_pc x = PDone r'.
Proof.
  unfold run_result. intros -> H x Hx. simpl in H.
  destruct (forallb (fun x => match a_pc x with PDone _ => true | _ => false end) (acts s)) eqn:E; [|discriminate].
  rewrite forallb_forall in E. specialize (E x Hx). destruct (a_pc x); try discriminate. eexists. reflexivity.
Qed.

(* (1) safety, every reachable state, without the EXIT_CODE conjunct *)
Theorem defer_safety_noexit p c sched : mon_C14_noexit p c false (trace (run p c sched)) = true.
Proof. apply (noexit_of_inv ex_any). apply run_inv_defer. discriminate. Qed.

(* (2) completeness, completed runs, without the EXIT_CODE conjunct *)
Theorem defer_complete_noexit p c sched r :
  run_result p c (run p c sched) = Some r -> mon_C14_noexit p c true (trace (run p c sched)) = true.
Proof.
  intros Hr. destruct (precheck_ok p c) eqn:Ep.
  - apply (noexit_of_inv ex_any); [apply run_inv_defer|]. intros _. exact (complete_all_done p c _ r Ep Hr).
  - rewrite (precheck_false_run p c sched Ep). reflexivity.
Qed.

(* EXIT_CODE seen by a deferred command is the exit status of the activation's own failing command or 0 *)
Theorem exit_codes_weak_all p c sched :
  forallb (fun a => exit_codes_weak p c a (trace (run p c sched))) (started_acts (trace (run p c sched))) = true.
Proof. apply weak_of_inv. apply run_inv_defer. Qed.

(* hence the EXIT_CODE conjunct holds for every activation for which the monitor's excuse applies *)
Theorem exit_codes_ok_if_foreign p c sched a :
  In a (started_acts (trace (run p c sched))) ->
  foreign_failure p c a (trace (run p c sched)) = true ->
  exit_codes_ok p c a (trace (run p c sched)) = true.
Proof.
  intros Ha Hf. pose proof (exit_codes_weak_all p c sched) as H. rewrite forallb_forall in H.
  specialize (H a Ha). unfold exit_codes_weak in H. rewrite exit_codes_ok_codes, Hf. exact H.
Qed.

(* full mon_C14 when no probe ever ends under a cancelled context: EXIT_CODE is exact *)
Theorem defer_safety_uncancelled p c sched :
  all_states probes_uncancelled p c (init_state p) sched ->
  mon_C14 p c false (trace (run p c sched)) = true.
Proof.
  intros H. pose proof (run_inv_defer_strict p c sched H) as Hinv.
  rewrite mon_C14_split, (noexit_of_inv ex_none p c _ false Hinv), (exit_of_inv_strict p c _ Hinv); [reflexivity|discriminate].
Qed.

Theorem defer_complete_uncancelled p c sched r :
  all_states probes_uncancelled p c (init_state p) sched ->
  run_result p c (run p c sched) = Some r ->
  mon_C14 p c true (trace (run p c sched)) = true.
Proof.
  intros H Hr. rewrite mon_C14_split, (defer_complete_noexit p c sched r Hr).
  rewrite (exit_of_inv_strict p c _ (run_inv_defer_strict p c sched H)). reflexivity.
Qed.

(* ------------------------------------------------------------------ *)
(* the same on the observable part of the trace (EvEnd is the only non-observable event and
   mon_C14 ignores it) *)

Lemma flat_map_obs {B} (f : event -> list B) tr :
  (forall a r, f (EvEnd a r) = []) -> flat_map f (filter observable tr) = flat_map f tr.
Proof.
  intros H. induction tr as [|e tr IH]; [reflexivity|].
  destruct e; cbn [filter observable flat_map]; rewrite ?IH, ?H; reflexivity.
Qed.

Lemma find_obs (f : event -> bool) tr :
  (forall a r, f (EvEnd a r) = false) -> find f (filter observable tr) = find f tr.
Proof.
  intros H. induction tr as [|e tr IH]; [reflexivity|].
  destruct e; cbn [filter observable find]; rewrite ?IH, ?H; reflexivity.
Qed.

Lemma existsb_obs (f : event -> bool) tr :
  (forall a r, f (EvEnd a r) = false) -> existsb f (filter observable tr) = existsb f tr.
Proof.
  intros H. induction tr as [|e tr IH]; [reflexivity|].
  destruct e; cbn [filter observable existsb]; rewrite ?IH, ?H; reflexivity.
Qed.

Lemma forallb_obs (f : event -> bool) tr :
  (forall a r, f (EvEnd a r) = true) -> forallb f (filter observable tr) = forallb f tr.
Proof.
  intros H. induction tr as [|e tr IH]; [reflexivity|].
  destruct e; cbn [filter observable forallb]; rewrite ?IH, ?H; reflexivity.
Qed.

Lemma la_obs a tr : last_announced a (filter observable tr) = last_announced a tr.
Proof.
  unfold last_announced. generalize (@None nat). induction tr as [|e tr IH]; intros acc; [reflexivity|].
  destruct e; cbn [filter observable fold_left]; apply IH.
Qed.

Lemma forallb_ext' {A} (f g : A -> bool) l : (forall x, f x = g x) -> forallb f l = forallb g l.
Proof. intros H. induction l as [|x l IH]; simpl; [reflexivity|]. rewrite H, IH. reflexivity. Qed.

Lemma exit_codes_ok_obs p c a tr : exit_codes_ok p c a (filter observable tr) = exit_codes_ok p c a tr.
Proof.
  unfold exit_codes_ok, own_failure, foreign_failure.
  rewrite find_obs by reflexivity. rewrite existsb_obs by reflexivity. apply forallb_obs. reflexivity.
Qed.

Theorem mon_C14_observable p c complete tr : mon_C14 p c complete (filter observable tr) = mon_C14 p c complete tr.
Proof.
  unfold mon_C14. unfold started_acts at 1. rewrite flat_map_obs by reflexivity. fold (started_acts tr).
  apply forallb_ext'. intros a. cbv zeta. rewrite exit_codes_ok_obs, la_obs.
  unfold dann_of, dprobes_of, finished_acts. rewrite !flat_map_obs by reflexivity. reflexivity.
Qed.

Theorem mon_C14_noexit_observable p c complete tr :
  mon_C14_noexit p c complete (filter observable tr) = mon_C14_noexit p c complete tr.
Proof.
  unfold mon_C14_noexit. unfold started_acts at 1. rewrite flat_map_obs by reflexivity. fold (started_acts tr).
  apply forallb_ext'. intros a. unfold c14_core. rewrite la_obs.
  unfold dann_of, dprobes_of, finished_acts. rewrite !flat_map_obs by reflexivity. reflexivity.
Qed.
