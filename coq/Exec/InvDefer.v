(* C14: the deferred stack.  Per activation, the machine's (pc, a_defers, a_dexit) is tied to the
   events of the activation's path in the trace: the registered deferred entries are exactly the
   defer entries of the task below the index at which the command loop stands; once the loop is
   over they are popped one by one, every DeferShell entry popped is announced and then executed,
   nothing else is; an activation that returned popped all of them; EXIT_CODE seen by the deferred
   commands is the exit status of the activation's own failing command, or 0 when that command
   ended under a cancelled context.  A second invariant shows that a context seen by a running
   activation is cancelled only after an error occurred somewhere (guard error, call counter, or a
   failing command), and a counting argument shows that the call counter cannot trip when the
   expanded call tree of the program is smaller than MaximumTaskCall.  Together: mon_C14 for every
   program, configuration and schedule - safety in every reachable state (defer_safety),
   completeness for completed runs (defer_complete). *)
From Coq Require Import List Arith Bool Lia Sorted.
Import ListNotations.
From TV Require Import Exec.Model Exec.Monitors Exec.Facts Exec.InvSlots Exec.Proj Exec.InvPaths Exec.Frame
  Exec.InvUniq Exec.InvPhase.

(* ------------------------------------------------------------------ *)
(* the part of the trace mon_C14 looks at, for one path, as a fold     *)

Record view := {
  v_ann : list nat;        (* deferred announcements, in order *)
  v_prb : list nat;        (* deferred probes begun, in order *)
  v_codes : list nat;      (* EXIT_CODE those probes printed *)
  v_la : option nat;       (* last shell command announced *)
  v_fin : bool;            (* "finished" printed *)
  v_fail : option nat      (* first own failing command that ran to its end *)
}.

Definition v0 : view := {| v_ann := []; v_prb := []; v_codes := []; v_la := None; v_fin := false; v_fail := None |}.

Definition failing_tk (tk : task) (i : nat) : bool :=
  match nth_error (t_cmds tk) i with
  | Some (Shell (S _) false) => negb (t_ignore tk)
  | _ => false
  end.

Definition vstep (tk : task) (a : aid) (v : view) (e : event) : view :=
  match e with
  | EvDAnnounce b i =>
      if aid_eqb a b then {| v_ann := v_ann v ++ [i]; v_prb := v_prb v; v_codes := v_codes v; v_la := v_la v;
                             v_fin := v_fin v; v_fail := v_fail v |} else v
  | EvDProbeBegin b i code =>
      if aid_eqb a b then {| v_ann := v_ann v; v_prb := v_prb v ++ [i]; v_codes := v_codes v ++ [code]; v_la := v_la v;
                             v_fin := v_fin v; v_fail := v_fail v |} else v
  | EvAnnounce b i =>
      if aid_eqb a b then {| v_ann := v_ann v; v_prb := v_prb v; v_codes := v_codes v; v_la := Some i;
                             v_fin := v_fin v; v_fail := v_fail v |} else v
  | EvFinished b =>
      if aid_eqb a b then {| v_ann := v_ann v; v_prb := v_prb v; v_codes := v_codes v; v_la := v_la v;
                             v_fin := true; v_fail := v_fail v |} else v
  | EvProbeEnd b i =>
      if aid_eqb a b && failing_tk tk i then
        {| v_ann := v_ann v; v_prb := v_prb v; v_codes := v_codes v; v_la := v_la v; v_fin := v_fin v;
           v_fail := match v_fail v with None => Some i | o => o end |} else v
  | _ => v
  end.

Definition vfold (tk : task) (a : aid) (tr : list event) : view := fold_left (vstep tk a) tr v0.

Lemma vfold_app tk a tr evs : vfold tk a (tr ++ evs) = fold_left (vstep tk a) evs (vfold tk a tr).
Proof. unfold vfold. apply fold_left_app. Qed.

Lemma vfold_snoc tk a tr e : vfold tk a (tr ++ [e]) = vstep tk a (vfold tk a tr) e.
Proof. rewrite vfold_app. reflexivity. Qed.

Lemma vstep_quiet tk a v e : ev_act e <> Some a -> vstep tk a v e = v.
Proof.
  intros H. destruct e; simpl in *; try reflexivity;
    try (rewrite aid_eqb_neq by congruence; reflexivity).
Qed.

Lemma vfold_quiet tk a evs : forall v, Forall (fun e => ev_act e <> Some a) evs -> fold_left (vstep tk a) evs v = v.
Proof.
  induction evs as [|e evs IH]; intros v H; simpl; [reflexivity|].
  inversion H as [|? ? He Hr]; subst. rewrite vstep_quiet by exact He. apply IH. exact Hr.
Qed.

(* the monitor's projections are the components of the fold *)
Lemma dann_vfold tk a tr : dann_of a tr = v_ann (vfold tk a tr).
Proof.
  induction tr as [|e tr IH] using rev_ind; [reflexivity|].
  rewrite vfold_snoc. unfold dann_of in *. rewrite flat_map_app, IH. simpl.
  destruct e; simpl; rewrite ?app_nil_r; try reflexivity;
    try (destruct (aid_eqb a a0); simpl; rewrite ?app_nil_r; reflexivity).
  destruct (aid_eqb a a0 && failing_tk tk i); reflexivity.
Qed.

Lemma dprobes_vfold tk a tr : dprobes_of a tr = v_prb (vfold tk a tr).
Proof.
  induction tr as [|e tr IH] using rev_ind; [reflexivity|].
  rewrite vfold_snoc. unfold dprobes_of in *. rewrite flat_map_app, IH. simpl.
  destruct e; simpl; rewrite ?app_nil_r; try reflexivity;
    try (destruct (aid_eqb a a0); simpl; rewrite ?app_nil_r; reflexivity).
  destruct (aid_eqb a a0 && failing_tk tk i); reflexivity.
Qed.

Definition dcodes_of (a : aid) (tr : list event) : list nat :=
  flat_map (fun e => match e with EvDProbeBegin b _ code => if aid_eqb a b then [code] else [] | _ => [] end) tr.

Lemma dcodes_vfold tk a tr : dcodes_of a tr = v_codes (vfold tk a tr).
Proof.
  induction tr as [|e tr IH] using rev_ind; [reflexivity|].
  rewrite vfold_snoc. unfold dcodes_of in *. rewrite flat_map_app, IH. simpl.
  destruct e; simpl; rewrite ?app_nil_r; try reflexivity;
    try (destruct (aid_eqb a a0); simpl; rewrite ?app_nil_r; reflexivity).
  destruct (aid_eqb a a0 && failing_tk tk i); reflexivity.
Qed.

Lemma la_vfold tk a tr : last_announced a tr = v_la (vfold tk a tr).
Proof.
  induction tr as [|e tr IH] using rev_ind; [reflexivity|].
  rewrite vfold_snoc. unfold last_announced in *. rewrite fold_left_app, IH. simpl.
  destruct e; simpl; try reflexivity;
    try (destruct (aid_eqb a a0); simpl; reflexivity).
  destruct (aid_eqb a a0 && failing_tk tk i); reflexivity.
Qed.

Lemma fin_vfold tk a tr : mem_aid a (finished_acts tr) = v_fin (vfold tk a tr).
Proof.
  induction tr as [|e tr IH] using rev_ind; [reflexivity|].
  rewrite vfold_snoc. unfold mem_aid, finished_acts in *. rewrite flat_map_app, existsb_app, IH. simpl.
  destruct e; simpl; rewrite ?orb_false_r; try reflexivity;
    try (destruct (aid_eqb a a0); simpl; rewrite ?orb_false_r; reflexivity).
  - destruct (aid_eqb a a0 && failing_tk tk i); reflexivity.
  - destruct (aid_eqb a a0); simpl; [apply orb_true_r|apply orb_false_r].
Qed.

Lemma find_app {A} (f : A -> bool) l1 l2 :
  find f (l1 ++ l2) = match find f l1 with Some x => Some x | None => find f l2 end.
Proof. induction l1 as [|x l1 IH]; simpl; [reflexivity|]. destruct (f x); [reflexivity|exact IH]. Qed.

Definition exit_of_tk (tk : task) (i : nat) : nat :=
  match nth_error (t_cmds tk) i with Some (Shell ex _) => ex | _ => 0 end.

Lemma failing_tk_shell tk i : failing_tk tk i = true ->
  exists n, nth_error (t_cmds tk) i = Some (Shell (S n) false) /\ t_ignore tk = false.
Proof.
  unfold failing_tk. destruct (nth_error (t_cmds tk) i) as [[[|n] [|]| | |]|]; try discriminate.
  intros H. exists n. split; [reflexivity|]. destruct (t_ignore tk); [discriminate|reflexivity].
Qed.

Definition own_fail_event (p : prog) (c : cfg) (a : aid) (e : event) : bool :=
  match e with EvProbeEnd b i => aid_eqb a b && failing_cmd p c a i | _ => false end.

Lemma find_vfold p c a tr :
  match find (own_fail_event p c a) tr with
  | Some (EvProbeEnd _ i) => v_fail (vfold (get_task p (task_of p c a)) a tr) = Some i /\
                             failing_tk (get_task p (task_of p c a)) i = true
  | Some _ => False
  | None => v_fail (vfold (get_task p (task_of p c a)) a tr) = None
  end.
Proof.
  induction tr as [|e tr IH] using rev_ind; [reflexivity|].
  rewrite vfold_snoc, find_app.
  destruct (find (own_fail_event p c a) tr) as [e0|].
  - destruct e0; try contradiction. destruct IH as [IH1 IH2]. split; [|exact IH2].
    destruct e; simpl; try exact IH1; try (destruct (aid_eqb a a1); exact IH1).
    destruct (aid_eqb a a1 && failing_tk _ i0); [simpl; rewrite IH1; reflexivity|exact IH1].
  - simpl. destruct e; simpl; try exact IH; try (destruct (aid_eqb a a0); exact IH).
    change (failing_cmd p c a i) with (failing_tk (get_task p (task_of p c a)) i).
    destruct (aid_eqb a a0 && failing_tk (get_task p (task_of p c a)) i) eqn:E.
    + simpl. rewrite IH. split; [reflexivity|]. apply andb_true_iff in E. apply E.
    + exact IH.
Qed.

Lemma own_failure_vfold p c a tr :
  own_failure p c a tr =
  match v_fail (vfold (get_task p (task_of p c a)) a tr) with
  | Some i => Some (exit_of_tk (get_task p (task_of p c a)) i)
  | None => None
  end.
Proof.
  unfold own_failure. fold (own_fail_event p c a).
  pose proof (find_vfold p c a tr) as H.
  destruct (find (own_fail_event p c a) tr) as [e0|].
  - destruct e0; try contradiction. destruct H as [H1 H2]. rewrite H1.
    destruct (failing_tk_shell _ _ H2) as [n [Hn _]]. unfold exit_of_tk. rewrite Hn. reflexivity.
  - rewrite H. reflexivity.
Qed.

(* exit_codes_ok is a statement about the codes printed *)
Definition code_ok (own : option nat) (foreign : bool) (code : nat) : bool :=
  match own with
  | Some ex => Nat.eqb code ex || (Nat.eqb code 0 && foreign)
  | None => true
  end.

Lemma exit_codes_ok_codes p c a tr :
  exit_codes_ok p c a tr = forallb (code_ok (own_failure p c a tr) (foreign_failure p c a tr)) (dcodes_of a tr).
Proof.
  unfold exit_codes_ok. generalize (own_failure p c a tr) (foreign_failure p c a tr). intros own fo.
  induction tr as [|e tr IH]; [reflexivity|]. simpl. rewrite IH.
  destruct e; simpl; try reflexivity.
  destruct (aid_eqb a a0); simpl; reflexivity.
Qed.

(* ------------------------------------------------------------------ *)
(* the per-activation invariant                                        *)

Definition dshell (tk : task) (i : nat) : bool :=
  match nth_error (t_cmds tk) i with Some (DeferShell _) => true | _ => false end.
Definition isdefer (tk : task) (i : nat) : bool :=
  match nth_error (t_cmds tk) i with Some (DeferShell _) | Some (DeferCall _) => true | _ => false end.

(* the defer entries with index below n, last first: what the loop has registered when it stands at n *)
Definition regs (tk : task) (n : nat) : list nat := filter (isdefer tk) (rev (seq 0 n)).

Lemma regs_S tk n : regs tk (S n) = if isdefer tk n then n :: regs tk n else regs tk n.
Proof. unfold regs. rewrite seq_S, rev_app_distr. simpl. reflexivity. Qed.

Lemma regs_0 tk : regs tk 0 = []. Proof. reflexivity. Qed.

Arguments regs : simpl never.

Definition la_bound (la : option nat) (n : nat) : Prop := match la with Some j => j <= n | None => True end.

Lemma la_bound_S la n : la_bound la n -> la_bound la (S n).
Proof. destruct la; simpl; auto. Qed.

Definition phase_pre (v : view) : Prop :=
  v_ann v = [] /\ v_prb v = [] /\ v_codes v = [] /\ v_fin v = false /\ v_fail v = None.

Definition inloop (tk : task) (n : nat) (ds : list nat) (dx : nat) (v : view) : Prop :=
  ds = regs tk n /\ dx = 0 /\ la_bound (v_la v) n /\ phase_pre v.

(* deferredExitCode against the trace: the exit status of the own failing command, or 0 with the
   excuse [X] (the command ended under a cancelled context) *)
Definition dx_rel (X : Prop) (tk : task) (dx : nat) (v : view) : Prop :=
  match v_fail v with
  | Some i => dx = exit_of_tk tk i \/ (X /\ dx = 0)
  | None => True
  end.

Definition stopped (strict : Prop) (tk : task) (n : nat) (ds : list nat) (dx : nat) (v : view) : Prop :=
  ds = regs tk n /\ la_bound (v_la v) n /\ v_ann v = [] /\ v_prb v = [] /\ v_codes v = [] /\ v_fin v = false /\
  dx_rel strict tk dx v.

(* the loop ended at n; [pre] has been popped already *)
Definition indefer (strict : Prop) (tk : task) (n : nat) (pre ds : list nat) (dx : nat) (v : view) : Prop :=
  regs tk n = pre ++ ds /\ v_ann v = filter (dshell tk) pre /\ la_bound (v_la v) n /\
  (v_fin v = true -> length (t_cmds tk) <= n) /\ dx_rel strict tk dx v /\ Forall (eq dx) (v_codes v).

Definition local (strict : Prop) (tk : task) (q : pc) (ds : list nat) (dx : nat) (v : view) : Prop :=
  match q with
  | PEntry | PPlatformEnd | PAcquire | PDedup | PWRelease _ | PWWait _ | PWReacq _ | PDepsFork | PDepsJoin
  | PDepsReacq | PBlock | PPrompt => ds = [] /\ dx = 0 /\ v_la v = None /\ phase_pre v
  | PCmd i => inloop tk i ds dx v
  | PRun i | PProbe i | PCallWait i _ | PCallReacq i _ => inloop tk (S i) ds dx v /\ isdefer tk i = false
  | PFail _ => exists n, stopped strict tk n ds dx v
  | PDefers _ | PDProbe _ _ | PDCallWait _ _ | PDCallReacq _ =>
      exists n pre, indefer strict tk n pre ds dx v /\ v_prb v = v_ann v
  | PDRun _ i => exists n pre, indefer strict tk n pre ds dx v /\ v_ann v = v_prb v ++ [i]
  | PEnd _ | PRelease _ | PDone _ => exists n pre, indefer strict tk n pre ds dx v /\ v_prb v = v_ann v /\ ds = []
  end.

Definition dq (x : act) : aid * nat * pc * list nat * nat := (a_path x, a_task x, a_pc x, a_defers x, a_dexit x).
Lemma dq_gerr x e : dq (set_gerr x e) = dq x. Proof. reflexivity. Qed.

(* the excuse may depend on the path and on the trace so far; it must be stable *)
Definition excuse := aid -> list event -> Prop.
Definition excuse_mono (X : excuse) : Prop := forall a tr evs, X a tr -> X a (tr ++ evs).

Definition dq_ok (X : excuse) (p : prog) (tr : list event) (y : aid * nat * pc * list nat * nat) : Prop :=
  let '(a, t, q, ds, dx) := y in local (X a tr) (get_task p t) q ds dx (vfold (get_task p t) a tr).

Lemma local_mono (X Y : Prop) tk q ds dx v : (X -> Y) -> local X tk q ds dx v -> local Y tk q ds dx v.
Proof.
  intros HXY.
  assert (Hd : dx_rel X tk dx v -> dx_rel Y tk dx v).
  { unfold dx_rel. destruct (v_fail v); tauto. }
  destruct q; simpl; auto; unfold stopped, indefer;
    try (intros [n H]; exists n; tauto);
    try (intros (n & pre & H); exists n, pre; tauto).
Qed.

Definition ev_in (s : state) (e : event) : Prop :=
  match ev_act e with Some a => In a (map a_path (acts s)) | None => True end.

Record inv_defer (strict : excuse) (p : prog) (c : cfg) (s : state) : Prop := {
  id_ph : inv_phase p c s;
  id_ev : Forall (ev_in s) (trace s);
  id_loc : Forall (dq_ok strict p (trace s)) (pj dq s)
}.

Lemma paths_of_dq s : map (fun y : aid * nat * pc * list nat * nat => fst (fst (fst (fst y)))) (pj dq s) = map a_path (acts s).
Proof. unfold pj. rewrite map_map. reflexivity. Qed.

Lemma defer_move strict p c s s' a x q' ds' dx' news evs :
  excuse_mono strict ->
  inv_defer strict p c s ->
  inv_phase p c s' ->
  get_act s a = Some x ->
  pj dq s' = upd (pj dq s) a (a_path x, a_task x, q', ds', dx') ++ map dq news ->
  Forall (fun y => a_pc y = PEntry /\ a_defers y = [] /\ a_dexit y = 0) news ->
  trace s' = trace s ++ evs ->
  Forall (fun e => ev_act e = Some (a_path x) \/ ev_act e = None) evs ->
  (forall v, v = vfold (get_task p (a_task x)) (a_path x) (trace s) ->
             local (strict (a_path x) (trace s ++ evs)) (get_task p (a_task x)) (a_pc x) (a_defers x) (a_dexit x) v ->
             local (strict (a_path x) (trace s ++ evs)) (get_task p (a_task x)) q' ds' dx'
                   (fold_left (vstep (get_task p (a_task x)) (a_path x)) evs v)) ->
  inv_defer strict p c s'.
Proof.
  intros Hmono [Hph Hev Hloc] Hph' Hx Hpq Hnews Htr Hevs Hsim.
  pose proof (pj_nth dq _ _ _ Hx) as Hn.
  assert (Hlt : a < length (pj dq s)) by (apply nth_error_Some; rewrite Hn; discriminate).
  assert (Hpaths' : map a_path (acts s') = map a_path (acts s) ++ map a_path news).
  { rewrite <- (paths_of_dq s'), Hpq, map_app, map_upd. simpl.
    rewrite upd_same by (rewrite nth_error_map, Hn; reflexivity).
    rewrite paths_of_dq, map_map. reflexivity. }
  assert (Hnd' : NoDup (map a_path (acts s) ++ map a_path news)).
  { rewrite <- Hpaths', <- paths_of_cs. apply (ip_uniq _ _ _ Hph'). }
  assert (Hnd : NoDup (map a_path (acts s))) by (rewrite <- paths_of_cs; apply (ip_uniq _ _ _ Hph)).
  assert (Hxin : In (a_path x) (map a_path (acts s))).
  { apply in_map. unfold get_act in Hx. eapply nth_error_In; eauto. }
  constructor; [exact Hph'| |].
  - rewrite Htr. apply Forall_app. split.
    + eapply Forall_impl; [|exact Hev]. intros e He. unfold ev_in in *.
      destruct (ev_act e); [|exact I]. rewrite Hpaths'. apply in_or_app. left. exact He.
    + eapply Forall_impl; [|exact Hevs]. intros e [He|He]; unfold ev_in; rewrite He; [|exact I].
      rewrite Hpaths'. apply in_or_app. left. exact Hxin.
  - rewrite Hpq, Htr. apply Forall_app. split.
    + apply Forall_forall. intros y Hy. apply In_nth_error in Hy. destruct Hy as [j Hj].
      assert (Hjl : j < length (pj dq s)).
      { rewrite <- (upd_length (pj dq s) a (a_path x, a_task x, q', ds', dx')). apply nth_error_Some. rewrite Hj. discriminate. }
      rewrite Forall_forall in Hloc.
      destruct (Nat.eq_dec a j) as [<-|Hne].
      * rewrite (nth_error_upd_same (pj dq s) a _ (dq x) Hn) in Hj. injection Hj as <-.
        unfold dq_ok. rewrite vfold_app. apply Hsim; [reflexivity|].
        eapply local_mono; [apply Hmono|]. apply (Hloc (dq x) (nth_error_In _ _ Hn)).
      * rewrite nth_error_upd_other in Hj by exact Hne.
        assert (Hpne : fst (fst (fst (fst y))) <> a_path x).
        { intros Heq. apply Hne.
          apply (NoDup_map_nth (fun z : aid * nat * pc * list nat * nat => fst (fst (fst (fst z)))) (pj dq s) a j (dq x) y); auto.
          rewrite paths_of_dq. exact Hnd. }
        specialize (Hloc y (nth_error_In _ _ Hj)). destruct y as [[[[pa t] q] ds] dx]. simpl in Hpne.
        unfold dq_ok in *. rewrite vfold_app, vfold_quiet; [eapply local_mono; [apply Hmono|exact Hloc]|].
        eapply Forall_impl; [|exact Hevs]. intros e [He|He]; rewrite He; congruence.
    + apply Forall_forall. intros y Hy. apply in_map_iff in Hy. destruct Hy as [n [<- Hn']].
      rewrite Forall_forall in Hnews. destruct (Hnews n Hn') as (Hq & Hd & Hdx). unfold dq, dq_ok. rewrite Hq, Hd, Hdx.
      assert (Hfresh : ~ In (a_path n) (map a_path (acts s))).
      { intros Hin. apply (NoDup_app_disjoint _ _ (a_path n) Hnd' Hin). apply in_map. exact Hn'. }
      assert (Hv : vfold (get_task p (a_task n)) (a_path n) (trace s ++ evs) = v0).
      { unfold vfold. apply vfold_quiet. apply Forall_app. split.
        - eapply Forall_impl; [|exact Hev]. intros e He Heq. unfold ev_in in He. rewrite Heq in He. exact (Hfresh He).
        - eapply Forall_impl; [|exact Hevs]. intros e [He|He] Heq; rewrite He in Heq; [|discriminate].
          injection Heq as Heq. apply Hfresh. rewrite <- Heq. exact Hxin. }
      rewrite Hv. simpl. unfold phase_pre. simpl. repeat split; reflexivity.
Qed.

(* fresh dep activations start with deferredExitCode 0 *)
Lemma fork_deps_dexit p : forall ds s a x gctx j s' ids,
  fork_deps p s a x gctx ds j = (s', ids) ->
  exists news, acts s' = acts s ++ news /\ Forall (fun y => a_dexit y = 0) news.
Proof.
  induction ds as [|d ds IH]; intros s a x gctx j s' ids H; simpl in H.
  - injection H as <- <-. exists []. rewrite app_nil_r. split; [reflexivity|constructor].
  - unfold add_act in H; simpl in H.
    match type of H with context [fork_deps ?a1 ?a2 ?a3 ?a4 ?a5 ?a6 ?a7] =>
      destruct (fork_deps a1 a2 a3 a4 a5 a6 a7) as [s2 ids2] eqn:E end.
    injection H as <- <-. apply IH in E. destruct E as [news [Ha Hf]]. simpl in Ha.
    eexists (_ :: news). rewrite Ha, <- app_assoc. split; [reflexivity|]. constructor; [reflexivity|exact Hf].
Qed.

Global Hint Rewrite (pj_set_act dq) (pj_emit dq) (pj_cancel dq) (pj_acquire dq) (pj_release dq)
  (pj_finish dq dq_gerr) : dqdb.

Ltac defer_setup Hmono Hinv Hph' Hx :=
  eapply defer_move with (news := []);
  [ exact Hmono | exact Hinv | exact Hph' | exact Hx
  | autorewrite with dqdb; unfold dq; simpl; rewrite ?app_nil_r; reflexivity
  | constructor
  | autorewrite with sigdb; simpl; rewrite <- ?app_assoc; first [reflexivity | symmetry; apply app_nil_r]
  | repeat (first [apply Forall_nil | apply Forall_cons; [first [left; reflexivity | right; reflexivity]|]])
  | ].

Definition probes_uncancelled (s : state) : Prop :=
  forall a x i, get_act s a = Some x -> a_pc x = PProbe i -> cancelled s (a_ectx x) = false.

(* whenever the first own failing command of an activation ends under a cancelled context, the
   excuse holds *)
Definition probe_excused (X : excuse) (p : prog) (s : state) : Prop :=
  forall a x i, get_act s a = Some x -> a_pc x = PProbe i -> cancelled s (a_ectx x) = true ->
    failing_tk (get_task p (a_task x)) i = true ->
    v_fail (vfold (get_task p (a_task x)) (a_path x) (trace s)) = None ->
    X (a_path x) (trace s).

(* local transitions *)
Lemma pre_to_end strict tk ds dx v :
  ds = [] /\ dx = 0 /\ v_la v = None /\ phase_pre v ->
  exists n pre, indefer strict tk n pre ds dx v /\ v_prb v = v_ann v /\ ds = [].
Proof.
  intros (Hds & Hdx & Hla & Ha & Hp & Hc & Hf & Hfl). exists 0, []. subst ds.
  unfold indefer, dx_rel. rewrite Ha, Hp, Hc, Hf, Hfl, Hla. simpl.
  repeat split; auto. discriminate.
Qed.

Lemma inloop_next tk i ds dx v : inloop tk i ds dx v -> isdefer tk i = false -> inloop tk (S i) ds dx v.
Proof.
  intros (Hds & Hdx & Hla & Hp) Hd. unfold inloop. rewrite regs_S, Hd. apply la_bound_S in Hla. tauto.
Qed.

Lemma inloop_push tk i ds dx v : inloop tk i ds dx v -> isdefer tk i = true -> inloop tk (S i) (i :: ds) dx v.
Proof.
  intros (Hds & Hdx & Hla & Hp) Hd. unfold inloop. rewrite regs_S, Hd, Hds. apply la_bound_S in Hla. tauto.
Qed.

Lemma inloop_stopped strict tk n ds dx v : inloop tk n ds dx v -> stopped strict tk n ds dx v.
Proof.
  intros (Hds & Hdx & Hla & Ha & Hp & Hc & Hf & Hfl). unfold stopped, dx_rel. rewrite Hfl. repeat split; auto.
Qed.

Lemma stopped_indefer strict tk n ds dx v :
  stopped strict tk n ds dx v -> exists n' pre, indefer strict tk n' pre ds dx v /\ v_prb v = v_ann v.
Proof.
  intros (Hds & Hla & Ha & Hp & Hc & Hf & Hdx). exists n, []. unfold indefer. rewrite Ha, Hp, Hc, Hf. simpl.
  repeat split; auto. discriminate.
Qed.

Lemma indefer_pop strict tk n pre i l dx v :
  indefer strict tk n pre (i :: l) dx v -> dshell tk i = false -> indefer strict tk n (pre ++ [i]) l dx v.
Proof.
  intros (Hr & Ha & Hrest) Hd. unfold indefer. rewrite <- app_assoc. simpl. split; [exact Hr|].
  rewrite filter_app. simpl. rewrite Hd, app_nil_r. split; [exact Ha|exact Hrest].
Qed.

Lemma stopped_fail strict tk i ds dx dx' v :
  inloop tk (S i) ds dx v ->
  dx' = exit_of_tk tk i \/ (strict /\ dx' = 0) ->
  stopped strict tk (S i) ds dx'
    {| v_ann := v_ann v; v_prb := v_prb v; v_codes := v_codes v; v_la := v_la v; v_fin := v_fin v;
       v_fail := match v_fail v with Some n => Some n | None => Some i end |}.
Proof.
  intros (Hds & Hdx & Hla & Ha & Hp & Hc & Hf & Hfl) Hx. unfold stopped, dx_rel. simpl. rewrite Hfl.
  repeat split; auto.
Qed.

Lemma stopped_dx strict tk n ds dx dx' v : inloop tk n ds dx v -> stopped strict tk n ds dx' v.
Proof.
  intros (Hds & Hdx & Hla & Ha & Hp & Hc & Hf & Hfl). unfold stopped, dx_rel. rewrite Hfl. repeat split; auto.
Qed.

Ltac loc_intro v Hl :=
  let Hv := fresh "Hv" in
  intros v Hv Hl; cbn [fold_left vstep]; rewrite ?aid_eqb_refl; cbn [andb];
  cbn [local] in Hl |- *.

Lemma step_inv_defer strict p c s a s' :
  excuse_mono strict ->
  inv_defer strict p c s -> probe_excused strict p s ->
  step p c s a = Some s' -> inv_defer strict p c s'.
Proof.
  intros Hmono Hinv Hunc H.
  pose proof (step_inv_phase p c s a s' (id_ph _ _ _ _ Hinv) H) as Hph'.
  destruct (get_act s a) as [x|] eqn:Hx; [|unfold step in H; rewrite Hx in H; discriminate].
  pose proof (pj_lt dq _ _ _ Hx) as Hlt.
  pose proof (Hunc a x) as Hunc'. clear Hunc.
  step_cases H Hx;
    try (defer_setup Hmono Hinv Hph' Hx; rewrite ?Hpc; loc_intro v Hl;
         first [ exact Hl
               | apply pre_to_end; exact Hl
               | destruct Hl as [Hl Hd]; eapply inloop_stopped in Hl; eexists; exact Hl
               | destruct Hl as [Hl Hd]; split; [exact Hl|exact Hd]
               | destruct Hl as [Hl Hd]; exact Hl
               | idtac ]).
  - (* fork deps *)
    pose proof (fork_deps_spec p _ _ _ _ _ _ _ _ Heqp0) as Hspec.
    pose proof (fork_deps_dexit p _ _ _ _ _ _ _ _ Heqp0) as Hdx.
    destruct Hspec as [news (Ha & _ & Ht & _ & _ & _ & _ & _ & _ & _ & Hf & _)].
    destruct Hdx as [news' [Ha' Hf']]. simpl in Ha, Ha', Ht. rewrite Ha in Ha'. apply app_inv_head in Ha'. subst news'.
    eapply defer_move with (a := a) (news := news) (evs := []);
      [exact Hmono|exact Hinv|exact Hph'|exact Hx| | | |constructor| ].
    + unfold pj at 1. rewrite acts_set_act, map_upd, Ha, release_acts, map_app.
      rewrite upd_app_l by exact Hlt. reflexivity.
    + apply Forall_forall. intros y Hy. rewrite Forall_forall in Hf, Hf'.
      destruct (Hf y Hy) as (H1 & _ & _ & _ & H5 & _). split; [exact H1|]. split; [exact H5|exact (Hf' y Hy)].
    + rewrite trace_set_act, Ht, release_trace. symmetry. apply app_nil_r.
    + rewrite Hpc. loc_intro v Hl. exact Hl.
  - (* PPrompt -> PCmd 0 *)
    destruct Hl as (Hds & Hdx & Hla & Hp). unfold inloop. rewrite Hla, regs_0. simpl. tauto.
  - (* announce *)
    assert (Hd : isdefer (get_task p (a_task x)) i = false) by (unfold isdefer; rewrite Heqo; reflexivity).
    split; [|exact Hd]. destruct Hl as (Hds & Hdx & Hla & Hp). unfold inloop, phase_pre in *. simpl.
    rewrite regs_S, Hd. repeat split; try tauto. lia.
  - (* call *)
    eapply defer_move with (a := a) (news := [_]) (evs := []);
      [exact Hmono|exact Hinv|exact Hph'|exact Hx| | | |constructor| ].
    + unfold pj at 1. rewrite acts_set_act, map_upd. simpl. rewrite release_acts, map_app.
      rewrite upd_app_l by exact Hlt. reflexivity.
    + repeat constructor.
    + rewrite trace_set_act. simpl. rewrite release_trace. symmetry. apply app_nil_r.
    + rewrite Hpc. loc_intro v Hl.
      assert (Hd : isdefer (get_task p (a_task x)) i = false) by (unfold isdefer; rewrite Heqo; reflexivity).
      split; [apply inloop_next; assumption|exact Hd].
  - (* defer shell registered *)
    apply inloop_push; [exact Hl|]. unfold isdefer. rewrite Heqo. reflexivity.
  - (* defer call registered *)
    apply inloop_push; [exact Hl|]. unfold isdefer. rewrite Heqo. reflexivity.
  - (* finished *)
    destruct Hl as (Hds & Hdx & Hla & Ha & Hp & Hc & Hf & Hfl). exists i, [].
    unfold indefer, dx_rel. simpl. rewrite Ha, Hp, Hc, Hfl. simpl.
    apply nth_error_None in Heqo. repeat split; auto.
  - (* probe end, exit 0 *)
    replace (failing_tk (get_task p (a_task x)) i) with false by (unfold failing_tk; rewrite Heqo; reflexivity).
    exact (proj1 Hl).
  - (* probe end under a cancelled context *)
    destruct (failing_tk (get_task p (a_task x)) i) eqn:Ef.
    + exists (S i). apply stopped_fail with (dx := a_dexit x); [exact (proj1 Hl)|]. right.
      destruct Hl as [(_ & Hdx0 & _ & _ & _ & _ & _ & Hfl) _]. split; [|exact Hdx0].
      apply Hmono. apply (Hunc' i Hx eq_refl eq_refl Ef). rewrite <- Hv. exact Hfl.
    + exists (S i). apply inloop_stopped. exact (proj1 Hl).
  - (* ignore_error on the command *)
    replace (failing_tk (get_task p (a_task x)) i) with false by (unfold failing_tk; rewrite Heqo; reflexivity).
    exact (proj1 Hl).
  - (* ignore_error on the task *)
    replace (failing_tk (get_task p (a_task x)) i) with false
      by (unfold failing_tk; rewrite Heqo, Heqb1; reflexivity).
    exact (proj1 Hl).
  - (* the command fails *)
    simpl in Heqo0. injection Heqo0 as <-.
    replace (failing_tk (get_task p (a_task x)) i) with true
      by (unfold failing_tk; rewrite Heqo, Heqb1; reflexivity).
    exists (S i). apply stopped_fail with (dx := a_dexit x); [exact (proj1 Hl)|]. left.
    unfold exit_of_tk. rewrite Heqo. reflexivity.
  - (* a callee failed with an exit status *)
    exists (S i). eapply stopped_dx. exact (proj1 Hl).
  - (* PFail -> PDefers *)
    destruct Hl as [n Hl]. exact (stopped_indefer _ _ _ _ _ _ Hl).
  - (* nothing left to pop *)
    destruct Hl as (n & pre & Hl & Hpa). exists n, pre. split; [exact Hl|split; [exact Hpa|exact Heql]].
  - (* pop: not a defer entry *)
    destruct Hl as (n0 & pre & Hl & Hpa). rewrite Heql in *. simpl. exists n0, (pre ++ [n]).
    split; [|exact Hpa]. apply indefer_pop; [exact Hl|]. unfold dshell. rewrite Heqo. reflexivity.
  - (* pop: not a defer entry *)
    destruct Hl as (n0 & pre & Hl & Hpa). rewrite Heql in *. simpl. exists n0, (pre ++ [n]).
    split; [|exact Hpa]. apply indefer_pop; [exact Hl|]. unfold dshell. rewrite Heqo. reflexivity.
  - (* pop a DeferShell entry: announce it *)
    destruct Hl as (n0 & pre & Hl & Hpa). rewrite Heql in *. simpl. exists n0, (pre ++ [n]).
    destruct Hl as (Hr & Ha & Hrest). unfold indefer, dx_rel in *. simpl. rewrite <- app_assoc. simpl.
    split; [split; [exact Hr|]|rewrite Hpa; reflexivity].
    rewrite filter_app. simpl. unfold dshell at 2. rewrite Heqo. rewrite Ha. split; [reflexivity|exact Hrest].
  - (* pop a DeferCall entry: call it *)
    eapply defer_move with (a := a) (news := [_]) (evs := []);
      [exact Hmono|exact Hinv|exact Hph'|exact Hx| | | |constructor| ].
    + unfold pj at 1. rewrite acts_set_act, map_upd. simpl. rewrite release_acts, map_app.
      rewrite upd_app_l by exact Hlt. reflexivity.
    + repeat constructor.
    + rewrite trace_set_act. simpl. rewrite release_trace. symmetry. apply app_nil_r.
    + rewrite Hpc. loc_intro v Hl. simpl.
      destruct Hl as (n0 & pre & Hl & Hpa). rewrite Heql in *. simpl. exists n0, (pre ++ [n]).
      split; [|exact Hpa]. apply indefer_pop; [exact Hl|]. unfold dshell. rewrite Heqo. reflexivity.
  - (* pop: not a defer entry *)
    destruct Hl as (n0 & pre & Hl & Hpa). rewrite Heql in *. simpl. exists n0, (pre ++ [n]).
    split; [|exact Hpa]. apply indefer_pop; [exact Hl|]. unfold dshell. rewrite Heqo. reflexivity.
  - (* the deferred probe arrives *)
    destruct Hl as (n0 & pre & Hl & Hpa). exists n0, pre.
    destruct Hl as (Hr & Ha & Hla & Hf & Hdx & Hc). unfold indefer, dx_rel in *. simpl.
    split; [|symmetry; exact Hpa]. repeat split; auto.
    apply Forall_app. split; [exact Hc|constructor; [reflexivity|constructor]].
Qed.

(* ------------------------------------------------------------------ *)
(* lifting to runs                                                     *)

Lemma inv_defer_init strict p c : inv_defer strict p c (init_state p).
Proof. constructor; [apply inv_phase_init|constructor|constructor]. Qed.

Lemma start_root_inv_defer strict p c s k s' :
  inv_defer strict p c s -> start_root p c s k = Some s' -> inv_defer strict p c s'.
Proof.
  intros [Hph Hev Hloc] H.
  pose proof (start_root_inv_phase p c s k s' Hph H) as Hph'.
  constructor; [exact Hph'| |]; unfold start_root in H;
    (destruct (nth_error (cf_roots c) k) as [cl|]; [|discriminate]);
    (destruct (negb (precheck_ok p c) || root_started s k); [discriminate|]);
    (match type of H with (if ?b then _ else _) = _ => destruct b end; [|discriminate]);
    injection H as <-; unfold add_act in *; simpl in *.
  - eapply Forall_impl; [|exact Hev]. intros e He. unfold ev_in in *. simpl.
    destruct (ev_act e); [|exact I]. rewrite map_app. apply in_or_app. left. exact He.
  - unfold pj. simpl. rewrite map_app. apply Forall_app. split; [exact Hloc|].
    constructor; [|constructor]. unfold dq, dq_ok. simpl.
    assert (Hfresh : ~ In [k] (map a_path (acts s))).
    { destruct (ip_uniq _ _ _ Hph') as [Hnd _]. rewrite paths_of_cs in Hnd. simpl in Hnd.
      rewrite map_app in Hnd. simpl in Hnd. intros Hin.
      apply (NoDup_app_disjoint _ _ [k] Hnd Hin). left. reflexivity. }
    assert (Hv : vfold (get_task p (c_task cl)) [k] (trace s) = v0).
    { unfold vfold. apply vfold_quiet. eapply Forall_impl; [|exact Hev].
      intros e He Heq. unfold ev_in in He. rewrite Heq in He. exact (Hfresh He). }
    rewrite Hv. unfold phase_pre. simpl. repeat split; reflexivity.
Qed.

(* a property of every state a schedule goes through *)
Fixpoint all_states (P : state -> Prop) (p : prog) (c : cfg) (s : state) (sched : list choice) : Prop :=
  P s /\ match sched with [] => True | ch :: r => all_states P p c (do_choice p c s ch) r end.

Lemma all_states_impl (P Q : state -> Prop) p c sched :
  (forall s, P s -> Q s) -> forall s, all_states P p c s sched -> all_states Q p c s sched.
Proof.
  intros HPQ. induction sched as [|ch sched IH]; intros s [H1 H2]; simpl; (split; [apply HPQ; exact H1|auto]).
Qed.

Lemma all_states_always (P : state -> Prop) p c sched : (forall s, P s) -> forall s, all_states P p c s sched.
Proof. intros HP. induction sched as [|ch sched IH]; intros s; simpl; (split; [apply HP|auto]). Qed.

Lemma fold_inv_defer X p c sched : excuse_mono X -> forall s,
  inv_defer X p c s -> all_states (probe_excused X p) p c s sched ->
  inv_defer X p c (fold_left (do_choice p c) sched s).
Proof.
  intros Hmono. induction sched as [|ch sched IH]; intros s Hs Hall; simpl; [exact Hs|].
  destruct Hall as [H1 H2]. apply IH; [|exact H2].
  destruct ch as [a|k]; simpl.
  - destruct (step p c s a) eqn:E; [|exact Hs]. eapply step_inv_defer; eauto.
  - destruct (start_root p c s k) eqn:E; [eapply start_root_inv_defer; eauto|exact Hs].
Qed.

(* the two extreme excuses: always (EXIT_CODE may be unset whenever the command was cancelled), never *)
Definition ex_any : excuse := fun _ _ => True.
Definition ex_none : excuse := fun _ _ => False.

Lemma run_inv_defer p c sched : inv_defer ex_any p c (run p c sched).
Proof.
  unfold run. apply fold_inv_defer; [intros a tr evs H; exact I|apply inv_defer_init|].
  apply all_states_always. intros s a x i _ _ _ _ _. exact I.
Qed.

Lemma run_inv_defer_strict p c sched :
  all_states probes_uncancelled p c (init_state p) sched -> inv_defer ex_none p c (run p c sched).
Proof.
  intros H. unfold run. apply fold_inv_defer; [intros a tr evs []|apply inv_defer_init|].
  eapply all_states_impl; [|exact H]. intros s Hs a x i Hx Hpc Hc _ _.
  rewrite (Hs a x i Hx Hpc) in Hc. discriminate.
Qed.

(* ------------------------------------------------------------------ *)
(* lists: decreasing sequences, defer_indices                           *)

Definition desc (l : list nat) : Prop := StronglySorted (fun a b => b < a) l.

Lemma desc_rev_seq n : desc (rev (seq 0 n)).
Proof.
  induction n as [|n IH]; [constructor|].
  rewrite seq_S, rev_app_distr. simpl. constructor; [exact IH|].
  apply Forall_forall. intros y Hy. apply in_rev in Hy. apply in_seq in Hy. lia.
Qed.

Lemma desc_filter f l : desc l -> desc (filter f l).
Proof.
  induction 1 as [|x l Hl IH Hx]; simpl; [constructor|].
  destruct (f x); [|exact IH]. constructor; [exact IH|].
  rewrite Forall_forall in *. intros y Hy. apply filter_In in Hy. apply Hx. apply Hy.
Qed.

Lemma desc_app_l l1 l2 : desc (l1 ++ l2) -> desc l1.
Proof.
  induction l1 as [|x l1 IH]; simpl; intros H; [constructor|].
  inversion H as [|? ? Hl Hx]; subst. constructor; [apply IH; exact Hl|].
  rewrite Forall_forall in *. intros y Hy. apply Hx. apply in_or_app. left. exact Hy.
Qed.

Lemma desc_sd l : desc l -> strictly_decreasing l = true.
Proof.
  induction 1 as [|x l Hl IH Hx]; [reflexivity|].
  destruct l as [|y r]; [reflexivity|]. cbn [strictly_decreasing].
  inversion Hx as [|? ? Hy _]; subst. apply Nat.ltb_lt in Hy. rewrite Hy. exact IH.
Qed.

Lemma nat_list_eqb_refl l : nat_list_eqb l l = true.
Proof.
  unfold nat_list_eqb. rewrite Nat.eqb_refl. simpl.
  induction l as [|x l IH]; simpl; [reflexivity|]. rewrite Nat.eqb_refl. exact IH.
Qed.

Lemma filter_filter_imp {A} (f g : A -> bool) l :
  (forall x, f x = true -> g x = true) -> filter f (filter g l) = filter f l.
Proof.
  intros H. induction l as [|x l IH]; simpl; [reflexivity|].
  destruct (g x) eqn:Eg; simpl; [rewrite IH; reflexivity|].
  destruct (f x) eqn:Ef; [rewrite (H x Ef) in Eg; discriminate|exact IH].
Qed.

Lemma filter_rev' {A} (f : A -> bool) l : filter f (rev l) = rev (filter f l).
Proof.
  induction l as [|x l IH]; simpl; [reflexivity|].
  rewrite filter_app, IH. simpl. destruct (f x); simpl; [reflexivity|apply app_nil_r].
Qed.

Lemma dshell_isdefer tk i : dshell tk i = true -> isdefer tk i = true.
Proof. unfold dshell, isdefer. destruct (nth_error (t_cmds tk) i) as [[| | |]|]; auto. Qed.

Definition dsh (l : list cmd) (i : nat) : bool :=
  match nth_error l i with Some (DeferShell _) => true | _ => false end.

Lemma combine_app' {A B} (l1 l2 : list A) (m1 m2 : list B) :
  length l1 = length m1 -> combine (l1 ++ l2) (m1 ++ m2) = combine l1 m1 ++ combine l2 m2.
Proof.
  revert m1; induction l1 as [|x l1 IH]; intros [|y m1] H; simpl in *; try discriminate; [reflexivity|].
  rewrite IH by congruence. reflexivity.
Qed.

Lemma defer_indices_filter_gen (l : list cmd) :
  map fst (filter (fun '(_, cm) => match cm with DeferShell _ => true | _ => false end)
                  (combine (seq 0 (length l)) l)) = filter (dsh l) (seq 0 (length l)).
Proof.
  induction l as [|cm l IH] using rev_ind; [reflexivity|].
  rewrite app_length. simpl. rewrite Nat.add_1_r, seq_S. simpl.
  rewrite combine_app' by apply seq_length. rewrite !filter_app, map_app, IH. simpl.
  f_equal.
  - apply filter_ext_in. intros i Hi. apply in_seq in Hi. unfold dsh.
    rewrite nth_error_app1 by lia. reflexivity.
  - unfold dsh. rewrite nth_error_app2 by lia. rewrite Nat.sub_diag. simpl.
    destruct cm; reflexivity.
Qed.

Lemma defer_indices_filter p t :
  defer_indices p t = filter (dshell (get_task p t)) (seq 0 (length (t_cmds (get_task p t)))).
Proof. unfold defer_indices. apply defer_indices_filter_gen. Qed.

Lemma filter_none {A} (f : A -> bool) l : (forall x, In x l -> f x = false) -> filter f l = [].
Proof.
  induction l as [|x l IH]; intros H; simpl; [reflexivity|].
  rewrite (H x (or_introl eq_refl)). apply IH. intros y Hy. apply H. right. exact Hy.
Qed.

Lemma dshell_regs_full tk n :
  length (t_cmds tk) <= n ->
  filter (dshell tk) (regs tk n) = rev (filter (dshell tk) (seq 0 (length (t_cmds tk)))).
Proof.
  intros Hn. unfold regs. rewrite filter_filter_imp by apply dshell_isdefer.
  rewrite filter_rev'. f_equal.
  replace n with (length (t_cmds tk) + (n - length (t_cmds tk))) by lia.
  rewrite seq_app, filter_app. simpl.
  rewrite (filter_none (dshell tk) (seq (length (t_cmds tk)) _)); [apply app_nil_r|].
  intros i Hi. apply in_seq in Hi. unfold dshell.
  replace (nth_error (t_cmds tk) i) with (@None cmd); [reflexivity|].
  symmetry. apply nth_error_None. lia.
Qed.

Lemma dshell_regs_mem tk n j :
  j < n -> dshell tk j = true -> In j (filter (dshell tk) (regs tk n)).
Proof.
  intros Hj Hd. apply filter_In. split; [|exact Hd]. unfold regs. apply filter_In.
  split; [|apply dshell_isdefer; exact Hd]. apply -> in_rev. apply in_seq. lia.
Qed.

(* ------------------------------------------------------------------ *)
(* mon_C14 = its part about order/completeness && its EXIT_CODE part    *)

Definition c14_core (p : prog) (c : cfg) (complete : bool) (tr : list event) (a : aid) : bool :=
  strictly_decreasing (dann_of a tr) &&
  forallb (fun i => is_defer_shell p (task_of p c a) i) (dann_of a tr) &&
  (if complete then
     nat_list_eqb (dann_of a tr) (dprobes_of a tr) &&
     if mem_aid a (finished_acts tr) then nat_list_eqb (dann_of a tr) (rev (defer_indices p (task_of p c a)))
     else
       match last_announced a tr with
       | Some i => forallb (fun j => existsb (Nat.eqb j) (dann_of a tr))
                           (filter (fun j => Nat.ltb j i) (defer_indices p (task_of p c a)))
       | None => true
       end
   else true).

(* mon_C14 without its EXIT_CODE conjunct *)
Definition mon_C14_noexit (p : prog) (c : cfg) (complete : bool) (tr : list event) : bool :=
  forallb (c14_core p c complete tr) (started_acts tr).

Definition mon_C14_exit (p : prog) (c : cfg) (tr : list event) : bool :=
  forallb (fun a => exit_codes_ok p c a tr) (started_acts tr).

Lemma andb_shuffle (A B E K X Y : bool) : (A && B && E && K) && (X && Y) = (A && B && K && X) && (E && Y).
Proof. destruct A, B, E, K, X, Y; reflexivity. Qed.

Theorem mon_C14_split p c complete tr :
  mon_C14 p c complete tr = mon_C14_noexit p c complete tr && mon_C14_exit p c tr.
Proof.
  unfold mon_C14, mon_C14_noexit, mon_C14_exit. generalize (started_acts tr) as l.
  induction l as [|a l IH]; [reflexivity|]. cbn [forallb]. rewrite IH. cbv zeta. unfold c14_core.
  apply andb_shuffle.
Qed.

(* what the local invariant says about the announcements *)
Lemma local_ann strict tk q ds dx v :
  local strict tk q ds dx v ->
  exists n pre rest, regs tk n = pre ++ rest /\ v_ann v = filter (dshell tk) pre.
Proof.
  destruct q; simpl; intros H;
    try (destruct H as (_ & _ & _ & Ha & _); exists 0, [], []; split; [reflexivity|exact Ha]);
    try (destruct H as [(_ & _ & _ & Ha & _) _]; exists 0, [], []; split; [reflexivity|exact Ha]);
    try (destruct H as [n (_ & _ & Ha & _)]; exists 0, [], []; split; [reflexivity|exact Ha]);
    try (destruct H as (n & pre & (Hr & Ha & _) & _); exists n, pre, ds; split; [exact Hr|exact Ha]).
Qed.

Lemma local_done strict tk r ds dx v :
  local strict tk (PDone r) ds dx v ->
  exists n, v_ann v = filter (dshell tk) (regs tk n) /\ v_prb v = v_ann v /\ la_bound (v_la v) n /\
            (v_fin v = true -> length (t_cmds tk) <= n).
Proof.
  simpl. intros (n & pre & (Hr & Ha & Hla & Hf & _) & Hp & Hds). subst ds. rewrite app_nil_r in Hr.
  exists n. rewrite Hr. repeat split; assumption.
Qed.

Lemma core_of_local strict p c tr a complete q ds dx :
  local strict (get_task p (task_of p c a)) q ds dx (vfold (get_task p (task_of p c a)) a tr) ->
  (complete = true -> exists r, q = PDone r) ->
  c14_core p c complete tr a = true.
Proof.
  set (tk := get_task p (task_of p c a)). intros Hl Hc. unfold c14_core.
  rewrite (dann_vfold tk), (dprobes_vfold tk), (la_vfold tk), (fin_vfold tk), defer_indices_filter.
  fold tk. set (v := vfold tk a tr) in *.
  destruct (local_ann _ _ _ _ _ _ Hl) as (n & pre & rest & Hr & Ha).
  assert (Hsd : strictly_decreasing (v_ann v) = true).
  { rewrite Ha. apply desc_sd, desc_filter. apply (desc_app_l pre rest). rewrite <- Hr.
    unfold regs. apply desc_filter, desc_rev_seq. }
  assert (Hsh : forallb (fun i => is_defer_shell p (task_of p c a) i) (v_ann v) = true).
  { rewrite Ha. apply forallb_forall. intros i Hi. apply filter_In in Hi. exact (proj2 Hi). }
  rewrite Hsd, Hsh. simpl.
  destruct complete; [|reflexivity].
  destruct (Hc eq_refl) as [r ->].
  destruct (local_done _ _ _ _ _ _ Hl) as (m & Ha' & Hp & Hla & Hf).
  rewrite Hp, nat_list_eqb_refl. simpl.
  destruct (v_fin v).
  - rewrite Ha', (dshell_regs_full tk m (Hf eq_refl)). apply nat_list_eqb_refl.
  - destruct (v_la v) as [i|]; [|reflexivity]. simpl in Hla.
    apply forallb_forall. intros j Hj. apply filter_In in Hj. destruct Hj as [Hj Hji].
    apply filter_In in Hj. destruct Hj as [_ Hjd]. apply Nat.ltb_lt in Hji.
    apply existsb_exists. exists j. split; [|apply Nat.eqb_refl].
    rewrite Ha'. apply dshell_regs_mem; [lia|exact Hjd].
Qed.

(* every started path belongs to an activation, whose local invariant holds *)
Lemma started_act strict p c s a :
  inv_defer strict p c s -> In a (started_acts (trace s)) ->
  exists x, In x (acts s) /\ a_path x = a /\ task_of p c a = a_task x /\
            local (strict a (trace s)) (get_task p (a_task x)) (a_pc x) (a_defers x) (a_dexit x)
                  (vfold (get_task p (a_task x)) a (trace s)).
Proof.
  intros [Hph Hev Hloc] Ha. unfold started_acts in Ha. apply in_flat_map in Ha. destruct Ha as [e [He Hae]].
  destruct e; try contradiction. destruct Hae as [<-|[]].
  rewrite Forall_forall in Hev. specialize (Hev _ He). unfold ev_in in Hev. simpl in Hev.
  apply in_map_iff in Hev. destruct Hev as [x [Hp Hx]]. subst a0. exists x. split; [exact Hx|]. split; [reflexivity|].
  destruct (In_nth_error _ _ Hx) as [j Hj].
  split; [apply (task_of_get p c s j x (ip_ids _ _ _ Hph) Hj)|].
  rewrite Forall_forall in Hloc. apply (Hloc (dq x)). unfold pj. apply in_map. exact Hx.
Qed.

Lemma noexit_of_inv strict p c s complete :
  inv_defer strict p c s ->
  (complete = true -> forall x, In x (acts s) -> exists r, a_pc x = PDone r) ->
  mon_C14_noexit p c complete (trace s) = true.
Proof.
  intros Hinv Hc. unfold mon_C14_noexit. apply forallb_forall. intros a Ha.
  destruct (started_act _ _ _ _ _ Hinv Ha) as (x & Hx & Hp & Ht & Hl).
  eapply core_of_local.
  - rewrite Ht. exact Hl.
  - intros Hcomp. exact (Hc Hcomp x Hx).
Qed.

(* EXIT_CODE *)
Lemma local_codes strict tk q ds dx v :
  local strict tk q ds dx v -> dx_rel strict tk dx v /\ Forall (eq dx) (v_codes v).
Proof.
  destruct q; simpl; intros H;
    try (destruct H as (_ & _ & _ & _ & _ & Hc & _ & Hf); unfold dx_rel; rewrite Hc, Hf; split; [exact I|constructor]);
    try (destruct H as [(_ & _ & _ & _ & _ & Hc & _ & Hf) _]; unfold dx_rel; rewrite Hc, Hf; split; [exact I|constructor]);
    try (destruct H as [n (_ & _ & _ & _ & Hc & _ & Hd)]; rewrite Hc; split; [exact Hd|constructor]);
    try (destruct H as (n & pre & (_ & _ & _ & _ & Hd & Hc) & _); split; [exact Hd|exact Hc]).
Qed.

Lemma codes_of_local (strict : Prop) p c tr a q ds dx fo :
  local strict (get_task p (task_of p c a)) q ds dx (vfold (get_task p (task_of p c a)) a tr) ->
  (strict -> fo = true) ->
  forallb (code_ok (own_failure p c a tr) fo) (dcodes_of a tr) = true.
Proof.
  set (tk := get_task p (task_of p c a)). intros Hl Hfo.
  rewrite own_failure_vfold, (dcodes_vfold tk). fold tk. set (v := vfold tk a tr) in *.
  destruct (local_codes _ _ _ _ _ _ Hl) as [Hd Hc]. unfold dx_rel in Hd.
  apply forallb_forall. intros code Hcode. rewrite Forall_forall in Hc. rewrite <- (Hc code Hcode).
  destruct (v_fail v) as [i|]; [|reflexivity]. simpl.
  destruct Hd as [->|[Hs ->]]; [rewrite Nat.eqb_refl; reflexivity|].
  rewrite (Hfo Hs). simpl. apply orb_true_r.
Qed.

(* EXIT_CODE is the exit status of the own failing command, or unset *)
Definition exit_codes_weak (p : prog) (c : cfg) (a : aid) (tr : list event) : bool :=
  forallb (code_ok (own_failure p c a tr) true) (dcodes_of a tr).

Lemma weak_of_inv p c s :
  inv_defer ex_any p c s -> forallb (fun a => exit_codes_weak p c a (trace s)) (started_acts (trace s)) = true.
Proof.
  intros Hinv. apply forallb_forall. intros a Ha.
  destruct (started_act _ _ _ _ _ Hinv Ha) as (x & Hx & Hp & Ht & Hl).
  unfold exit_codes_weak. eapply codes_of_local; [rewrite Ht; exact Hl|reflexivity].
Qed.

Lemma exit_of_inv_strict p c s : inv_defer ex_none p c s -> mon_C14_exit p c (trace s) = true.
Proof.
  intros Hinv. apply forallb_forall. intros a Ha.
  destruct (started_act _ _ _ _ _ Hinv Ha) as (x & Hx & Hp & Ht & Hl).
  rewrite exit_codes_ok_codes. eapply codes_of_local; [rewrite Ht; exact Hl|intros []].
Qed.

Lemma code_ok_weak own fo code : code_ok own true code = true -> fo = true -> code_ok own fo code = true.
Proof. intros H ->. exact H. Qed.

(* ------------------------------------------------------------------ *)
(* the theorems                                                        *)

Lemma precheck_false_run p c sched : precheck_ok p c = false -> run p c sched = init_state p.
Proof.
  intros Hp. unfold run.
  assert (H : forall s, acts s = [] -> fold_left (do_choice p c) sched s = s).
  { induction sched as [|ch sched IH]; intros s Hs; simpl; [reflexivity|].
    assert (E : do_choice p c s ch = s).
    { destruct ch as [a|k]; simpl.
      - unfold step, get_act. rewrite Hs. destruct a; reflexivity.
      - unfold start_root. destruct (nth_error (cf_roots c) k); [|reflexivity]. rewrite Hp. reflexivity. }
    rewrite E. apply IH. exact Hs. }
  apply H. reflexivity.
Qed.

Lemma complete_all_done p c s r :
  precheck_ok p c = true -> run_result p c s = Some r ->
  forall x, In x (acts s) -> exists r', a_pc x = PDone r'.
Proof.
  unfold run_result. intros -> H x Hx. simpl in H.
  destruct (forallb (fun x => match a_pc x with PDone _ => true | _ => false end) (acts s)) eqn:E; [|discriminate].
  rewrite forallb_forall in E. specialize (E x Hx). destruct (a_pc x); try discriminate. eexists. reflexivity.
Qed.

(* (1) safety, every reachable state, without the EXIT_CODE conjunct *)
Theorem defer_safety_noexit p c sched : mon_C14_noexit p c false (trace (run p c sched)) = true.
Proof. apply (noexit_of_inv ex_any). apply run_inv_defer. discriminate. Qed.

(* (2) completeness, completed runs, without the EXIT_CODE conjunct *)
Theorem defer_complete_noexit p c sched r :
  run_result p c (run p c sched) = Some r -> mon_C14_noexit p c true (trace (run p c sched)) = true.
Proof.
  intros Hr. destruct (precheck_ok p c) eqn:Ep.
  - apply (noexit_of_inv ex_any); [apply run_inv_defer|]. intros _. exact (complete_all_done p c _ r Ep Hr).
  - rewrite (precheck_false_run p c sched Ep). reflexivity.
Qed.

(* EXIT_CODE seen by a deferred command is the exit status of the activation's own failing command or 0 *)
Theorem exit_codes_weak_all p c sched :
  forallb (fun a => exit_codes_weak p c a (trace (run p c sched))) (started_acts (trace (run p c sched))) = true.
Proof. apply weak_of_inv. apply run_inv_defer. Qed.

(* hence the EXIT_CODE conjunct holds for every activation for which the monitor's excuse applies *)
Theorem exit_codes_ok_if_foreign p c sched a :
  In a (started_acts (trace (run p c sched))) ->
  foreign_failure p c a (trace (run p c sched)) = true ->
  exit_codes_ok p c a (trace (run p c sched)) = true.
Proof.
  intros Ha Hf. pose proof (exit_codes_weak_all p c sched) as H. rewrite forallb_forall in H.
  specialize (H a Ha). unfold exit_codes_weak in H. rewrite exit_codes_ok_codes, Hf. exact H.
Qed.

(* full mon_C14 when no probe ever ends under a cancelled context: EXIT_CODE is exact *)
Theorem defer_safety_uncancelled p c sched :
  all_states probes_uncancelled p c (init_state p) sched ->
  mon_C14 p c false (trace (run p c sched)) = true.
Proof.
  intros H. pose proof (run_inv_defer_strict p c sched H) as Hinv.
  rewrite mon_C14_split, (noexit_of_inv ex_none p c _ false Hinv), (exit_of_inv_strict p c _ Hinv); [reflexivity|discriminate].
Qed.

Theorem defer_complete_uncancelled p c sched r :
  all_states probes_uncancelled p c (init_state p) sched ->
  run_result p c (run p c sched) = Some r ->
  mon_C14 p c true (trace (run p c sched)) = true.
Proof.
  intros H Hr. rewrite mon_C14_split, (defer_complete_noexit p c sched r Hr).
  rewrite (exit_of_inv_strict p c _ (run_inv_defer_strict p c sched H)). reflexivity.
Qed.

(* ------------------------------------------------------------------ *)
(* the same on the observable part of the trace (EvEnd is the only non-observable event and
   mon_C14 ignores it) *)

Lemma flat_map_obs {B} (f : event -> list B) tr :
  (forall a r, f (EvEnd a r) = []) -> flat_map f (filter observable tr) = flat_map f tr.
Proof.
  intros H. induction tr as [|e tr IH]; [reflexivity|].
  destruct e; cbn [filter observable flat_map]; rewrite ?IH, ?H; reflexivity.
Qed.

Lemma find_obs (f : event -> bool) tr :
  (forall a r, f (EvEnd a r) = false) -> find f (filter observable tr) = find f tr.
Proof.
  intros H. induction tr as [|e tr IH]; [reflexivity|].
  destruct e; cbn [filter observable find]; rewrite ?IH, ?H; reflexivity.
Qed.

Lemma existsb_obs (f : event -> bool) tr :
  (forall a r, f (EvEnd a r) = false) -> existsb f (filter observable tr) = existsb f tr.
Proof.
  intros H. induction tr as [|e tr IH]; [reflexivity|].
  destruct e; cbn [filter observable existsb]; rewrite ?IH, ?H; reflexivity.
Qed.

Lemma forallb_obs (f : event -> bool) tr :
  (forall a r, f (EvEnd a r) = true) -> forallb f (filter observable tr) = forallb f tr.
Proof.
  intros H. induction tr as [|e tr IH]; [reflexivity|].
  destruct e; cbn [filter observable forallb]; rewrite ?IH, ?H; reflexivity.
Qed.

Lemma la_obs a tr : last_announced a (filter observable tr) = last_announced a tr.
Proof.
  unfold last_announced. generalize (@None nat). induction tr as [|e tr IH]; intros acc; [reflexivity|].
  destruct e; cbn [filter observable fold_left]; apply IH.
Qed.

Lemma forallb_ext' {A} (f g : A -> bool) l : (forall x, f x = g x) -> forallb f l = forallb g l.
Proof. intros H. induction l as [|x l IH]; simpl; [reflexivity|]. rewrite H, IH. reflexivity. Qed.

Lemma exit_codes_ok_obs p c a tr : exit_codes_ok p c a (filter observable tr) = exit_codes_ok p c a tr.
Proof.
  unfold exit_codes_ok, own_failure, foreign_failure.
  rewrite find_obs by reflexivity. rewrite existsb_obs by reflexivity. apply forallb_obs. reflexivity.
Qed.

Theorem mon_C14_observable p c complete tr : mon_C14 p c complete (filter observable tr) = mon_C14 p c complete tr.
Proof.
  unfold mon_C14. unfold started_acts at 1. rewrite flat_map_obs by reflexivity. fold (started_acts tr).
  apply forallb_ext'. intros a. cbv zeta. rewrite exit_codes_ok_obs, la_obs.
  unfold dann_of, dprobes_of, finished_acts. rewrite !flat_map_obs by reflexivity. reflexivity.
Qed.

Theorem mon_C14_noexit_observable p c complete tr :
  mon_C14_noexit p c complete (filter observable tr) = mon_C14_noexit p c complete tr.
Proof.
  unfold mon_C14_noexit. unfold started_acts at 1. rewrite flat_map_obs by reflexivity. fold (started_acts tr).
  apply forallb_ext'. intros a. unfold c14_core. rewrite la_obs.
  unfold dann_of, dprobes_of, finished_acts. rewrite !flat_map_obs by reflexivity. reflexivity.
Qed.

(* ================================================================== *)
(* EXIT_CODE, the cause of cancellations.  As long as no error has occurred anywhere (the
   "error-free regime": no activation carries an error result, no errgroup error is set), the only
   contexts ever cancelled are the execution contexts of dedup owners that completed, and everything
   below such a context has returned; so no running activation sees a cancelled context.  The
   regime is left only through a guard error (excluded statically by no_guard_errors), the call
   counter (error 204) or a failing command; hence: a failing command that ends under a cancelled
   context has, unless the call counter tripped, a failing command of another activation before it
   in the trace - which is the excuse mon_C14 accepts for EXIT_CODE = 0. *)

(* ------------------------------------------------------------------ *)
(* the shape of a step in a state where no error has occurred yet      *)

Definition donepc (q : pc) : bool := match q with PDone _ => true | _ => false end.
Definition fin (q : pc) : bool := match q with PRelease _ | PDone _ => true | _ => false end.
Definition rclean (r : res) : bool := match r with ROk => true | RErr _ => false end.
Definition pc_clean (q : pc) : bool :=
  match q with
  | PWReacq r | PCallReacq _ r | PDefers r | PDRun r _ | PDProbe r _ | PDCallWait r _ | PDCallReacq r
  | PEnd r | PRelease r | PDone r => rclean r
  | PFail _ => false
  | _ => true
  end.
Definition waiting_pc (q : pc) : bool :=
  match q with PDepsJoin | PCallWait _ _ | PDCallWait _ _ => true | _ => false end.

Definition parents (s : state) : list (option nat) := map cx_parent (ctxs s).
Definition flagged (s : state) (k : nat) : Prop :=
  exists r, nth_error (ctxs s) k = Some r /\ cx_cancelled r = true.

(* the events with which a run leaves the error-free regime *)
Definition callcount_trips (c : cfg) (s : state) (x : act) : Prop :=
  a_pc x = PEntry /\ Nat.leb (cf_maxcall c) (S (nth (a_task x) (calls s) 0)) = true.

Definition excusing (p : prog) (c : cfg) (s : state) (x : act) (e : event) : Prop :=
  (e = EvEnd (a_path x) (RErr (ECode 204)) /\ callcount_trips c s x) \/
  exists i, e = EvProbeEnd (a_path x) i /\ failing_tk (get_task p (a_task x)) i = true.

Inductive ckind (s : state) (a : nat) (x x' : act) (news : list act) (np : list (option nat)) : Prop :=
| CPlain :
    news = [] -> np = [] -> a_ectx x' = a_ectx x -> a_gctx x' = a_gctx x -> a_regkey x' = a_regkey x ->
    a_kids x' = a_kids x -> waiting_pc (a_pc x') = false ->
    (a_pc x = PDepsJoin -> all_done s (a_kids x) = true) ->
    (forall i cid, a_pc x = PCallWait i cid -> act_result s cid <> None) ->
    (forall r cid, a_pc x = PDCallWait r cid -> act_result s cid <> None) ->
    (fin (a_pc x) = true -> fin (a_pc x') = true) ->
    ckind s a x x' news np
| COwner :
    news = [] -> np = [Some (a_ctx x)] -> a_pc x = PDedup -> a_pc x' = PDepsFork ->
    a_ectx x' = length (ctxs s) -> a_gctx x' = a_gctx x -> a_regkey x' <> None -> a_kids x' = a_kids x ->
    ckind s a x x' news np
| CFork :
    np = [Some (a_ectx x)] -> a_pc x = PDepsFork -> a_pc x' = PDepsJoin ->
    a_ectx x' = a_ectx x -> a_gctx x' = length (ctxs s) -> a_regkey x' = a_regkey x ->
    a_kids x' = seq (length (acts s)) (length news) ->
    Forall (fun y => a_kind y = KDep /\ a_ctx y = length (ctxs s)) news ->
    ckind s a x x' news np
| CCall i :
    np = [] -> a_pc x = PCmd i -> a_pc x' = PCallWait i (length (acts s)) ->
    a_ectx x' = a_ectx x -> a_gctx x' = a_gctx x -> a_regkey x' = a_regkey x -> a_kids x' = a_kids x ->
    (exists y, news = [y] /\ a_kind y = KCall /\ a_ctx y = a_ectx x) ->
    ckind s a x x' news np
| CDCall r :
    np = [] -> a_pc x = PDefers r -> a_pc x' = PDCallWait r (length (acts s)) ->
    a_ectx x' = a_ectx x -> a_gctx x' = a_gctx x -> a_regkey x' = a_regkey x -> a_kids x' = a_kids x ->
    (exists y, news = [y] /\ a_kind y = KDefer /\ a_ctx y = background_ctx) ->
    ckind s a x x' news np.

Record cshape (s s' : state) (a : nat) (x x' : act) (news : list act) (np : list (option nat)) : Prop := {
  cs_acts : acts s' = upd (acts s) a x' ++ news;
  cs_static : a_path x' = a_path x /\ a_kind x' = a_kind x /\ a_parent x' = a_parent x /\
              a_gerr x' = a_gerr x /\ a_ctx x' = a_ctx x;
  cs_clean : pc_clean (a_pc x') = true;
  cs_news_ok : Forall (fun y => a_pc y = PEntry /\ a_parent y = Some a /\ a_gerr y = None /\ a_regkey y = None /\
                               a_kids y = [] /\ a_ectx y = a_ctx y /\ a_gctx y = a_ctx y) news;
  cs_parents : parents s' = parents s ++ np;
  cs_flags : forall k, flagged s' k ->
             flagged s k \/ (exists r, a_pc x = PEnd r /\ a_pc x' = PRelease r /\ a_regkey x <> None /\ k = a_ectx x);
  cs_kind : ckind s a x x' news np
}.

Lemma acquire_ctxs c s : ctxs (acquire c s) = ctxs s.
Proof. unfold acquire. destruct (limited c); reflexivity. Qed.
Lemma release_ctxs c s : ctxs (release c s) = ctxs s.
Proof. unfold release. destruct (limited c); reflexivity. Qed.

Lemma notify_ok s x : notify_parent s x ROk = s.
Proof. unfold notify_parent. destruct (a_kind x), (a_parent x); reflexivity. Qed.

Lemma finish_ok_acts s a x : acts (finish s a x ROk) = upd (acts s) a (set_pc x (PDone ROk)).
Proof. unfold finish. rewrite notify_ok. destruct (a_kind x); reflexivity. Qed.
Lemma finish_ok_ctxs s a x : ctxs (finish s a x ROk) = ctxs s.
Proof. unfold finish. rewrite notify_ok. destruct (a_kind x); reflexivity. Qed.

Lemma parents_cancel s k : parents (cancel_ctx s k) = parents s.
Proof.
  unfold parents, cancel_ctx. destruct (nth_error (ctxs s) k) as [r|] eqn:E; [|reflexivity]. simpl.
  rewrite map_upd. simpl. apply upd_same. rewrite nth_error_map, E. reflexivity.
Qed.

Lemma flagged_cancel s k j : flagged (cancel_ctx s k) j -> flagged s j \/ j = k.
Proof.
  unfold flagged, cancel_ctx. destruct (nth_error (ctxs s) k) as [r|] eqn:E; [|auto]. simpl.
  intros [r' [Hr Hc]]. destruct (Nat.eq_dec k j) as [->|Hne]; [right; reflexivity|left].
  rewrite nth_error_upd_other in Hr by exact Hne. exists r'. split; assumption.
Qed.

Lemma flagged_same s s' : ctxs s' = ctxs s -> forall k, flagged s' k -> flagged s k.
Proof. unfold flagged. intros ->. auto. Qed.

Lemma flagged_app s s' r : ctxs s' = ctxs s ++ [r] -> cx_cancelled r = false -> forall k, flagged s' k -> flagged s k.
Proof.
  unfold flagged. intros -> Hr k [r' [Hk Hc]].
  destruct (Nat.lt_ge_cases k (length (ctxs s))) as [Hlt|Hge].
  - rewrite nth_error_app1 in Hk by exact Hlt. exists r'. split; assumption.
  - rewrite nth_error_app2 in Hk by exact Hge. destruct (k - length (ctxs s)) as [|m]; simpl in Hk.
    + injection Hk as <-. congruence.
    + destruct m; discriminate.
Qed.

Ltac plain_case :=
  right; eexists; exists [], []; constructor;
  [ rewrite ?finish_ok_acts; simpl; rewrite ?acquire_acts, ?release_acts, ?cancel_ctx_acts, ?app_nil_r; reflexivity
  | simpl; repeat split; reflexivity
  | simpl; first [reflexivity | assumption]
  | constructor
  | unfold parents; rewrite ?finish_ok_ctxs; simpl; rewrite ?acquire_ctxs, ?release_ctxs, ?app_nil_r; reflexivity
  | let kk := fresh "kk" in let Hkk := fresh "Hkk" in intros kk Hkk; left; revert kk Hkk; apply flagged_same; rewrite ?finish_ok_ctxs; simpl;
    rewrite ?acquire_ctxs, ?release_ctxs; reflexivity
  | apply CPlain; repeat match goal with Hp : a_pc ?x = _ |- context [a_pc ?x] => rewrite Hp end; simpl; try reflexivity; try discriminate; intros; try discriminate; try assumption;
    try (match goal with Hq : PCallWait _ _ = PCallWait _ _ |- _ => injection Hq as <- <- end; congruence);
    try (match goal with Hq : PDCallWait _ _ = PDCallWait _ _ |- _ => injection Hq as <- <- end; congruence) ].

Lemma fork_deps_news p : forall ds s a x gctx j s' ids,
  fork_deps p s a x gctx ds j = (s', ids) ->
  exists news, acts s' = acts s ++ news /\
    Forall (fun y => exists pa t v, y = new_act pa t v KDep (Some a) gctx) news.
Proof.
  induction ds as [|d ds IH]; intros s a x gctx j s' ids H; simpl in H.
  - injection H as <- <-. exists []. rewrite app_nil_r. split; [reflexivity|constructor].
  - unfold add_act in H; simpl in H.
    match type of H with context [fork_deps ?a1 ?a2 ?a3 ?a4 ?a5 ?a6 ?a7] =>
      destruct (fork_deps a1 a2 a3 a4 a5 a6 a7) as [s2 ids2] eqn:E end.
    injection H as <- <-. apply IH in E. destruct E as [news [Ha Hf]]. simpl in Ha.
    eexists (_ :: news). rewrite Ha, <- app_assoc. split; [reflexivity|].
    constructor; [do 3 eexists; reflexivity|exact Hf].
Qed.

Definition guards_fine (c : cfg) (tk : task) : Prop :=
  let g := t_g tk in
  g_required g = true /\ g_enum g = true /\ g_precond g <> Some false /\ (g_prompt g && negb (cf_yes c)) = false.

Lemma clean_step p c s a s' x :
  get_act s a = Some x -> step p c s a = Some s' ->
  pc_clean (a_pc x) = true -> a_gerr x = None ->
  (forall j r, act_result s j = Some r -> r = ROk) ->
  (forall j r, exec_result s j = Some r -> r = ROk) ->
  guards_fine c (get_task p (a_task x)) ->
  (fin (a_pc x) = false -> cancelled s (a_ectx x) = false) ->
  (exists e, trace s' = trace s ++ [e] /\ excusing p c s x e) \/
  (exists x' news np, cshape s s' a x x' news np).
Proof.
  intros Hx H Hcl Hg Hres Hexe (Hreq & Henum & Hpre & Hprompt) HG.
  pose proof (pj_lt dq _ _ _ Hx) as Hlt.
  step_cases H Hx; simpl in Hcl; try discriminate Hcl;
    try (match goal with Hq : exec_result s _ = Some ?r |- _ => pose proof (Hexe _ _ Hq); subst r end);
    try (match goal with Hq : act_result s _ = Some ?r |- _ => pose proof (Hres _ _ Hq); subst r end);
    repeat match goal with r : res |- _ => destruct r as [|?]; [|discriminate Hcl] end;
    try (rewrite Hreq in *; discriminate); try (rewrite Henum in *; discriminate);
    try (rewrite Hprompt in *; discriminate); try congruence;
    try (pose proof (HG eq_refl) as HG'; rewrite HG' in *; rewrite ?andb_false_r, ?andb_true_r in *; try discriminate;
         try (subst; congruence));
    try solve [plain_case].
  - (* 204 *)
    left. eexists. split; [rewrite trace_finish; reflexivity|]. left. split; [reflexivity|]. split; [exact Hpc|exact Heqb2].
  - (* owner: new execution context *)
    right. eexists; exists [], [Some (a_ctx x)]. constructor.
    + simpl. rewrite app_nil_r. reflexivity.
    + simpl. repeat split; reflexivity.
    + reflexivity.
    + constructor.
    + unfold parents. simpl. rewrite map_app. reflexivity.
    + intros kk Hkk. left. revert kk Hkk. eapply flagged_app; [simpl; reflexivity|reflexivity].
    + apply COwner; simpl; try reflexivity; try assumption. discriminate.
  - (* fork *)
    pose proof (fork_deps_spec p _ _ _ _ _ _ _ _ Heqp0) as Hspec.
    destruct Hspec as [news (Ha & _ & _ & _ & _ & Hcx & _ & _ & Hl & Hids & _ & _)]. simpl in Ha, Hcx, Hids.
    destruct (fork_deps_news p _ _ _ _ _ _ _ _ Heqp0) as [news' [Ha' Hn]]. simpl in Ha'.
    rewrite Ha in Ha'. apply app_inv_head in Ha'. subst news'.
    rewrite release_acts in *. rewrite release_ctxs in *.
    right. eexists; exists news, [Some (a_ectx x)]. constructor.
    + simpl. rewrite Ha. apply upd_app_l. unfold pj in Hlt. rewrite map_length in Hlt. exact Hlt.
    + simpl. repeat split; reflexivity.
    + reflexivity.
    + eapply Forall_impl; [|exact Hn]. intros y (pa & t & v & ->). simpl. repeat split; reflexivity.
    + unfold parents. simpl. rewrite Hcx, map_app. reflexivity.
    + intros kk Hkk. left. revert kk Hkk. eapply flagged_app; [simpl; exact Hcx|reflexivity].
    + apply CFork; simpl; try reflexivity; try assumption.
      * rewrite Hl. exact Hids.
      * eapply Forall_impl; [|exact Hn]. intros y (pa & t & v & ->). simpl. split; reflexivity.
  - (* call *)
    right. eexists; eexists [_], []. constructor.
    + simpl. rewrite release_acts. apply upd_app_l. unfold pj in Hlt. rewrite map_length in Hlt. exact Hlt.
    + simpl. repeat split; reflexivity.
    + reflexivity.
    + constructor; [|constructor]. simpl. repeat split; reflexivity.
    + unfold parents. simpl. rewrite release_ctxs, app_nil_r. reflexivity.
    + intros kk Hkk. left. revert kk Hkk. apply flagged_same. simpl. apply release_ctxs.
    + apply (CCall _ _ _ _ _ _ i); simpl; try reflexivity; try assumption.
      eexists. split; [reflexivity|]. split; reflexivity.
  - (* the command fails *)
    left. eexists. split; [reflexivity|]. right. exists i. split; [reflexivity|].
    unfold failing_tk. rewrite Heqo. simpl in *. rewrite Heqb1. reflexivity.
  - (* deferred call *)
    right. eexists; eexists [_], []. constructor.
    + simpl. rewrite release_acts. apply upd_app_l. unfold pj in Hlt. rewrite map_length in Hlt. exact Hlt.
    + simpl. repeat split; reflexivity.
    + reflexivity.
    + constructor; [|constructor]. simpl. repeat split; reflexivity.
    + unfold parents. simpl. rewrite release_ctxs, app_nil_r. reflexivity.
    + intros kk Hkk. left. revert kk Hkk. apply flagged_same. simpl. apply release_ctxs.
    + apply (CDCall _ _ _ _ _ _ ROk); simpl; try reflexivity; try assumption.
      eexists. split; [reflexivity|]. split; reflexivity.
  - (* the owner completes its dedup entry *)
    right. eexists; exists [], []. constructor.
    + simpl. rewrite cancel_ctx_acts, app_nil_r. reflexivity.
    + simpl. repeat split; reflexivity.
    + reflexivity.
    + constructor.
    + rewrite app_nil_r. unfold parents at 1. simpl. apply parents_cancel.
    + intros kk Hkk. assert (Hkk' : flagged (cancel_ctx s (a_ectx x)) kk) by exact Hkk.
      apply flagged_cancel in Hkk'. destruct Hkk' as [Hf| ->]; [left; exact Hf|right].
      exists ROk. split; [exact Hpc|]. split; [reflexivity|]. split; [congruence|reflexivity].
    + apply CPlain; rewrite ?Hpc; simpl; try reflexivity; intros; discriminate.
Qed.


(* ------------------------------------------------------------------ *)
(* contexts: reachability along parent pointers                         *)

Inductive reach (P : list (option nat)) : nat -> nat -> Prop :=
| reach_here k : reach P k k
| reach_up k0 q k : nth_error P k0 = Some (Some q) -> reach P q k -> reach P k0 k.

Definition par_ok (P : list (option nat)) : Prop := forall k q, nth_error P k = Some (Some q) -> q < k.

Lemma reach_le P k0 k : par_ok P -> reach P k0 k -> k <= k0.
Proof. intros HP H. induction H as [|k0 q k Hn _ IH]; [lia|]. specialize (HP _ _ Hn). lia. Qed.

Lemma reach_app_l P Q k0 k : reach P k0 k -> reach (P ++ Q) k0 k.
Proof.
  induction 1 as [|k0 q k Hn _ IH]; [constructor|]. eapply reach_up; [|exact IH].
  rewrite nth_error_app1; [exact Hn|]. apply nth_error_Some. rewrite Hn. discriminate.
Qed.

Lemma reach_app_inv P Q k0 k : par_ok P -> k0 < length P -> reach (P ++ Q) k0 k -> reach P k0 k.
Proof.
  intros HP Hlt H. induction H as [|k0 q k Hn _ IH]; [constructor|].
  rewrite nth_error_app1 in Hn by exact Hlt. eapply reach_up; [exact Hn|]. apply IH.
  specialize (HP _ _ Hn). lia.
Qed.

Lemma reach_fresh P q k : reach (P ++ [Some q]) (length P) k -> k = length P \/ reach (P ++ [Some q]) q k.
Proof.
  intros H. inversion H as [|k0 q' k' Hn Hr]; subst; [left; reflexivity|right].
  rewrite nth_error_app2, Nat.sub_diag in Hn by lia. simpl in Hn. injection Hn as <-. exact Hr.
Qed.

Lemma reach_base P k0 k : nth_error P k0 = Some None -> reach P k0 k -> k = k0.
Proof. intros Hn H. inversion H as [|? q ? Hn' _]; subst; [reflexivity|congruence]. Qed.

Lemma cancelled_fuel_reach cx : forall f c0, cancelled_fuel f cx c0 = true ->
  exists k r, reach (map cx_parent cx) c0 k /\ nth_error cx k = Some r /\ cx_cancelled r = true.
Proof.
  induction f as [|f IH]; intros c0 H; simpl in H; [discriminate|].
  destruct (nth_error cx c0) as [r|] eqn:E; [|discriminate].
  apply orb_true_iff in H. destruct H as [H|H].
  - exists c0, r. split; [constructor|]. split; assumption.
  - destruct (cx_parent r) as [q|] eqn:Eq; [|discriminate].
    destruct (IH q H) as (k & r' & Hr & Hk & Hc). exists k, r'. split; [|split; assumption].
    eapply reach_up; [|exact Hr]. rewrite nth_error_map, E. simpl. rewrite Eq. reflexivity.
Qed.

Lemma cancelled_reach s c0 : cancelled s c0 = true -> exists k, reach (parents s) c0 k /\ flagged s k.
Proof.
  unfold cancelled. intros H. destruct (cancelled_fuel_reach _ _ _ H) as (k & r & Hr & Hk & Hc).
  exists k. split; [exact Hr|]. exists r. split; assumption.
Qed.

Definition under (s : state) (y : act) (k : nat) : Prop :=
  reach (parents s) (a_ctx y) k \/ reach (parents s) (a_ectx y) k \/ reach (parents s) (a_gctx y) k.

(* ------------------------------------------------------------------ *)
(* the error-free regime                                               *)

Definition waits (q : pc) (k : kind) (j : nat) (kids : list nat) : Prop :=
  match k with
  | KDep => q = PDepsJoin /\ In j kids
  | KCall => exists i, q = PCallWait i j
  | KDefer => exists r, q = PDCallWait r j
  | KRoot => False
  end.

Record wf_ctx (s : state) : Prop := {
  wf_refs : forall j y, get_act s j = Some y ->
            a_ctx y < length (ctxs s) /\ a_ectx y < length (ctxs s) /\ a_gctx y < length (ctxs s);
  wf_par : par_ok (parents s);
  wf_base : nth_error (parents s) 0 = Some None /\ nth_error (parents s) 1 = Some None;
  wf_unfl : ~ flagged s 0 /\ ~ flagged s 1;
  wf_own : forall j y, get_act s j = Some y -> a_regkey y <> None -> 2 <= a_ectx y
}.

Record clean (s : state) : Prop := {
  cl_wf : wf_ctx s;
  cl_c1 : forall j y, get_act s j = Some y -> pc_clean (a_pc y) = true /\ a_gerr y = None;
  cl_q1 : forall j y i, get_act s j = Some y -> donepc (a_pc y) = false -> a_parent y = Some i ->
          exists px, get_act s i = Some px /\ waits (a_pc px) (a_kind y) j (a_kids px);
  cl_sc : forall io o j y, get_act s io = Some o -> a_regkey o <> None -> get_act s j = Some y ->
          under s y (a_ectx o) -> prefix_of_aid (a_path o) (a_path y) = true;
  cl_c2 : forall k j y, flagged s k -> get_act s j = Some y -> under s y k -> fin (a_pc y) = true
}.

(* in the error-free regime no running activation has a cancelled context *)
Lemma clean_uncancelled s j y :
  clean s -> get_act s j = Some y -> fin (a_pc y) = false -> cancelled s (a_ectx y) = false.
Proof.
  intros Hc Hy Hf. destruct (cancelled s (a_ectx y)) eqn:E; [|reflexivity].
  destruct (cancelled_reach _ _ E) as (k & Hr & Hk).
  rewrite (cl_c2 _ Hc k j y Hk Hy) in Hf; [discriminate|]. right. left. exact Hr.
Qed.

Lemma clean_results s : clean s ->
  (forall j r, act_result s j = Some r -> r = ROk) /\ (forall j r, exec_result s j = Some r -> r = ROk).
Proof.
  intros Hc. split; intros j r H; [unfold act_result in H|unfold exec_result in H];
    destruct (get_act s j) as [y|] eqn:Hy; try discriminate;
    destruct (cl_c1 _ Hc j y Hy) as [Hcl _];
    destruct (a_pc y); try discriminate; injection H as <-; simpl in Hcl; destruct r0; [reflexivity|discriminate|reflexivity|discriminate|reflexivity|discriminate].
Qed.

(* ------------------------------------------------------------------ *)
(* auxiliary facts                                                     *)

Lemma prefix_of_aid_refl a : prefix_of_aid a a = true.
Proof. induction a as [|x a IH]; simpl; [reflexivity|]. rewrite Nat.eqb_refl. exact IH. Qed.

Lemma prefix_of_aid_app a b l : prefix_of_aid a b = true -> prefix_of_aid a (b ++ l) = true.
Proof.
  revert b; induction a as [|x a IH]; intros [|y b] H; simpl in *; try discriminate; [reflexivity|reflexivity|].
  apply andb_true_iff in H. destruct H as [H1 H2]. rewrite H1. simpl. apply IH. exact H2.
Qed.

Lemma prefix_of_aid_inv a b : prefix_of_aid a b = true -> exists l, b = a ++ l.
Proof.
  revert b; induction a as [|x a IH]; intros b H; simpl in *; [exists b; reflexivity|].
  destruct b as [|y b]; [discriminate|]. apply andb_true_iff in H. destruct H as [H1 H2].
  apply Nat.eqb_eq in H1. subst y. destruct (IH b H2) as [l ->]. exists l. reflexivity.
Qed.

Lemma prefix_of_aid_intro a l : prefix_of_aid a (a ++ l) = true.
Proof. apply prefix_of_aid_app. apply prefix_of_aid_refl. Qed.

Lemma shape_get s s' a x x' news np j y :
  cshape s s' a x x' news np -> get_act s a = Some x -> get_act s' j = Some y ->
  (j = a /\ y = x') \/ (j <> a /\ get_act s j = Some y) \/
  (length (acts s) <= j /\ nth_error news (j - length (acts s)) = Some y /\ In y news).
Proof.
  intros Hs Hx Hy. unfold get_act in *. rewrite (cs_acts _ _ _ _ _ _ _ Hs) in Hy.
  assert (Hlt : a < length (acts s)) by (apply nth_error_Some; rewrite Hx; discriminate).
  destruct (Nat.lt_ge_cases j (length (acts s))) as [Hj|Hj].
  - rewrite nth_error_app1 in Hy by (rewrite upd_length; exact Hj).
    destruct (Nat.eq_dec a j) as [<-|Hne].
    + rewrite (nth_error_upd_same _ _ _ _ Hx) in Hy. injection Hy as <-. left. split; reflexivity.
    + rewrite nth_error_upd_other in Hy by exact Hne. right. left. split; [congruence|exact Hy].
  - rewrite nth_error_app2 in Hy by (rewrite upd_length; exact Hj). rewrite upd_length in Hy.
    right. right. split; [exact Hj|]. split; [exact Hy|]. eapply nth_error_In; eauto.
Qed.

Lemma shape_get_old s s' a x x' news np j y :
  cshape s s' a x x' news np -> get_act s a = Some x -> j <> a -> get_act s j = Some y -> get_act s' j = Some y.
Proof.
  intros Hs Hx Hne Hy. unfold get_act in *. rewrite (cs_acts _ _ _ _ _ _ _ Hs).
  assert (Hj : j < length (acts s)) by (apply nth_error_Some; rewrite Hy; discriminate).
  rewrite nth_error_app1 by (rewrite upd_length; exact Hj). rewrite nth_error_upd_other by congruence. exact Hy.
Qed.

Lemma shape_get_self s s' a x x' news np :
  cshape s s' a x x' news np -> get_act s a = Some x -> get_act s' a = Some x'.
Proof.
  intros Hs Hx. unfold get_act in *. rewrite (cs_acts _ _ _ _ _ _ _ Hs).
  assert (Hj : a < length (acts s)) by (apply nth_error_Some; rewrite Hx; discriminate).
  rewrite nth_error_app1 by (rewrite upd_length; exact Hj). eapply nth_error_upd_same; eauto.
Qed.

(* parent and path, from the tree structure of InvUniq *)
Lemma child_path p c s j y i :
  inv_phase p c s -> get_act s j = Some y -> a_parent y = Some i ->
  exists px m, get_act s i = Some px /\ a_path y = a_path px ++ [m].
Proof.
  intros Hph Hy Hp. destruct (ip_uniq _ _ _ Hph) as [_ Hall]. rewrite Forall_forall in Hall.
  pose proof (pj_nth csof _ _ _ Hy) as Hn. destruct (Hall _ (nth_error_In _ _ Hn)) as (_ & _ & Hpar).
  simpl in Hpar. rewrite Hp in Hpar. destruct Hpar as [_ (px & m & Hpx & Hpm & _)].
  unfold pj in Hpx. rewrite nth_error_map in Hpx. destruct (nth_error (acts s) i) as [z|] eqn:Ez; [|discriminate].
  injection Hpx as <-. exists z, m. split; [exact Ez|exact Hpm].
Qed.

Lemma root_path p c s j y :
  inv_phase p c s -> get_act s j = Some y -> a_parent y = None -> length (a_path y) = 1.
Proof.
  intros Hph Hy Hp. destruct (ip_uniq _ _ _ Hph) as [_ Hall]. rewrite Forall_forall in Hall.
  pose proof (pj_nth csof _ _ _ Hy) as Hn. destruct (Hall _ (nth_error_In _ _ Hn)) as (_ & _ & Hpar).
  simpl in Hpar. rewrite Hp in Hpar. apply Hpar.
Qed.

Lemma path_nonempty p c s j y : inv_phase p c s -> get_act s j = Some y -> a_path y <> [].
Proof.
  intros Hph Hy. destruct (ip_uniq _ _ _ Hph) as [_ Hall]. rewrite Forall_forall in Hall.
  pose proof (pj_nth csof _ _ _ Hy) as Hn. destruct (Hall _ (nth_error_In _ _ Hn)) as (_ & Hne & _). exact Hne.
Qed.

Lemma path_inj p c s i j x y :
  inv_phase p c s -> get_act s i = Some x -> get_act s j = Some y -> a_path x = a_path y -> i = j.
Proof.
  intros Hph Hx Hy Hp. destruct (ip_uniq _ _ _ Hph) as [Hnd _].
  eapply (NoDup_map_nth c_path (pj csof s) i j (csof x) (csof y)); auto; apply pj_nth; assumption.
Qed.

Lemma waits_waiting q k j kids : waits q k j kids -> waiting_pc q = true.
Proof. destruct k; simpl; [intros []|intros [-> _]|intros [i ->]|intros [r ->]]; reflexivity. Qed.

Lemma waiting_live q : waiting_pc q = true -> donepc q = false.
Proof. destruct q; simpl; auto; discriminate. Qed.

(* a running activation keeps all its ancestors waiting *)
Lemma live_ancestors p c s : inv_phase p c s -> clean s ->
  forall n j y io o, length (a_path y) <= n ->
    get_act s j = Some y -> donepc (a_pc y) = false -> get_act s io = Some o ->
    prefix_of_aid (a_path o) (a_path y) = true -> io <> j -> waiting_pc (a_pc o) = true.
Proof.
  intros Hph Hcl. induction n as [|n IH]; intros j y io o Hlen Hy Hlive Ho Hpre Hne.
  - pose proof (path_nonempty p c s j y Hph Hy). destruct (a_path y); [congruence|simpl in Hlen; lia].
  - destruct (prefix_of_aid_inv _ _ Hpre) as [l Hl].
    destruct l as [|m0 l0] using rev_ind.
    { rewrite app_nil_r in Hl. exfalso. apply Hne. symmetry. eapply path_inj; eauto. }
    clear IHl0. destruct (a_parent y) as [i|] eqn:Epar.
    + destruct (child_path p c s j y i Hph Hy Epar) as (px & m & Hpx & Hpm).
      destruct (cl_q1 _ Hcl j y i Hy Hlive Epar) as (px' & Hpx' & Hw). rewrite Hpx in Hpx'. injection Hpx' as <-.
      pose proof (waits_waiting _ _ _ _ Hw) as Hwp.
      rewrite Hl, app_assoc in Hpm. apply app_inj_tail in Hpm. destruct Hpm as [Hpp _].
      destruct l0 as [|m1 l1].
      * rewrite app_nil_r in Hpp. assert (io = i) by (eapply path_inj; eauto). subst i.
        rewrite Ho in Hpx. injection Hpx as <-. exact Hwp.
      * apply (IH i px io o); auto.
        -- rewrite Hl in Hlen. rewrite <- Hpp. rewrite !app_length in *. simpl in *. lia.
        -- apply waiting_live. exact Hwp.
        -- rewrite <- Hpp. apply prefix_of_aid_intro.
        -- intros ->. rewrite Ho in Hpx. injection Hpx as <-.
           apply (f_equal (@length nat)) in Hpp. rewrite app_length in Hpp. simpl in Hpp. lia.
    + pose proof (root_path p c s j y Hph Hy Epar) as H1.
      pose proof (path_nonempty p c s io o Hph Ho) as H2.
      rewrite Hl, !app_length in H1. simpl in H1. destruct (a_path o); [congruence|simpl in H1; lia].
Qed.

(* ------------------------------------------------------------------ *)
(* the error-free regime is preserved by steps of the clean shape       *)

Section Preserve.
  Variables (p : prog) (c : cfg) (s s' : state) (a : nat) (x x' : act) (news : list act) (np : list (option nat)).
  Hypothesis Hph : inv_phase p c s.
  Hypothesis Hph' : inv_phase p c s'.
  Hypothesis Hcl : clean s.
  Hypothesis Hx : get_act s a = Some x.
  Hypothesis Hsh : cshape s s' a x x' news np.
  Hypothesis Hlive : donepc (a_pc x) = false.

  Let L := length (ctxs s).

  Lemma plen : length (parents s) = L.
  Proof. unfold parents. apply map_length. Qed.

  Lemma L_ge_2 : 2 <= L.
  Proof.
    destruct (wf_base _ (cl_wf _ Hcl)) as [_ H1]. rewrite <- plen.
    assert (1 < length (parents s)) by (apply nth_error_Some; rewrite H1; discriminate). lia.
  Qed.

  Lemma pars' : parents s' = parents s ++ np. Proof. exact (cs_parents _ _ _ _ _ _ _ Hsh). Qed.

  Lemma x_refs : a_ctx x < L /\ a_ectx x < L /\ a_gctx x < L.
  Proof. exact (wf_refs _ (cl_wf _ Hcl) a x Hx). Qed.

  Lemma np_cases : np = [] \/ np = [Some (a_ctx x)] \/ np = [Some (a_ectx x)].
  Proof.
    destruct (cs_kind _ _ _ _ _ _ _ Hsh) as [Hn Hnp He Hgc Hrk Hkd Hw HJ HC HD HF | Hn Hnp Hpc Hpc' He Hgc Hrk Hkd
      | Hnp Hpc Hpc' He Hgc Hrk Hkd Hnk | i Hnp Hpc Hpc' He Hgc Hrk Hkd Hnk | r Hnp Hpc Hpc' He Hgc Hrk Hkd Hnk]; auto.
  Qed.

  Lemma par_ok' : par_ok (parents s').
  Proof.
    rewrite pars'. intros k q Hk. pose proof (wf_par _ (cl_wf _ Hcl)) as HP. pose proof x_refs as (H1 & H2 & _).
    destruct (Nat.lt_ge_cases k (length (parents s))) as [Hlt|Hge].
    - rewrite nth_error_app1 in Hk by exact Hlt. exact (HP _ _ Hk).
    - rewrite nth_error_app2 in Hk by exact Hge. rewrite plen in *.
      destruct np_cases as [->|[->| ->]]; destruct (k - L) as [|[|m]] eqn:Ek; simpl in Hk; try discriminate;
        injection Hk as <-; lia.
  Qed.

  (* reach in s' from an old context towards an old context is reach in s *)
  Lemma reach_old c0 k : c0 < L -> reach (parents s') c0 k -> reach (parents s) c0 k.
  Proof. intros Hc. rewrite pars'. apply reach_app_inv; [exact (wf_par _ (cl_wf _ Hcl))|rewrite plen; exact Hc]. Qed.

  Lemma reach_new q k : np = [Some q] -> q < L -> k < L -> reach (parents s') L k -> reach (parents s) q k.
  Proof.
    intros Hnp Hq Hk H. rewrite pars', Hnp in H. rewrite <- plen in H. apply reach_fresh in H.
    destruct H as [->|H]; [rewrite plen in Hk; lia|].
    apply reach_app_inv in H; [exact H|exact (wf_par _ (cl_wf _ Hcl))|rewrite plen; exact Hq].
  Qed.

  Lemma under_old j y k : j <> a -> get_act s j = Some y -> under s' y k -> under s y k.
  Proof.
    intros Hne Hy. destruct (wf_refs _ (cl_wf _ Hcl) j y Hy) as (H1 & H2 & H3).
    intros [H|[H|H]]; [left|right; left|right; right]; apply reach_old; assumption.
  Qed.

  Lemma under_self k : k < L -> under s' x' k -> under s x k.
  Proof.
    intros Hk. pose proof x_refs as (H1 & H2 & H3).
    destruct (cs_static _ _ _ _ _ _ _ Hsh) as (_ & _ & _ & _ & Hc).
    destruct (cs_kind _ _ _ _ _ _ _ Hsh) as [Hn Hnp He Hgc Hrk Hkd Hw HJ HC HD HF | Hn Hnp Hpc Hpc' He Hgc Hrk Hkd
      | Hnp Hpc Hpc' He Hgc Hrk Hkd Hnk | i Hnp Hpc Hpc' He Hgc Hrk Hkd Hnk | r Hnp Hpc Hpc' He Hgc Hrk Hkd Hnk];
      unfold under; rewrite Hc, He, Hgc; intros [H|[H|H]];
      try (left; apply reach_old; assumption);
      try (right; left; apply reach_old; assumption);
      try (right; right; apply reach_old; assumption).
    - left. eapply reach_new; eauto.
    - right. left. eapply reach_new; eauto.
  Qed.

  Lemma under_new y k : In y news -> k < L -> under s' y k -> under s x k \/ k = 1.
  Proof.
    intros Hy Hk. pose proof x_refs as (H1 & H2 & H3).
    pose proof (cs_news_ok _ _ _ _ _ _ _ Hsh) as Hn. rewrite Forall_forall in Hn.
    destruct (Hn y Hy) as (_ & _ & _ & _ & _ & Hye & Hyg).
    assert (Hu : under s' y k -> reach (parents s') (a_ctx y) k).
    { unfold under. rewrite Hye, Hyg. tauto. }
    intros Hund. apply Hu in Hund. clear Hu.
    destruct (cs_kind _ _ _ _ _ _ _ Hsh) as [Hn0 Hnp He Hgc Hrk Hkd Hw HJ HC HD HF | Hn0 Hnp Hpc Hpc' He Hgc Hrk Hkd
      | Hnp Hpc Hpc' He Hgc Hrk Hkd Hnk | i Hnp Hpc Hpc' He Hgc Hrk Hkd Hnk | r Hnp Hpc Hpc' He Hgc Hrk Hkd Hnk].
    - rewrite Hn0 in Hy. contradiction.
    - rewrite Hn0 in Hy. contradiction.
    - rewrite Forall_forall in Hnk. destruct (Hnk y Hy) as [_ Hyc]. rewrite Hyc in Hund.
      left. right. left. eapply reach_new; eauto.
    - destruct Hnk as (y0 & Hnews & _ & Hyc). rewrite Hnews in Hy. destruct Hy as [<-|[]]. rewrite Hyc in Hund.
      left. right. left. apply reach_old; assumption.
    - destruct Hnk as (y0 & Hnews & _ & Hyc). rewrite Hnews in Hy. destruct Hy as [<-|[]]. rewrite Hyc in Hund.
      right. apply reach_old in Hund; [|unfold background_ctx; pose proof L_ge_2; lia].
      apply (reach_base _ _ _ (proj2 (wf_base _ (cl_wf _ Hcl))) Hund).
  Qed.

  Lemma len' : length (ctxs s') = L + length np.
  Proof.
    pose proof pars' as H. apply (f_equal (@length _)) in H. unfold parents in H at 1.
    rewrite map_length, app_length, plen in H. exact H.
  Qed.

  Lemma news_child y : In y news -> exists m, a_path y = a_path x ++ [m].
  Proof.
    intros Hy. destruct (In_nth_error _ _ Hy) as [n Hn].
    assert (Hget : get_act s' (length (acts s) + n) = Some y).
    { unfold get_act. rewrite (cs_acts _ _ _ _ _ _ _ Hsh). rewrite nth_error_app2 by (rewrite upd_length; lia).
      rewrite upd_length. replace (length (acts s) + n - length (acts s)) with n by lia. exact Hn. }
    pose proof (cs_news_ok _ _ _ _ _ _ _ Hsh) as Hok. rewrite Forall_forall in Hok.
    destruct (Hok y Hy) as (_ & Hpar & _).
    destruct (child_path p c s' _ y a Hph' Hget Hpar) as (px & m & Hpx & Hpm).
    rewrite (shape_get_self _ _ _ _ _ _ _ Hsh Hx) in Hpx. injection Hpx as <-.
    exists m. rewrite Hpm. destruct (cs_static _ _ _ _ _ _ _ Hsh) as (-> & _). reflexivity.
  Qed.

  Lemma wf' : wf_ctx s'.
  Proof.
    pose proof (cl_wf _ Hcl) as Hwf. pose proof x_refs as (Hr1 & Hr2 & Hr3). pose proof L_ge_2 as HL2.
    pose proof (cs_news_ok _ _ _ _ _ _ _ Hsh) as Hok. rewrite Forall_forall in Hok.
    destruct (cs_static _ _ _ _ _ _ _ Hsh) as (_ & _ & _ & _ & Hc).
    constructor.
    - intros j y Hy. rewrite len'.
      destruct (shape_get _ _ _ _ _ _ _ _ _ Hsh Hx Hy) as [[-> ->]|[[Hne Hy0]|(Hj & Hn & Hin)]].
      + rewrite Hc.
        destruct (cs_kind _ _ _ _ _ _ _ Hsh) as [Hn Hnp He Hgc Hrk Hkd Hw HJ HC HD HF | Hn Hnp Hpc Hpc' He Hgc Hrk Hkd
          | Hnp Hpc Hpc' He Hgc Hrk Hkd Hnk | i Hnp Hpc Hpc' He Hgc Hrk Hkd Hnk | r Hnp Hpc Hpc' He Hgc Hrk Hkd Hnk];
          rewrite He, Hgc, Hnp; simpl; fold L; lia.
      + destruct (wf_refs _ Hwf j y Hy0) as (H1 & H2 & H3). fold L in H1, H2, H3. lia.
      + destruct (Hok y Hin) as (_ & _ & _ & _ & _ & Hye & Hyg). rewrite Hye, Hyg.
        destruct (cs_kind _ _ _ _ _ _ _ Hsh) as [Hn0 Hnp He Hgc Hrk Hkd Hw HJ HC HD HF | Hn0 Hnp Hpc Hpc' He Hgc Hrk Hkd
          | Hnp Hpc Hpc' He Hgc Hrk Hkd Hnk | i Hnp Hpc Hpc' He Hgc Hrk Hkd Hnk | r Hnp Hpc Hpc' He Hgc Hrk Hkd Hnk].
        * rewrite Hn0 in Hin. contradiction.
        * rewrite Hn0 in Hin. contradiction.
        * rewrite Forall_forall in Hnk. destruct (Hnk y Hin) as [_ Hyc]. rewrite Hyc, Hnp. simpl. fold L. lia.
        * destruct Hnk as (y0 & Hnews & _ & Hyc). rewrite Hnews in Hin. destruct Hin as [<-|[]]. rewrite Hyc. lia.
        * destruct Hnk as (y0 & Hnews & _ & Hyc). rewrite Hnews in Hin. destruct Hin as [<-|[]]. rewrite Hyc.
          unfold background_ctx. lia.
    - exact par_ok'.
    - rewrite pars'. destruct (wf_base _ Hwf) as [H0 H1]. split; rewrite nth_error_app1; auto; rewrite plen; lia.
    - destruct (wf_unfl _ Hwf) as [H0 H1].
      split; intros Hf; destruct (cs_flags _ _ _ _ _ _ _ Hsh _ Hf) as [Hf'|(r & _ & _ & Hrk & Hk)]; auto;
        pose proof (wf_own _ Hwf a x Hx Hrk); lia.
    - intros j y Hy Hrk.
      destruct (shape_get _ _ _ _ _ _ _ _ _ Hsh Hx Hy) as [[-> ->]|[[Hne Hy0]|(Hj & Hn & Hin)]].
      + destruct (cs_kind _ _ _ _ _ _ _ Hsh) as [Hn Hnp He Hgc Hrk' Hkd Hw HJ HC HD HF | Hn Hnp Hpc Hpc' He Hgc Hrk' Hkd
          | Hnp Hpc Hpc' He Hgc Hrk' Hkd Hnk | i Hnp Hpc Hpc' He Hgc Hrk' Hkd Hnk | r Hnp Hpc Hpc' He Hgc Hrk' Hkd Hnk];
          rewrite He; try (apply (wf_own _ Hwf a x Hx); congruence). fold L. exact HL2.
      + exact (wf_own _ Hwf j y Hy0 Hrk).
      + destruct (Hok y Hin) as (_ & _ & _ & Hk & _). congruence.
  Qed.

  Lemma c1' : forall j y, get_act s' j = Some y -> pc_clean (a_pc y) = true /\ a_gerr y = None.
  Proof.
    intros j y Hy. pose proof (cs_news_ok _ _ _ _ _ _ _ Hsh) as Hok. rewrite Forall_forall in Hok.
    destruct (shape_get _ _ _ _ _ _ _ _ _ Hsh Hx Hy) as [[-> ->]|[[Hne Hy0]|(Hj & Hn & Hin)]].
    - split; [exact (cs_clean _ _ _ _ _ _ _ Hsh)|].
      destruct (cs_static _ _ _ _ _ _ _ Hsh) as (_ & _ & _ & -> & _). exact (proj2 (cl_c1 _ Hcl a x Hx)).
    - exact (cl_c1 _ Hcl j y Hy0).
    - destruct (Hok y Hin) as (-> & _ & -> & _). split; reflexivity.
  Qed.

  Lemma not_self_parent : a_parent x <> Some a.
  Proof.
    intros Hp. destruct (child_path p c s a x a Hph Hx Hp) as (px & m & Hpx & Hpm).
    rewrite Hx in Hpx. injection Hpx as <-. apply (f_equal (@length nat)) in Hpm.
    rewrite app_length in Hpm. simpl in Hpm. lia.
  Qed.

  Lemma act_result_live j y : get_act s j = Some y -> donepc (a_pc y) = false -> act_result s j = None.
  Proof. intros Hy Hl. unfold act_result. rewrite Hy. destruct (a_pc y); try reflexivity. discriminate. Qed.

  Lemma q1' : forall j y i, get_act s' j = Some y -> donepc (a_pc y) = false -> a_parent y = Some i ->
    exists px, get_act s' i = Some px /\ waits (a_pc px) (a_kind y) j (a_kids px).
  Proof.
    intros j y i Hy Hl Hp. pose proof (cs_news_ok _ _ _ _ _ _ _ Hsh) as Hok. rewrite Forall_forall in Hok.
    destruct (cs_static _ _ _ _ _ _ _ Hsh) as (_ & Hkx & Hpx' & _ & _).
    destruct (shape_get _ _ _ _ _ _ _ _ _ Hsh Hx Hy) as [[-> ->]|[[Hne Hy0]|(Hj & Hn & Hin)]].
    - rewrite Hpx' in Hp. rewrite Hkx.
      destruct (cl_q1 _ Hcl a x i Hx Hlive Hp) as (px & Hpx & Hw). exists px. split; [|exact Hw].
      eapply shape_get_old; eauto. intros ->. exact (not_self_parent Hp).
    - destruct (cl_q1 _ Hcl j y i Hy0 Hl Hp) as (px & Hpx & Hw).
      destruct (Nat.eq_dec i a) as [->|Hia]; [|exists px; split; [eapply shape_get_old; eauto|exact Hw]].
      rewrite Hx in Hpx. injection Hpx as <-. exfalso.
      pose proof (act_result_live j y Hy0 Hl) as Hnone.
      destruct (cs_kind _ _ _ _ _ _ _ Hsh) as [Hn Hnp He Hgc Hrk Hkd Hwt HJ HC HD HF | Hn Hnp Hpc Hpc' He Hgc Hrk Hkd
        | Hnp Hpc Hpc' He Hgc Hrk Hkd Hnk | i0 Hnp Hpc Hpc' He Hgc Hrk Hkd Hnk | r Hnp Hpc Hpc' He Hgc Hrk Hkd Hnk];
        destruct (a_kind y); simpl in Hw;
        try contradiction;
        try (destruct Hw as [Hw _]; congruence);
        try (destruct Hw as [? Hw]; congruence).
      + destruct Hw as [Hw Hin]. specialize (HJ Hw). unfold all_done in HJ. rewrite forallb_forall in HJ.
        specialize (HJ j Hin). rewrite Hnone in HJ. discriminate.
      + destruct Hw as [i1 Hw]. exact (HC i1 j Hw Hnone).
      + destruct Hw as [r1 Hw]. exact (HD r1 j Hw Hnone).
    - destruct (Hok y Hin) as (_ & Hpy & _). rewrite Hpy in Hp. injection Hp as <-.
      exists x'. split; [eapply shape_get_self; eauto|].
      assert (Hjn : j - length (acts s) < length news) by (apply nth_error_Some; rewrite Hn; discriminate).
      destruct (cs_kind _ _ _ _ _ _ _ Hsh) as [Hn0 Hnp He Hgc Hrk Hkd Hwt HJ HC HD HF | Hn0 Hnp Hpc Hpc' He Hgc Hrk Hkd
        | Hnp Hpc Hpc' He Hgc Hrk Hkd Hnk | i0 Hnp Hpc Hpc' He Hgc Hrk Hkd Hnk | r Hnp Hpc Hpc' He Hgc Hrk Hkd Hnk].
      + rewrite Hn0 in Hin. contradiction.
      + rewrite Hn0 in Hin. contradiction.
      + rewrite Forall_forall in Hnk. destruct (Hnk y Hin) as [Hk _]. rewrite Hk, Hpc', Hkd. simpl.
        split; [reflexivity|]. apply in_seq. lia.
      + destruct Hnk as (y0 & Hnews & Hk & _). rewrite Hnews in Hin, Hjn. destruct Hin as [<-|[]].
        rewrite Hk, Hpc'. simpl in *. exists i0. f_equal. lia.
      + destruct Hnk as (y0 & Hnews & Hk & _). rewrite Hnews in Hin, Hjn. destruct Hin as [<-|[]].
        rewrite Hk, Hpc'. simpl in *. exists r. f_equal. lia.
  Qed.

  Lemma flagged_lt k : flagged s k -> k < L.
  Proof. intros (r & Hr & _). apply nth_error_Some. rewrite Hr. discriminate. Qed.

  (* scope of an execution context that existed before the step *)
  Lemma sc_old io o k j y :
    get_act s io = Some o -> a_regkey o <> None -> k = a_ectx o ->
    get_act s' j = Some y -> under s' y k -> prefix_of_aid (a_path o) (a_path y) = true.
  Proof.
    intros Ho Hrk -> Hy Hu.
    assert (Hk : a_ectx o < L) by (apply (wf_refs _ (cl_wf _ Hcl) io o Ho)).
    destruct (shape_get _ _ _ _ _ _ _ _ _ Hsh Hx Hy) as [[-> ->]|[[Hne Hy0]|(Hj & Hn & Hin)]].
    - destruct (cs_static _ _ _ _ _ _ _ Hsh) as (-> & _).
      apply (cl_sc _ Hcl io o a x Ho Hrk Hx). apply under_self; assumption.
    - apply (cl_sc _ Hcl io o j y Ho Hrk Hy0). eapply under_old; eauto.
    - destruct (under_new y _ Hin Hk Hu) as [Hux|H1].
      + destruct (news_child y Hin) as [m ->]. apply prefix_of_aid_app.
        exact (cl_sc _ Hcl io o a x Ho Hrk Hx Hux).
      + pose proof (wf_own _ (cl_wf _ Hcl) io o Ho Hrk). lia.
  Qed.

  Lemma sc' : forall io o j y, get_act s' io = Some o -> a_regkey o <> None -> get_act s' j = Some y ->
    under s' y (a_ectx o) -> prefix_of_aid (a_path o) (a_path y) = true.
  Proof.
    intros io o j y Ho Hrk Hy Hu. pose proof (cs_news_ok _ _ _ _ _ _ _ Hsh) as Hok. rewrite Forall_forall in Hok.
    destruct (shape_get _ _ _ _ _ _ _ _ _ Hsh Hx Ho) as [[-> ->]|[[Hne Ho0]|(Hj & Hn & Hin)]].
    - destruct (cs_static _ _ _ _ _ _ _ Hsh) as (Hpath & _).
      destruct (cs_kind _ _ _ _ _ _ _ Hsh) as [Hn Hnp He Hgc Hrk' Hkd Hw HJ HC HD HF | Hn Hnp Hpc Hpc' He Hgc Hrk' Hkd
        | Hnp Hpc Hpc' He Hgc Hrk' Hkd Hnk | i Hnp Hpc Hpc' He Hgc Hrk' Hkd Hnk | r Hnp Hpc Hpc' He Hgc Hrk' Hkd Hnk];
        try (rewrite Hpath; apply (sc_old a x (a_ectx x') j y Hx); [congruence|congruence|exact Hy|exact Hu]).
      (* x' has just become an owner: its context is fresh *)
      rewrite He in Hu. fold L in Hu.
      destruct (shape_get _ _ _ _ _ _ _ _ _ Hsh Hx Hy) as [[-> ->]|[[Hne Hy0]|(Hj & Hn' & Hin)]].
      + apply prefix_of_aid_refl.
      + exfalso. destruct (wf_refs _ (cl_wf _ Hcl) j y Hy0) as (H1 & H2 & H3). fold L in H1, H2, H3.
        destruct Hu as [H|[H|H]]; apply (reach_le _ _ _ par_ok') in H; lia.
      + rewrite Hn in Hin. contradiction.
    - apply (sc_old io o (a_ectx o) j y Ho0 Hrk eq_refl Hy Hu).
    - destruct (Hok o Hin) as (_ & _ & _ & Hk & _). congruence.
  Qed.

  Lemma done_fin q : donepc q = true -> fin q = true.
  Proof. destruct q; simpl; auto. Qed.

  Lemma c2' : forall k j y, flagged s' k -> get_act s' j = Some y -> under s' y k -> fin (a_pc y) = true.
  Proof.
    intros k j y Hf Hy Hu.
    destruct (cs_flags _ _ _ _ _ _ _ Hsh _ Hf) as [Hf0|(r & Hpc & Hpc' & Hrk & ->)].
    - pose proof (flagged_lt k Hf0) as Hk.
      destruct (shape_get _ _ _ _ _ _ _ _ _ Hsh Hx Hy) as [[-> ->]|[[Hne Hy0]|(Hj & Hn & Hin)]].
      + pose proof (cl_c2 _ Hcl k a x Hf0 Hx (under_self k Hk Hu)) as Hfx.
        destruct (cs_kind _ _ _ _ _ _ _ Hsh) as [Hn Hnp He Hgc Hrk' Hkd Hw HJ HC HD HF | Hn Hnp Hpc Hpc' He Hgc Hrk' Hkd
          | Hnp Hpc Hpc' He Hgc Hrk' Hkd Hnk | i Hnp Hpc Hpc' He Hgc Hrk' Hkd Hnk | r Hnp Hpc Hpc' He Hgc Hrk' Hkd Hnk];
          try (rewrite Hpc in Hfx; discriminate). exact (HF Hfx).
      + apply (cl_c2 _ Hcl k j y Hf0 Hy0). eapply under_old; eauto.
      + exfalso. destruct (under_new y k Hin Hk Hu) as [Hux| ->].
        * pose proof (cl_c2 _ Hcl k a x Hf0 Hx Hux) as Hfx.
          destruct (cs_kind _ _ _ _ _ _ _ Hsh) as [Hn0 Hnp He Hgc Hrk' Hkd Hw HJ HC HD HF | Hn0 Hnp Hpc Hpc' He Hgc Hrk' Hkd
            | Hnp Hpc Hpc' He Hgc Hrk' Hkd Hnk | i Hnp Hpc Hpc' He Hgc Hrk' Hkd Hnk | r Hnp Hpc Hpc' He Hgc Hrk' Hkd Hnk];
            try (rewrite Hpc in Hfx; discriminate); rewrite Hn0 in Hin; contradiction.
        * exact (proj2 (wf_unfl _ (cl_wf _ Hcl)) Hf0).
    - (* the owner x has just completed: everything under its context is done *)
      assert (Hnews : news = []).
      { destruct (cs_kind _ _ _ _ _ _ _ Hsh) as [Hn0 Hnp He Hgc Hrk' Hkd Hw HJ HC HD HF | Hn0 Hnp Hpc0 Hpc0' He Hgc Hrk' Hkd
          | Hnp Hpc0 Hpc0' He Hgc Hrk' Hkd Hnk | i Hnp Hpc0 Hpc0' He Hgc Hrk' Hkd Hnk | r0 Hnp Hpc0 Hpc0' He Hgc Hrk' Hkd Hnk];
          try assumption; congruence. }
      destruct (shape_get _ _ _ _ _ _ _ _ _ Hsh Hx Hy) as [[-> ->]|[[Hne Hy0]|(Hj & Hn & Hin)]].
      + rewrite Hpc'. reflexivity.
      + destruct (donepc (a_pc y)) eqn:Hd; [apply done_fin; exact Hd|]. exfalso.
        assert (Hpre : prefix_of_aid (a_path x) (a_path y) = true).
        { apply (cl_sc _ Hcl a x j y Hx Hrk Hy0). eapply under_old; eauto. }
        pose proof (live_ancestors p c s Hph Hcl _ j y a x (le_n _) Hy0 Hd Hx Hpre (fun e => Hne (eq_sym e))) as Hw.
        rewrite Hpc in Hw. discriminate.
      + rewrite Hnews in Hin. contradiction.
  Qed.

  Theorem clean' : clean s'.
  Proof. constructor; [exact wf'|exact c1'|exact q1'|exact sc'|exact c2']. Qed.
End Preserve.

(* ------------------------------------------------------------------ *)
(* runs                                                                *)

Lemma step_trace_app p c s a s' : step p c s a = Some s' -> exists evs, trace s' = trace s ++ evs.
Proof.
  intros H. destruct (get_act s a) as [x|] eqn:Hx; [|unfold step in H; rewrite Hx in H; discriminate].
  step_cases H Hx;
    try (eexists; autorewrite with sigdb; simpl; rewrite <- ?app_assoc; first [reflexivity | symmetry; apply app_nil_r]).
  - apply fork_deps_spec in Heqp0. simpl in Heqp0.
    destruct Heqp0 as [news (_ & _ & Ht & _)]. exists []. rewrite trace_set_act, Ht, release_trace, app_nil_r. reflexivity.
Qed.

Lemma step_not_done p c s a s' x : get_act s a = Some x -> step p c s a = Some s' -> donepc (a_pc x) = false.
Proof. intros Hx H. unfold step in H. rewrite Hx in H. destruct (a_pc x); try reflexivity. discriminate. Qed.

Definition fail_seen (p : prog) (c : cfg) (tr : list event) : bool :=
  existsb (fun e => match e with EvProbeEnd b i => failing_cmd p c b i | _ => false end) tr.

Definition no204 (tr : list event) : bool :=
  forallb (fun e => match e with EvEnd _ (RErr (ECode 204)) => false | _ => true end) tr.

Definition other_fail (p : prog) (c : cfg) (a : aid) (tr : list event) : bool :=
  existsb (fun e => match e with
                    | EvProbeEnd b i => failing_cmd p c b i && negb (aid_eqb a b)
                    | _ => false end) tr.

Lemma other_fail_foreign p c a tr : other_fail p c a tr = true -> foreign_failure p c a tr = true.
Proof. unfold foreign_failure, other_fail. intros ->. apply orb_true_r. Qed.

Lemma guards_foreign p c a tr : no_guard_errors p c = false -> foreign_failure p c a tr = true.
Proof. unfold foreign_failure. intros ->. reflexivity. Qed.

Lemma no_guard_fine p c t : no_guard_errors p c = true -> guards_fine c (get_task p t).
Proof.
  unfold no_guard_errors, get_task. intros H.
  assert (Hd : guards_fine c dummy_task) by (unfold guards_fine; simpl; repeat split; discriminate).
  destruct (nth_in_or_default t p dummy_task) as [Hin|Hdef]; [|rewrite Hdef; exact Hd].
  rewrite forallb_forall in H. specialize (H _ Hin). unfold guards_fine.
  destruct (g_required _), (g_enum _); simpl in H; try discriminate.
  destruct (g_prompt _ && negb (cf_yes c)); simpl in H; try discriminate.
  destruct (g_precond _) as [[|]|]; simpl in H; try discriminate; repeat split; congruence.
Qed.

Lemma start_root_trace p c s k s' : start_root p c s k = Some s' -> trace s' = trace s.
Proof.
  unfold start_root. destruct (nth_error (cf_roots c) k); [|discriminate].
  destruct (negb (precheck_ok p c) || root_started s k); [discriminate|].
  match goal with |- (if ?b then _ else _) = _ -> _ => destruct b end; [|discriminate].
  intros H. injection H as <-. reflexivity.
Qed.

Lemma clean_init p : clean (init_state p).
Proof.
  assert (Hn : forall j y, get_act (init_state p) j = Some y -> False).
  { intros j y H. unfold get_act in H. simpl in H. destruct j; discriminate. }
  constructor; try (intros; exfalso; eapply Hn; eassumption).
  constructor; try (intros; exfalso; eapply Hn; eassumption).
  - intros k q H. unfold parents in H. simpl in H. destruct k as [|[|[|k]]]; discriminate.
  - split; reflexivity.
  - split; intros (r & Hr & Hc); simpl in Hr; injection Hr as <-; discriminate.
Qed.

Lemma start_root_clean p c s k s' : clean s -> start_root p c s k = Some s' -> clean s'.
Proof.
  intros Hcl H. unfold start_root in H.
  destruct (nth_error (cf_roots c) k) as [cl|]; [|discriminate].
  destruct (negb (precheck_ok p c) || root_started s k); [discriminate|].
  match type of H with (if ?b then _ else _) = _ => destruct b end; [|discriminate].
  injection H as <-. unfold add_act. simpl.
  set (n := new_act [k] (c_task cl) (eval_var 0 (c_var cl)) KRoot None root_ctx).
  set (s' := {| acts := acts s ++ [n]; used := used s; dedup := dedup s; calls := calls s; ctxs := ctxs s;
                trace := trace s; rootres := rootres s; rungerr := rungerr s |}).
  assert (Hget : forall j y, get_act s' j = Some y -> get_act s j = Some y \/ (j = length (acts s) /\ y = n)).
  { intros j y Hy. unfold get_act in *. simpl in Hy.
    destruct (Nat.lt_ge_cases j (length (acts s))) as [Hlt|Hge].
    - rewrite nth_error_app1 in Hy by exact Hlt. left. exact Hy.
    - rewrite nth_error_app2 in Hy by exact Hge. destruct (j - length (acts s)) as [|m] eqn:E; simpl in Hy.
      + injection Hy as <-. right. split; [lia|reflexivity].
      + destruct m; discriminate. }
  assert (Hold : forall j y, get_act s j = Some y -> get_act s' j = Some y).
  { intros j y Hy. unfold get_act in *. simpl. rewrite nth_error_app1; [exact Hy|].
    apply nth_error_Some. rewrite Hy. discriminate. }
  assert (Hpar : parents s' = parents s) by reflexivity.
  assert (Hfl : forall j, flagged s' j <-> flagged s j) by (intros j; reflexivity).
  assert (Hund : forall y j, under s' y j <-> under s y j) by (intros y j; reflexivity).
  pose proof (cl_wf _ Hcl) as Hwf.
  assert (HL : 2 <= length (ctxs s)).
  { destruct (wf_base _ Hwf) as [_ H1]. unfold parents in H1. rewrite nth_error_map in H1.
    assert (1 < length (ctxs s)); [|lia]. apply nth_error_Some. destruct (nth_error (ctxs s) 1); discriminate. }
  assert (Hun : forall j, under s n j -> j = 0).
  { intros j Hj. unfold under, n in Hj. simpl in Hj.
    destruct Hj as [Hj|[Hj|Hj]]; exact (reach_base _ _ _ (proj1 (wf_base _ Hwf)) Hj). }
  constructor.
  - constructor.
    + intros j y Hy. simpl. destruct (Hget j y Hy) as [Hy0|[-> ->]]; [exact (wf_refs _ Hwf j y Hy0)|].
      unfold n, root_ctx. simpl. lia.
    + exact (wf_par _ Hwf).
    + exact (wf_base _ Hwf).
    + exact (wf_unfl _ Hwf).
    + intros j y Hy Hrk. destruct (Hget j y Hy) as [Hy0|[-> ->]]; [exact (wf_own _ Hwf j y Hy0 Hrk)|].
      exfalso. apply Hrk. reflexivity.
  - intros j y Hy. destruct (Hget j y Hy) as [Hy0|[-> ->]]; [exact (cl_c1 _ Hcl j y Hy0)|]. split; reflexivity.
  - intros j y i Hy Hl Hp. destruct (Hget j y Hy) as [Hy0|[-> ->]]; [|discriminate].
    destruct (cl_q1 _ Hcl j y i Hy0 Hl Hp) as (px & Hpx & Hw). exists px. split; [apply Hold; exact Hpx|exact Hw].
  - intros io o j y Ho Hrk Hy Hu. destruct (Hget io o Ho) as [Ho0|[-> ->]]; [|exfalso; apply Hrk; reflexivity].
    destruct (Hget j y Hy) as [Hy0|[-> ->]]; [exact (cl_sc _ Hcl io o j y Ho0 Hrk Hy0 Hu)|].
    exfalso. apply Hun in Hu. pose proof (wf_own _ Hwf io o Ho0 Hrk). lia.
  - intros k0 j y Hf Hy Hu. destruct (Hget j y Hy) as [Hy0|[-> ->]]; [exact (cl_c2 _ Hcl k0 j y Hf Hy0 Hu)|].
    exfalso. apply Hun in Hu. subst k0. exact (proj1 (wf_unfl _ Hwf) Hf).
Qed.


Section Causal.
  Variables (p : prog) (c : cfg).
  (* a further, stable, reason for which the error-free regime may have been left *)
  Variable Zb : list event -> bool.
  Hypothesis Zb_mono : forall tr evs, Zb tr = true -> Zb (tr ++ evs) = true.

  (* the run has left the error-free regime for a reason the monitor accepts *)
  Definition excused_tr (tr : list event) : Prop := fail_seen p c tr = true \/ Zb tr = true.

  Lemma excused_app tr evs : excused_tr tr -> excused_tr (tr ++ evs).
  Proof.
    unfold excused_tr, fail_seen. rewrite existsb_app.
    intros [H|H]; [left; rewrite H; reflexivity|right; apply Zb_mono; exact H].
  Qed.

  (* the global invariant: error-free, or excused *)
  Definition causal (s : state) : Prop := excused_tr (trace s) \/ clean s.

  (* the call counter trips only for the reason Zb *)
  Definition trip_ok (s : state) : Prop :=
    forall a x, get_act s a = Some x -> callcount_trips c s x ->
                Zb (trace s ++ [EvEnd (a_path x) (RErr (ECode 204))]) = true.

  Lemma step_causal s a s' :
    no_guard_errors p c = true -> inv_phase p c s -> trip_ok s -> causal s -> step p c s a = Some s' -> causal s'.
  Proof.
    intros Hng Hph Htrip [Hex|Hcl] H.
    - left. destruct (step_trace_app _ _ _ _ _ H) as [evs ->]. apply excused_app. exact Hex.
    - destruct (get_act s a) as [x|] eqn:Hx; [|unfold step in H; rewrite Hx in H; discriminate].
      destruct (cl_c1 _ Hcl a x Hx) as [Hc1 Hg]. destruct (clean_results _ Hcl) as [Hres Hexe].
      destruct (clean_step p c s a s' x Hx H Hc1 Hg Hres Hexe (no_guard_fine p c _ Hng)
                  (clean_uncancelled s a x Hcl Hx)) as [(e & Htr & He)|(x' & news & np & Hsh)].
      + left. rewrite Htr. destruct He as [[-> Ht]|(i & -> & Hf)].
        * right. exact (Htrip a x Hx Ht).
        * left. unfold fail_seen. rewrite existsb_app. simpl.
          change (failing_cmd p c (a_path x) i) with (failing_tk (get_task p (task_of p c (a_path x))) i).
          rewrite (task_of_get p c s a x (ip_ids _ _ _ Hph) Hx), Hf. simpl. apply orb_true_r.
      + right. eapply clean'; eauto.
        * eapply step_inv_phase; eauto.
        * eapply step_not_done; eauto.
  Qed.

  (* the excuse the monitor accepts: unless Zb, some other activation has a failing command *)
  Definition ex_cause : excuse := fun a tr => Zb tr = false -> other_fail p c a tr = true.

  Lemma ex_cause_mono : excuse_mono ex_cause.
  Proof.
    intros a tr evs H Hz. unfold other_fail. rewrite existsb_app.
    assert (Hz' : Zb tr = false).
    { destruct (Zb tr) eqn:E; [|reflexivity]. rewrite (Zb_mono _ evs E) in Hz. discriminate. }
    unfold ex_cause, other_fail in H. rewrite (H Hz'). reflexivity.
  Qed.

  Lemma causal_excused s : inv_phase p c s -> causal s -> probe_excused ex_cause p s.
  Proof.
    intros Hph Hca a x i Hx Hpc Hcanc Hfail Hvf Hno.
    destruct Hca as [[Hfs|Hn]|Hcl].
    - unfold fail_seen in Hfs. apply existsb_exists in Hfs. destruct Hfs as [e [He Hfe]].
      unfold other_fail. apply existsb_exists. exists e. split; [exact He|].
      destruct e; try discriminate. rewrite Hfe. simpl.
      destruct (aid_eqb (a_path x) a0) eqn:E; [|reflexivity]. exfalso.
      apply aid_eqb_eq in E. subst a0.
      pose proof (find_vfold p c (a_path x) (trace s)) as Hfind.
      rewrite (task_of_get p c s a x (ip_ids _ _ _ Hph) Hx), Hvf in Hfind.
      destruct (find (own_fail_event p c (a_path x)) (trace s)) as [e0|] eqn:Ef.
      + destruct e0; try contradiction. destruct Hfind as [Hf _]. discriminate.
      + pose proof (find_none _ _ Ef _ He) as Hne. simpl in Hne. rewrite aid_eqb_refl, Hfe in Hne. discriminate.
    - rewrite Hn in Hno. discriminate.
    - rewrite (clean_uncancelled s a x Hcl Hx) in Hcanc; [discriminate|]. rewrite Hpc. reflexivity.
  Qed.

  Lemma choice_causal s ch :
    no_guard_errors p c = true -> trip_ok s ->
    inv_phase p c s /\ causal s -> inv_phase p c (do_choice p c s ch) /\ causal (do_choice p c s ch).
  Proof.
    intros Hng Htrip [Hph Hca]. destruct ch as [a|k]; simpl.
    - destruct (step p c s a) eqn:E; [|split; assumption].
      split; [eapply step_inv_phase; eauto|eapply step_causal; eauto].
    - destruct (start_root p c s k) eqn:E; [|split; assumption].
      split; [eapply start_root_inv_phase; eauto|].
      destruct Hca as [Hex|Hcl]; [left; rewrite (start_root_trace _ _ _ _ _ E); exact Hex|right; eapply start_root_clean; eauto].
  Qed.

  Lemma causal_all_states sched : no_guard_errors p c = true -> forall s,
    inv_phase p c s /\ causal s -> all_states trip_ok p c s sched ->
    all_states (probe_excused ex_cause p) p c s sched.
  Proof.
    intros Hng. induction sched as [|ch sched IH]; intros s Hs [Ht Hrest]; simpl;
      (split; [apply causal_excused; apply Hs|]); [exact I|].
    apply IH; [apply choice_causal; assumption|exact Hrest].
  Qed.

  Lemma run_inv_defer_cause sched :
    no_guard_errors p c = true -> all_states trip_ok p c (init_state p) sched ->
    inv_defer ex_cause p c (run p c sched).
  Proof.
    intros Hng Hall. unfold run. apply fold_inv_defer; [apply ex_cause_mono|apply inv_defer_init|].
    apply causal_all_states; [exact Hng| |exact Hall].
    split; [apply inv_phase_init|right; apply clean_init].
  Qed.

  Theorem exit_codes_causal sched :
    all_states trip_ok p c (init_state p) sched -> Zb (trace (run p c sched)) = false ->
    mon_C14_exit p c (trace (run p c sched)) = true.
  Proof.
    intros Hall Hz. apply forallb_forall. intros a Ha.
    destruct (no_guard_errors p c) eqn:Hng.
    - pose proof (run_inv_defer_cause sched Hng Hall) as Hinv.
      destruct (started_act _ _ _ _ _ Hinv Ha) as (x & Hx & Hp & Ht & Hl).
      rewrite exit_codes_ok_codes. eapply codes_of_local; [rewrite Ht; exact Hl|].
      intros HX. apply other_fail_foreign. exact (HX Hz).
    - apply exit_codes_ok_if_foreign; [exact Ha|]. apply guards_foreign. exact Hng.
  Qed.
End Causal.

(* the EXIT_CODE conjunct of mon_C14, for every program, configuration and schedule in which the
   call counter (MaximumTaskCall, error 204) did not trip *)
Theorem exit_codes_all p c sched :
  no204 (trace (run p c sched)) = true -> mon_C14_exit p c (trace (run p c sched)) = true.
Proof.
  intros Hno. apply (exit_codes_causal p c (fun tr => negb (no204 tr))).
  - intros tr evs H. unfold no204 in *. rewrite forallb_app. apply negb_true_iff in H. rewrite H. reflexivity.
  - apply all_states_always. intros s a x _ _. unfold no204. rewrite forallb_app. simpl. rewrite andb_false_r. reflexivity.
  - rewrite Hno. reflexivity.
Qed.

Theorem defer_safety_full p c sched :
  no204 (trace (run p c sched)) = true -> mon_C14 p c false (trace (run p c sched)) = true.
Proof. intros Hno. rewrite mon_C14_split, defer_safety_noexit, (exit_codes_all p c sched Hno). reflexivity. Qed.

Theorem defer_complete_full p c sched r :
  no204 (trace (run p c sched)) = true -> run_result p c (run p c sched) = Some r ->
  mon_C14 p c true (trace (run p c sched)) = true.
Proof.
  intros Hno Hr. rewrite mon_C14_split, (defer_complete_noexit p c sched r Hr), (exit_codes_all p c sched Hno).
  reflexivity.
Qed.

(* the same when the call counter never trips, as a property of the states *)
Definition callcount_safe (c : cfg) (s : state) : Prop := forall a x, get_act s a = Some x -> ~ callcount_trips c s x.

Theorem exit_codes_safe p c sched :
  all_states (callcount_safe c) p c (init_state p) sched -> mon_C14_exit p c (trace (run p c sched)) = true.
Proof.
  intros Hs. apply (exit_codes_causal p c (fun _ => false)); [intros; assumption| |reflexivity].
  eapply all_states_impl; [|exact Hs]. intros s H a x Hx Ht. exfalso. exact (H a x Hx Ht).
Qed.

(* ------------------------------------------------------------------ *)
(* the call counter: a program whose expanded call tree has fewer task references than
   MaximumTaskCall never trips it.  Call paths are unique and resolve in the program, so there
   are at most as many activations as nodes in the expanded tree. *)

Definition tails (m : nat) (Ps : list (list nat)) : list (list nat) :=
  flat_map (fun pa => match pa with m' :: r => if Nat.eqb m' m then [r] else [] | [] => [] end) Ps.

Definition nils (Ps : list (list nat)) : nat := length (filter (fun pa => match pa with [] => true | _ => false end) Ps).

Definition sumf (F : nat -> nat) (l : list nat) : nat := fold_right (fun m acc => F m + acc) 0 l.

Lemma sumf_app F l1 l2 : sumf F (l1 ++ l2) = sumf F l1 + sumf F l2.
Proof. induction l1 as [|x l1 IH]; simpl; [reflexivity|]. rewrite IH. lia. Qed.

Lemma sumf_same F G l : (forall m, In m l -> F m = G m) -> sumf F l = sumf G l.
Proof.
  induction l as [|x l IH]; intros H; simpl; [reflexivity|].
  rewrite (H x (or_introl eq_refl)), IH; [reflexivity|]. intros m Hm. apply H. right. exact Hm.
Qed.

Lemma sumf_bump F m start n :
  start <= m < start + n ->
  sumf (fun m' => (if Nat.eqb m m' then 1 else 0) + F m') (seq start n) = S (sumf F (seq start n)).
Proof.
  revert start; induction n as [|n IH]; intros start H; [lia|]. simpl.
  destruct (Nat.eqb_spec m start) as [->|Hne].
  - rewrite (sumf_same (fun m' => (if Nat.eqb start m' then 1 else 0) + F m') F); [lia|].
    intros m' Hm'. apply in_seq in Hm'. rewrite (proj2 (Nat.eqb_neq start m')) by lia. reflexivity.
  - rewrite IH by lia. lia.
Qed.

Lemma len_partition N Ps :
  (forall pa, In pa Ps -> match pa with [] => True | m :: _ => m < N end) ->
  length Ps = nils Ps + sumf (fun m => length (tails m Ps)) (seq 0 N).
Proof.
  induction Ps as [|pa Ps IH]; intros H.
  - unfold nils, tails. simpl. clear. induction (seq 0 N); simpl; auto.
  - assert (H' : forall pa, In pa Ps -> match pa with [] => True | m :: _ => m < N end)
      by (intros q Hq; apply H; right; exact Hq).
    specialize (IH H'). pose proof (H pa (or_introl eq_refl)) as Hpa.
    destruct pa as [|m r].
    + unfold nils in *. simpl. unfold tails at 1. simpl. fold (tails). 
      rewrite IH. unfold tails. simpl. lia.
    + unfold nils in *. simpl.
      rewrite (sumf_same (fun m0 => length (tails m0 ((m :: r) :: Ps)))
                         (fun m' => (if Nat.eqb m m' then 1 else 0) + length (tails m' Ps))).
      * rewrite sumf_bump by lia. rewrite IH. lia.
      * intros m' _. unfold tails. simpl. destruct (Nat.eqb m m'); simpl; reflexivity.
Qed.

Lemma nils_nodup Ps : NoDup Ps -> nils Ps <= 1.
Proof.
  unfold nils. induction 1 as [|pa Ps Hni Hnd IH]; simpl; [lia|].
  destruct pa; simpl; [|exact IH].
  assert (E : filter (fun pa => match pa with [] => true | _ :: _ => false end) Ps = []).
  { clear -Hni. induction Ps as [|q Ps IH]; simpl; [reflexivity|].
    destruct q; [exfalso; apply Hni; left; reflexivity|]. apply IH. intros H. apply Hni. right. exact H. }
  rewrite E. simpl. lia.
Qed.

Lemma tails_in m Ps r : In r (tails m Ps) <-> In (m :: r) Ps.
Proof.
  unfold tails. rewrite in_flat_map. split.
  - intros [pa [Hpa Hr]]. destruct pa as [|m' r']; [contradiction|].
    destruct (Nat.eqb_spec m' m) as [->|]; [|contradiction]. destruct Hr as [<-|[]]. exact Hpa.
  - intros H. exists (m :: r). split; [exact H|]. rewrite Nat.eqb_refl. left. reflexivity.
Qed.

Lemma tails_nodup m Ps : NoDup Ps -> NoDup (tails m Ps).
Proof.
  induction 1 as [|pa Ps Hni Hnd IH]; [constructor|].
  unfold tails. simpl. fold (tails m Ps). destruct pa as [|m' r]; [exact IH|].
  destruct (Nat.eqb_spec m' m) as [->|]; [|exact IH]. simpl. constructor; [|exact IH].
  intros Hin. apply Hni. apply tails_in. exact Hin.
Qed.

(* sums written as the folds of tree_size *)
Lemma fold_add_acc {A} (g : A -> nat) l k :
  fold_left (fun acc a => acc + g a) l k = k + fold_left (fun acc a => acc + g a) l 0.
Proof.
  revert k; induction l as [|a l IH]; intros k; simpl; [lia|]. rewrite IH, (IH (g a)). lia.
Qed.

Lemma sum_le_fold {A} (g : A -> nat) (F : nat -> nat) (l : list A) start :
  (forall i a, nth_error l i = Some a -> F (start + i) <= g a) ->
  sumf F (seq start (length l)) <= fold_left (fun acc a => acc + g a) l 0.
Proof.
  revert start; induction l as [|a l IH]; intros start H; simpl; [lia|].
  rewrite fold_add_acc. pose proof (H 0 a eq_refl) as H0. rewrite Nat.add_0_r in H0.
  specialize (IH (S start)). assert (Hl : sumf F (seq (S start) (length l)) <= fold_left (fun acc a0 => acc + g a0) l 0).
  { apply IH. intros i b Hb. replace (S start + i) with (start + S i) by lia. apply H. exact Hb. }
  lia.
Qed.

Lemma elem_le_fold {A} (g : A -> nat) (l : list A) i a :
  nth_error l i = Some a -> g a <= fold_left (fun acc a => acc + g a) l 0.
Proof.
  revert i; induction l as [|b l IH]; intros [|i] H; simpl in *; try discriminate.
  - injection H as ->. rewrite fold_add_acc. lia.
  - rewrite fold_add_acc. specialize (IH i H). lia.
Qed.

Definition cmd_size (f : nat) (p : prog) (huge : nat) (cm : cmd) : nat :=
  match cm with CallC cl | DeferCall cl => tree_size f p huge (c_task cl) | _ => 0 end.

Lemma fold_cmd_size f p huge l : forall k,
  fold_left (fun acc cm => match cm with
                           | CallC cl | DeferCall cl => acc + tree_size f p huge (c_task cl)
                           | _ => acc end) l k =
  fold_left (fun acc cm => acc + cmd_size f p huge cm) l k.
Proof.
  induction l as [|cm l IH]; intros k; simpl; [reflexivity|].
  destruct cm; simpl; rewrite ?Nat.add_0_r; apply IH.
Qed.

Lemma tree_size_S f p huge t :
  tree_size (S f) p huge t =
  S (fold_left (fun acc d => acc + tree_size f p huge (c_task d)) (t_deps (get_task p t)) 0 +
     fold_left (fun acc cm => acc + cmd_size f p huge cm) (t_cmds (get_task p t)) 0).
Proof. cbn [tree_size]. rewrite fold_cmd_size. reflexivity. Qed.

(* at most tree_size paths resolve below a task *)
Lemma paths_below p huge : forall f t v lk Ps,
  NoDup Ps -> (forall pa, In pa Ps -> resolve_from p t v lk pa <> None) ->
  tree_size f p huge t < huge -> length Ps <= tree_size f p huge t.
Proof.
  induction f as [|f IH]; intros t v lk Ps Hnd Hres Hlt; [simpl in Hlt; lia|].
  rewrite tree_size_S in *.
  set (tk := get_task p t) in *. set (nd := length (t_deps tk)).
  set (D := fold_left (fun acc d => acc + tree_size f p huge (c_task d)) (t_deps tk) 0) in *.
  set (C := fold_left (fun acc cm => acc + cmd_size f p huge cm) (t_cmds tk) 0) in *.
  assert (Hhead : forall pa, In pa Ps -> match pa with [] => True | m :: _ => m < nd + length (t_cmds tk) end).
  { intros pa Hpa. specialize (Hres pa Hpa). destruct pa as [|m r]; [exact I|]. simpl in Hres. fold tk nd in Hres.
    destruct (Nat.ltb m nd) eqn:E; [apply Nat.ltb_lt in E; lia|]. apply Nat.ltb_ge in E.
    destruct (nth_error (t_cmds tk) (m - nd)) eqn:En; [|congruence].
    assert (m - nd < length (t_cmds tk)) by (apply nth_error_Some; rewrite En; discriminate). lia. }
  rewrite (len_partition _ Ps Hhead). pose proof (nils_nodup Ps Hnd) as Hn.
  rewrite seq_app, sumf_app. simpl.
  assert (HD : sumf (fun m => length (tails m Ps)) (seq 0 nd) <= D).
  { unfold D, nd. apply sum_le_fold. intros i d Hd. simpl.
    assert (Hdl : tree_size f p huge (c_task d) < huge).
    { pose proof (elem_le_fold (fun d => tree_size f p huge (c_task d)) _ _ _ Hd). fold D in H. lia. }
    apply (IH (c_task d) (eval_var v (c_var d)) LDep); [apply tails_nodup; exact Hnd| |exact Hdl].
    intros r Hr. apply tails_in in Hr. specialize (Hres _ Hr). simpl in Hres. fold tk nd in Hres.
    assert (Hi : Nat.ltb i nd = true) by (apply Nat.ltb_lt; apply nth_error_Some; unfold nd; rewrite Hd; discriminate).
    rewrite Hi, Hd in Hres. exact Hres. }
  assert (HC : sumf (fun m => length (tails m Ps)) (seq nd (length (t_cmds tk))) <= C).
  { unfold C. apply sum_le_fold. intros i cm Hcm.
    assert (Hcl : cmd_size f p huge cm < huge).
    { pose proof (elem_le_fold (cmd_size f p huge) _ _ _ Hcm). fold C in H. lia. }
    assert (Hi : Nat.ltb (nd + i) nd = false) by (apply Nat.ltb_ge; lia).
    assert (Hsub : nd + i - nd = i) by lia.
    destruct cm as [ex ign|cl|ex|cl]; simpl in *.
    - destruct (tails (nd + i) Ps) as [|r l] eqn:Et; [simpl; lia|]. exfalso.
      assert (Hr : In r (tails (nd + i) Ps)) by (rewrite Et; left; reflexivity).
      apply tails_in in Hr. specialize (Hres _ Hr). simpl in Hres. fold tk nd in Hres.
      rewrite Hi, Hsub, Hcm in Hres. congruence.
    - apply (IH (c_task cl) (eval_var v (c_var cl)) LCall); [apply tails_nodup; exact Hnd| |exact Hcl].
      intros r Hr. apply tails_in in Hr. specialize (Hres _ Hr). simpl in Hres. fold tk nd in Hres.
      rewrite Hi, Hsub, Hcm in Hres. exact Hres.
    - destruct (tails (nd + i) Ps) as [|r l] eqn:Et; [simpl; lia|]. exfalso.
      assert (Hr : In r (tails (nd + i) Ps)) by (rewrite Et; left; reflexivity).
      apply tails_in in Hr. specialize (Hres _ Hr). simpl in Hres. fold tk nd in Hres.
      rewrite Hi, Hsub, Hcm in Hres. congruence.
    - apply (IH (c_task cl) (eval_var v (c_var cl)) LDefer); [apply tails_nodup; exact Hnd| |exact Hcl].
      intros r Hr. apply tails_in in Hr. specialize (Hres _ Hr). simpl in Hres. fold tk nd in Hres.
      rewrite Hi, Hsub, Hcm in Hres. exact Hres. }
  lia.
Qed.

Definition call_total (p : prog) (c : cfg) : nat :=
  fold_left (fun acc r => acc + tree_size (S (length p)) p (cf_maxcall c) (c_task r)) (cf_roots c) 0.

Lemma callcount_possible_false p c : callcount_possible p c = false -> call_total p c < cf_maxcall c.
Proof. unfold callcount_possible. fold (call_total p c). intros H. apply Nat.leb_gt in H. exact H. Qed.

Lemma paths_bound p c (Ps : list (list nat)) :
  NoDup Ps -> (forall pa, In pa Ps -> resolve p c pa <> None) ->
  call_total p c < cf_maxcall c -> length Ps <= call_total p c.
Proof.
  intros Hnd Hres Hlt.
  assert (Hhead : forall pa, In pa Ps -> match pa with [] => True | m :: _ => m < length (cf_roots c) end).
  { intros pa Hpa. specialize (Hres pa Hpa). destruct pa as [|k r]; [exact I|]. simpl in Hres.
    destruct (nth_error (cf_roots c) k) eqn:E; [|congruence]. apply nth_error_Some. rewrite E. discriminate. }
  rewrite (len_partition _ Ps Hhead).
  assert (Hn : nils Ps = 0).
  { unfold nils. rewrite (proj2 (length_zero_iff_nil _)); [reflexivity|].
    clear -Hres. induction Ps as [|pa Ps IH]; [reflexivity|]. simpl.
    destruct pa; [exfalso; apply (Hres [] (or_introl eq_refl)); reflexivity|].
    apply IH. intros q Hq. apply Hres. right. exact Hq. }
  rewrite Hn. simpl. unfold call_total in *.
  apply (sum_le_fold (fun r => tree_size (S (length p)) p (cf_maxcall c) (c_task r))). intros i r Hr. simpl.
  apply (paths_below p (cf_maxcall c) (S (length p)) (c_task r) (eval_var 0 (c_var r)) LRoot);
    [apply tails_nodup; exact Hnd| |].
  - intros rest Hrest. apply tails_in in Hrest. specialize (Hres _ Hrest). simpl in Hres. rewrite Hr in Hres. exact Hres.
  - pose proof (elem_le_fold (fun r => tree_size (S (length p)) p (cf_maxcall c) (c_task r)) _ _ _ Hr). lia.
Qed.

Lemma acts_bound p c s :
  inv_phase p c s -> call_total p c < cf_maxcall c -> length (acts s) <= call_total p c.
Proof.
  intros Hph Hlt. rewrite <- (map_length a_path). apply paths_bound; [| |exact Hlt].
  - rewrite <- paths_of_cs. apply (ip_uniq _ _ _ Hph).
  - intros pa Hpa. apply in_map_iff in Hpa. destruct Hpa as [x [<- Hx]]. destruct (In_nth_error _ _ Hx) as [j Hj].
    rewrite (inv_ids_get p c s j x (ip_ids _ _ _ Hph) Hj). discriminate.
Qed.

(* the call counters count activations that left PEntry *)
Definition nonentry (q : pc) : bool := match q with PEntry => false | _ => true end.
Lemma pcf_gerr x e : a_pc (set_gerr x e) = a_pc x. Proof. reflexivity. Qed.

Definition calls_ok (s : state) : Prop := list_sum (calls s) <= count nonentry (pj a_pc s).

Lemma list_sum_upd_S l t : list_sum (upd l t (S (nth t l 0))) <= S (list_sum l).
Proof. revert t; induction l as [|x l IH]; intros [|t]; simpl; try lia. specialize (IH t). lia. Qed.

Lemma nth_le_list_sum l t : nth t l 0 <= list_sum l.
Proof. revert t; induction l as [|x l IH]; intros [|t]; simpl; try lia. specialize (IH t). lia. Qed.

Lemma count_lt {A} (f : A -> bool) l a q : nth_error l a = Some q -> f q = false -> count f l < length l.
Proof.
  revert a; induction l as [|y l IH]; intros [|a] Hn Hf; simpl in *; try discriminate; rewrite count_cons.
  - injection Hn as ->. rewrite Hf. pose proof (count_le_length f l). simpl. lia.
  - specialize (IH a Hn Hf). destruct (f y); simpl; lia.
Qed.

Lemma calls_notify s x r : calls (notify_parent s x r) = calls s.
Proof.
  unfold notify_parent. destruct (a_kind x); try reflexivity.
  destruct (a_parent x) as [pa|]; try reflexivity. destruct r as [|e]; try reflexivity.
  destruct (get_act s pa) as [px|]; try reflexivity. destruct (a_gerr px); try reflexivity.
  unfold cancel_ctx. simpl. destruct (nth_error _ _); reflexivity.
Qed.

Lemma calls_cancel s k : calls (cancel_ctx s k) = calls s.
Proof. unfold cancel_ctx. destruct (nth_error (ctxs s) k); reflexivity. Qed.

Lemma calls_finish s a x r : calls (finish s a x r) = calls s.
Proof.
  unfold finish.
  assert (E : calls (notify_parent (emit (set_act s a (set_pc x (PDone r))) (EvEnd (a_path x) r)) x r) = calls s)
    by (rewrite calls_notify; reflexivity).
  destruct (a_kind x); try exact E. destruct r; [|destruct (rungerr _)]; rewrite ?calls_cancel; exact E.
Qed.

Lemma calls_acquire c s : calls (acquire c s) = calls s.
Proof. unfold acquire. destruct (limited c); reflexivity. Qed.
Lemma calls_release c s : calls (release c s) = calls s.
Proof. unfold release. destruct (limited c); reflexivity. Qed.

Lemma calls_move s s' a q q' news :
  nth_error (pj a_pc s) a = Some q ->
  pj a_pc s' = upd (pj a_pc s) a q' ++ news -> Forall (eq PEntry) news -> nonentry q' = true ->
  (calls s' = calls s \/ (q = PEntry /\ list_sum (calls s') <= S (list_sum (calls s)))) ->
  calls_ok s -> calls_ok s'.
Proof.
  unfold calls_ok. intros Hn Hp Hnews Hq' Hc H. rewrite Hp, count_app.
  pose proof (count_upd nonentry (pj a_pc s) a q q' Hn) as Hcu. rewrite Hq' in Hcu. simpl in Hcu.
  destruct Hc as [->|[-> Hle]]; [destruct (nonentry q)|]; simpl in Hcu; lia.
Qed.

Global Hint Rewrite (pj_set_act a_pc) (pj_emit a_pc) (pj_cancel a_pc) (pj_acquire a_pc) (pj_release a_pc)
  (pj_finish a_pc pcf_gerr) : pcdb.

Lemma step_calls_ok p c s a s' : calls_ok s -> step p c s a = Some s' -> calls_ok s'.
Proof.
  intros Hinv H.
  destruct (get_act s a) as [x|] eqn:Hx; [|unfold step in H; rewrite Hx in H; discriminate].
  pose proof (pj_nth a_pc _ _ _ Hx) as Hn. pose proof (pj_lt a_pc _ _ _ Hx) as Hlt.
  step_cases H Hx;
    try (eapply calls_move with (a := a) (news := []);
         [ exact Hn
         | autorewrite with pcdb; simpl; rewrite ?app_nil_r; reflexivity
         | constructor
         | reflexivity
         | rewrite ?calls_finish; simpl; rewrite ?calls_acquire, ?calls_release, ?calls_cancel;
           first [left; reflexivity | right; split; [exact Hpc|apply list_sum_upd_S]]
         | exact Hinv ]).
  - (* the call counter trips *)
    eapply calls_move with (a := a) (news := []);
      [exact Hn|rewrite (pj_finish a_pc pcf_gerr); rewrite app_nil_r; reflexivity|constructor|reflexivity| |exact Hinv].
    rewrite calls_finish. simpl. right. split; [reflexivity|apply list_sum_upd_S].
  - eapply calls_move with (a := a) (news := []);
      [exact Hn|rewrite (pj_set_act a_pc); rewrite app_nil_r; reflexivity|constructor|reflexivity| |exact Hinv].
    simpl. right. split; [reflexivity|apply list_sum_upd_S].
  - (* fork *)
    pose proof (fork_deps_spec p _ _ _ _ _ _ _ _ Heqp0) as Hspec.
    destruct Hspec as [news (Ha & _ & _ & _ & Hcalls & _ & _ & _ & _ & _ & Hf & _)]. simpl in Ha, Hcalls.
    eapply calls_move with (a := a) (news := map a_pc news);
      [exact Hn
      |unfold pj at 1; rewrite acts_set_act, map_upd, Ha, release_acts, map_app; rewrite upd_app_l by exact Hlt; reflexivity
      | |reflexivity| |exact Hinv].
    + apply Forall_forall. intros q Hq. apply in_map_iff in Hq. destruct Hq as [y [<- Hy]].
      rewrite Forall_forall in Hf. destruct (Hf y Hy) as (-> & _). reflexivity.
    + left. simpl. rewrite Hcalls. apply calls_release.
  - eapply calls_move with (a := a) (news := [PEntry]);
      [exact Hn
      |unfold pj at 1; rewrite acts_set_act, map_upd; simpl; rewrite release_acts, map_app; rewrite upd_app_l by exact Hlt; reflexivity
      |repeat constructor|reflexivity| |exact Hinv].
    left. simpl. apply calls_release.
  - eapply calls_move with (a := a) (news := [PEntry]);
      [exact Hn
      |unfold pj at 1; rewrite acts_set_act, map_upd; simpl; rewrite release_acts, map_app; rewrite upd_app_l by exact Hlt; reflexivity
      |repeat constructor|reflexivity| |exact Hinv].
    left. simpl. apply calls_release.
Qed.


Lemma start_root_calls_ok p c s k s' : calls_ok s -> start_root p c s k = Some s' -> calls_ok s'.
Proof.
  intros Hinv H. unfold start_root in H.
  destruct (nth_error (cf_roots c) k) as [cl|]; [|discriminate].
  destruct (negb (precheck_ok p c) || root_started s k); [discriminate|].
  match type of H with (if ?b then _ else _) = _ => destruct b end; [|discriminate].
  injection H as <-. unfold calls_ok, add_act, pj in *. simpl. rewrite map_app, count_app.
  simpl. unfold count at 2. simpl. lia.
Qed.

Lemma calls_ok_init p : calls_ok (init_state p).
Proof.
  unfold calls_ok. simpl. assert (E : list_sum (repeat 0 (length p)) = 0) by (induction (length p); simpl; auto).
  rewrite E. lia.
Qed.

Lemma all_states_inv (I Q : state -> Prop) p c :
  (forall s ch, I s -> I (do_choice p c s ch)) -> (forall s, I s -> Q s) ->
  forall sched s, I s -> all_states Q p c s sched.
Proof.
  intros Hstep HQ. induction sched as [|ch sched IH]; intros s Hs; simpl; (split; [apply HQ; exact Hs|auto]).
Qed.


Lemma callcount_safe_all p c sched :
  callcount_possible p c = false -> all_states (callcount_safe c) p c (init_state p) sched.
Proof.
  intros Hcp. apply callcount_possible_false in Hcp.
  apply (all_states_inv (fun s => inv_phase p c s /\ calls_ok s)).
  - intros s ch [Hph Hc]. destruct ch as [a|k]; simpl.
    + destruct (step p c s a) eqn:E; [|split; assumption].
      split; [eapply step_inv_phase; eauto|eapply step_calls_ok; eauto].
    + destruct (start_root p c s k) eqn:E; [|split; assumption].
      split; [eapply start_root_inv_phase; eauto|eapply start_root_calls_ok; eauto].
  - intros s [Hph Hc] a x Hx [Hpc Htrip]. apply Nat.leb_le in Htrip.
    pose proof (acts_bound p c s Hph Hcp) as Hb. unfold calls_ok in Hc.
    pose proof (nth_le_list_sum (calls s) (a_task x)) as Hn.
    pose proof (pj_nth a_pc _ _ _ Hx) as Hq. rewrite Hpc in Hq.
    pose proof (count_lt nonentry _ _ _ Hq eq_refl) as Hlt. unfold pj in Hlt at 2. rewrite map_length in Hlt. lia.
  - split; [apply inv_phase_init|apply calls_ok_init].
Qed.

(* when the monitor's static excuse applies (a task can fail through a guard, or the expanded call
   tree is large enough for the call counter to trip) the EXIT_CODE conjunct only asks for
   "own exit status or unset" *)
Theorem exit_codes_static p c sched :
  negb (no_guard_errors p c) || callcount_possible p c = true ->
  mon_C14_exit p c (trace (run p c sched)) = true.
Proof.
  intros Hs. apply forallb_forall. intros a Ha. apply exit_codes_ok_if_foreign; [exact Ha|].
  unfold foreign_failure. rewrite Hs. reflexivity.
Qed.

(* ------------------------------------------------------------------ *)
(* C14, all programs, all configurations, all schedules                 *)

Theorem exit_codes_all_schedules p c sched : mon_C14_exit p c (trace (run p c sched)) = true.
Proof.
  destruct (callcount_possible p c) eqn:Ec.
  - apply exit_codes_static. rewrite Ec. apply orb_true_r.
  - apply exit_codes_safe. apply callcount_safe_all. exact Ec.
Qed.

(* (1) safety: every reachable state *)
Theorem defer_safety p c sched : mon_C14 p c false (trace (run p c sched)) = true.
Proof. rewrite mon_C14_split, defer_safety_noexit, exit_codes_all_schedules. reflexivity. Qed.

(* (2) completeness: completed runs *)
Theorem defer_complete p c sched r :
  run_result p c (run p c sched) = Some r -> mon_C14 p c true (trace (run p c sched)) = true.
Proof.
  intros Hr. rewrite mon_C14_split, (defer_complete_noexit p c sched r Hr), exit_codes_all_schedules. reflexivity.
Qed.

Theorem defer_safety_observable p c sched : mon_C14 p c false (filter observable (trace (run p c sched))) = true.
Proof. rewrite mon_C14_observable. apply defer_safety. Qed.

Theorem defer_complete_observable p c sched r :
  run_result p c (run p c sched) = Some r -> mon_C14 p c true (filter observable (trace (run p c sched))) = true.
Proof. intros Hr. rewrite mon_C14_observable. apply (defer_complete p c sched r Hr). Qed.
