(* C01 for deferred commands: a deferred command is a command of the task too, so it is only ever
   announced or started by an activation whose deps all ended successfully.  [mon_C01d] is
   mon_C01's automaton with the deps check also at EvDAnnounce / EvDProbeBegin; its state evolves
   exactly like mon_C01's, so the invariant [inv_deps] of Exec/InvDeps.v carries over: the steps
   emitting those events are taken from PDefers / PDRun, which lie past the deps join. *)
From Coq Require Import List Arith Bool Lia.
Import ListNotations.
From TV Require Import Exec.Model Exec.Monitors Exec.Facts Exec.InvSlots Exec.Proj Exec.InvPaths
  Exec.Frame Exec.InvUniq Exec.InvDedup Exec.InvPhase Exec.InvTree Exec.InvDeps.

Definition step01d (p : prog) (c : cfg) (st : st01) (e : event) : option st01 :=
  match e with
  | EvDAnnounce a _ | EvDProbeBegin a _ _ => if deps_ok p c st a then Some st else None
  | _ => step01 false p c st e
  end.

Lemma mon_C01d_unfold p c tr : mon_C01d p c tr = accepts (step01d p c) st0 tr.
Proof. reflexivity. Qed.

(* the activation a deferred-command event belongs to *)
Definition dev_of (e : event) : option aid :=
  match e with EvDAnnounce a _ | EvDProbeBegin a _ _ => Some a | _ => None end.

Lemma step01d_other p c st e : dev_of e = None -> step01d p c st e = step01 false p c st e.
Proof. destruct e; simpl; intros H; try discriminate; reflexivity. Qed.

Lemma step01_dev p c st e b : dev_of e = Some b -> step01 false p c st e = Some st.
Proof. destruct e; simpl; intros H; try discriminate; reflexivity. Qed.

Lemma step01d_dev p c st e b : dev_of e = Some b -> step01d p c st e = if deps_ok p c st b then Some st else None.
Proof. destruct e; simpl; intros H; try discriminate; injection H as <-; reflexivity. Qed.

(* a step emits at most one event; a deferred-command event is emitted by the stepping activation
   itself, from a program point past its deps join *)
Lemma step_emits p c s a s' x :
  get_act s a = Some x -> step p c s a = Some s' ->
  exists evs, trace s' = trace s ++ evs /\
    (evs = [] \/ exists e, evs = [e] /\
       forall b, dev_of e = Some b -> b = a_path x /\ deps_ok_zone (a_pc x) = true).
Proof.
  intros Hx H.
  step_cases H Hx;
    try (eexists; split;
         [ tr_eq
         | first [ left; reflexivity
                 | right; eexists; split; [reflexivity|]; simpl; let Hb := fresh "Hb" in intros ? Hb;
                   first [ discriminate | injection Hb as <-; split; [reflexivity|rewrite ?Hpc; reflexivity] ] ] ]).
  - (* fork deps *)
    apply fork_deps_spec in Heqp0. simpl in Heqp0.
    destruct Heqp0 as [news (_ & _ & Ht & _)].
    exists []. split; [|left; reflexivity].
    rewrite trace_set_act, Ht, release_trace. symmetry. apply app_nil_r.
Qed.

Definition inv_depsD (p : prog) (c : cfg) (s : state) (st : st01) : Prop :=
  inv_deps p c s st /\ mfold (step01d p c) st0 (trace s) = Some st.

Lemma step_inv_depsD p c s st a s' :
  inv_depsD p c s st -> step p c s a = Some s' -> exists st', inv_depsD p c s' st'.
Proof.
  intros [Hinv HD] H.
  destruct (step_inv_deps p c s st a s' Hinv H) as [st' Hinv'].
  exists st'. split; [exact Hinv'|].
  destruct (get_act s a) as [x|] eqn:Hx; [|unfold step in H; rewrite Hx in H; discriminate].
  destruct (step_emits p c s a s' x Hx H) as [evs [Htr Hev]].
  pose proof (id_fold _ _ _ _ Hinv') as Hf'. rewrite Htr, mfold_app, (id_fold _ _ _ _ Hinv) in Hf'.
  rewrite Htr, mfold_app, HD.
  destruct Hev as [->|[e [-> He]]]; [exact Hf'|].
  simpl in *. destruct (dev_of e) as [b|] eqn:Eb.
  - rewrite (step01_dev p c st e b Eb) in Hf'. rewrite (step01d_dev p c st e b Eb).
    destruct (He b eq_refl) as [-> Hz]. rewrite (deps_ok_here p c s st a x Hinv Hx Hz). exact Hf'.
  - rewrite (step01d_other p c st e Eb). exact Hf'.
Qed.

Lemma start_root_trace p c s k s' : start_root p c s k = Some s' -> trace s' = trace s.
Proof.
  unfold start_root. intros H.
  destruct (nth_error (cf_roots c) k) as [cl|]; [|discriminate].
  destruct (negb (precheck_ok p c) || root_started s k); [discriminate|].
  match type of H with (if ?b then _ else _) = _ => destruct b end; [|discriminate].
  injection H as <-. reflexivity.
Qed.

Lemma run_inv_depsD p c sched : exists st, inv_depsD p c (run p c sched) st.
Proof.
  unfold run.
  assert (G : exists st, inv_depsD p c (init_state p) st).
  { exists st0. split; [apply inv_deps_init|reflexivity]. }
  revert G. generalize (init_state p).
  induction sched as [|ch sched IH]; intros s Hs; simpl; [exact Hs|].
  apply IH. destruct Hs as [st Hs]. destruct ch as [a|k]; simpl.
  - destruct (step p c s a) eqn:E; [eapply step_inv_depsD; eauto|exists st; exact Hs].
  - destruct (start_root p c s k) eqn:E; [|exists st; exact Hs].
    exists st. destruct Hs as [H1 H2]. split; [eapply start_root_inv_deps; eauto|].
    rewrite (start_root_trace p c s k s0 E). exact H2.
Qed.

(* for every program, configuration and schedule: whenever a command -- deferred or not -- of an
   activation is announced or starts executing, every dep of its task ended successfully before *)
Theorem deps_monitor_deferred_all_schedules p c sched : mon_C01d p c (trace (run p c sched)) = true.
Proof.
  destruct (run_inv_depsD p c sched) as [st [_ HD]]. rewrite mon_C01d_unfold. unfold accepts. rewrite HD. reflexivity.
Qed.

Lemma mfold01d_observable p c st tr :
  mfold (step01d p c) st (filter observable tr) = mfold (step01d p c) st tr.
Proof.
  revert st; induction tr as [|e tr IH]; intros st; simpl; [reflexivity|].
  destruct e; cbn [observable filter mfold];
    try (match goal with |- context [step01d ?p ?c ?st ?e] => destruct (step01d p c st e) end; [apply IH|reflexivity]).
  simpl. apply IH.
Qed.

Theorem deps_monitor_deferred_observable p c sched :
  mon_C01d p c (filter observable (trace (run p c sched))) = true.
Proof.
  rewrite mon_C01d_unfold. unfold accepts. rewrite mfold01d_observable.
  pose proof (deps_monitor_deferred_all_schedules p c sched) as H. rewrite mon_C01d_unfold in H. exact H.
Qed.
