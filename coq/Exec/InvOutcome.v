(* C06 (outcome): every activation that references a deduplicated task (run: once / when_changed)
   either IS the one execution of its dedup key or is skipped in favour of it, waits until that
   execution has completed, and returns exactly the result of that execution (success or failure:
   the result is handed over unchanged -- no wrapping, no dependence on the waiter's own context).

   Invariant [inv_out] (over the projection [dp] of Exec/InvDeps.v, the dedup table and the trace):
   (K) an activation with a registered key k is the table's owner of k, printed "started", and is
       neither before the dedup lookup nor a waiter;
   (Q) a waiter at PWRelease o / PWWait o has a key k with owner o in the table and its
       "skipping" line in the trace; at PWReacq r moreover the execution of o has completed with r;
   (P) an activation with a key k inside the execution zone has registered k;
   (S) for every "skipping k h" line of the trace the activation on path h has key k, registered
       nothing and is a waiter, or has returned r where r is the result of the execution of the
       owner of k;
   (T) for every "started h t" line the activation on path h runs t and, if it has a key, registered it. *)
From Coq Require Import List Arith Bool Lia.
Import ListNotations.
From TV Require Import Exec.Model Exec.Monitors Exec.Facts Exec.InvSlots Exec.Proj Exec.InvPaths
  Exec.Frame Exec.InvUniq Exec.InvDedup Exec.InvPhase Exec.InvTree Exec.InvDeps.

(* ------------------------------------------------------------------ *)
(* vocabulary                                                          *)

(* the result of the execution closure, once it has returned (exec_result, on the projection) *)
Definition xres (q : pc) : option res := match q with PDone r | PRelease r => Some r | _ => None end.
Definition xr (L : list de) (o : nat) : option res :=
  match nth_error L o with Some e => xres (d_pc e) | None => None end.

Lemma xr_exec s o : xr (pj dp s) o = exec_result s o.
Proof.
  unfold xr, exec_result, get_act, pj. rewrite nth_error_map.
  destruct (nth_error (acts s) o) as [y|]; [|reflexivity]. simpl. destruct (a_pc y); reflexivity.
Qed.

(* skipped in favour of another execution *)
Definition wpc (q : pc) : bool := match q with PWRelease _ | PWWait _ | PWReacq _ => true | _ => false end.
(* before the dedup lookup *)
Definition pre_dedup (q : pc) : bool := match q with PEntry | PPlatformEnd | PAcquire | PDedup => true | _ => false end.
(* inside the execution: past the lookup, not a waiter, RunTask has not returned *)
Definition ez (q : pc) : bool := negb (pre_dedup q) && negb (is_done q) && negb (wpc q).

Definition mk (x : act) (q : pc) (rk : option key) : de :=
  {| d_path := a_path x; d_task := a_task x; d_var := a_var x; d_pc := q; d_rk := rk |}.

Definition wq (p : prog) (L : list de) (D : list (key * nat)) (T : list event) (e : de) : Prop :=
  match d_pc e with
  | PWRelease o | PWWait o =>
      exists k, key_of p (d_task e) (d_var e) = Some k /\ lookup_key D k = Some o /\ In (EvSkipping k (d_path e)) T
  | PWReacq r =>
      exists k o, key_of p (d_task e) (d_var e) = Some k /\ lookup_key D k = Some o /\ xr L o = Some r /\
                  In (EvSkipping k (d_path e)) T
  | _ => True
  end.

Definition oent (p : prog) (L : list de) (D : list (key * nat)) (T : list event) (j : nat) (e : de) : Prop :=
  (* K *) (forall k, d_rk e = Some k ->
             lookup_key D k = Some j /\ In (EvStarted (d_path e) (d_task e)) T /\
             pre_dedup (d_pc e) = false /\ wpc (d_pc e) = false) /\
  (* Q *) wq p L D T e /\
  (* P *) (forall k, key_of p (d_task e) (d_var e) = Some k -> ez (d_pc e) = true -> d_rk e = Some k).

Record inv_out (p : prog) (s : state) : Prop := {
  io_ent : forall j e, nth_error (pj dp s) j = Some e -> oent p (pj dp s) (dedup s) (trace s) j e;
  (* S *)
  io_skip : forall k h, In (EvSkipping k h) (trace s) ->
      exists j e, nth_error (pj dp s) j = Some e /\ d_path e = h /\
        key_of p (d_task e) (d_var e) = Some k /\ d_rk e = None /\
        (wpc (d_pc e) = true \/
         exists r o, d_pc e = PDone r /\ lookup_key (dedup s) k = Some o /\ xr (pj dp s) o = Some r);
  (* T *)
  io_start : forall h t, In (EvStarted h t) (trace s) ->
      exists j e, nth_error (pj dp s) j = Some e /\ d_path e = h /\ d_task e = t /\
        forall k, key_of p t (d_var e) = Some k -> d_rk e = Some k
}.

(* ------------------------------------------------------------------ *)
(* small facts                                                         *)

Lemma xr_move (L : list de) a e0 e' rest o r :
  nth_error L a = Some e0 -> (forall r0, xres (d_pc e0) = Some r0 -> xres (d_pc e') = Some r0) ->
  xr L o = Some r -> xr (upd L a e' ++ rest) o = Some r.
Proof.
  intros Ha Hst H. unfold xr in *. destruct (nth_error L o) as [e|] eqn:Eo; [|discriminate].
  rewrite (nth_upd_app_old L a e' rest o e Eo). destruct (Nat.eqb_spec a o) as [->|Hne]; [|exact H].
  rewrite Ha in Eo. injection Eo as <-. apply Hst. exact H.
Qed.

Lemma xr_app (L rest : list de) o r : xr L o = Some r -> xr (L ++ rest) o = Some r.
Proof.
  unfold xr. destruct (nth_error L o) as [e|] eqn:Eo; [|discriminate].
  rewrite nth_error_app1 by (apply nth_error_Some; rewrite Eo; discriminate). rewrite Eo. auto.
Qed.

Lemma wq_mono p L L' D D' T T' e :
  (forall o r, xr L o = Some r -> xr L' o = Some r) ->
  (forall k o, lookup_key D k = Some o -> lookup_key D' k = Some o) ->
  (forall ev, In ev T -> In ev T') ->
  wq p L D T e -> wq p L' D' T' e.
Proof.
  intros HL HD HT. unfold wq. destruct (d_pc e); auto.
  - intros (k & H1 & H2 & H3). exists k. auto.
  - intros (k & H1 & H2 & H3). exists k. auto.
  - intros (k & o & H1 & H2 & H3 & H4). exists k, o. auto.
Qed.

(* ------------------------------------------------------------------ *)
(* the move lemmas                                                     *)

Lemma out_move p s s' a x q' rk' news evs dnew :
  inv_out p s -> get_act s a = Some x ->
  pj dp s' = upd (pj dp s) a (mk x q' rk') ++ map dp news ->
  Forall (fun y => a_pc y = PEntry /\ a_regkey y = None) news ->
  trace s' = trace s ++ evs ->
  dedup s' = dedup s ++ dnew ->
  (forall r, xres (a_pc x) = Some r -> xres q' = Some r) ->
  (* K *)
  (forall k, rk' = Some k ->
     lookup_key (dedup s ++ dnew) k = Some a /\ In (EvStarted (a_path x) (a_task x)) (trace s ++ evs) /\
     pre_dedup q' = false /\ wpc q' = false) ->
  (* Q *)
  wq p (pj dp s) (dedup s ++ dnew) (trace s ++ evs) (mk x q' rk') ->
  (* P *)
  (forall k, key_of p (a_task x) (a_var x) = Some k -> ez q' = true -> rk' = Some k) ->
  (* S, for the lines already there *)
  (wpc (a_pc x) = true -> rk' = None /\ (wpc q' = true \/ exists r, a_pc x = PWReacq r /\ q' = PDone r)) ->
  is_done (a_pc x) = false ->
  (* S, for a new line *)
  (forall k h, In (EvSkipping k h) evs ->
     h = a_path x /\ key_of p (a_task x) (a_var x) = Some k /\ rk' = None /\ wpc q' = true) ->
  (* T, for the lines already there *)
  (forall k, a_regkey x = Some k -> rk' = Some k) ->
  (* T, for a new line *)
  (forall h t, In (EvStarted h t) evs ->
     h = a_path x /\ t = a_task x /\ forall k, key_of p t (a_var x) = Some k -> rk' = Some k) ->
  inv_out p s'.
Proof.
  intros [He Hs Ht] Hx Hpj Hnews Htr Hd Hst LK LQ LP LSs Hnd LSn LTs LTn.
  pose proof (pj_nth dp _ _ _ Hx) as Hn.
  assert (HL : forall o r, xr (pj dp s) o = Some r -> xr (pj dp s') o = Some r).
  { intros o r H. rewrite Hpj. eapply xr_move; [exact Hn| |exact H]. exact Hst. }
  assert (HD : forall k o, lookup_key (dedup s) k = Some o -> lookup_key (dedup s') k = Some o).
  { intros k o H. rewrite Hd. apply lookup_key_app_some. exact H. }
  assert (HT : forall ev, In ev (trace s) -> In ev (trace s')).
  { intros ev H. rewrite Htr. apply in_or_app. left. exact H. }
  assert (Hold : forall j e, j <> a -> nth_error (pj dp s) j = Some e -> nth_error (pj dp s') j = Some e).
  { intros j e Hne Hj. rewrite Hpj, (nth_upd_app_old _ a _ _ j e Hj).
    destruct (Nat.eqb_spec a j); [congruence|reflexivity]. }
  assert (Hself : nth_error (pj dp s') a = Some (mk x q' rk')).
  { rewrite Hpj, (nth_upd_app_old _ a _ _ a _ Hn), Nat.eqb_refl. reflexivity. }
  constructor.
  - intros j e Hj. rewrite Hpj in Hj. apply nth_upd_app_cases in Hj.
    destruct Hj as [[-> ->]|[[Hne Hj]|Hin]].
    + unfold oent. rewrite Hd, Htr. split; [exact LK|]. split; [|exact LP].
      eapply wq_mono; [| | |exact LQ]; auto.
    + destruct (He j e Hj) as (K & Q & P). split; [|split; [|exact P]].
      * intros k Hk. destruct (K k Hk) as (K1 & K2 & K3 & K4). auto.
      * eapply wq_mono; [exact HL|exact HD|exact HT|exact Q].
    + apply in_map_iff in Hin. destruct Hin as [y [<- Hy]].
      rewrite Forall_forall in Hnews. destruct (Hnews y Hy) as [Hq Hr].
      unfold oent, wq. simpl. rewrite Hq, Hr. split; [intros; discriminate|]. split; [exact I|].
      intros k _ Hz. discriminate.
  - intros k h Hin. rewrite Htr in Hin. apply in_app_or in Hin. destruct Hin as [Hin|Hin].
    + destruct (Hs k h Hin) as (j & e & H1 & H2 & H3 & H4 & H5).
      destruct (Nat.eq_dec j a) as [->|Hne].
      * rewrite Hn in H1. injection H1 as <-. simpl in *.
        exists a, (mk x q' rk'). split; [exact Hself|]. split; [exact H2|]. split; [exact H3|].
        destruct H5 as [H5|(r & o & H5 & _)]; [|rewrite H5 in Hnd; discriminate].
        destruct (LSs H5) as [Hrk [Hw|(r & Hq & ->)]]; (split; [exact Hrk|]); [left; exact Hw|].
        right. destruct (He a (dp x) Hn) as (_ & Q & _). unfold wq in Q. simpl in Q. rewrite Hq in Q.
        destruct Q as (k0 & o & Q1 & Q2 & Q3 & _). assert (k0 = k) by congruence. subst k0.
        exists r, o. split; [reflexivity|]. split; [apply HD; exact Q2|apply HL; exact Q3].
      * exists j, e. split; [apply Hold; assumption|]. split; [exact H2|]. split; [exact H3|]. split; [exact H4|].
        destruct H5 as [H5|(r & o & H5 & H6 & H7)]; [left; exact H5|right]. exists r, o. auto.
    + destruct (LSn k h Hin) as (-> & H1 & H2 & H3).
      exists a, (mk x q' rk'). split; [exact Hself|]. simpl. auto.
  - intros h t Hin. rewrite Htr in Hin. apply in_app_or in Hin. destruct Hin as [Hin|Hin].
    + destruct (Ht h t Hin) as (j & e & H1 & H2 & H3 & H4).
      destruct (Nat.eq_dec j a) as [->|Hne].
      * rewrite Hn in H1. injection H1 as <-. simpl in *.
        exists a, (mk x q' rk'). split; [exact Hself|]. split; [exact H2|]. split; [exact H3|].
        intros k Hk. apply LTs. apply H4. exact Hk.
      * exists j, e. split; [apply Hold; assumption|]. auto.
    + destruct (LTn h t Hin) as (-> & -> & H1).
      exists a, (mk x q' rk'). split; [exact Hself|]. simpl. auto.
Qed.

(* the bulk of the steps: no "started" / "skipping" line, the table and the registered key stay,
   the activation keeps its role *)
Definition sc (q q' : pc) : bool :=
  implb (pre_dedup q') (pre_dedup q) && Bool.eqb (wpc q') (wpc q) && implb (ez q') (ez q) &&
  match waiter q' with
  | None => true
  | Some o => match waiter q with Some o' => Nat.eqb o o' | None => false end
  end &&
  match q' with PWReacq _ => false | _ => true end &&
  match xres q with None => true | Some _ => false end.

Lemma out_move_simple p s s' a x q' news evs :
  inv_out p s -> get_act s a = Some x ->
  pj dp s' = upd (pj dp s) a (mk x q' (a_regkey x)) ++ map dp news ->
  Forall (fun y => a_pc y = PEntry /\ a_regkey y = None) news ->
  trace s' = trace s ++ evs ->
  dedup s' = dedup s ->
  forallb neutral06 evs = true ->
  sc (a_pc x) q' = true ->
  inv_out p s'.
Proof.
  intros Hinv Hx Hpj Hnews Htr Hd Hneu Hsc.
  destruct (io_ent _ _ Hinv a (dp x) (pj_nth dp _ _ _ Hx)) as (K & Q & P). simpl in K, P.
  unfold sc in Hsc. repeat (apply andb_true_iff in Hsc; destruct Hsc as [Hsc ?]).
  rename Hsc into S1, H3 into S2, H2 into S3, H1 into S4, H0 into S5, H into S6.
  assert (Hxn : xres (a_pc x) = None) by (destruct (xres (a_pc x)); [discriminate|reflexivity]).
  assert (Hno : forall ev, In ev evs -> neutral06 ev = true).
  { intros ev. rewrite forallb_forall in Hneu. apply Hneu. }
  apply Bool.eqb_prop in S2.
  eapply out_move with (a := a) (dnew := []); eauto.
  - rewrite app_nil_r. exact Hd.
  - intros r Hr. rewrite Hxn in Hr. discriminate.
  - intros k Hk. destruct (K k Hk) as (K1 & K2 & K3 & K4). rewrite app_nil_r.
    split; [exact K1|]. split; [apply in_or_app; left; exact K2|]. split.
    + destruct (pre_dedup q'); [|reflexivity]. simpl in S1. congruence.
    + congruence.
  - rewrite app_nil_r. unfold wq in *. simpl in *.
    destruct q'; try exact I; try discriminate;
      simpl in S4; destruct (a_pc x); simpl in S4; try discriminate;
      apply Nat.eqb_eq in S4; subst; destruct Q as (k & Q1 & Q2 & Q3); exists k;
      (split; [exact Q1|]); (split; [exact Q2|]); apply in_or_app; left; exact Q3.
  - intros k Hk Hz. apply (P k Hk). rewrite Hz in S3. exact S3.
  - intros Hw. split.
    + destruct (a_regkey x) as [k|] eqn:Er; [|reflexivity].
      destruct (K k eq_refl) as (_ & _ & _ & K4). congruence.
    + left. congruence.
  - destruct (a_pc x); try reflexivity. discriminate.
  - intros k h Hin. apply Hno in Hin. discriminate.
  - intros h t Hin. apply Hno in Hin. discriminate.
Qed.

(* ------------------------------------------------------------------ *)
(* preservation                                                        *)

Ltac sc_close Hpc :=
  rewrite Hpc; unfold sc; simpl; rewrite ?Nat.eqb_refl; try reflexivity;
  repeat match goal with r : res |- _ => destruct r end; reflexivity.

Ltac pj_eq3 :=
  first [ autorewrite with dpdb; unfold dp, mk; simpl; rewrite ?app_nil_r; reflexivity
        | autorewrite with dpdb; unfold dp, mk, pj; simpl; rewrite ?app_nil_r; reflexivity ].

Lemma step_inv_out p c s a s' : inv_out p s -> step p c s a = Some s' -> inv_out p s'.
Proof.
  intros Hinv H.
  destruct (get_act s a) as [x|] eqn:Hx; [|unfold step in H; rewrite Hx in H; discriminate].
  pose proof (pj_lt dp _ _ _ Hx) as Hlt.
  destruct (io_ent _ _ Hinv a (dp x) (pj_nth dp _ _ _ Hx)) as (K & Q & P). unfold wq in Q. simpl in K, Q, P.
  step_cases H Hx;
    try (eapply out_move_simple with (a := a) (news := []);
         [ exact Hinv | exact Hx | pj_eq3 | constructor | tr_eq | dd_eq | reflexivity | sc_close Hpc ]).
  - (* skipped in favour of the registered owner n *)
    assert (Hrk : a_regkey x = None).
    { destruct (a_regkey x) as [k0|] eqn:Er; [|reflexivity]. destruct (K k0 eq_refl) as (_ & _ & K3 & _). discriminate. }
    eapply out_move with (a := a) (news := []) (dnew := []) (rk' := a_regkey x);
      [ exact Hinv | exact Hx | pj_eq3 | constructor | tr_eq | rewrite app_nil_r; dd_eq
      | rewrite Hpc; discriminate | | | | rewrite Hpc; discriminate | rewrite Hpc; reflexivity | | | ].
    + intros k0 Hk0. rewrite Hrk in Hk0. discriminate.
    + unfold wq. simpl. exists k. split; [assumption|]. split; [rewrite app_nil_r; assumption|].
      apply in_or_app. right. left. reflexivity.
    + intros k0 _ Hz. discriminate.
    + intros k0 h [Hin|[]]. injection Hin as <- <-. repeat split; auto.
    + rewrite Hrk. discriminate.
    + intros h t [Hin|[]]. discriminate.
  - (* registers as the owner of k: the one execution starts *)
    assert (Hrk : a_regkey x = None).
    { destruct (a_regkey x) as [k0|] eqn:Er; [|reflexivity]. destruct (K k0 eq_refl) as (_ & _ & K3 & _). discriminate. }
    eapply out_move with (a := a) (news := []) (dnew := [(k, a)]) (rk' := Some k);
      [ exact Hinv | exact Hx | pj_eq3 | constructor | reflexivity | reflexivity
      | rewrite Hpc; discriminate | | exact I | | rewrite Hpc; discriminate | rewrite Hpc; reflexivity | | | ].
    + intros k0 Hk0. injection Hk0 as <-. split.
      * rewrite lookup_key_app. match goal with Hl : lookup_key (dedup s) k = None |- _ => rewrite Hl end.
        simpl. rewrite key_eqb_refl. reflexivity.
      * split; [apply in_or_app; right; left; reflexivity|]. split; reflexivity.
    + intros k0 Hk0 _. congruence.
    + intros k0 h [Hin|[]]. discriminate.
    + rewrite Hrk. discriminate.
    + intros h t [Hin|[]]. injection Hin as <- <-. repeat split. intros k0 Hk0. congruence.
  - (* not deduplicated *)
    assert (Hrk : a_regkey x = None).
    { destruct (a_regkey x) as [k0|] eqn:Er; [|reflexivity]. destruct (K k0 eq_refl) as (_ & _ & K3 & _). discriminate. }
    eapply out_move with (a := a) (news := []) (dnew := []) (rk' := a_regkey x);
      [ exact Hinv | exact Hx | pj_eq3 | constructor | tr_eq | rewrite app_nil_r; dd_eq
      | rewrite Hpc; discriminate | | exact I | | rewrite Hpc; discriminate | rewrite Hpc; reflexivity | | | ].
    + intros k0 Hk0. rewrite Hrk in Hk0. discriminate.
    + intros k0 Hk0 _. congruence.
    + intros k0 h [Hin|[]]. discriminate.
    + rewrite Hrk. discriminate.
    + intros h t [Hin|[]]. injection Hin as <- <-. repeat split. intros k0 Hk0. congruence.
  - (* the waiter learns the owner's result *)
    assert (Hrk : a_regkey x = None).
    { destruct (a_regkey x) as [k0|] eqn:Er; [|reflexivity]. destruct (K k0 eq_refl) as (_ & _ & _ & K4). discriminate. }
    destruct Q as (k & Q1 & Q2 & Q3).
    eapply out_move with (a := a) (news := []) (dnew := []) (evs := []) (rk' := a_regkey x);
      [ exact Hinv | exact Hx | pj_eq3 | constructor | tr_eq | rewrite app_nil_r; dd_eq
      | rewrite Hpc; discriminate | | | | | rewrite Hpc; reflexivity | | | ].
    + intros k0 Hk0. rewrite Hrk in Hk0. discriminate.
    + unfold wq. simpl. exists k. eexists. split; [exact Q1|]. split; [rewrite app_nil_r; exact Q2|].
      split; [rewrite xr_exec; eassumption|]. apply in_or_app. left. exact Q3.
    + intros k0 _ Hz. discriminate.
    + intros _. split; [exact Hrk|left; reflexivity].
    + intros k0 h [].
    + rewrite Hrk. discriminate.
    + intros h t [].
  - (* the waiter returns the owner's result *)
    assert (Hrk : a_regkey x = None).
    { destruct (a_regkey x) as [k0|] eqn:Er; [|reflexivity]. destruct (K k0 eq_refl) as (_ & _ & _ & K4). discriminate. }
    eapply out_move with (a := a) (news := []) (dnew := []) (rk' := a_regkey x) (q' := PDone r);
      [ exact Hinv | exact Hx | pj_eq3 | constructor | tr_eq | rewrite app_nil_r; dd_eq
      | rewrite Hpc; discriminate | | exact I | | | rewrite Hpc; reflexivity | | | ].
    + intros k0 Hk0. rewrite Hrk in Hk0. discriminate.
    + intros k0 _ Hz. discriminate.
    + intros _. split; [exact Hrk|right]. exists r. split; [exact Hpc|reflexivity].
    + intros k0 h [Hin|[]]. discriminate.
    + rewrite Hrk. discriminate.
    + intros h t [Hin|[]]. discriminate.
  - (* fork deps *)
    apply fork_deps_spec in Heqp0. simpl in Heqp0.
    destruct Heqp0 as [news (Ha & _ & Ht & Hdd & _ & _ & _ & _ & _ & _ & Hf & _)].
    eapply out_move_simple with (a := a) (news := news) (evs := []);
      [ exact Hinv | exact Hx | | | | | reflexivity | ].
    + unfold pj at 1. rewrite acts_set_act, map_upd, Ha, release_acts, map_app.
      rewrite upd_app_l by exact Hlt. reflexivity.
    + eapply Forall_impl; [|exact Hf]. intros y (H1 & _ & _ & _ & _ & H6 & _). split; assumption.
    + rewrite trace_set_act, Ht, release_trace. symmetry. apply app_nil_r.
    + rewrite dedup_set_act, Hdd, release_dedup. reflexivity.
    + rewrite Hpc. reflexivity.
  - (* call *)
    eapply out_move_simple with (a := a) (news := [_]) (evs := []);
      [ exact Hinv | exact Hx | | | | | reflexivity | ].
    + unfold pj at 1. rewrite acts_set_act, map_upd. simpl. rewrite release_acts, map_app.
      rewrite upd_app_l by exact Hlt. reflexivity.
    + repeat constructor.
    + rewrite trace_set_act. simpl. rewrite release_trace. symmetry. apply app_nil_r.
    + rewrite dedup_set_act. simpl. apply release_dedup.
    + rewrite Hpc. reflexivity.
  - (* deferred call *)
    eapply out_move_simple with (a := a) (news := [_]) (evs := []);
      [ exact Hinv | exact Hx | | | | | reflexivity | ].
    + unfold pj at 1. rewrite acts_set_act, map_upd. simpl. rewrite release_acts, map_app.
      rewrite upd_app_l by exact Hlt. reflexivity.
    + repeat constructor.
    + rewrite trace_set_act. simpl. rewrite release_trace. symmetry. apply app_nil_r.
    + rewrite dedup_set_act. simpl. apply release_dedup.
    + rewrite Hpc. destruct r; reflexivity.
  - (* RunTask returns: the result of the execution stays *)
    eapply out_move with (a := a) (news := []) (dnew := []) (rk' := a_regkey x) (q' := PDone r);
      [ exact Hinv | exact Hx | pj_eq3 | constructor | tr_eq | rewrite app_nil_r; dd_eq
      | rewrite Hpc; simpl; auto | | exact I | | rewrite Hpc; discriminate | rewrite Hpc; reflexivity | | | ].
    + intros k0 Hk0. destruct (K k0 Hk0) as (K1 & K2 & _ & _). rewrite app_nil_r.
      split; [exact K1|]. split; [apply in_or_app; left; exact K2|]. split; reflexivity.
    + intros k0 _ Hz. discriminate.
    + intros k0 h [Hin|[]]. discriminate.
    + auto.
    + intros h t [Hin|[]]. discriminate.
Qed.

Lemma inv_out_init p : inv_out p (init_state p).
Proof.
  constructor.
  - intros j e H. unfold pj in H. simpl in H. destruct j; discriminate.
  - intros k h [].
  - intros h t [].
Qed.

Lemma start_root_inv_out p c s k s' : inv_out p s -> start_root p c s k = Some s' -> inv_out p s'.
Proof.
  intros [He Hs Ht] H. unfold start_root in H.
  destruct (nth_error (cf_roots c) k) as [cl|]; [|discriminate].
  destruct (negb (precheck_ok p c) || root_started s k); [discriminate|].
  match type of H with (if ?b then _ else _) = _ => destruct b end; [|discriminate].
  injection H as <-. unfold add_act. simpl.
  set (nr := new_act [k] (c_task cl) (eval_var 0 (c_var cl)) KRoot None root_ctx).
  assert (Hold : forall j e, nth_error (pj dp s) j = Some e -> nth_error (pj dp s ++ [dp nr]) j = Some e).
  { intros j e Hj. rewrite nth_error_app1; [exact Hj|]. apply nth_error_Some. rewrite Hj. discriminate. }
  constructor; simpl; unfold pj; simpl; rewrite map_app; simpl; fold (pj dp s).
  - intros j e Hj.
    destruct (Nat.lt_ge_cases j (length (pj dp s))) as [Hlt|Hge].
    + rewrite nth_error_app1 in Hj by exact Hlt. destruct (He j e Hj) as (K & Q & P).
      split; [exact K|]. split; [|exact P].
      eapply wq_mono; [| | |exact Q]; auto. intros o r. apply xr_app.
    + rewrite nth_error_app2 in Hj by exact Hge.
      destruct (j - length (pj dp s)) as [|n]; simpl in Hj; [|destruct n; discriminate].
      injection Hj as <-. unfold oent, wq. simpl. split; [intros; discriminate|]. split; [exact I|].
      intros k0 _ Hz. discriminate.
  - intros k0 h Hin. destruct (Hs k0 h Hin) as (j & e & H1 & H2 & H3 & H4 & H5).
    exists j, e. split; [apply Hold; exact H1|]. split; [exact H2|]. split; [exact H3|]. split; [exact H4|].
    destruct H5 as [H5|(r & o & H5 & H6 & H7)]; [left; exact H5|right].
    exists r, o. split; [exact H5|]. split; [exact H6|apply xr_app; exact H7].
  - intros h t Hin. destruct (Ht h t Hin) as (j & e & H1 & H2). exists j, e. split; [apply Hold; exact H1|exact H2].
Qed.

Lemma run_inv_out p c sched : inv_out p (run p c sched).
Proof.
  unfold run. generalize (inv_out_init p). generalize (init_state p).
  induction sched as [|ch sched IH]; intros s Hs; simpl; [exact Hs|].
  apply IH. destruct ch as [a|k]; simpl.
  - destruct (step p c s a) eqn:E; [eapply step_inv_out; eauto|exact Hs].
  - destruct (start_root p c s k) eqn:E; [eapply start_root_inv_out; eauto|exact Hs].
Qed.

(* ------------------------------------------------------------------ *)
(* C06 (outcome), for every program, configuration and schedule        *)

Section Reach.
  Variables (p : prog) (c : cfg) (sched : list choice).
  Let s := run p c sched.

  Lemma ent_of j y : get_act s j = Some y -> oent p (pj dp s) (dedup s) (trace s) j (dp y).
  Proof. intros Hy. apply (io_ent _ _ (run_inv_out p c sched)). apply pj_nth. exact Hy. Qed.

  (* (2) the registered key: the activation is the table's owner of its own key and printed
     "started"; it is neither before the lookup nor a waiter *)
  Theorem regkey_is_owner j y k :
    get_act s j = Some y -> a_regkey y = Some k ->
    lookup_key (dedup s) k = Some j /\ key_of p (a_task y) (a_var y) = Some k /\
    In (EvStarted (a_path y) (a_task y)) (trace s) /\ pre_dedup (a_pc y) = false /\ wpc (a_pc y) = false.
  Proof.
    intros Hy Hk. destruct (ent_of j y Hy) as (K & _ & _). simpl in K.
    destruct (K k Hk) as (K1 & K2 & K3 & K4).
    destruct (run_inv_deps p c sched) as [st Hd].
    destruct (id_ent _ _ _ _ Hd j (dp y) (pj_nth dp _ _ _ Hy)) as (_ & R & _). simpl in R.
    repeat split; auto.
  Qed.

  (* ... hence at most one execution per key: two activations never both registered k *)
  Theorem owner_started_once_per_key i j y z k :
    get_act s i = Some y -> get_act s j = Some z -> a_regkey y = Some k -> a_regkey z = Some k -> i = j.
  Proof.
    intros Hy Hz Ky Kz.
    destruct (regkey_is_owner i y k Hy Ky) as (H1 & _). destruct (regkey_is_owner j z k Hz Kz) as (H2 & _).
    fold s in H1, H2. congruence.
  Qed.

  (* the table's owner of k registered k *)
  Theorem table_owner_registered k o :
    lookup_key (dedup s) k = Some o -> exists z, get_act s o = Some z /\ a_regkey z = Some k.
  Proof.
    intros Hl. destruct (run_inv_deps p c sched) as [st Hd].
    destruct (id_tab _ _ _ _ Hd k o Hl) as [e [H1 H2]].
    destruct (pj_nth_inv dp _ _ _ H1) as [z [Hz ->]]. exists z. split; assumption.
  Qed.

  (* (1) state level: a skipped activation waits for the table's owner of its key ... *)
  Theorem waiter_waits_for_owner j y o :
    get_act s j = Some y -> (a_pc y = PWRelease o \/ a_pc y = PWWait o) ->
    exists k, key_of p (a_task y) (a_var y) = Some k /\ lookup_key (dedup s) k = Some o /\
              In (EvSkipping k (a_path y)) (trace s).
  Proof.
    intros Hy Hq. destruct (ent_of j y Hy) as (_ & Q & _). unfold wq in Q. simpl in Q.
    destruct Hq as [Hq|Hq]; rewrite Hq in Q; exact Q.
  Qed.

  (* ... and once it has learnt a result r, the execution of that owner has completed with r *)
  Theorem waiter_has_owner_result j y r :
    get_act s j = Some y -> a_pc y = PWReacq r ->
    exists k o, key_of p (a_task y) (a_var y) = Some k /\ lookup_key (dedup s) k = Some o /\
                exec_result s o = Some r /\ In (EvSkipping k (a_path y)) (trace s).
  Proof.
    intros Hy Hq. destruct (ent_of j y Hy) as (_ & Q & _). unfold wq in Q. simpl in Q. rewrite Hq in Q.
    destruct Q as (k & o & Q1 & Q2 & Q3 & Q4). exists k, o. rewrite <- xr_exec. auto.
  Qed.

  (* (1) trace level: for every "skipping k" line, the skipped activation has key k, registered
     nothing, and with o the (other) activation that owns k in the table: it waits for o, or it
     has learnt / returned r and r is the result the execution of o completed with *)
  Theorem skipped_state k h :
    In (EvSkipping k h) (trace s) ->
    exists j y o, get_act s j = Some y /\ a_path y = h /\ key_of p (a_task y) (a_var y) = Some k /\
      a_regkey y = None /\ lookup_key (dedup s) k = Some o /\ o <> j /\
      match a_pc y with
      | PWRelease o' | PWWait o' => o' = o
      | PWReacq r | PDone r => exec_result s o = Some r
      | _ => False
      end.
  Proof.
    intros Hin. destruct (io_skip _ _ (run_inv_out p c sched) k h Hin) as (j & e & H1 & H2 & H3 & H4 & H5).
    destruct (pj_nth_inv dp _ _ _ H1) as [y [Hy ->]]. simpl in *. fold s in Hy.
    assert (Hne : forall o, lookup_key (dedup s) k = Some o -> o <> j).
    { intros o Hl ->. destruct (table_owner_registered k j Hl) as [z [Hz Hk]]. congruence. }
    destruct (ent_of j y Hy) as (_ & Q & _). unfold wq in Q. simpl in Q.
    destruct H5 as [H5|(r & o & H5 & H6 & H7)].
    - destruct (a_pc y) eqn:Eq; try discriminate.
      + destruct Q as (k0 & Q1 & Q2 & _). assert (k0 = k) by congruence. subst k0.
        exists j, y, o. rewrite Eq. repeat split; auto.
      + destruct Q as (k0 & Q1 & Q2 & _). assert (k0 = k) by congruence. subst k0.
        exists j, y, o. rewrite Eq. repeat split; auto.
      + destruct Q as (k0 & o & Q1 & Q2 & Q3 & _). assert (k0 = k) by congruence. subst k0.
        exists j, y, o. rewrite Eq, <- xr_exec. repeat split; auto.
    - exists j, y, o. fold s in H6, H7. rewrite H5, <- xr_exec. repeat split; auto.
  Qed.

  (* (1) every referencing task that is skipped observes the outcome of the one real execution:
     if the activation on the path of a "skipping k" line has returned r, the execution of the
     owner of k has completed, and completed with exactly r (success or failure, unchanged) *)
  Theorem skipped_returns_owner_result k h j y r :
    In (EvSkipping k h) (trace s) -> get_act s j = Some y -> a_path y = h -> act_result s j = Some r ->
    exists o z, lookup_key (dedup s) k = Some o /\ o <> j /\ get_act s o = Some z /\ a_regkey z = Some k /\
                exec_result s o = Some r.
  Proof.
    intros Hin Hy Hp Hr. destruct (skipped_state k h Hin) as (j' & y' & o & H1 & H2 & H3 & H4 & H5 & H6 & H7).
    assert (j' = j) by (eapply paths_unique; eauto; congruence). subst j'.
    fold s in Hy. rewrite Hy in H1. injection H1 as <-.
    apply act_result_done in Hr. destruct Hr as [y0 [Hy0 Hq]]. fold s in Hy0. rewrite Hy in Hy0. injection Hy0 as <-.
    rewrite Hq in H7. destruct (table_owner_registered k o H5) as [z [Hz Hk]].
    exists o, z. repeat split; auto.
  Qed.

  (* ... and as long as it has not returned it is a waiter (it never runs the task itself) *)
  Theorem skipped_waits k h j y :
    In (EvSkipping k h) (trace s) -> get_act s j = Some y -> a_path y = h -> act_result s j = None ->
    wpc (a_pc y) = true.
  Proof.
    intros Hin Hy Hp Hr. destruct (skipped_state k h Hin) as (j' & y' & o & H1 & H2 & H3 & H4 & H5 & H6 & H7).
    assert (j' = j) by (eapply paths_unique; eauto; congruence). subst j'.
    fold s in Hy. rewrite Hy in H1. injection H1 as <-.
    unfold act_result in Hr. fold s in Hr. rewrite Hy in Hr.
    destruct (a_pc y); try contradiction; try reflexivity. discriminate.
  Qed.

  (* (3) a run: always task is never skipped ... *)
  Theorem always_never_skipped k h :
    In (EvSkipping k h) (trace s) -> t_run (get_task p (task_of p c h)) <> Always.
  Proof.
    intros Hin. destruct (skipped_state k h Hin) as (j & y & o & H1 & H2 & H3 & _).
    destruct (run_inv_deps p c sched) as [st Hd].
    rewrite <- H2, (task_of_get p c _ j y (id_ids _ _ _ _ Hd) H1).
    unfold key_of in H3. intros E. rewrite E in H3. discriminate.
  Qed.

  (* ... and an activation of a run: always task is never a waiter and never registers a key *)
  Theorem always_never_waits j y :
    get_act s j = Some y -> t_run (get_task p (a_task y)) = Always ->
    wpc (a_pc y) = false /\ a_regkey y = None.
  Proof.
    intros Hy Hr. assert (Hk : key_of p (a_task y) (a_var y) = None) by (unfold key_of; rewrite Hr; reflexivity).
    destruct (ent_of j y Hy) as (_ & Q & _). unfold wq in Q. simpl in Q. split.
    - destruct (a_pc y); try reflexivity.
      + destruct Q as (k & Q1 & _). congruence.
      + destruct Q as (k & Q1 & _). congruence.
      + destruct Q as (k & o & Q1 & _). congruence.
    - destruct (a_regkey y) as [k|] eqn:Er; [|reflexivity].
      destruct (regkey_is_owner j y k Hy Er) as (_ & H2 & _). congruence.
  Qed.

  (* (4) every reference to a deduplicated task that got past the lookup and has not returned
     either is THE execution of its key (registered it, is its owner in the table, printed
     "started") or was skipped in favour of it (registered nothing, is a waiter on the owner,
     printed "skipping") *)
  Theorem reference_runs_or_is_skipped j y k :
    get_act s j = Some y -> key_of p (a_task y) (a_var y) = Some k ->
    pre_dedup (a_pc y) = false -> is_done (a_pc y) = false ->
    (a_regkey y = Some k /\ lookup_key (dedup s) k = Some j /\ wpc (a_pc y) = false /\
     In (EvStarted (a_path y) (a_task y)) (trace s))
    \/
    (a_regkey y = None /\ wpc (a_pc y) = true /\ In (EvSkipping k (a_path y)) (trace s) /\
     exists o z, o <> j /\ lookup_key (dedup s) k = Some o /\ get_act s o = Some z /\ a_regkey z = Some k).
  Proof.
    intros Hy Hk Hpre Hnd. destruct (ent_of j y Hy) as (K & Q & P). unfold wq in Q. simpl in K, Q, P.
    destruct (wpc (a_pc y)) eqn:Ew.
    - right.
      assert (Hrk : a_regkey y = None).
      { destruct (a_regkey y) as [k0|] eqn:Er; [|reflexivity]. destruct (K k0 eq_refl) as (_ & _ & _ & K4). discriminate. }
      assert (Hsk : exists o, lookup_key (dedup s) k = Some o /\ In (EvSkipping k (a_path y)) (trace s)).
      { destruct (a_pc y); try discriminate.
        - destruct Q as (k0 & Q1 & Q2 & Q3). assert (k0 = k) by congruence. subst k0. eauto.
        - destruct Q as (k0 & Q1 & Q2 & Q3). assert (k0 = k) by congruence. subst k0. eauto.
        - destruct Q as (k0 & o & Q1 & Q2 & _ & Q3). assert (k0 = k) by congruence. subst k0. eauto. }
      destruct Hsk as (o & Hl & Hin). destruct (table_owner_registered k o Hl) as [z [Hz Hkz]].
      repeat split; auto. exists o, z. repeat split; auto. intros ->. fold s in Hy. congruence.
    - left. assert (Hr : a_regkey y = Some k).
      { apply P; [exact Hk|]. unfold ez. rewrite Hpre, Hnd, Ew. reflexivity. }
      destruct (K k Hr) as (K1 & K2 & _). repeat split; auto.
  Qed.

  (* (4) trace level: the activation behind a "started" line of a deduplicated task registered
     its key -- it is the one execution *)
  Theorem started_is_owner h t k :
    In (EvStarted h t) (trace s) -> key_of_act p c h = Some k ->
    exists j y, get_act s j = Some y /\ a_path y = h /\ a_task y = t /\ a_regkey y = Some k /\
                lookup_key (dedup s) k = Some j.
  Proof.
    intros Hin Hk. destruct (io_start _ _ (run_inv_out p c sched) h t Hin) as (j & e & H1 & H2 & H3 & H4).
    destruct (pj_nth_inv dp _ _ _ H1) as [y [Hy ->]]. simpl in *. fold s in Hy.
    destruct (run_inv_deps p c sched) as [st Hd].
    rewrite <- H2, (key_of_act_get p c _ j y (id_ids _ _ _ _ Hd) Hy), H3 in Hk.
    pose proof (H4 k Hk) as Hr. destruct (regkey_is_owner j y k Hy Hr) as (H5 & _).
    exists j, y. repeat split; auto.
  Qed.

  (* (4) hence: as soon as a key k is in the table -- in particular as soon as any activation of
     that key is past the lookup (reference_runs_or_is_skipped), was started (started_is_owner) or
     was skipped (skipped_state) -- there is exactly one execution of k: one activation registered
     k; it runs a task and variable with that key and printed "started" *)
  Theorem key_one_execution k o :
    lookup_key (dedup s) k = Some o ->
    exists z, get_act s o = Some z /\ a_regkey z = Some k /\ key_of p (a_task z) (a_var z) = Some k /\
      In (EvStarted (a_path z) (a_task z)) (trace s) /\
      forall o' z', get_act s o' = Some z' -> a_regkey z' = Some k -> o' = o.
  Proof.
    intros Hl. destruct (table_owner_registered k o Hl) as [z [Hz Hk]]. exists z.
    destruct (regkey_is_owner o z k Hz Hk) as (_ & H2 & H3 & _). repeat split; auto.
    intros o' z' Hz' Hk'. eapply owner_started_once_per_key; eauto.
  Qed.
End Reach.

(* what a key stands for: run: once -- the task; run: when_changed -- the task and the variable *)
Lemma key_of_once p t v t0 : key_of p t v = Some (KOnce t0) -> t = t0 /\ t_run (get_task p t) = Once.
Proof. unfold key_of. destruct (t_run (get_task p t)); intros H; try discriminate. injection H as <-. auto. Qed.

Lemma key_of_when p t v t0 v0 :
  key_of p t v = Some (KWhen t0 v0) -> t = t0 /\ v = v0 /\ t_run (get_task p t) = WhenChanged.
Proof. unfold key_of. destruct (t_run (get_task p t)); intros H; try discriminate. injection H as <- <-. auto. Qed.

(* run: when_changed: per distinct (task, variable) that reached the lookup, exactly one execution,
   of that task with that variable *)
Theorem when_changed_one_execution p c sched t v o :
  lookup_key (dedup (run p c sched)) (KWhen t v) = Some o ->
  exists z, get_act (run p c sched) o = Some z /\ a_task z = t /\ a_var z = v /\
    a_regkey z = Some (KWhen t v) /\ In (EvStarted (a_path z) t) (trace (run p c sched)) /\
    forall o' z', get_act (run p c sched) o' = Some z' -> a_regkey z' = Some (KWhen t v) -> o' = o.
Proof.
  intros Hl. destruct (key_one_execution p c sched _ o Hl) as (z & H1 & H2 & H3 & H4 & H5).
  destruct (key_of_when _ _ _ _ _ H3) as (Et & Ev & _). exists z. rewrite <- Et at 3. repeat split; auto.
Qed.
