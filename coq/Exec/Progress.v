(* C07 (progress): deadlock freedom of the executor for acyclic programs.

   In every reachable state of the machine of Exec/Model.v, for a program whose static call
   graph (deps, task: calls, deferred task: calls) is acyclic, either some scheduler choice is
   enabled (an activation can take a step, or Run can start another root) or Run has returned.
   This holds for every --concurrency value, every configuration and every schedule: the
   machine never deadlocks on its concurrency slots, on dependency joins, on nested calls or
   on deduplicated (run: once / when_changed) tasks. *)
From Coq Require Import List Arith Bool Lia.
Import ListNotations.
From TV Require Import Exec.Model Exec.Monitors Exec.Facts Exec.InvSlots Exec.Proj Exec.InvPaths Exec.Frame
  Exec.InvDedup.

(* ------------------------------------------------------------------ *)
(* The static call graph                                               *)

Definition call_targets (cm : cmd) : list nat :=
  match cm with CallC cl | DeferCall cl => [c_task cl] | _ => [] end.

(* tasks referenced by the deps of task t and by its CallC / DeferCall commands *)
Definition callees (p : prog) (t : nat) : list nat :=
  map c_task (t_deps (get_task p t)) ++ flat_map call_targets (t_cmds (get_task p t)).

Definition acyclic (p : prog) : Prop :=
  exists rank : nat -> nat, forall t d, In d (callees p t) -> rank d < rank t.

(* ------------------------------------------------------------------ *)
(* Invariant 1: what a blocked activation waits for exists             *)

Record ws := { w_task : nat; w_var : nat; w_pc : pc; w_kids : list nat }.
Definition wsof (x : act) : ws :=
  {| w_task := a_task x; w_var := a_var x; w_pc := a_pc x; w_kids := a_kids x |}.
Lemma wsof_gerr x e : wsof (set_gerr x e) = wsof x. Proof. reflexivity. Qed.

(* program points an activation that registered a dedup key (an owner) can be at *)
Definition owner_pc (q : pc) : bool :=
  match q with
  | PEntry | PPlatformEnd | PAcquire | PDedup | PWRelease _ | PWWait _ | PWReacq _ => false
  | _ => true
  end.

Definition has_callee (p : prog) (L : list ws) (t k : nat) : Prop :=
  exists y, nth_error L k = Some y /\ In (w_task y) (callees p t).

Definition ref_ok (p : prog) (L : list ws) (y : ws) : Prop :=
  match w_pc y with
  | PDepsJoin => forall k, In k (w_kids y) -> has_callee p L (w_task y) k
  | PCallWait _ cid | PDCallWait _ cid => has_callee p L (w_task y) cid
  | PWRelease o | PWWait o =>
      exists z, nth_error L o = Some z /\ w_task z = w_task y /\ owner_pc (w_pc z) = true
  | PRun i | PProbe i => exists e g, nth_error (t_cmds (get_task p (w_task y))) i = Some (Shell e g)
  | _ => True
  end.

(* the dedup table: an entry points to an existing activation of that key which is an owner *)
Definition dd_ok (p : prog) (L : list ws) (d : list (key * nat)) : Prop :=
  forall k o, lookup_key d k = Some o ->
    exists z, nth_error L o = Some z /\ key_of p (w_task z) (w_var z) = Some k /\ owner_pc (w_pc z) = true.

Definition inv_wait (p : prog) (s : state) : Prop :=
  Forall (ref_ok p (pj wsof s)) (pj wsof s) /\ dd_ok p (pj wsof s) (dedup s).

(* L' keeps every entry of L: same task and variable, and owners stay owners *)
Definition stable (L L' : list ws) : Prop :=
  forall i z, nth_error L i = Some z ->
    exists z', nth_error L' i = Some z' /\ w_task z' = w_task z /\ w_var z' = w_var z /\
               (owner_pc (w_pc z) = true -> owner_pc (w_pc z') = true).

Lemma has_callee_stable p L L' t k : stable L L' -> has_callee p L t k -> has_callee p L' t k.
Proof.
  intros Hst [y [Hy Hin]]. destruct (Hst k y Hy) as [y' (Hy' & Ht & _)].
  exists y'. split; [exact Hy'|]. rewrite Ht. exact Hin.
Qed.

Lemma ref_ok_stable p L L' y : stable L L' -> ref_ok p L y -> ref_ok p L' y.
Proof.
  intros Hst H. unfold ref_ok in *. destruct (w_pc y); auto;
    try (eapply has_callee_stable; eauto; fail);
    try (destruct H as [z (Hz & Ht & Ho)]; destruct (Hst _ z Hz) as [z' (Hz' & Ht' & _ & Ho')];
         exists z'; repeat split; auto; congruence).
  intros k Hk. eapply has_callee_stable; eauto.
Qed.

Lemma dd_ok_stable p L L' d : stable L L' -> dd_ok p L d -> dd_ok p L' d.
Proof.
  intros Hst H k o Hl. destruct (H k o Hl) as [z (Hz & Hk & Ho)].
  destruct (Hst _ z Hz) as [z' (Hz' & Ht' & Hv' & Ho')].
  exists z'. repeat split; auto. rewrite Ht', Hv'. exact Hk.
Qed.

Lemma stable_move L a ex ex' news :
  nth_error L a = Some ex ->
  w_task ex' = w_task ex -> w_var ex' = w_var ex ->
  (owner_pc (w_pc ex) = true -> owner_pc (w_pc ex') = true) ->
  stable L (upd L a ex' ++ news).
Proof.
  intros Ha Ht Hv Ho i z Hz.
  assert (Hil : i < length L) by (apply nth_error_Some; rewrite Hz; discriminate).
  rewrite nth_error_app1 by (rewrite upd_length; exact Hil).
  destruct (Nat.eq_dec a i) as [<-|Hne].
  - rewrite Ha in Hz. injection Hz as <-. exists ex'. split; [eapply nth_error_upd_same; eauto|]. auto.
  - exists z. split; [rewrite nth_error_upd_other by exact Hne; exact Hz|]. auto.
Qed.

Lemma lookup_key_app d k o k' :
  lookup_key (d ++ [(k, o)]) k' = match lookup_key d k' with Some o' => Some o' | None => if key_eqb k' k then Some o else None end.
Proof.
  induction d as [|[k0 o0] d IH]; simpl; [reflexivity|]. destruct (key_eqb k' k0); auto.
Qed.

(* the list-level preservation lemma *)
Lemma wait_move p L d a ex ex' news d' :
  Forall (ref_ok p L) L -> dd_ok p L d ->
  nth_error L a = Some ex ->
  w_task ex' = w_task ex -> w_var ex' = w_var ex ->
  (owner_pc (w_pc ex) = true -> owner_pc (w_pc ex') = true) ->
  Forall (fun n => w_pc n = PEntry) news ->
  (stable L (upd L a ex' ++ news) -> ref_ok p (upd L a ex' ++ news) ex') ->
  (d' = d \/ exists k, d' = d ++ [(k, a)] /\ key_of p (w_task ex') (w_var ex') = Some k /\ owner_pc (w_pc ex') = true) ->
  Forall (ref_ok p (upd L a ex' ++ news)) (upd L a ex' ++ news) /\ dd_ok p (upd L a ex' ++ news) d'.
Proof.
  intros Hall Hdd Ha Ht Hv Ho Hnews Hex' Hd'.
  pose proof (stable_move L a ex ex' news Ha Ht Hv Ho) as Hst.
  assert (Hlt : a < length L) by (apply nth_error_Some; rewrite Ha; discriminate).
  split.
  - apply Forall_app. split.
    + apply Forall_forall. intros y Hy. apply In_nth_error in Hy. destruct Hy as [j Hj].
      destruct (Nat.eq_dec a j) as [<-|Hne].
      * rewrite (nth_error_upd_same L a ex' ex Ha) in Hj. injection Hj as <-. apply Hex'. exact Hst.
      * rewrite nth_error_upd_other in Hj by exact Hne.
        eapply ref_ok_stable; [exact Hst|]. rewrite Forall_forall in Hall. apply Hall. eapply nth_error_In; eauto.
    + eapply Forall_impl; [|exact Hnews]. intros n Hn. unfold ref_ok. rewrite Hn. exact I.
  - destruct Hd' as [->|[k (-> & Hk & Hok)]].
    + eapply dd_ok_stable; eauto.
    + intros k' o Hl. rewrite lookup_key_app in Hl.
      destruct (lookup_key d k') as [o'|] eqn:El.
      * injection Hl as <-. eapply dd_ok_stable; eauto.
      * destruct (key_eqb k' k) eqn:Ek; [|discriminate]. injection Hl as <-.
        apply key_eqb_eq in Ek. subst k'. exists ex'. split; [|split; assumption].
        rewrite nth_error_app1 by (rewrite upd_length; exact Hlt). eapply nth_error_upd_same; eauto.
Qed.

Global Hint Rewrite (pj_set_act wsof) (pj_emit wsof) (pj_cancel wsof) (pj_acquire wsof) (pj_release wsof)
  (pj_finish wsof wsof_gerr) : wsdb.

Lemma key_of_task p t v t' v' k : key_of p t v = Some k -> key_of p t' v' = Some k -> t = t'.
Proof.
  unfold key_of. destruct (t_run (get_task p t)), (t_run (get_task p t')); intros H1 H2; try discriminate;
    injection H1 as <-; injection H2 as H2; congruence.
Qed.

Lemma in_callees_dep p t k d : nth_error (t_deps (get_task p t)) k = Some d -> In (c_task d) (callees p t).
Proof. intros H. unfold callees. apply in_or_app. left. apply in_map. eapply nth_error_In; eauto. Qed.

Lemma in_callees_call p t i cl :
  nth_error (t_cmds (get_task p t)) i = Some (CallC cl) \/ nth_error (t_cmds (get_task p t)) i = Some (DeferCall cl) ->
  In (c_task cl) (callees p t).
Proof.
  intros H. unfold callees. apply in_or_app. right. apply in_flat_map.
  destruct H as [H|H]; eexists; (split; [eapply nth_error_In; exact H|simpl; auto]).
Qed.

Ltac wait_setup s a Hall Hdd Hn :=
  match goal with |- inv_wait ?p ?s' =>
    let E := fresh "E" in
    let ev := fresh "ev" in
    evar (ev : ws);
    assert (E : pj wsof s' = upd (pj wsof s) a ev ++ [])
      by (subst ev; autorewrite with wsdb; simpl; autorewrite with wsdb; rewrite ?app_nil_r; reflexivity);
    unfold inv_wait; rewrite E; subst ev; clear E;
    eapply wait_move with (d := dedup s);
    [ exact Hall | exact Hdd | exact Hn | reflexivity | reflexivity | | constructor | | ]
  end.

Lemma step_inv_wait p c s a s' : inv_wait p s -> step p c s a = Some s' -> inv_wait p s'.
Proof.
  intros [Hall Hdd] H.
  destruct (get_act s a) as [x|] eqn:Hx; [|unfold step in H; rewrite Hx in H; discriminate].
  pose proof (pj_nth wsof _ _ _ Hx) as Hn.
  pose proof (pj_lt wsof _ _ _ Hx) as Hlt.
  assert (Hr : ref_ok p (pj wsof s) (wsof x)).
  { rewrite Forall_forall in Hall. apply Hall. eapply nth_error_In; eauto. }
  unfold ref_ok in Hr. simpl in Hr.
  step_cases H Hx;
    try (wait_setup s a Hall Hdd Hn;
         [ simpl; rewrite ?Hpc; simpl; intros; congruence
         | intros Hst; unfold ref_ok; simpl; first [exact I | exact Hr]
         | left; autorewrite with dddb; simpl; autorewrite with dddb; reflexivity ]).
  - (* skipped in favour of owner n *)
    destruct (Hdd k n Heqo0) as [z (Hz & Hkz & Hoz)].
    wait_setup s a Hall Hdd Hn.
    + simpl. rewrite Hpc. simpl. intros; congruence.
    + intros Hst. unfold ref_ok. simpl.
      destruct (Hst n z Hz) as [z' (Hz' & Ht' & _ & Ho')]. exists z'. split; [exact Hz'|]. split; [|auto].
      rewrite Ht'. eapply key_of_task; eauto.
    + left. reflexivity.
  - (* registers its key: becomes the owner *)
    wait_setup s a Hall Hdd Hn.
    + simpl. rewrite Hpc. simpl. intros; congruence.
    + intros Hst. exact I.
    + right. exists k. simpl. auto.
  - (* waiter gives its slot back *)
    wait_setup s a Hall Hdd Hn.
    + simpl. rewrite Hpc. simpl. intros; congruence.
    + intros Hst. apply (ref_ok_stable p _ _ (wsof (set_pc x (PWWait o))) Hst). exact Hr.
    + left. autorewrite with dddb. reflexivity.
  - (* fork deps *)
    apply fork_deps_spec in Heqp0. simpl in Heqp0.
    destruct Heqp0 as [news (Ha & _ & _ & Hd & _ & _ & _ & _ & Hl & Hi & Hf & Hk)].
    assert (E : pj wsof (set_act s0 a (set_kids (set_holds (set_pc x PDepsJoin) false) l (length (ctxs (release c s)))))
                = upd (pj wsof s) a (wsof (set_kids (set_pc x PDepsJoin) l 0)) ++ map wsof news).
    { unfold pj at 1. rewrite acts_set_act, map_upd, Ha, release_acts, map_app.
      rewrite upd_app_l by exact Hlt. reflexivity. }
    unfold inv_wait. rewrite E. eapply wait_move with (d := dedup s);
      [exact Hall|exact Hdd|exact Hn|reflexivity|reflexivity| | | | ].
    + simpl. rewrite Hpc. simpl. intros; congruence.
    + apply Forall_forall. intros n Hn'. apply in_map_iff in Hn'. destruct Hn' as [y [<- Hy]].
      rewrite Forall_forall in Hf. apply (Hf y Hy).
    + intros _. unfold ref_ok. simpl. intros k Hk'. rewrite Hi in Hk'. apply in_seq in Hk'.
      rewrite release_acts in Hk'.
      assert (Hkl : k - length (acts s) < length (t_deps (get_task p (a_task x)))) by lia.
      destruct (nth_error (t_deps (get_task p (a_task x))) (k - length (acts s))) as [d|] eqn:Ed;
        [|apply nth_error_None in Ed; lia].
      destruct (Hk _ d Ed) as [y (Hy & _ & Ht & _)].
      exists (wsof y). split.
      * rewrite nth_error_app2 by (rewrite upd_length; unfold pj; rewrite map_length; lia).
        rewrite upd_length. unfold pj at 1. rewrite map_length, nth_error_map, Hy. reflexivity.
      * simpl. rewrite Ht. eapply in_callees_dep; eauto.
    + left. rewrite dedup_set_act, Hd, release_dedup. reflexivity.
  - (* announce a shell command *)
    wait_setup s a Hall Hdd Hn.
    + simpl. rewrite Hpc. simpl. intros; congruence.
    + intros Hst. unfold ref_ok. simpl. eauto.
    + left. reflexivity.
  - (* call *)
    assert (E : forall sA nA, pj wsof (set_act {| acts := acts (release c s) ++ [nA]; used := used (release c s);
                 dedup := dedup (release c s); calls := calls (release c s); ctxs := ctxs (release c s);
                 trace := trace (release c s); rootres := rootres (release c s); rungerr := rungerr (release c s) |} a sA)
               = upd (pj wsof s) a (wsof sA) ++ map wsof [nA]).
    { intros sA nA. unfold pj at 1. rewrite acts_set_act, map_upd. simpl. rewrite release_acts, map_app.
      rewrite upd_app_l by exact Hlt. reflexivity. }
    unfold inv_wait. rewrite E. eapply wait_move with (d := dedup s);
      [exact Hall|exact Hdd|exact Hn|reflexivity|reflexivity| | | | ].
    + simpl. rewrite Hpc. simpl. intros; congruence.
    + repeat constructor.
    + intros _. unfold ref_ok. simpl. rewrite release_acts. eexists. split.
      * rewrite nth_error_app2 by (rewrite upd_length; unfold pj; rewrite map_length; lia).
        rewrite upd_length. unfold pj at 1. rewrite map_length, Nat.sub_diag. reflexivity.
      * simpl. eapply in_callees_call. left. exact Heqo.
    + left. simpl. apply release_dedup.
  - (* deferred call *)
    assert (E : forall sA nA, pj wsof (set_act {| acts := acts (release c s) ++ [nA]; used := used (release c s);
                 dedup := dedup (release c s); calls := calls (release c s); ctxs := ctxs (release c s);
                 trace := trace (release c s); rootres := rootres (release c s); rungerr := rungerr (release c s) |} a sA)
               = upd (pj wsof s) a (wsof sA) ++ map wsof [nA]).
    { intros sA nA. unfold pj at 1. rewrite acts_set_act, map_upd. simpl. rewrite release_acts, map_app.
      rewrite upd_app_l by exact Hlt. reflexivity. }
    unfold inv_wait. rewrite E. eapply wait_move with (d := dedup s);
      [exact Hall|exact Hdd|exact Hn|reflexivity|reflexivity| | | | ].
    + simpl. rewrite Hpc. simpl. intros; congruence.
    + repeat constructor.
    + intros _. unfold ref_ok. simpl. rewrite release_acts. eexists. split.
      * rewrite nth_error_app2 by (rewrite upd_length; unfold pj; rewrite map_length; lia).
        rewrite upd_length. unfold pj at 1. rewrite map_length, Nat.sub_diag. reflexivity.
      * simpl. eapply in_callees_call. right. exact Heqo.
    + left. simpl. apply release_dedup.
Qed.

Lemma inv_wait_init p : inv_wait p (init_state p).
Proof. split; [constructor|]. intros k o H. discriminate. Qed.

Lemma stable_app L news : stable L (L ++ news).
Proof.
  intros i z Hz. exists z. split; [|auto].
  rewrite nth_error_app1; [exact Hz|]. apply nth_error_Some. rewrite Hz. discriminate.
Qed.

Lemma start_root_inv_wait p c s k s' : inv_wait p s -> start_root p c s k = Some s' -> inv_wait p s'.
Proof.
  intros [Hall Hdd] H. unfold start_root in H.
  destruct (nth_error (cf_roots c) k) as [cl|]; [|discriminate].
  destruct (negb (precheck_ok p c) || root_started s k); [discriminate|].
  match type of H with (if ?b then _ else _) = _ => destruct b end; [|discriminate].
  injection H as <-. unfold inv_wait, add_act, pj. simpl. rewrite map_app. fold (pj wsof s).
  pose proof (stable_app (pj wsof s) (map wsof [new_act [k] (c_task cl) (eval_var 0 (c_var cl)) KRoot None root_ctx])) as Hst.
  split.
  - apply Forall_app. split.
    + eapply Forall_impl; [|exact Hall]. intros y Hy. eapply ref_ok_stable; eauto.
    + constructor; [exact I|constructor].
  - eapply dd_ok_stable; eauto.
Qed.

Lemma run_inv_wait p c sched : inv_wait p (run p c sched).
Proof.
  unfold run. generalize (inv_wait_init p). generalize (init_state p).
  induction sched as [|ch sched IH]; intros s Hs; simpl; [exact Hs|].
  apply IH. destruct ch as [a|k]; simpl.
  - destruct (step p c s a) eqn:E; [eapply step_inv_wait; eauto|exact Hs].
  - destruct (start_root p c s k) eqn:E; [eapply start_root_inv_wait; eauto|exact Hs].
Qed.

(* ------------------------------------------------------------------ *)
(* Invariant 2: Run's bookkeeping of its root activations              *)

Definition rootk (k : kind) : bool := match k with KRoot => true | _ => false end.
Definition done_pc (q : pc) : bool := match q with PDone _ => true | _ => false end.

Definition rp (x : act) : kind * aid * pc := (a_kind x, a_path x, a_pc x).
Lemma rp_gerr x e : rp (set_gerr x e) = rp x. Proof. reflexivity. Qed.

Definition rkp (y : kind * aid * pc) : list nat :=
  match y with (KRoot, [k], _) => [k] | _ => [] end.
Definition rdone (y : kind * aid * pc) : bool := rootk (fst (fst y)) && done_pc (snd y).

Definition gerr_after (ge : option err) (r : res) : option err :=
  match ge, r with None, RErr e => Some e | g, _ => g end.

Record roots_ok (n : nat) (L : list (kind * aid * pc)) (rr : list (nat * res)) (ge : option err) : Prop := {
  ro_path : forall k pth q, In (k, pth, q) L -> k = KRoot -> exists m, pth = [m] /\ m < n;
  ro_nodup : NoDup (flat_map rkp L);
  ro_len : length rr = count rdone L;
  ro_in : forall a pth r, nth_error L a = Some (KRoot, pth, PDone r) -> In (a, r) rr;
  ro_res : ge = None -> forall a r, In (a, r) rr -> r = ROk
}.

Definition inv_roots (c : cfg) (s : state) : Prop :=
  roots_ok (length (cf_roots c)) (pj rp s) (rootres s) (rungerr s).

Lemma flat_map_upd_same {A B} (f : A -> list B) (l : list A) n y y' :
  nth_error l n = Some y -> f y' = f y -> flat_map f (upd l n y') = flat_map f l.
Proof.
  revert n; induction l as [|z l IH]; intros [|n] H Hf; simpl in *; try discriminate; auto.
  - injection H as ->. rewrite Hf. reflexivity.
  - rewrite (IH n H Hf). reflexivity.
Qed.

Lemma flat_map_nil {A B} (f : A -> list B) (l : list A) : Forall (fun y => f y = []) l -> flat_map f l = [].
Proof. induction 1 as [|y l Hy _ IH]; simpl; [reflexivity|]. rewrite Hy, IH. reflexivity. Qed.

Lemma count_zero {A} (f : A -> bool) (l : list A) : Forall (fun y => f y = false) l -> count f l = 0.
Proof. induction 1 as [|y l Hy _ IH]; [reflexivity|]. rewrite count_cons, Hy, IH. reflexivity. Qed.

Lemma NoDup_app_intro_r {A} (l : list A) x : NoDup l -> ~ In x l -> NoDup (l ++ [x]).
Proof.
  induction l as [|y l IH]; intros Hnd Hx; simpl; [repeat constructor; simpl; tauto|].
  inversion Hnd as [|? ? Hy Hnd']; subst. constructor.
  - rewrite in_app_iff. simpl. intros [H|[H|[]]]; [exact (Hy H)|]. apply Hx. left. symmetry. exact H.
  - apply IH; [exact Hnd'|]. intros H. apply Hx. right. exact H.
Qed.

Lemma roots_move n L rr ge a k pth q q' news rr' ge' :
  roots_ok n L rr ge ->
  nth_error L a = Some (k, pth, q) ->
  done_pc q = false ->
  Forall (fun y => rootk (fst (fst y)) = false) news ->
  ((done_pc q' = false /\ rr' = rr /\ ge' = ge) \/
   (exists r, q' = PDone r /\ rr' = (if rootk k then rr ++ [(a, r)] else rr) /\
              ge' = (if rootk k then gerr_after ge r else ge))) ->
  roots_ok n (upd L a (k, pth, q') ++ news) rr' ge'.
Proof.
  intros [Hp Hnd Hlen Hin Hres] Ha Hq Hnews Hcase.
  assert (Hlt : a < length L) by (apply nth_error_Some; rewrite Ha; discriminate).
  assert (Hnk : Forall (fun y => rkp y = []) news).
  { eapply Forall_impl; [|exact Hnews]. intros [[k0 p0] q0] H0. simpl in *. destruct k0; try reflexivity; discriminate. }
  assert (Hnd0 : Forall (fun y => rdone y = false) news).
  { eapply Forall_impl; [|exact Hnews]. intros [[k0 p0] q0] H0. unfold rdone. simpl in *. rewrite H0. reflexivity. }
  assert (Hsub : forall e, In e rr -> In e rr').
  { destruct Hcase as [(_ & -> & _)|[r (_ & -> & _)]]; auto. intros e He. destruct (rootk k); auto.
    apply in_or_app. left. exact He. }
  constructor.
  - intros k0 pth0 q0 Hy Hk0. apply in_app_or in Hy. destruct Hy as [Hy|Hy].
    + apply In_nth_error in Hy. destruct Hy as [j Hj]. destruct (Nat.eq_dec a j) as [<-|Hne].
      * rewrite (nth_error_upd_same _ _ _ _ Ha) in Hj. injection Hj as <- <- <-.
        apply (Hp k pth q); auto. eapply nth_error_In; eauto.
      * rewrite nth_error_upd_other in Hj by exact Hne. apply (Hp k0 pth0 q0); auto. eapply nth_error_In; eauto.
    + rewrite Forall_forall in Hnews. specialize (Hnews _ Hy). simpl in Hnews. subst k0. discriminate.
  - rewrite flat_map_app, (flat_map_nil _ _ Hnk), app_nil_r.
    rewrite (flat_map_upd_same rkp L a (k, pth, q) (k, pth, q') Ha); [exact Hnd|].
    simpl. destruct k; try reflexivity; destruct pth as [|m [|? ?]]; reflexivity.
  - rewrite count_app, (count_zero _ _ Hnd0), Nat.add_0_r.
    pose proof (count_upd rdone L a (k, pth, q) (k, pth, q') Ha) as Hc.
    assert (E1 : rdone (k, pth, q) = false) by (unfold rdone; simpl; rewrite Hq; apply andb_false_r).
    rewrite E1 in Hc. simpl in Hc.
    destruct Hcase as [(Hq' & -> & _)|[r (-> & -> & _)]].
    + assert (E2 : rdone (k, pth, q') = false) by (unfold rdone; simpl; rewrite Hq'; apply andb_false_r).
      rewrite E2 in Hc. simpl in Hc. lia.
    + assert (E2 : rdone (k, pth, PDone r) = rootk k) by (unfold rdone; simpl; apply andb_true_r).
      rewrite E2 in Hc. destruct (rootk k); simpl in Hc; [rewrite app_length; simpl|]; lia.
  - intros j pth0 r Hj.
    destruct (Nat.lt_ge_cases j (length L)) as [Hjl|Hjl].
    + rewrite nth_error_app1 in Hj by (rewrite upd_length; exact Hjl).
      destruct (Nat.eq_dec a j) as [<-|Hne].
      * rewrite (nth_error_upd_same _ _ _ _ Ha) in Hj. injection Hj as -> -> ->.
        destruct Hcase as [(Hq' & _)|[r' (Hr' & -> & _)]]; [discriminate|]. injection Hr' as <-.
        simpl. apply in_or_app. right. left. reflexivity.
      * rewrite nth_error_upd_other in Hj by exact Hne. apply Hsub. eapply Hin; eauto.
    + rewrite nth_error_app2 in Hj by (rewrite upd_length; exact Hjl).
      apply nth_error_In in Hj. rewrite Forall_forall in Hnews. specialize (Hnews _ Hj). discriminate.
  - intros Hge j r Hj.
    destruct Hcase as [(_ & -> & ->)|[r' (_ & -> & ->)]]; [eapply Hres; eauto|].
    destruct (rootk k); [|eapply Hres; eauto].
    unfold gerr_after in Hge. apply in_app_or in Hj. destruct Hj as [Hj|[Hj|[]]].
    + destruct ge; [destruct r'; discriminate|]. eapply Hres; eauto.
    + injection Hj as <- <-. destruct ge; destruct r'; try discriminate. reflexivity.
Qed.

(* rootres / rungerr through the state updaters *)
Lemma rootres_cancel s c : rootres (cancel_ctx s c) = rootres s.
Proof. unfold cancel_ctx. destruct (nth_error (ctxs s) c); reflexivity. Qed.
Lemma rungerr_cancel s c : rungerr (cancel_ctx s c) = rungerr s.
Proof. unfold cancel_ctx. destruct (nth_error (ctxs s) c); reflexivity. Qed.
Lemma rootres_acquire c s : rootres (acquire c s) = rootres s.
Proof. unfold acquire. destruct (limited c); reflexivity. Qed.
Lemma rungerr_acquire c s : rungerr (acquire c s) = rungerr s.
Proof. unfold acquire. destruct (limited c); reflexivity. Qed.
Lemma rootres_release c s : rootres (release c s) = rootres s.
Proof. unfold release. destruct (limited c); reflexivity. Qed.
Lemma rungerr_release c s : rungerr (release c s) = rungerr s.
Proof. unfold release. destruct (limited c); reflexivity. Qed.
Lemma rootres_set_act s a x : rootres (set_act s a x) = rootres s. Proof. reflexivity. Qed.
Lemma rungerr_set_act s a x : rungerr (set_act s a x) = rungerr s. Proof. reflexivity. Qed.
Lemma rootres_emit s e : rootres (emit s e) = rootres s. Proof. reflexivity. Qed.
Lemma rungerr_emit s e : rungerr (emit s e) = rungerr s. Proof. reflexivity. Qed.

Lemma rootres_notify s x r : rootres (notify_parent s x r) = rootres s.
Proof.
  unfold notify_parent. destruct (a_kind x); try reflexivity.
  destruct (a_parent x) as [pa|]; try reflexivity. destruct r as [|e]; try reflexivity.
  destruct (get_act s pa) as [px|]; try reflexivity. destruct (a_gerr px); try reflexivity.
  rewrite rootres_cancel. reflexivity.
Qed.
Lemma rungerr_notify s x r : rungerr (notify_parent s x r) = rungerr s.
Proof.
  unfold notify_parent. destruct (a_kind x); try reflexivity.
  destruct (a_parent x) as [pa|]; try reflexivity. destruct r as [|e]; try reflexivity.
  destruct (get_act s pa) as [px|]; try reflexivity. destruct (a_gerr px); try reflexivity.
  rewrite rungerr_cancel. reflexivity.
Qed.

Lemma rootres_finish s a x r :
  rootres (finish s a x r) = if rootk (a_kind x) then rootres s ++ [(a, r)] else rootres s.
Proof.
  unfold finish. destruct (a_kind x) eqn:Ek; simpl; rewrite ?rootres_notify; try reflexivity.
  destruct r; [|destruct (rungerr _)]; rewrite ?rootres_cancel; simpl; rewrite rootres_notify; reflexivity.
Qed.

Lemma rungerr_finish s a x r :
  rungerr (finish s a x r) = if rootk (a_kind x) then gerr_after (rungerr s) r else rungerr s.
Proof.
  unfold finish.
  set (s2 := notify_parent (emit (set_act s a (set_pc x (PDone r))) (EvEnd (a_path x) r)) x r).
  assert (Hg : rungerr s2 = rungerr s) by (unfold s2; rewrite rungerr_notify; reflexivity).
  destruct (a_kind x); simpl; try exact Hg.
  destruct r as [|e]; simpl.
  - rewrite Hg. unfold gerr_after. destruct (rungerr s); reflexivity.
  - destruct (rungerr s2) eqn:Eg; rewrite ?rungerr_cancel; simpl; rewrite <- Hg; rewrite ?Eg; reflexivity.
Qed.

Global Hint Rewrite (pj_set_act rp) (pj_emit rp) (pj_cancel rp) (pj_acquire rp) (pj_release rp)
  (pj_finish rp rp_gerr) : rpdb.
Global Hint Rewrite rootres_cancel rungerr_cancel rootres_acquire rungerr_acquire rootres_release rungerr_release
  rootres_set_act rungerr_set_act rootres_emit rungerr_emit rootres_finish rungerr_finish : rrdb.

Ltac roots_setup s a x Hinv Hn :=
  match goal with |- inv_roots ?c ?s' =>
    let E := fresh "E" in
    let ev := fresh "ev" in
    evar (ev : pc);
    assert (E : pj rp s' = upd (pj rp s) a (a_kind x, a_path x, ev) ++ [])
      by (subst ev; autorewrite with rpdb; simpl; autorewrite with rpdb; rewrite ?app_nil_r; reflexivity);
    unfold inv_roots; rewrite E; subst ev; clear E;
    eapply roots_move with (rr := rootres s) (ge := rungerr s);
    [ exact Hinv | exact Hn | reflexivity | constructor | ]
  end.

Lemma step_inv_roots p c s a s' : inv_roots c s -> step p c s a = Some s' -> inv_roots c s'.
Proof.
  intros Hinv H. unfold inv_roots in Hinv.
  destruct (get_act s a) as [x|] eqn:Hx; [|unfold step in H; rewrite Hx in H; discriminate].
  pose proof (pj_nth rp _ _ _ Hx) as Hn. unfold rp in Hn.
  pose proof (pj_lt rp _ _ _ Hx) as Hlt.
  step_cases H Hx;
    try (roots_setup s a x Hinv Hn;
         first [ left; split; [reflexivity|]; split; autorewrite with rrdb; simpl; autorewrite with rrdb; reflexivity
               | right; eexists; split; [reflexivity|]; split; autorewrite with rrdb; simpl; autorewrite with rrdb; reflexivity ]).
  - (* fork deps *)
    apply fork_deps_spec in Heqp0. simpl in Heqp0.
    destruct Heqp0 as [news (Ha & _ & _ & _ & _ & _ & Hrr & Hge & _ & _ & Hf & _)].
    assert (E : pj rp (set_act s0 a (set_kids (set_holds (set_pc x PDepsJoin) false) l (length (ctxs (release c s)))))
                = upd (pj rp s) a (a_kind x, a_path x, PDepsJoin) ++ map rp news).
    { unfold pj at 1. rewrite acts_set_act, map_upd, Ha, release_acts, map_app.
      rewrite upd_app_l by exact Hlt. reflexivity. }
    unfold inv_roots. rewrite E. eapply roots_move with (rr := rootres s) (ge := rungerr s);
      [exact Hinv|exact Hn|reflexivity| | ].
    + apply Forall_forall. intros n Hn'. apply in_map_iff in Hn'. destruct Hn' as [y [<- Hy]].
      rewrite Forall_forall in Hf. destruct (Hf y Hy) as (_ & _ & Hkd & _). simpl. rewrite Hkd. reflexivity.
    + left. split; [reflexivity|]. rewrite rootres_set_act, rungerr_set_act, Hrr, Hge, rootres_release, rungerr_release.
      split; reflexivity.
  - (* call *)
    assert (E : forall sA nA, pj rp (set_act {| acts := acts (release c s) ++ [nA]; used := used (release c s);
                 dedup := dedup (release c s); calls := calls (release c s); ctxs := ctxs (release c s);
                 trace := trace (release c s); rootres := rootres (release c s); rungerr := rungerr (release c s) |} a sA)
               = upd (pj rp s) a (rp sA) ++ map rp [nA]).
    { intros sA nA. unfold pj at 1. rewrite acts_set_act, map_upd. simpl. rewrite release_acts, map_app.
      rewrite upd_app_l by exact Hlt. reflexivity. }
    unfold inv_roots. rewrite E. unfold rp at 2. simpl a_kind. simpl a_path.
    eapply roots_move with (rr := rootres s) (ge := rungerr s); [exact Hinv|exact Hn|reflexivity| | ].
    + repeat constructor.
    + left. split; [reflexivity|]. simpl. rewrite rootres_release, rungerr_release. split; reflexivity.
  - (* deferred call *)
    assert (E : forall sA nA, pj rp (set_act {| acts := acts (release c s) ++ [nA]; used := used (release c s);
                 dedup := dedup (release c s); calls := calls (release c s); ctxs := ctxs (release c s);
                 trace := trace (release c s); rootres := rootres (release c s); rungerr := rungerr (release c s) |} a sA)
               = upd (pj rp s) a (rp sA) ++ map rp [nA]).
    { intros sA nA. unfold pj at 1. rewrite acts_set_act, map_upd. simpl. rewrite release_acts, map_app.
      rewrite upd_app_l by exact Hlt. reflexivity. }
    unfold inv_roots. rewrite E. unfold rp at 2. simpl a_kind. simpl a_path.
    eapply roots_move with (rr := rootres s) (ge := rungerr s); [exact Hinv|exact Hn|reflexivity| | ].
    + repeat constructor.
    + left. split; [reflexivity|]. simpl. rewrite rootres_release, rungerr_release. split; reflexivity.
Qed.

Lemma inv_roots_init p c : inv_roots c (init_state p).
Proof.
  constructor; simpl.
  - intros k pth q [].
  - constructor.
  - reflexivity.
  - intros a pth r H. destruct a; discriminate.
  - intros _ a r [].
Qed.

Lemma root_started_spec s k : root_started s k = true <-> In k (flat_map rkp (pj rp s)).
Proof.
  unfold root_started, pj. induction (acts s) as [|x l IH]; simpl; [split; [discriminate|tauto]|].
  rewrite orb_true_iff, in_app_iff, IH.
  assert (E : (match a_kind x, a_path x with KRoot, [k'] => Nat.eqb k k' | _, _ => false end) = true <-> In k (rkp (rp x))).
  { unfold rp, rkp. destruct (a_kind x); try (split; [discriminate|intros []]).
    destruct (a_path x) as [|m [|? ?]]; try (split; [discriminate|intros []]).
    simpl. rewrite Nat.eqb_eq. split; [intros ->; auto|intros [->|[]]; reflexivity]. }
  rewrite E. tauto.
Qed.

Lemma start_root_inv_roots p c s k s' : inv_roots c s -> start_root p c s k = Some s' -> inv_roots c s'.
Proof.
  intros [Hp Hnd Hlen Hin Hres] H. unfold start_root in H.
  destruct (nth_error (cf_roots c) k) as [cl|] eqn:Ek; [|discriminate].
  destruct (negb (precheck_ok p c)); [discriminate|]. simpl in H.
  destruct (root_started s k) eqn:Er; [discriminate|].
  match type of H with (if ?b then _ else _) = _ => destruct b end; [|discriminate].
  injection H as <-. unfold inv_roots, add_act, pj. simpl. rewrite map_app. fold (pj rp s). simpl.
  constructor.
  - intros k0 pth q Hy Hk0. apply in_app_or in Hy. destruct Hy as [Hy|[Hy|[]]]; [eapply Hp; eauto|].
    unfold rp in Hy. simpl in Hy. injection Hy as _ <- _. exists k. split; [reflexivity|].
    apply nth_error_Some. rewrite Ek. discriminate.
  - rewrite flat_map_app. simpl. apply NoDup_app_intro_r; [exact Hnd|].
    intros Hk. apply root_started_spec in Hk. congruence.
  - rewrite count_app. unfold count at 2. simpl. lia.
  - intros a pth r Ha.
    destruct (Nat.lt_ge_cases a (length (pj rp s))) as [Hl|Hl].
    + rewrite nth_error_app1 in Ha by exact Hl. eapply Hin; eauto.
    + rewrite nth_error_app2 in Ha by exact Hl.
      destruct (a - length (pj rp s)) as [|m]; simpl in Ha; [discriminate|destruct m; discriminate].
  - exact Hres.
Qed.

Lemma run_inv_roots p c sched : inv_roots c (run p c sched).
Proof.
  unfold run. generalize (inv_roots_init p c). generalize (init_state p).
  induction sched as [|ch sched IH]; intros s Hs; simpl; [exact Hs|].
  apply IH. destruct ch as [a|k]; simpl.
  - destruct (step p c s a) eqn:E; [eapply step_inv_roots; eauto|exact Hs].
  - destruct (start_root p c s k) eqn:E; [eapply start_root_inv_roots; eauto|exact Hs].
Qed.

(* ------------------------------------------------------------------ *)
(* Why an activation cannot step                                       *)

Definition wants_slot (q : pc) : bool :=
  match q with PAcquire | PWReacq _ | PDepsReacq | PCallReacq _ _ | PDCallReacq _ => true | _ => false end.

Inductive blocked (c : cfg) (s : state) (x : act) : Prop :=
| BDone r : a_pc x = PDone r -> blocked c s x
| BSlot : wants_slot (a_pc x) = true -> slot_free c s = false -> blocked c s x
| BJoin : a_pc x = PDepsJoin -> all_done s (a_kids x) = false -> blocked c s x
| BCall i cid : a_pc x = PCallWait i cid -> act_result s cid = None -> blocked c s x
| BDCall r cid : a_pc x = PDCallWait r cid -> act_result s cid = None -> blocked c s x
| BWait o : a_pc x = PWWait o -> exec_result s o = None -> blocked c s x.

(* [step] refuses only at the blocking program points *)
Lemma step_none p c s a x :
  get_act s a = Some x -> ref_ok p (pj wsof s) (wsof x) -> step p c s a = None -> blocked c s x.
Proof.
  intros Hx Hr H. unfold ref_ok in Hr. simpl in Hr.
  unfold step in H. rewrite Hx in H. unfold bump_call, new_ctx, add_act, after_cmd_error in H.
  destruct (a_pc x) eqn:Hpc;
    try (lazymatch goal with Hq : a_pc x = PProbe _ |- _ => destruct Hr as [e0 [g0 Hr]]; rewrite Hr in H end);
    repeat break_match H; try discriminate;
    first [ eapply BDone; eassumption
          | eapply BSlot; [rewrite Hpc; reflexivity|assumption]
          | eapply BJoin; eassumption
          | eapply BCall; eassumption
          | eapply BDCall; eassumption
          | eapply BWait; eassumption ].
Qed.

Lemma nth_pj {B} (f : act -> B) s i z :
  nth_error (pj f s) i = Some z -> exists y, get_act s i = Some y /\ z = f y.
Proof.
  unfold pj, get_act. rewrite nth_error_map. destruct (nth_error (acts s) i) as [y|]; [|discriminate].
  intros H. injection H as <-. exists y. auto.
Qed.

Lemma inv_wait_get p s a x : inv_wait p s -> get_act s a = Some x -> ref_ok p (pj wsof s) (wsof x).
Proof.
  intros [Hall _] Hx. rewrite Forall_forall in Hall. apply Hall. eapply nth_error_In. apply pj_nth. exact Hx.
Qed.

(* an activation that holds a slot is never blocked *)
Lemma holder_steps p c s h y :
  inv_wait p s -> get_act s h = Some y -> holds_at (a_pc y) = true -> step p c s h <> None.
Proof.
  intros Hw Hy Hh Hn.
  destruct (step_none p c s h y Hy (inv_wait_get p s h y Hw Hy) Hn) as [r E|E _|E _|i cid E _|r cid E _|o E _];
    try (rewrite E in Hh; discriminate).
  destruct (a_pc y); discriminate.
Qed.

Lemma count_pos_nth {A} (f : A -> bool) (l : list A) :
  1 <= count f l -> exists i y, nth_error l i = Some y /\ f y = true.
Proof.
  induction l as [|z l IH]; intros H; [unfold count in H; simpl in H; lia|].
  rewrite count_cons in H. destruct (f z) eqn:E.
  - exists 0, z. auto.
  - simpl in H. destruct (IH H) as [i [y [Hi Hy]]]. exists (S i), y. auto.
Qed.

(* if nobody can get a slot then somebody holds one, and can step *)
Lemma slot_holder_steps p c s :
  inv_slots c s -> inv_wait p s -> slot_free c s = false -> exists h, step p c s h <> None.
Proof.
  intros Hs Hw Hf. unfold slot_free in Hf.
  destruct (limited c) as [N|] eqn:El; [|discriminate].
  apply Nat.ltb_ge in Hf.
  assert (HN : 1 <= N).
  { unfold limited in El. destruct (cf_N c) as [[|m]|]; try discriminate. injection El as <-. lia. }
  destruct (is_used _ _ Hs N El) as [Hu _].
  destruct (count_pos_nth snd (sig s)) as [h [[q b] [Hh Hb]]]; [lia|]. simpl in Hb. subst b.
  pose proof (forallb_nth _ _ _ _ (is_ok _ _ Hs) Hh) as Hk. unfold sg_ok in Hk. simpl in Hk.
  destruct (holds_at q) eqn:Hq'; [|discriminate].
  unfold sig in Hh. rewrite nth_error_map in Hh.
  destruct (nth_error (acts s) h) as [y|] eqn:Ey; [|discriminate]. injection Hh as Hq Hb.
  exists h. eapply holder_steps; eauto. rewrite Hq. exact Hq'.
Qed.

Lemma forallb_false_ex {A} (f : A -> bool) l : forallb f l = false -> exists k, In k l /\ f k = false.
Proof.
  induction l as [|z l IH]; simpl; intros H; [discriminate|].
  destruct (f z) eqn:E.
  - destruct (IH H) as [k [Hk Hf]]. exists k. auto.
  - exists z. auto.
Qed.

Definition waiter_pc (q : pc) : nat := match q with PWRelease _ | PWWait _ | PWReacq _ => 1 | _ => 0 end.

Lemma owner_not_waiter q : owner_pc q = true -> waiter_pc q = 0.
Proof. destruct q; simpl; intros H; try discriminate; reflexivity. Qed.

Lemma waiter_le q : waiter_pc q <= 1.
Proof. destruct q; simpl; lia. Qed.

Lemma done_act_result s a x : get_act s a = Some x -> done_pc (a_pc x) = true -> act_result s a <> None.
Proof. intros Hx Hd. unfold act_result. rewrite Hx. destruct (a_pc x); try discriminate. Qed.

Lemma done_exec_result s a x : get_act s a = Some x -> done_pc (a_pc x) = true -> exec_result s a <> None.
Proof. intros Hx Hd. unfold exec_result. rewrite Hx. destruct (a_pc x); try discriminate. Qed.

(* the heart: in a state where no activation can step, every activation has returned.
   Measure: 2 * rank of the task, + 1 for a waiter on a deduplicated execution; every
   wait-for edge (dep child, callee, owner of the dedup key) strictly decreases it. *)
Lemma stuck_all_done p c s rank :
  (forall t d, In d (callees p t) -> rank d < rank t) ->
  inv_slots c s -> inv_wait p s ->
  (forall a, step p c s a = None) ->
  forall n a x, get_act s a = Some x -> 2 * rank (a_task x) + waiter_pc (a_pc x) < n -> done_pc (a_pc x) = true.
Proof.
  intros Hrank Hs Hw Hstuck. induction n as [|n IH]; intros a x Hx Hmu; [lia|].
  pose proof (inv_wait_get p s a x Hw Hx) as Hr.
  assert (Hcallee : forall k, has_callee p (pj wsof s) (a_task x) k -> act_result s k <> None).
  { intros k [z [Hz Hin]]. destruct (nth_pj _ _ _ _ Hz) as [y [Hy ->]]. simpl in Hin.
    eapply done_act_result; [exact Hy|]. eapply IH; [exact Hy|].
    pose proof (Hrank _ _ Hin). pose proof (waiter_le (a_pc y)). lia. }
  destruct (step_none p c s a x Hx Hr (Hstuck a)) as [r E|E Hf|E Hd|i cid E Hd|r cid E Hd|o E Hd].
  - rewrite E. reflexivity.
  - destruct (slot_holder_steps p c s Hs Hw Hf) as [h Hh]. elim Hh. apply Hstuck.
  - unfold ref_ok in Hr. simpl in Hr. rewrite E in Hr.
    apply forallb_false_ex in Hd. destruct Hd as [k [Hk Hd]].
    specialize (Hcallee k (Hr k Hk)). destruct (act_result s k); [discriminate|congruence].
  - unfold ref_ok in Hr. simpl in Hr. rewrite E in Hr. elim (Hcallee cid Hr). exact Hd.
  - unfold ref_ok in Hr. simpl in Hr. rewrite E in Hr. elim (Hcallee cid Hr). exact Hd.
  - unfold ref_ok in Hr. simpl in Hr. rewrite E in Hr. destruct Hr as [z (Hz & Ht & Ho)].
    destruct (nth_pj _ _ _ _ Hz) as [y [Hy ->]]. simpl in Ht, Ho.
    elim (done_exec_result s o y Hy); [|exact Hd]. eapply IH; [exact Hy|].
    rewrite Ht, (owner_not_waiter _ Ho). rewrite E in Hmu. simpl in Hmu. lia.
Qed.

(* ------------------------------------------------------------------ *)
(* When every activation has returned: Run starts the next root or returns *)

Lemma least_unstarted (f : nat -> bool) n :
  (forall k, k < n -> f k = true) \/ (exists k, k < n /\ f k = false /\ forall j, j < k -> f j = true).
Proof.
  induction n as [|n IH]; [left; intros k Hk; lia|].
  destruct IH as [IH|[k (Hk & Hf & Hl)]].
  - destruct (f n) eqn:E.
    + left. intros k Hk. destruct (Nat.eq_dec k n) as [->|]; [exact E|apply IH; lia].
    + right. exists n. repeat split; auto.
  - right. exists k. repeat split; auto.
Qed.

Lemma roots_len n (L : list (kind * aid * pc)) :
  (forall k pth q, In (k, pth, q) L -> k = KRoot -> exists m, pth = [m] /\ m < n) ->
  length (flat_map rkp L) = count (fun y => rootk (fst (fst y))) L.
Proof.
  induction L as [|[[k pth] q] L IH]; intros H; [reflexivity|].
  rewrite count_cons. simpl flat_map. rewrite app_length, IH by (intros; eapply H; eauto; right; eassumption).
  f_equal. destruct k; try reflexivity.
  destruct (H KRoot pth q (or_introl eq_refl) eq_refl) as [m [-> _]]. reflexivity.
Qed.

Lemma rdone_all_done (L : list (kind * aid * pc)) :
  Forall (fun y => done_pc (snd y) = true) L -> count rdone L = count (fun y => rootk (fst (fst y))) L.
Proof.
  induction 1 as [|y L Hy _ IH]; [reflexivity|]. rewrite !count_cons, IH. unfold rdone. rewrite Hy, andb_true_r. reflexivity.
Qed.

Lemma roots_below n (L : list (kind * aid * pc)) m :
  (forall k pth q, In (k, pth, q) L -> k = KRoot -> exists m, pth = [m] /\ m < n) ->
  In m (flat_map rkp L) -> m < n.
Proof.
  intros H Hin. apply in_flat_map in Hin. destruct Hin as [[[k pth] q] [Hy Hm]].
  destruct k; try contradiction. destruct pth as [|m' [|? ?]]; try contradiction.
  destruct Hm as [->|[]]. destruct (H _ _ _ Hy eq_refl) as [m0 [E Hlt]]. injection E as ->. exact Hlt.
Qed.

Lemma all_done_next_root p c s :
  inv_roots c s ->
  (forall a x, get_act s a = Some x -> done_pc (a_pc x) = true) ->
  precheck_ok p c = true -> rungerr s = None -> length (rootres s) <> length (cf_roots c) ->
  exists k s', start_root p c s k = Some s'.
Proof.
  intros [Hp Hnd Hlen Hin Hres] Hdone Hpre Hge Hne.
  set (n := length (cf_roots c)) in *.
  assert (HdoneL : Forall (fun y => done_pc (snd y) = true) (pj rp s)).
  { apply Forall_forall. intros y Hy. apply In_nth_error in Hy. destruct Hy as [i Hi].
    destruct (nth_pj _ _ _ _ Hi) as [x [Hx ->]]. simpl. eapply Hdone; eauto. }
  destruct (least_unstarted (root_started s) n) as [Hall|[k (Hk & Hf & Hl)]].
  - (* every root was started: then they all returned and were recorded *)
    exfalso. apply Hne.
    rewrite Hlen, (rdone_all_done _ HdoneL), <- (roots_len n _ Hp).
    apply Nat.le_antisymm.
    + rewrite <- (seq_length n 0). apply NoDup_incl_length; [exact Hnd|].
      intros m Hm. apply in_seq. pose proof (roots_below n _ m Hp Hm). lia.
    + rewrite <- (seq_length n 0) at 1. apply NoDup_incl_length; [apply seq_NoDup|].
      intros m Hm. apply in_seq in Hm. apply root_started_spec. apply Hall. lia.
  - exists k. unfold start_root.
    destruct (nth_error (cf_roots c) k) as [cl|] eqn:Ek; [|apply nth_error_None in Ek; fold n in Ek; lia].
    rewrite Hpre, Hf. simpl.
    destruct (cf_parallel c); [eexists; reflexivity|].
    destruct k as [|k']; [eexists; reflexivity|].
    match goal with |- context [existsb ?f ?l] => assert (E : existsb f l = true) end.
    { assert (Hs : root_started s k' = true) by (apply Hl; lia).
      unfold root_started in Hs. apply existsb_exists in Hs. destruct Hs as [x [Hxin Hxk]].
      apply In_nth_error in Hxin. destruct Hxin as [a Ha].
      destruct (a_kind x) eqn:Ekd; try discriminate.
      destruct (a_path x) as [|m [|? ?]] eqn:Epth; try discriminate. apply Nat.eqb_eq in Hxk. subst m.
      pose proof (Hdone a x Ha) as Hd. destruct (a_pc x) eqn:Epc; try discriminate.
      assert (Hr : In (a, r) (rootres s)).
      { apply (Hin a [k'] r). unfold pj. rewrite nth_error_map. unfold get_act in Ha. rewrite Ha. unfold rp. simpl.
        rewrite Ekd, Epth, Epc. reflexivity. }
      pose proof (Hres Hge a r Hr) as ->.
      apply existsb_exists. exists (a, ROk). split; [exact Hr|]. unfold get_act in *. rewrite Ha, Epth. apply Nat.eqb_refl. }
    rewrite E. eexists. reflexivity.
Qed.

(* ------------------------------------------------------------------ *)
(* Progress                                                            *)

Lemma step_dec_below p c s n :
  (exists a s', step p c s a = Some s') \/ (forall a, a < n -> step p c s a = None).
Proof.
  induction n as [|n IH]; [right; intros a Ha; lia|].
  destruct IH as [IH|IH]; [left; exact IH|].
  destruct (step p c s n) as [s'|] eqn:E.
  - left. exists n, s'. exact E.
  - right. intros a Ha. destruct (Nat.eq_dec a n) as [->|]; [exact E|apply IH; lia].
Qed.

Lemma step_dec p c s : (exists a s', step p c s a = Some s') \/ (forall a, step p c s a = None).
Proof.
  destruct (step_dec_below p c s (length (acts s))) as [H|H]; [left; exact H|right].
  intros a. destruct (Nat.lt_ge_cases a (length (acts s))) as [Ha|Ha]; [apply H; exact Ha|].
  unfold step. replace (get_act s a) with (@None act); [reflexivity|].
  symmetry. apply nth_error_None. exact Ha.
Qed.

(* the statement for any state satisfying the three invariants *)
Lemma progress_inv p c s :
  acyclic p -> inv_slots c s -> inv_wait p s -> inv_roots c s ->
  (exists a s', step p c s a = Some s') \/ (exists k s', start_root p c s k = Some s') \/ run_result p c s <> None.
Proof.
  intros [rank Hrank] Hs Hw Hr.
  destruct (step_dec p c s) as [H|Hstuck]; [left; exact H|right].
  assert (Hdone : forall a x, get_act s a = Some x -> done_pc (a_pc x) = true).
  { intros a x Hx. eapply (stuck_all_done p c s rank Hrank Hs Hw Hstuck _ a x Hx). apply Nat.lt_succ_diag_r. }
  unfold run_result.
  destruct (precheck_ok p c) eqn:Hpre; simpl; [|right; discriminate].
  assert (E : forallb (fun x => match a_pc x with PDone _ => true | _ => false end) (acts s) = true).
  { apply forallb_forall. intros x Hx. apply In_nth_error in Hx. destruct Hx as [a Ha]. apply (Hdone a x Ha). }
  rewrite E.
  destruct (rungerr s) as [e|] eqn:Hge; [right; discriminate|].
  destruct (Nat.eqb (length (rootres s)) (length (cf_roots c))) eqn:Hlen; [right; discriminate|].
  left. apply Nat.eqb_neq in Hlen. eapply all_done_next_root; eauto.
Qed.

(* DEADLOCK FREEDOM.  For an acyclic program, every configuration (any --concurrency value,
   limited or not; parallel or sequential roots) and every schedule: in the state reached,
   some activation can take a step, or Run can start another root, or Run has returned.
   No side condition is needed for the last disjunct: when Run's pre-check fails
   (an internal task named on the command line) [run_result] is an error from the start. *)
Theorem progress : forall p c sched, acyclic p ->
  let s := run p c sched in
  (exists a s', step p c s a = Some s') \/ (exists k s', start_root p c s k = Some s') \/ run_result p c s <> None.
Proof.
  intros p c sched Hac s. apply progress_inv; auto.
  - apply run_inv_slots.
  - apply run_inv_wait.
  - apply run_inv_roots.
Qed.
