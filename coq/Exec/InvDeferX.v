(* C14, further clauses (mon_C14x of Exec/Monitors.v), for every program, configuration and schedule:
   (i)  a defer entry placed after the command that failed is never reached and never runs: once the
        first own failing command f of an activation has ended, the loop is over and every registered
        and every announced deferred entry has an index below f ([after_fail], on top of the
        registration invariant of Exec/InvDefer.v);
   (ii) EXIT_CODE is never invented: every exit status held anywhere as an error value (a result in a
        program point, an errgroup error, Run's error) is the exit status of a command that failed in
        this run ([Pex], an instance of inv_P of Exec/InvFail.v, with step_origin of
        Exec/InvGuardStatus.v), deferredExitCode is 0 or such a status ([step_dxview]: it is only
        ever set from the own failing command or from the exit status a callee returned), and so is
        every EXIT_CODE printed.  A failing DeferShell never feeds deferredExitCode: the machine does
        not look at the exit field of a deferred entry. *)
From Coq Require Import List Arith Bool Lia.
Import ListNotations.
From TV Require Import Exec.Model Exec.Monitors Exec.Facts Exec.InvSlots Exec.Proj Exec.InvPaths Exec.Frame
  Exec.InvUniq Exec.InvPhase Exec.InvTree Exec.InvDefer Exec.InvFail Exec.InvStatus Exec.InvGuardStatus.

(* ------------------------------------------------------------------ *)
(* what a step does to deferredExitCode, and which codes it prints      *)

Lemma dq_at s' (L : list _) a v rest x' :
  pj dq s' = upd L a v ++ rest -> a < length L -> get_act s' a = Some x' -> dq x' = v.
Proof.
  intros E Hlt Hx'. pose proof (pj_nth dq _ _ _ Hx') as Hn. rewrite E in Hn.
  rewrite nth_error_app1 in Hn by (rewrite upd_length; exact Hlt).
  destruct (nth_error L a) as [w|] eqn:Ew; [|apply nth_error_None in Ew; lia].
  rewrite (nth_error_upd_same L a v w Ew) in Hn. congruence.
Qed.

Definition prints (x : act) (e : event) : Prop :=
  match e with EvDProbeBegin _ _ code => code = a_dexit x | _ => True end.

Definition probe_fails (p : prog) (s s' : state) (x : act) (n : nat) : Prop :=
  exists i, a_pc x = PProbe i /\ failing_tk (get_task p (a_task x)) i = true /\
            exit_of_tk (get_task p (a_task x)) i = n /\ trace s' = trace s ++ [EvProbeEnd (a_path x) i].

Record dxview (p : prog) (s s' : state) (x x' : act) : Prop := {
  dv_trace : exists evs, trace s' = trace s ++ evs /\ Forall (prints x) evs;
  dv_dexit : a_dexit x' = a_dexit x \/
             (exists i n, a_pc x = PCallReacq i (RErr (EExit n)) /\ a_dexit x' = n) \/
             probe_fails p s s' x (a_dexit x');
  dv_born : forall i n, a_pc x = PProbe i -> holds (a_pc x') = Some (EExit n) -> probe_fails p s s' x n
}.

Lemma step_dxview p c s a s' x x' :
  get_act s a = Some x -> step p c s a = Some s' -> get_act s' a = Some x' -> dxview p s s' x x'.
Proof.
  intros Hx H Hx'.
  pose proof (pj_lt dq _ _ _ Hx) as Hlt.
  step_cases H Hx;
  try (match goal with _ : get_act ?S' a = Some x' |- _ =>
         let E := fresh "E" in
         eassert (E : pj dq S' = upd (pj dq s) a (a_path x, a_task x, _, _, _) ++ map dq []);
         [autorewrite with dqdb; unfold dq; simpl; rewrite ?app_nil_r; reflexivity|];
         let Hn := fresh "Hn" in
         pose proof (dq_at _ _ _ _ _ _ E Hlt Hx') as Hn; clear E; unfold dq in Hn;
         pose proof (f_equal (fun t => snd t) Hn) as Hdx;
         pose proof (f_equal (fun t => snd (fst (fst t))) Hn) as Hq; simpl in Hdx, Hq; clear Hn;
         constructor;
         [ eexists; split;
           [autorewrite with sigdb; simpl; rewrite <- ?app_assoc; first [reflexivity | symmetry; apply app_nil_r]
           |repeat constructor]
         | first [ left; exact Hdx
                 | right; left; do 2 eexists; split; [reflexivity|exact Hdx]
                 | idtac ]
         | let i0 := fresh "i0" in let n0 := fresh "n0" in let Hi := fresh "Hi" in let Hh := fresh "Hh" in
           intros i0 n0 Hi Hh; rewrite Hpc in Hi; try discriminate Hi; rewrite Hq in Hh; simpl in Hh; try discriminate Hh ]
       end).
  - (* fork deps *)
    pose proof Heqp0 as Hfd. apply fork_deps_spec in Hfd. simpl in Hfd. destruct Hfd as [news (Ha & _ & Ht & _)].
    assert (E : pj dq (set_act s0 a (set_kids (set_holds (set_pc x PDepsJoin) false) l (length (ctxs (release c s)))))
                = upd (pj dq s) a (dq (set_kids (set_holds (set_pc x PDepsJoin) false) l (length (ctxs (release c s))))) ++ map dq news).
    { unfold pj at 1. rewrite acts_set_act, map_upd, Ha, release_acts, map_app. rewrite upd_app_l by exact Hlt. reflexivity. }
    pose proof (dq_at _ _ _ _ _ _ E Hlt Hx') as Hn. unfold dq in Hn. simpl in Hn.
    pose proof (f_equal (fun t => snd t) Hn) as Hdx. simpl in Hdx. constructor.
    + exists []. split; [rewrite trace_set_act, Ht, release_trace, app_nil_r; reflexivity|constructor].
    + left. exact Hdx.
    + intros i0 n0 Hi. rewrite Hpc in Hi. discriminate.
  - (* call *)
    match goal with _ : get_act (set_act ?S0 a ?X) a = Some x' |- _ =>
      assert (E : pj dq (set_act S0 a X) = upd (pj dq s) a (dq X) ++ [dq (new_act (a_path x ++ [length (t_deps (get_task p (a_task x))) + i]) (c_task c1) (eval_var (a_var x) (c_var c1)) KCall (Some a) (a_ectx x))]) end.
    { unfold pj at 1. rewrite acts_set_act, map_upd. simpl. rewrite release_acts, map_app. rewrite upd_app_l by exact Hlt. reflexivity. }
    pose proof (dq_at _ _ _ _ _ _ E Hlt Hx') as Hn. unfold dq in Hn. simpl in Hn.
    pose proof (f_equal (fun t => snd t) Hn) as Hdx. simpl in Hdx. constructor.
    + exists []. split; [rewrite trace_set_act; simpl; rewrite release_trace, app_nil_r; reflexivity|constructor].
    + left. exact Hdx.
    + intros i0 n0 Hi. rewrite Hpc in Hi. discriminate.
  - (* own command fails: deferredExitCode := its exit status *)
    right. right. simpl in Heqo0. injection Heqo0 as <-. rewrite Hdx. exists i.
    split; [exact Hpc|]. split; [unfold failing_tk; rewrite Heqo, Heqb1; reflexivity|].
    split; [unfold exit_of_tk; rewrite Heqo; reflexivity|reflexivity].
  - injection Hh as <-. injection Hi as <-. exists i.
    split; [exact Hpc|]. split; [unfold failing_tk; rewrite Heqo, Heqb1; reflexivity|].
    split; [unfold exit_of_tk; rewrite Heqo; reflexivity|reflexivity].
  - (* a callee failed with an exit status *)
    right. left. exists i, n. destruct e; try discriminate. simpl in Heqo. injection Heqo as ->.
    split; [exact Hpc|exact Hdx].
  - (* deferred call *)
    match goal with _ : get_act (set_act ?S0 a ?X) a = Some x' |- _ =>
      assert (E : pj dq (set_act S0 a X) = upd (pj dq s) a (dq X) ++ [dq (new_act (a_path x ++ [length (t_deps (get_task p (a_task x))) + n]) (c_task c1) (eval_var (a_var x) (c_var c1)) KDefer (Some a) background_ctx)]) end.
    { unfold pj at 1. rewrite acts_set_act, map_upd. simpl. rewrite release_acts, map_app. rewrite upd_app_l by exact Hlt. reflexivity. }
    pose proof (dq_at _ _ _ _ _ _ E Hlt Hx') as Hn. unfold dq in Hn. simpl in Hn.
    pose proof (f_equal (fun t => snd t) Hn) as Hdx. simpl in Hdx. constructor.
    + exists []. split; [rewrite trace_set_act; simpl; rewrite release_trace, app_nil_r; reflexivity|constructor].
    + left. exact Hdx.
    + intros i0 n0 Hi. rewrite Hpc in Hi. discriminate.
Qed.


(* ------------------------------------------------------------------ *)
(* (ii) EXIT_CODE is never invented                                    *)

Definition in_codes (p : prog) (c : cfg) (tr : list event) (n : nat) : bool :=
  existsb (Nat.eqb n) (failing_codes p c tr).
Definition okc (p : prog) (c : cfg) (tr : list event) (n : nat) : bool := Nat.eqb n 0 || in_codes p c tr n.

(* an exit status held as an error value is the exit status of a command that failed in this run *)
Definition Pex (p : prog) (c : cfg) (tr : list event) (e : err) : bool :=
  match e with EExit n => in_codes p c tr n | _ => true end.

Lemma in_codes_app p c tr evs n : in_codes p c tr n = true -> in_codes p c (tr ++ evs) n = true.
Proof. unfold in_codes, failing_codes. rewrite flat_map_app, existsb_app. intros ->. reflexivity. Qed.

Lemma okc_app p c tr evs n : okc p c tr n = true -> okc p c (tr ++ evs) n = true.
Proof.
  unfold okc. intros H. apply orb_true_iff in H. destruct H as [H|H]; [rewrite H; reflexivity|].
  rewrite (in_codes_app _ _ _ evs _ H). apply orb_true_r.
Qed.

Lemma Pex_app p c tr evs e : Pex p c tr e = true -> Pex p c (tr ++ evs) e = true.
Proof. destruct e; simpl; auto. apply in_codes_app. Qed.

Lemma inv_P_weaken (P Q : err -> bool) s : (forall e, P e = true -> Q e = true) -> inv_P P s -> inv_P Q s.
Proof.
  intros HPQ [H1 H2 H3]. constructor.
  - intros j y Hy. apply pc_P_holds. intros e He. apply HPQ. exact (proj1 (pc_P_holds _ _) (H1 j y Hy) e He).
  - intros j y e Hy He. apply HPQ. eauto.
  - intros e He. apply HPQ. eauto.
Qed.

Lemma probe_fails_code p c s s' a x n :
  inv_ids p c s -> get_act s a = Some x -> probe_fails p s s' x n -> in_codes p c (trace s') n = true.
Proof.
  intros Hids Hx (i & Hpc & Hf & He & Htr). rewrite Htr. unfold in_codes, failing_codes.
  rewrite flat_map_app, existsb_app. simpl.
  change (failing_cmd p c (a_path x) i) with (failing_tk (get_task p (task_of p c (a_path x))) i).
  unfold exit_of. rewrite (task_of_get p c s a x Hids Hx), Hf. simpl.
  fold (exit_of_tk (get_task p (a_task x)) i). rewrite He, Nat.eqb_refl. simpl. apply orb_true_r.
Qed.

Record invx (p : prog) (c : cfg) (s : state) : Prop := {
  ix_P : inv_P (Pex p c (trace s)) s;
  ix_D : forall j y, get_act s j = Some y -> okc p c (trace s) (a_dexit y) = true;
  ix_T : Forall (fun e => match e with EvDProbeBegin _ _ code => okc p c (trace s) code = true | _ => True end) (trace s)
}.

Lemma entry_dexit X p c s j y : inv_defer X p c s -> get_act s j = Some y -> a_pc y = PEntry -> a_dexit y = 0.
Proof.
  intros Hinv Hy Hpc. pose proof (id_loc _ _ _ _ Hinv) as Hloc. rewrite Forall_forall in Hloc.
  assert (Hin : In (dq y) (pj dq s)).
  { unfold pj. apply in_map. unfold get_act in Hy. eapply nth_error_In; eauto. }
  specialize (Hloc (dq y) Hin). unfold dq, dq_ok in Hloc. rewrite Hpc in Hloc. simpl in Hloc. apply Hloc.
Qed.

Lemma step_invx X p c s a s' :
  inv_tree p s -> inv_ids p c s -> inv_defer X p c s' -> invx p c s -> step p c s a = Some s' -> invx p c s'.
Proof.
  intros Htree Hids Hdef' [HP HD HT] H.
  destruct (step_some_act _ _ _ _ _ H) as [x Hx]. destruct (step_self p c s a s' x H Hx) as [x' Hx'].
  pose proof (step_dxview p c s a s' x x' Hx H Hx') as V.
  destruct (dv_trace _ _ _ _ _ V) as [evs [Htr Hevs]].
  assert (HP0 : inv_P (Pex p c (trace s')) s).
  { eapply inv_P_weaken; [|exact HP]. intros e. rewrite Htr. apply Pex_app. }
  constructor.
  - apply (step_inv_P _ p c s a s' x' Htree HP0 H Hx').
    apply pc_P_holds. intros e He.
    destruct e as [n| | | |]; try reflexivity.
    destruct (step_origin p c s a s' x x' Hx H Hx' _ He) as [Hk|[(e0 & Hq & Hw)|[(Hq & e0 & Hg & Hw)|[(i & k & Hq & Hr)|[(o & Hq & Hr)|Hp]]]]].
    + exact (proj1 (pc_P_holds _ _) (ip_pc _ _ HP0 a x Hx) _ Hk).
    + unfold wrap_cmd_error in Hw. destruct (indirect x); [|discriminate]. subst e0.
      apply (proj1 (pc_P_holds _ _) (ip_pc _ _ HP0 a x Hx)). rewrite Hq. reflexivity.
    + unfold wrap_deps_error in Hw. destruct (indirect x).
      * subst e0. exact (ip_gerr _ _ HP0 a x _ Hx Hg).
      * destruct (is_exit e0) eqn:Ee; [discriminate|]. subst e0. discriminate.
    + destruct (act_result_holds s k _ Hr) as [y [Hy Hh]]. exact (proj1 (pc_P_holds _ _) (ip_pc _ _ HP0 k y Hy) _ Hh).
    + destruct (exec_result_holds s o _ Hr) as [y [Hy Hh]]. exact (proj1 (pc_P_holds _ _) (ip_pc _ _ HP0 o y Hy) _ Hh).
    + simpl in Hp. destruct Hp as (i & Hpc & _). simpl.
      apply (probe_fails_code p c s s' a x n Hids Hx). exact (dv_born _ _ _ _ _ V i n Hpc He).
  - intros j y' Hy'. destruct (get_act s j) as [y|] eqn:Hy.
    + destruct (Nat.eq_dec j a) as [->|Hja].
      * rewrite Hx in Hy. injection Hy as <-. rewrite Hx' in Hy'. injection Hy' as <-.
        destruct (dv_dexit _ _ _ _ _ V) as [->|[(i & n & Hpc & ->)|Hpf]].
        -- rewrite Htr. apply okc_app. exact (HD a x Hx).
        -- pose proof (ip_pc _ _ HP0 a x Hx) as Hq. rewrite Hpc in Hq. simpl in Hq. unfold okc. rewrite Hq. apply orb_true_r.
        -- unfold okc. rewrite (probe_fails_code p c s s' a x _ Hids Hx Hpf). apply orb_true_r.
      * destruct (step_other p c s a s' j y H Hja Hy) as [y'' [Hy'' Hng]]. rewrite Hy' in Hy''. injection Hy'' as <-.
        assert (Hd : a_dexit y' = a_dexit y) by (unfold noG in Hng; congruence).
        rewrite Hd, Htr. apply okc_app. exact (HD j y Hy).
    + assert (Hge : length (acts s) <= j) by (apply nth_error_None; exact Hy).
      destruct (step_new p c s a s' j y' H Hge Hy') as (Hpc & _).
      rewrite (entry_dexit X p c s' j y' Hdef' Hy' Hpc). reflexivity.
  - rewrite Htr. apply Forall_app. split.
    + eapply Forall_impl; [|exact HT]. intros e He. destruct e; auto. apply okc_app. exact He.
    + eapply Forall_impl; [|exact Hevs]. intros e He. destruct e; auto. simpl in He. subst code.
      apply okc_app. exact (HD a x Hx).
Qed.

Lemma invx_init p c : invx p c (init_state p).
Proof.
  constructor; [apply inv_P_init| |constructor].
  intros j y Hy. unfold get_act in Hy. simpl in Hy. destruct j; discriminate.
Qed.

Lemma start_root_invx p c s k s' : invx p c s -> start_root p c s k = Some s' -> invx p c s'.
Proof.
  intros [HP HD HT] H. pose proof (start_root_trace _ _ _ _ _ H) as Htr.
  constructor; rewrite Htr.
  - eapply start_root_inv_P; eauto.
  - intros j y Hy. unfold start_root in H.
    destruct (nth_error (cf_roots c) k) as [cl|]; [|discriminate].
    destruct (negb (precheck_ok p c) || root_started s k); [discriminate|].
    match type of H with (if ?b then _ else _) = _ => destruct b end; [|discriminate].
    injection H as <-. unfold get_act, add_act in Hy. simpl in Hy.
    destruct (Nat.lt_ge_cases j (length (acts s))) as [Hlt|Hge].
    + rewrite nth_error_app1 in Hy by exact Hlt. exact (HD j y Hy).
    + rewrite nth_error_app2 in Hy by exact Hge. destruct (j - length (acts s)) as [|[|m]]; simpl in Hy; try discriminate.
      injection Hy as <-. reflexivity.
  - exact HT.
Qed.

Lemma run_invx p c sched : invx p c (run p c sched).
Proof.
  induction sched as [|ch sched IH] using rev_ind; [apply invx_init|].
  pose proof (run_inv_defer p c (sched ++ [ch])) as Hdef. rewrite run_snoc in *.
  destruct (run_inv_tree p c sched) as [Ht _]. pose proof (ip_ids _ _ _ (run_inv_phase p c sched)) as Hids.
  destruct ch as [a|k]; simpl in *.
  - destruct (step p c (run p c sched) a) eqn:E; [|exact IH]. eapply step_invx; eauto.
  - destruct (start_root p c (run p c sched) k) eqn:E; [|exact IH]. eapply start_root_invx; eauto.
Qed.

(* every EXIT_CODE ever printed is 0 or the exit status of a command that failed in this run *)
Theorem exit_codes_not_invented p c sched :
  Forall (fun e => match e with
                   | EvDProbeBegin _ _ code => okc p c (trace (run p c sched)) code = true
                   | _ => True end) (trace (run p c sched)).
Proof. exact (ix_T _ _ _ (run_invx p c sched)). Qed.

(* ------------------------------------------------------------------ *)
(* (i) a defer entry placed after the command that failed never runs    *)

Definition postloop (q : pc) : bool :=
  match q with
  | PFail _ | PDefers _ | PDRun _ _ | PDProbe _ _ | PDCallWait _ _ | PDCallReacq _ | PEnd _ | PRelease _ | PDone _ => true
  | _ => false
  end.

(* once the own failing command f has ended: the loop is over, and everything registered or
   announced lies before f *)
Definition after_fail (q : pc) (ds : list nat) (v : InvDefer.view) : Prop :=
  match v_fail v with
  | Some f => postloop q = true /\ (forall d, In d ds -> d < f) /\ (forall i, In i (v_ann v) -> i < f)
  | None => True
  end.

Definition af_ok (p : prog) (tr : list event) (y : aid * nat * pc * list nat * nat) : Prop :=
  let '(a, t, q, ds, dx) := y in after_fail q ds (vfold (get_task p t) a tr).

Definition inv_af (p : prog) (s : state) : Prop := Forall (af_ok p (trace s)) (pj dq s).

Lemma af_move X p c s s' a x q' ds' dx' news evs :
  inv_defer X p c s -> inv_af p s ->
  inv_phase p c s' ->
  get_act s a = Some x ->
  pj dq s' = upd (pj dq s) a (a_path x, a_task x, q', ds', dx') ++ map dq news ->
  Forall (fun y => a_pc y = PEntry /\ a_defers y = [] /\ a_dexit y = 0) news ->
  trace s' = trace s ++ evs ->
  Forall (fun e => ev_act e = Some (a_path x) \/ ev_act e = None) evs ->
  (forall v, v = vfold (get_task p (a_task x)) (a_path x) (trace s) ->
             after_fail (a_pc x) (a_defers x) v ->
             after_fail q' ds' (fold_left (vstep (get_task p (a_task x)) (a_path x)) evs v)) ->
  inv_af p s'.
Proof.
  intros [Hph Hev _] Hloc Hph' Hx Hpq Hnews Htr Hevs Hsim. unfold inv_af in *.
  pose proof (pj_nth dq _ _ _ Hx) as Hn.
  assert (Hlt : a < length (pj dq s)) by (apply nth_error_Some; rewrite Hn; discriminate).
  assert (Hpaths' : map a_path (acts s') = map a_path (acts s) ++ map a_path news).
  { rewrite <- (paths_of_dq s'), Hpq, map_app, map_upd. simpl.
    rewrite upd_same by (rewrite nth_error_map, Hn; reflexivity).
    rewrite paths_of_dq, map_map. reflexivity. }
  assert (Hnd' : NoDup (map a_path (acts s) ++ map a_path news)).
  { rewrite <- Hpaths', <- paths_of_cs. apply (ip_uniq _ _ _ Hph'). }
  assert (Hnd : NoDup (map a_path (acts s))) by (rewrite <- paths_of_cs; apply (ip_uniq _ _ _ Hph)).
  assert (Hxin : In (a_path x) (map a_path (acts s))).
  { apply in_map. unfold get_act in Hx. eapply nth_error_In; eauto. }
  rewrite Hpq, Htr. apply Forall_app. split.
  - apply Forall_forall. intros y Hy. apply In_nth_error in Hy. destruct Hy as [j Hj].
    assert (Hjl : j < length (pj dq s)).
    { rewrite <- (upd_length (pj dq s) a (a_path x, a_task x, q', ds', dx')). apply nth_error_Some. rewrite Hj. discriminate. }
    rewrite Forall_forall in Hloc.
    destruct (Nat.eq_dec a j) as [<-|Hne].
    + rewrite (nth_error_upd_same (pj dq s) a _ (dq x) Hn) in Hj. injection Hj as <-.
      unfold af_ok. rewrite vfold_app. apply Hsim; [reflexivity|].
      apply (Hloc (dq x) (nth_error_In _ _ Hn)).
    + rewrite nth_error_upd_other in Hj by exact Hne.
      assert (Hpne : fst (fst (fst (fst y))) <> a_path x).
      { intros Heq. apply Hne.
        apply (NoDup_map_nth (fun z : aid * nat * pc * list nat * nat => fst (fst (fst (fst z)))) (pj dq s) a j (dq x) y); auto.
        rewrite paths_of_dq. exact Hnd. }
      specialize (Hloc y (nth_error_In _ _ Hj)). destruct y as [[[[pa t] q] ds] dx]. simpl in Hpne.
      unfold af_ok in *. rewrite vfold_app, vfold_quiet; [exact Hloc|].
      eapply Forall_impl; [|exact Hevs]. intros e [He|He]; rewrite He; congruence.
  - apply Forall_forall. intros y Hy. apply in_map_iff in Hy. destruct Hy as [n [<- Hn']].
    rewrite Forall_forall in Hnews. destruct (Hnews n Hn') as (Hq & Hd & Hdx). unfold dq, af_ok. rewrite Hq, Hd.
    assert (Hfresh : ~ In (a_path n) (map a_path (acts s))).
    { intros Hin. apply (NoDup_app_disjoint _ _ (a_path n) Hnd' Hin). apply in_map. exact Hn'. }
    assert (Hv : vfold (get_task p (a_task n)) (a_path n) (trace s ++ evs) = v0).
    { unfold vfold. apply vfold_quiet. apply Forall_app. split.
      - eapply Forall_impl; [|exact Hev]. intros e He Heq. unfold ev_in in He. rewrite Heq in He. exact (Hfresh He).
      - eapply Forall_impl; [|exact Hevs]. intros e [He|He] Heq; rewrite He in Heq; [|discriminate].
        injection Heq as Heq. apply Hfresh. rewrite <- Heq. exact Hxin. }
    rewrite Hv. exact I.
Qed.

Ltac af_setup Hdef Hinv Hph' Hx :=
  eapply af_move with (news := []);
  [ exact Hdef | exact Hinv | exact Hph' | exact Hx
  | autorewrite with dqdb; unfold dq; simpl; rewrite ?app_nil_r; reflexivity
  | constructor
  | autorewrite with sigdb; simpl; rewrite <- ?app_assoc; first [reflexivity | symmetry; apply app_nil_r]
  | repeat (first [apply Forall_nil | apply Forall_cons; [first [left; reflexivity | right; reflexivity]|]])
  | ].

Lemma regs_lt tk n d : In d (regs tk n) -> d < n.
Proof. unfold regs. intros H. apply filter_In in H. destruct H as [H _]. apply in_rev in H. apply in_seq in H. lia. Qed.

Lemma regs_isdefer tk n d : In d (regs tk n) -> isdefer tk d = true.
Proof. unfold regs. intros H. apply filter_In in H. apply H. Qed.

Lemma probe_after_fail (X : Prop) tk i ds dx (v : InvDefer.view) q' :
  local X tk (PProbe i) ds dx v -> after_fail (PProbe i) ds v ->
  (failing_tk tk i = true -> postloop q' = true) ->
  after_fail q' ds
    (if failing_tk tk i
     then {| v_ann := v_ann v; v_prb := v_prb v; v_codes := v_codes v; v_la := v_la v; v_fin := v_fin v;
             v_fail := match v_fail v with Some n => Some n | None => Some i end |}
     else v).
Proof.
  intros Hloc Hl Hq. unfold after_fail in Hl.
  destruct (v_fail v) as [f|] eqn:Ef; [destruct Hl as [H1 _]; discriminate|].
  destruct (failing_tk tk i) eqn:Efl; [|unfold after_fail; rewrite Ef; exact I].
  unfold after_fail. simpl. simpl in Hloc.
  destruct Hloc as [(Hds & _ & _ & Ha & _) Hnd]. split; [apply Hq; reflexivity|]. split.
  - intros d Hd. rewrite Hds in Hd. pose proof (regs_lt _ _ _ Hd). pose proof (regs_isdefer _ _ _ Hd) as Hi.
    assert (d <> i) by (intros ->; congruence). lia.
  - rewrite Ha. intros j [].
Qed.

Lemma pop_after_fail q q' ds (v : InvDefer.view) :
  after_fail q ds v -> postloop q = true -> postloop q' = true -> after_fail q' (tl ds) v.
Proof.
  unfold after_fail. destruct (v_fail v) as [f|]; [|auto]. intros (_ & H2 & H3) _ Hq'.
  split; [exact Hq'|]. split; [|exact H3]. intros d Hd. apply H2. destruct ds; [contradiction|right; exact Hd].
Qed.

Lemma step_inv_af X p c s a s' :
  inv_defer X p c s -> inv_af p s -> step p c s a = Some s' -> inv_af p s'.
Proof.
  intros Hdef Hinv H.
  pose proof (step_inv_phase p c s a s' (id_ph _ _ _ _ Hdef) H) as Hph'.
  destruct (get_act s a) as [x|] eqn:Hx; [|unfold step in H; rewrite Hx in H; discriminate].
  pose proof (pj_lt dq _ _ _ Hx) as Hlt.
  assert (Hloc : local (X (a_path x) (trace s)) (get_task p (a_task x)) (a_pc x) (a_defers x) (a_dexit x)
                       (vfold (get_task p (a_task x)) (a_path x) (trace s))).
  { pose proof (id_loc _ _ _ _ Hdef) as Hl. rewrite Forall_forall in Hl.
    apply (Hl (dq x)). unfold pj. apply in_map. unfold get_act in Hx. eapply nth_error_In; eauto. }
  step_cases H Hx;
    try (af_setup Hdef Hinv Hph' Hx; rewrite ?Hpc;
         let v := fresh "v" in let Hv := fresh "Hv" in let Hl := fresh "Hl" in
         intros v Hv Hl; cbn [fold_left vstep]; rewrite ?aid_eqb_refl; cbn [andb];
         try solve [unfold after_fail in *; simpl;
                    destruct (v_fail v) as [f|]; [|exact I];
                    destruct Hl as (H1 & H2 & H3); simpl in H1; try discriminate H1;
                    repeat split; auto]).
  - (* fork deps *)
    pose proof (fork_deps_spec p _ _ _ _ _ _ _ _ Heqp0) as Hspec.
    pose proof (fork_deps_dexit p _ _ _ _ _ _ _ _ Heqp0) as Hdx.
    destruct Hspec as [news (Ha & _ & Ht & _ & _ & _ & _ & _ & _ & _ & Hf & _)].
    destruct Hdx as [news' [Ha' Hf']]. simpl in Ha, Ha', Ht. rewrite Ha in Ha'. apply app_inv_head in Ha'. subst news'.
    eapply af_move with (a := a) (news := news) (evs := []);
      [exact Hdef|exact Hinv|exact Hph'|exact Hx| | | |constructor| ].
    + unfold pj at 1. rewrite acts_set_act, map_upd, Ha, release_acts, map_app.
      rewrite upd_app_l by exact Hlt. reflexivity.
    + apply Forall_forall. intros y Hy. rewrite Forall_forall in Hf, Hf'.
      destruct (Hf y Hy) as (H1 & _ & _ & _ & H5 & _). split; [exact H1|]. split; [exact H5|exact (Hf' y Hy)].
    + rewrite trace_set_act, Ht, release_trace. symmetry. apply app_nil_r.
    + rewrite Hpc. intros v Hv Hl. simpl. unfold after_fail in *. destruct (v_fail v); [|exact I].
      destruct Hl as [H1 _]. discriminate.
  - (* call *)
    eapply af_move with (a := a) (news := [_]) (evs := []);
      [exact Hdef|exact Hinv|exact Hph'|exact Hx| | | |constructor| ].
    + unfold pj at 1. rewrite acts_set_act, map_upd. simpl. rewrite release_acts, map_app.
      rewrite upd_app_l by exact Hlt. reflexivity.
    + repeat constructor.
    + rewrite trace_set_act. simpl. rewrite release_trace. symmetry. apply app_nil_r.
    + rewrite Hpc. intros v Hv Hl. simpl. unfold after_fail in *. destruct (v_fail v); [|exact I].
      destruct Hl as [H1 _]. discriminate.
  - rewrite Hv in *. eapply probe_after_fail; [exact Hloc|exact Hl|].
    intros Hf. unfold failing_tk in Hf. rewrite Heqo in Hf. discriminate.
  - rewrite Hv in *. eapply probe_after_fail; [exact Hloc|exact Hl|reflexivity].
  - rewrite Hv in *. eapply probe_after_fail; [exact Hloc|exact Hl|].
    intros Hf. unfold failing_tk in Hf. rewrite Heqo in Hf. discriminate.
  - rewrite Hv in *. eapply probe_after_fail; [exact Hloc|exact Hl|].
    intros Hf. unfold failing_tk in Hf. rewrite Heqo, Heqb1 in Hf. discriminate.
  - rewrite Hv in *. eapply probe_after_fail; [exact Hloc|exact Hl|reflexivity].
  - eapply pop_after_fail; [exact Hl|reflexivity|reflexivity].
  - eapply pop_after_fail; [exact Hl|reflexivity|reflexivity].
  - (* announce the popped DeferShell entry *)
    unfold after_fail in *. simpl. destruct (v_fail v) as [f|]; [|exact I].
    destruct Hl as (_ & H2 & H3). split; [reflexivity|]. split.
    + intros d Hd. apply H2. rewrite Heql in *. right. exact Hd.
    + intros j Hj. apply in_app_or in Hj. destruct Hj as [Hj|[<-|[]]]; [exact (H3 j Hj)|].
      apply H2. rewrite Heql. left. reflexivity.
  - (* deferred call *)
    eapply af_move with (a := a) (news := [_]) (evs := []);
      [exact Hdef|exact Hinv|exact Hph'|exact Hx| | | |constructor| ].
    + unfold pj at 1. rewrite acts_set_act, map_upd. simpl. rewrite release_acts, map_app.
      rewrite upd_app_l by exact Hlt. reflexivity.
    + repeat constructor.
    + rewrite trace_set_act. simpl. rewrite release_trace. symmetry. apply app_nil_r.
    + rewrite Hpc. intros v Hv Hl. simpl. eapply pop_after_fail; [exact Hl|reflexivity|reflexivity].
  - eapply pop_after_fail; [exact Hl|reflexivity|reflexivity].
Qed.


Lemma inv_af_init p : inv_af p (init_state p).
Proof. constructor. Qed.

Lemma start_root_inv_af X p c s k s' :
  inv_defer X p c s -> inv_phase p c s' -> inv_af p s -> start_root p c s k = Some s' -> inv_af p s'.
Proof.
  intros Hdef Hph' Hinv H. pose proof (id_ev _ _ _ _ Hdef) as Hev. unfold inv_af in *. unfold start_root in H.
  destruct (nth_error (cf_roots c) k) as [cl|]; [|discriminate].
  destruct (negb (precheck_ok p c) || root_started s k); [discriminate|].
  match type of H with (if ?b then _ else _) = _ => destruct b end; [|discriminate].
  injection H as <-. unfold add_act in *. simpl in *. unfold pj. simpl. rewrite map_app. apply Forall_app.
  split; [exact Hinv|]. constructor; [|constructor]. unfold dq, af_ok. simpl.
  assert (Hfresh : ~ In [k] (map a_path (acts s))).
  { destruct (ip_uniq _ _ _ Hph') as [Hnd _]. rewrite paths_of_cs in Hnd. simpl in Hnd.
    rewrite map_app in Hnd. simpl in Hnd. intros Hin.
    apply (NoDup_app_disjoint _ _ [k] Hnd Hin). left. reflexivity. }
  assert (Hv : vfold (get_task p (c_task cl)) [k] (trace s) = v0).
  { unfold vfold. apply vfold_quiet. eapply Forall_impl; [|exact Hev].
    intros e He Heq. unfold ev_in in He. rewrite Heq in He. exact (Hfresh He). }
  rewrite Hv. exact I.
Qed.

Lemma run_inv_af p c sched : inv_af p (run p c sched).
Proof.
  induction sched as [|ch sched IH] using rev_ind; [apply inv_af_init|].
  pose proof (run_inv_phase p c (sched ++ [ch])) as Hph'. rewrite run_snoc in *.
  pose proof (run_inv_defer p c sched) as Hdef.
  destruct ch as [a|k]; simpl in *.
  - destruct (step p c (run p c sched) a) eqn:E; [|exact IH]. eapply step_inv_af; eauto.
  - destruct (start_root p c (run p c sched) k) eqn:E; [|exact IH]. eapply start_root_inv_af; eauto.
Qed.

(* ------------------------------------------------------------------ *)
(* mon_C14x                                                            *)

Lemma own_failure_idx_vfold p c a tr :
  own_failure_idx p c a tr = v_fail (vfold (get_task p (task_of p c a)) a tr).
Proof.
  unfold own_failure_idx. fold (own_fail_event p c a).
  pose proof (find_vfold p c a tr) as H.
  destruct (find (own_fail_event p c a) tr) as [e0|].
  - destruct e0; try contradiction. destruct H as [H1 _]. symmetry. exact H1.
  - symmetry. exact H.
Qed.

Theorem defer_x_all_schedules p c sched : mon_C14x p c (trace (run p c sched)) = true.
Proof.
  set (s := run p c sched). unfold mon_C14x. apply forallb_forall. intros a Ha.
  apply andb_true_iff. split.
  - (* (i) *)
    destruct (started_act _ _ _ _ _ (run_inv_defer p c sched) Ha) as (x & Hx & Hp & Ht & _).
    pose proof (run_inv_af p c sched) as Haf. unfold inv_af in Haf. rewrite Forall_forall in Haf.
    specialize (Haf (dq x)). unfold dq, af_ok in Haf. rewrite Hp in Haf.
    assert (Hin : In (a_path x, a_task x, a_pc x, a_defers x, a_dexit x) (pj dq (run p c sched))).
    { unfold pj. apply (in_map dq). exact Hx. }
    rewrite Hp in Hin. specialize (Haf Hin). unfold after_fail in Haf.
    rewrite own_failure_idx_vfold, (dann_vfold (get_task p (task_of p c a))), Ht.
    destruct (v_fail _) as [f|]; [|reflexivity]. destruct Haf as (_ & _ & H3).
    apply forallb_forall. intros i Hi. apply Nat.ltb_lt. exact (H3 i Hi).
  - (* (ii) *)
    pose proof (exit_codes_not_invented p c sched) as HT. fold s in HT.
    apply forallb_forall. intros e He. rewrite Forall_forall in HT. specialize (HT e He).
    destruct e; try reflexivity. destruct (aid_eqb a a0); [|reflexivity].
    destruct (own_failure p c a (trace s)); [reflexivity|]. exact HT.
Qed.

Lemma mon_C14x_observable p c tr : mon_C14x p c (filter observable tr) = mon_C14x p c tr.
Proof.
  unfold mon_C14x. unfold started_acts at 1. rewrite flat_map_obs by reflexivity. fold (started_acts tr).
  apply forallb_ext'. intros a.
  unfold own_failure_idx, own_failure, failing_codes, dann_of.
  rewrite !find_obs by reflexivity. rewrite !flat_map_obs by reflexivity. f_equal.
  apply forallb_obs. reflexivity.
Qed.

Theorem defer_x_observable p c sched : mon_C14x p c (filter observable (trace (run p c sched))) = true.
Proof. rewrite mon_C14x_observable. apply defer_x_all_schedules. Qed.
