(* Model A: the concurrent executor of go-task (task.go: Run, RunTask, runDeps,
   runCommand, runDeferred, startExecution; concurrency.go; hash.go).

   A small-step machine.  Every invocation of RunTask is an *activation*; an
   activation takes one micro-step at a time (at most one operation on shared
   state or one emitted line per step); the scheduler is an arbitrary list of
   activation ids, so "for every interleaving" is "for every list nat".
   Only executable definitions here; proofs are in Exec/Inv*.v. *)
From Coq Require Import List Arith Bool Lia.
Import ListNotations.

(* ------------------------------------------------------------------ *)
(* Programs                                                            *)

Inductive runmode := Always | Once | WhenChanged.

(* the variable value handed to a callee: a constant, or the caller's own *)
Inductive varexp := VConst (n : nat) | VInherit.

Record call := { c_task : nat; c_var : varexp }.

Inductive cmd :=
| Shell (exit : nat) (ign : bool)      (* probe, then exit status; ign = ignore_error on the command *)
| CallC (c : call)                     (* task: call *)
| DeferShell (exit : nat)              (* defer: <probe printing EXIT_CODE> *)
| DeferCall (c : call).                (* defer: {task: ...} *)

Record guards := {
  g_platform : bool;          (* platforms include the current one *)
  g_required : bool;          (* required vars present *)
  g_enum : bool;              (* required vars within their enum *)
  g_precond : option bool;    (* None: no preconditions; Some b: they all succeed iff b *)
  g_prompt : bool;            (* task has a prompt *)
  g_uptodate : bool           (* fingerprint says up to date (oracle; model B decides it) *)
}.

Record task := {
  t_deps : list call;
  t_cmds : list cmd;
  t_run : runmode;
  t_ignore : bool;            (* ignore_error on the task *)
  t_internal : bool;
  t_g : guards
}.

Definition prog := list task.

Record cfg := {
  cf_N : option nat;          (* --concurrency (None/Some 0 = unlimited) *)
  cf_parallel : bool;
  cf_force : bool;
  cf_forceall : bool;
  cf_yes : bool;              (* --yes; without it a prompt has no terminal and cancels the task *)
  cf_roots : list call;       (* the calls on the command line (var must be VConst) *)
  cf_maxcall : nat            (* MaximumTaskCall *)
}.

Definition dummy_guards := {| g_platform := true; g_required := true; g_enum := true;
                              g_precond := None; g_prompt := false; g_uptodate := false |}.
Definition dummy_task := {| t_deps := []; t_cmds := []; t_run := Always; t_ignore := false; t_internal := false; t_g := dummy_guards |}.
Definition get_task (p : prog) (t : nat) : task := nth t p dummy_task.

(* ------------------------------------------------------------------ *)
(* Errors and results                                                  *)

Inductive err :=
| EExit (n : nat)          (* raw exit status of a command *)
| ETaskRun (n : option nat)(* TaskRunError wrapping an exit status (Some n) or another error (None) *)
| ECancel                  (* context canceled *)
| EPrecond                 (* precondition not met *)
| ECode (c : nat).         (* typed TaskError with that exit code: 204 205 206 207 *)

Inductive res := ROk | RErr (e : err).

Definition is_exit (e : err) : option nat := match e with EExit n => Some n | _ => None end.

(* exit status of the CLI for the error Run returned (cmd/task/task.go: main) *)
Definition exit_status (exit_code_flag : bool) (r : res) : nat :=
  match r with
  | ROk => 0
  | RErr (ETaskRun (Some n)) => if exit_code_flag then n else 201
  | RErr (ETaskRun None) => 201
  | RErr (ECode c) => c
  | RErr _ => 1
  end.

(* ------------------------------------------------------------------ *)
(* Dedup keys (hash.go / internal/hash)                                *)

Inductive key := KOnce (t : nat) | KWhen (t v : nat).

Definition key_eqb (a b : key) : bool :=
  match a, b with
  | KOnce t, KOnce t' => Nat.eqb t t'
  | KWhen t v, KWhen t' v' => Nat.eqb t t' && Nat.eqb v v'
  | _, _ => false
  end.

Definition key_of (p : prog) (t v : nat) : option key :=
  match t_run (get_task p t) with
  | Always => None
  | Once => Some (KOnce t)
  | WhenChanged => Some (KWhen t v)
  end.

(* ------------------------------------------------------------------ *)
(* Events: exactly what the harness can observe on the real Executor    *)

Definition aid := list nat.       (* call path of an activation, root first *)

Inductive event :=
| EvStarted (a : aid) (t : nat)            (* task: "x" started *)
| EvSkipping (k : key) (a : aid)           (* task: skipping execution of task: <key>   (a: who, not printed) *)
| EvAnnounce (a : aid) (i : nat)           (* task: [x] <cmd i>        command i is about to run *)
| EvProbeBegin (a : aid) (i : nat) (v : nat) (* the command's probe write arrived: it is executing; v = variable it sees *)
| EvProbeEnd (a : aid) (i : nat)           (* the probe write was released *)
| EvFinished (a : aid)                     (* task: "x" finished *)
| EvUpToDate (a : aid)                     (* task: Task "x" is up to date *)
| EvPlatformSkip (a : aid)                 (* task: "x" not for current platform - ignored *)
| EvDAnnounce (a : aid) (i : nat)          (* deferred command i announced *)
| EvDProbeBegin (a : aid) (i : nat) (code : nat)   (* deferred probe arrived, printing EXIT_CODE (0 = unset) *)
| EvDProbeEnd (a : aid) (i : nat)
| EvEnd (a : aid) (r : res).               (* ghost: RunTask of a returned r (not observable except for roots) *)

(* ------------------------------------------------------------------ *)
(* Machine state                                                       *)

Inductive kind := KRoot | KDep | KCall | KDefer.

Inductive pc :=
| PEntry                        (* guards + call counter *)
| PPlatformEnd                  (* printed "not for current platform"; returns nil *)
| PAcquire                      (* wants a slot *)
| PDedup                        (* holds a slot; startExecution lookup *)
| PWRelease (o : nat)           (* waiter on owner o: gives its slot back *)
| PWWait (o : nat)              (* waiter: blocked until o's execution completed *)
| PWReacq (r : res)             (* waiter: takes a slot again, then RunTask returns r *)
| PDepsFork                     (* after "started": release slot, fork deps *)
| PDepsJoin                     (* errgroup.Wait *)
| PDepsReacq                    (* reacquire after deps *)
| PBlock                        (* ctx check, preconditions, fingerprint *)
| PPrompt
| PCmd (i : nat)                (* about to handle command i *)
| PRun (i : nat)                (* announced; about to execute shell command i *)
| PProbe (i : nat)              (* probe write of command i is parked *)
| PCallWait (i : nat) (c : nat) (* released slot, waiting for callee activation c *)
| PCallReacq (i : nat) (r : res)(* callee returned r; reacquire *)
| PFail (e : err)               (* a command failed with e (non-ignored): leave the loop *)
| PDefers (r : res)             (* run deferred entries, then return r *)
| PDRun (r : res) (i : nat)     (* deferred shell entry i announced *)
| PDProbe (r : res) (i : nat)
| PDCallWait (r : res) (c : nat)
| PDCallReacq (r : res)
| PEnd (r : res)                (* closure returned r: complete the dedup entry *)
| PRelease (r : res)            (* RunTask's deferred release() *)
| PDone (r : res).

Record act := {
  a_path : aid;
  a_task : nat;
  a_var : nat;
  a_kind : kind;
  a_parent : option nat;
  a_ctx : nat;                  (* context RunTask was called with *)
  a_ectx : nat;                 (* context of the execution closure *)
  a_pc : pc;
  a_holds : bool;               (* holds a concurrency slot *)
  a_defers : list nat;          (* indices of registered defer entries, last registered first *)
  a_dexit : nat;                (* deferredExitCode *)
  a_kids : list nat;            (* dep children *)
  a_gctx : nat;                 (* errgroup context of the deps *)
  a_gerr : option err;          (* first error of the deps group *)
  a_regkey : option key         (* key this activation registered (it is the owner) *)
}.

Record ctxrec := { cx_parent : option nat; cx_cancelled : bool }.

Record state := {
  acts : list act;
  used : nat;                       (* slots in use *)
  dedup : list (key * nat);         (* key -> owner activation *)
  calls : list nat;                 (* per task: RunTask call counter *)
  ctxs : list ctxrec;
  trace : list event;               (* oldest first *)
  rootres : list (nat * res);       (* results of finished root activations *)
  rungerr : option err              (* first error of Run's errgroup / sequential loop *)
}.

(* ------------------------------------------------------------------ *)
(* helpers                                                             *)

Fixpoint upd {A} (l : list A) (n : nat) (x : A) : list A :=
  match l, n with
  | [], _ => []
  | _ :: r, O => x :: r
  | y :: r, S n' => y :: upd r n' x
  end.

Definition get_act (s : state) (a : nat) : option act := nth_error (acts s) a.

Definition set_act (s : state) (a : nat) (x : act) : state :=
  {| acts := upd (acts s) a x; used := used s; dedup := dedup s; calls := calls s; ctxs := ctxs s;
     trace := trace s; rootres := rootres s; rungerr := rungerr s |}.

Definition emit (s : state) (e : event) : state :=
  {| acts := acts s; used := used s; dedup := dedup s; calls := calls s; ctxs := ctxs s;
     trace := trace s ++ [e]; rootres := rootres s; rungerr := rungerr s |}.

Definition set_used (s : state) (n : nat) : state :=
  {| acts := acts s; used := n; dedup := dedup s; calls := calls s; ctxs := ctxs s;
     trace := trace s; rootres := rootres s; rungerr := rungerr s |}.

Definition set_pc (x : act) (p : pc) : act :=
  {| a_path := a_path x; a_task := a_task x; a_var := a_var x; a_kind := a_kind x; a_parent := a_parent x;
     a_ctx := a_ctx x; a_ectx := a_ectx x; a_pc := p; a_holds := a_holds x; a_defers := a_defers x;
     a_dexit := a_dexit x; a_kids := a_kids x; a_gctx := a_gctx x; a_gerr := a_gerr x; a_regkey := a_regkey x |}.

Definition set_holds (x : act) (h : bool) : act :=
  {| a_path := a_path x; a_task := a_task x; a_var := a_var x; a_kind := a_kind x; a_parent := a_parent x;
     a_ctx := a_ctx x; a_ectx := a_ectx x; a_pc := a_pc x; a_holds := h; a_defers := a_defers x;
     a_dexit := a_dexit x; a_kids := a_kids x; a_gctx := a_gctx x; a_gerr := a_gerr x; a_regkey := a_regkey x |}.

Definition limited (c : cfg) : option nat :=
  match cf_N c with Some (S n) => Some (S n) | _ => None end.

Definition slot_free (c : cfg) (s : state) : bool :=
  match limited c with None => true | Some n => Nat.ltb (used s) n end.

(* acquire / release are no-ops on the counter when concurrency is unlimited
   (concurrencySemaphore == nil), but we still track who "holds" *)
Definition acquire (c : cfg) (s : state) : state :=
  match limited c with None => s | Some _ => set_used s (S (used s)) end.
Definition release (c : cfg) (s : state) : state :=
  match limited c with None => s | Some _ => set_used s (pred (used s)) end.

Fixpoint cancelled_fuel (fuel : nat) (cx : list ctxrec) (c : nat) : bool :=
  match fuel with
  | O => false
  | S f =>
      match nth_error cx c with
      | None => false
      | Some r => cx_cancelled r ||
                  match cx_parent r with None => false | Some p => cancelled_fuel f cx p end
      end
  end.
Definition cancelled (s : state) (c : nat) : bool := cancelled_fuel (S (length (ctxs s))) (ctxs s) c.

Definition new_ctx (s : state) (parent : option nat) : state * nat :=
  ({| acts := acts s; used := used s; dedup := dedup s; calls := calls s;
      ctxs := ctxs s ++ [{| cx_parent := parent; cx_cancelled := false |}];
      trace := trace s; rootres := rootres s; rungerr := rungerr s |}, length (ctxs s)).

Definition cancel_ctx (s : state) (c : nat) : state :=
  match nth_error (ctxs s) c with
  | None => s
  | Some r =>
      {| acts := acts s; used := used s; dedup := dedup s; calls := calls s;
         ctxs := upd (ctxs s) c {| cx_parent := cx_parent r; cx_cancelled := true |};
         trace := trace s; rootres := rootres s; rungerr := rungerr s |}
  end.

Fixpoint lookup_key (d : list (key * nat)) (k : key) : option nat :=
  match d with
  | [] => None
  | (k', o) :: r => if key_eqb k k' then Some o else lookup_key r k
  end.

Definition add_dedup (s : state) (k : key) (o : nat) : state :=
  {| acts := acts s; used := used s; dedup := dedup s ++ [(k, o)]; calls := calls s; ctxs := ctxs s;
     trace := trace s; rootres := rootres s; rungerr := rungerr s |}.

Definition bump_call (s : state) (t : nat) : state * nat :=
  let n := S (nth t (calls s) 0) in
  ({| acts := acts s; used := used s; dedup := dedup s; calls := upd (calls s) t n; ctxs := ctxs s;
      trace := trace s; rootres := rootres s; rungerr := rungerr s |}, n).

Definition eval_var (own : nat) (v : varexp) : nat := match v with VConst n => n | VInherit => own end.

Definition new_act (path : aid) (t v : nat) (k : kind) (parent : option nat) (ctx : nat) : act :=
  {| a_path := path; a_task := t; a_var := v; a_kind := k; a_parent := parent; a_ctx := ctx; a_ectx := ctx;
     a_pc := PEntry; a_holds := false; a_defers := []; a_dexit := 0; a_kids := []; a_gctx := ctx;
     a_gerr := None; a_regkey := None |}.

Definition add_act (s : state) (x : act) : state * nat :=
  ({| acts := acts s ++ [x]; used := used s; dedup := dedup s; calls := calls s; ctxs := ctxs s;
      trace := trace s; rootres := rootres s; rungerr := rungerr s |}, length (acts s)).

(* result of an activation, if it returned *)
Definition act_result (s : state) (a : nat) : option res :=
  match get_act s a with
  | Some x => match a_pc x with PDone r => Some r | _ => None end
  | None => None
  end.

(* has the execution closure of owner o returned (dedup entry completed) *)
Definition exec_result (s : state) (o : nat) : option res :=
  match get_act s o with
  | Some x => match a_pc x with PDone r | PRelease r => Some r | _ => None end
  | None => None
  end.

(* fork the deps of activation a (index a in s): one child activation per dep, in order *)
Fixpoint fork_deps (p : prog) (s : state) (a : nat) (x : act) (gctx : nat) (ds : list call) (j : nat)
  : state * list nat :=
  match ds with
  | [] => (s, [])
  | d :: rest =>
      let child := new_act (a_path x ++ [j]) (c_task d) (eval_var (a_var x) (c_var d)) KDep (Some a) gctx in
      let '(s1, cid) := add_act s child in
      let '(s2, ids) := fork_deps p s1 a x gctx rest (S j) in
      (s2, cid :: ids)
  end.

Definition all_done (s : state) (ids : list nat) : bool :=
  forallb (fun i => match act_result s i with Some _ => true | None => false end) ids.

Definition set_kids (x : act) (kids : list nat) (gctx : nat) : act :=
  {| a_path := a_path x; a_task := a_task x; a_var := a_var x; a_kind := a_kind x; a_parent := a_parent x;
     a_ctx := a_ctx x; a_ectx := a_ectx x; a_pc := a_pc x; a_holds := a_holds x; a_defers := a_defers x;
     a_dexit := a_dexit x; a_kids := kids; a_gctx := gctx; a_gerr := a_gerr x; a_regkey := a_regkey x |}.

Definition set_gerr (x : act) (e : option err) : act :=
  {| a_path := a_path x; a_task := a_task x; a_var := a_var x; a_kind := a_kind x; a_parent := a_parent x;
     a_ctx := a_ctx x; a_ectx := a_ectx x; a_pc := a_pc x; a_holds := a_holds x; a_defers := a_defers x;
     a_dexit := a_dexit x; a_kids := a_kids x; a_gctx := a_gctx x; a_gerr := e; a_regkey := a_regkey x |}.

Definition set_exec (x : act) (ectx : nat) (k : option key) : act :=
  {| a_path := a_path x; a_task := a_task x; a_var := a_var x; a_kind := a_kind x; a_parent := a_parent x;
     a_ctx := a_ctx x; a_ectx := ectx; a_pc := a_pc x; a_holds := a_holds x; a_defers := a_defers x;
     a_dexit := a_dexit x; a_kids := a_kids x; a_gctx := a_gctx x; a_gerr := a_gerr x; a_regkey := k |}.

Definition push_defer (x : act) (i : nat) : act :=
  {| a_path := a_path x; a_task := a_task x; a_var := a_var x; a_kind := a_kind x; a_parent := a_parent x;
     a_ctx := a_ctx x; a_ectx := a_ectx x; a_pc := a_pc x; a_holds := a_holds x; a_defers := i :: a_defers x;
     a_dexit := a_dexit x; a_kids := a_kids x; a_gctx := a_gctx x; a_gerr := a_gerr x; a_regkey := a_regkey x |}.

Definition pop_defer (x : act) : act :=
  {| a_path := a_path x; a_task := a_task x; a_var := a_var x; a_kind := a_kind x; a_parent := a_parent x;
     a_ctx := a_ctx x; a_ectx := a_ectx x; a_pc := a_pc x; a_holds := a_holds x; a_defers := tl (a_defers x);
     a_dexit := a_dexit x; a_kids := a_kids x; a_gctx := a_gctx x; a_gerr := a_gerr x; a_regkey := a_regkey x |}.

Definition set_dexit (x : act) (n : nat) : act :=
  {| a_path := a_path x; a_task := a_task x; a_var := a_var x; a_kind := a_kind x; a_parent := a_parent x;
     a_ctx := a_ctx x; a_ectx := a_ectx x; a_pc := a_pc x; a_holds := a_holds x; a_defers := a_defers x;
     a_dexit := n; a_kids := a_kids x; a_gctx := a_gctx x; a_gerr := a_gerr x; a_regkey := a_regkey x |}.

Definition indirect (x : act) : bool := match a_kind x with KRoot => false | _ => true end.

(* what the command loop does with an error e of command i (task.go:218-237) *)
Definition after_cmd_error (tk : task) (x : act) (i : nat) (e : err) : act :=
  match is_exit e with
  | Some n =>
      if t_ignore tk then set_pc x (PCmd (S i))
      else set_pc (set_dexit x n) (PFail e)
  | None => set_pc x (PFail e)
  end.

(* the error RunTask returns for a failed command (wrapped unless the call is indirect) *)
Definition wrap_cmd_error (x : act) (e : err) : err :=
  if indirect x then e else ETaskRun (is_exit e).

(* the error RunTask returns when its deps failed: an exit status is wrapped for a direct call *)
Definition wrap_deps_error (x : act) (e : err) : err :=
  if indirect x then e else match is_exit e with Some n => ETaskRun (Some n) | None => e end.

Definition record_root (s : state) (a : nat) (r : res) : state :=
  {| acts := acts s; used := used s; dedup := dedup s; calls := calls s; ctxs := ctxs s;
     trace := trace s; rootres := rootres s ++ [(a, r)];
     rungerr := match rungerr s, r with None, RErr e => Some e | g, _ => g end |}.

(* when a dep child returns: errgroup records the first error and cancels the group context *)
Definition notify_parent (s : state) (x : act) (r : res) : state :=
  match a_kind x, a_parent x, r with
  | KDep, Some pa, RErr e =>
      match get_act s pa with
      | Some px =>
          match a_gerr px with
          | None => cancel_ctx (set_act s pa (set_gerr px (Some e))) (a_gctx px)
          | Some _ => s
          end
      | None => s
      end
  | _, _, _ => s
  end.

(* ------------------------------------------------------------------ *)
(* The step function                                                   *)

Definition root_ctx : nat := 0.       (* Run's errgroup context *)
Definition background_ctx : nat := 1. (* context.Background(): never cancelled *)

(* RunTask of activation a returns r *)
Definition finish (s : state) (a : nat) (x : act) (r : res) : state :=
  let s1 := emit (set_act s a (set_pc x (PDone r))) (EvEnd (a_path x) r) in
  let s2 := notify_parent s1 x r in
  match a_kind x with
  | KRoot =>
      let s3 := record_root s2 a r in
      match r, rungerr s2 with
      | RErr _, None => cancel_ctx s3 root_ctx
      | _, _ => s3
      end
  | _ => s2
  end.

Definition step (p : prog) (c : cfg) (s : state) (a : nat) : option state :=
  match get_act s a with
  | None => None
  | Some x =>
      let tk := get_task p (a_task x) in
      let g := t_g tk in
      let here := a_path x in
      match a_pc x with
      | PEntry =>
          if negb (g_platform g) then
            Some (emit (set_act s a (set_pc x PPlatformEnd)) (EvPlatformSkip here))
          else if negb (g_required g) then Some (finish s a x (RErr (ECode 206)))
          else if negb (g_enum g) then Some (finish s a x (RErr (ECode 207)))
          else
            let '(s1, n) := bump_call s (a_task x) in
            if Nat.leb (cf_maxcall c) n then Some (finish s1 a x (RErr (ECode 204)))
            else Some (set_act s1 a (set_pc x PAcquire))
      | PPlatformEnd => Some (finish s a x ROk)
      | PAcquire =>
          if slot_free c s then Some (set_act (acquire c s) a (set_holds (set_pc x PDedup) true)) else None
      | PDedup =>
          match key_of p (a_task x) (a_var x) with
          | None => Some (emit (set_act s a (set_pc x PDepsFork)) (EvStarted here (a_task x)))
          | Some k =>
              match lookup_key (dedup s) k with
              | Some o => Some (emit (set_act s a (set_pc x (PWRelease o))) (EvSkipping k here))
              | None =>
                  let '(s1, ectx) := new_ctx s (Some (a_ctx x)) in
                  Some (emit (set_act (add_dedup s1 k a) a (set_pc (set_exec x ectx (Some k)) PDepsFork))
                             (EvStarted here (a_task x)))
              end
          end
      | PWRelease o => Some (set_act (release c s) a (set_holds (set_pc x (PWWait o)) false))
      | PWWait o =>
          match exec_result s o with
          | Some r => Some (set_act s a (set_pc x (PWReacq r)))
          | None => None
          end
      | PWReacq r =>
          (* deferred reacquire() then RunTask's deferred release(): needs a free slot for an instant *)
          if slot_free c s then Some (finish s a x r) else None
      | PDepsFork =>
          let s0 := release c s in
          let '(s1, gctx) := new_ctx s0 (Some (a_ectx x)) in
          let '(s2, kids) := fork_deps p s1 a x gctx (t_deps tk) 0 in
          Some (set_act s2 a (set_kids (set_holds (set_pc x PDepsJoin) false) kids gctx))
      | PDepsJoin =>
          if all_done s (a_kids x) then Some (set_act s a (set_pc x PDepsReacq)) else None
      | PDepsReacq =>
          if slot_free c s then
            let s1 := acquire c s in
            match a_gerr x with
            | Some e => Some (set_act s1 a (set_holds (set_pc x (PEnd (RErr (wrap_deps_error x e)))) true))
            | None => Some (set_act s1 a (set_holds (set_pc x PBlock) true))
            end
          else None
      | PBlock =>
          let skip_fp := cf_forceall c || (negb (indirect x) && cf_force c) in
          let canc := cancelled s (a_ectx x) in
          if negb skip_fp && canc then Some (set_act s a (set_pc x (PEnd (RErr ECancel))))
          else
            match g_precond g with
            | Some ok =>
                (* preconditions run whether or not fingerprinting is skipped; under a cancelled
                   context (only reachable with --force) their commands fail *)
                if ok && negb canc then
                  if negb skip_fp && g_uptodate g then Some (emit (set_act s a (set_pc x (PEnd ROk))) (EvUpToDate here))
                  else Some (set_act s a (set_pc x PPrompt))
                else Some (set_act s a (set_pc x (PEnd (RErr EPrecond))))
            | None =>
                if negb skip_fp && g_uptodate g then Some (emit (set_act s a (set_pc x (PEnd ROk))) (EvUpToDate here))
                else Some (set_act s a (set_pc x PPrompt))
            end
      | PPrompt =>
          if g_prompt g && negb (cf_yes c) then Some (set_act s a (set_pc x (PEnd (RErr (ECode 205)))))
          else Some (set_act s a (set_pc x (PCmd 0)))
      | PCmd i =>
          match nth_error (t_cmds tk) i with
          | None => Some (emit (set_act s a (set_pc x (PDefers ROk))) (EvFinished here))
          | Some (Shell _ _) => Some (emit (set_act s a (set_pc x (PRun i))) (EvAnnounce here i))
          | Some (CallC cl) =>
              let child := new_act (here ++ [length (t_deps tk) + i]) (c_task cl)
                                   (eval_var (a_var x) (c_var cl)) KCall (Some a) (a_ectx x) in
              let '(s1, cid) := add_act (release c s) child in
              Some (set_act s1 a (set_holds (set_pc x (PCallWait i cid)) false))
          | Some (DeferShell _) | Some (DeferCall _) => Some (set_act s a (set_pc (push_defer x i) (PCmd (S i))))
          end
      | PRun i =>
          if cancelled s (a_ectx x) then Some (set_act s a (after_cmd_error tk x i ECancel))
          else Some (emit (set_act s a (set_pc x (PProbe i))) (EvProbeBegin here i (a_var x)))
      | PProbe i =>
          let s1 := emit s (EvProbeEnd here i) in
          match nth_error (t_cmds tk) i with
          | Some (Shell ex ign) =>
              match ex with
              | O => Some (set_act s1 a (set_pc x (PCmd (S i))))
              | S _ =>
                  if cancelled s (a_ectx x) then Some (set_act s1 a (after_cmd_error tk x i ECancel))
                  else if ign then Some (set_act s1 a (set_pc x (PCmd (S i))))
                  else Some (set_act s1 a (after_cmd_error tk x i (EExit ex)))
              end
          | _ => None
          end
      | PCallWait i cid =>
          match act_result s cid with
          | Some r => Some (set_act s a (set_pc x (PCallReacq i r)))
          | None => None
          end
      | PCallReacq i r =>
          if slot_free c s then
            let s1 := acquire c s in
            match r with
            | ROk => Some (set_act s1 a (set_holds (set_pc x (PCmd (S i))) true))
            | RErr e => Some (set_act s1 a (set_holds (after_cmd_error tk x i e) true))
            end
          else None
      | PFail e => Some (set_act s a (set_pc x (PDefers (RErr (wrap_cmd_error x e)))))
      | PDefers r =>
          match a_defers x with
          | [] => Some (set_act s a (set_pc x (PEnd r)))
          | i :: _ =>
              match nth_error (t_cmds tk) i with
              | Some (DeferShell _) => Some (emit (set_act s a (set_pc (pop_defer x) (PDRun r i))) (EvDAnnounce here i))
              | Some (DeferCall cl) =>
                  let child := new_act (here ++ [length (t_deps tk) + i]) (c_task cl)
                                       (eval_var (a_var x) (c_var cl)) KDefer (Some a) background_ctx in
                  let '(s1, cid) := add_act (release c s) child in
                  Some (set_act s1 a (set_holds (set_pc (pop_defer x) (PDCallWait r cid)) false))
              | _ => Some (set_act s a (set_pc (pop_defer x) (PDefers r)))
              end
          end
      | PDRun r i => Some (emit (set_act s a (set_pc x (PDProbe r i))) (EvDProbeBegin here i (a_dexit x)))
      | PDProbe r i => Some (emit (set_act s a (set_pc x (PDefers r))) (EvDProbeEnd here i))
      | PDCallWait r cid =>
          match act_result s cid with
          | Some _ => Some (set_act s a (set_pc x (PDCallReacq r)))
          | None => None
          end
      | PDCallReacq r =>
          if slot_free c s then Some (set_act (acquire c s) a (set_holds (set_pc x (PDefers r)) true)) else None
      | PEnd r =>
          (* the closure returned: startExecution completes the dedup entry (cancel of its context) *)
          let s1 := match a_regkey x with Some _ => cancel_ctx s (a_ectx x) | None => s end in
          Some (set_act s1 a (set_pc x (PRelease r)))
      | PRelease r => Some (finish (release c s) a (set_holds x false) r)
      | PDone _ => None
      end
  end.

(* ------------------------------------------------------------------ *)
(* Run: root activations                                               *)

Definition init_state (p : prog) : state :=
  {| acts := []; used := 0; dedup := []; calls := repeat 0 (length p);
     ctxs := [ {| cx_parent := None; cx_cancelled := false |}; {| cx_parent := None; cx_cancelled := false |} ];
     trace := []; rootres := []; rungerr := None |}.

(* Run starts root k when: parallel -> all at once; sequential -> when root k-1 returned Ok *)
Definition root_started (s : state) (k : nat) : bool :=
  existsb (fun x => match a_kind x, a_path x with KRoot, [k'] => Nat.eqb k k' | _, _ => false end) (acts s).

(* Run's pre-check: a task named on the command line must not be internal *)
Definition precheck_ok (p : prog) (c : cfg) : bool :=
  forallb (fun cl => negb (t_internal (get_task p (c_task cl)))) (cf_roots c).

Definition start_root (p : prog) (c : cfg) (s : state) (k : nat) : option state :=
  match nth_error (cf_roots c) k with
  | None => None
  | Some cl =>
      if negb (precheck_ok p c) || root_started s k then None
      else
        let ok :=
          if cf_parallel c then true
          else match k with
               | O => true
               | S k' => existsb (fun '(a, r) =>
                           match get_act s a, r with
                           | Some x, ROk => match a_path x with [j] => Nat.eqb j k' | _ => false end
                           | _, _ => false
                           end) (rootres s)
               end in
        if ok then
          Some (fst (add_act s (new_act [k] (c_task cl) (eval_var 0 (c_var cl)) KRoot None root_ctx)))
        else None
  end.

(* scheduler choices *)
Inductive choice := ChStep (a : nat) | ChRoot (k : nat).

Definition do_choice (p : prog) (c : cfg) (s : state) (ch : choice) : state :=
  match ch with
  | ChStep a => match step p c s a with Some s' => s' | None => s end
  | ChRoot k =>
      match start_root p c s k with
      | Some s' =>
          (* in parallel mode the errgroup context is cancelled by the first failing root *)
          s'
      | None => s
      end
  end.

Definition run (p : prog) (c : cfg) (sched : list choice) : state :=
  fold_left (do_choice p c) sched (init_state p).

(* the error Run returns once everything it started has returned *)
Definition run_result (p : prog) (c : cfg) (s : state) : option res :=
  if negb (precheck_ok p c) then Some (RErr (ECode 202)) else
  if forallb (fun x => match a_pc x with PDone _ => true | _ => false end) (acts s) then
    match rungerr s with
    | Some e => Some (RErr e)
    | None => if Nat.eqb (length (rootres s)) (length (cf_roots c)) then Some ROk else None
    end
  else None.
