(* C07 (termination): the executor cannot run forever.

   For EVERY program (cyclic ones included), every configuration and every schedule, the number
   of effective (enabled) scheduler choices is bounded by a number [bound p c] computed from the
   program and the configuration alone.  The measure is a potential function

     pot p c s =   sum over the activations x of s of  rk p x
                 + sum over the tasks t of p of (cf_maxcall c - calls s [t]) * wt p t
                 + (number of roots not yet started) * 14

   where [rk p x] is a rank of the program counter of x (plus 16 per registered defer entry)
   that includes the cost of everything x can still spawn *directly* (14 per dep / call: the
   child starts at PEntry with rank 13), and [wt p t] is the cost of the body of task t, which
   an activation only receives when it gets past the call counter at PEntry, i.e. when it
   consumes one of the cf_maxcall units of task t's budget.  Every effective choice strictly
   decreases [pot]; no reachability invariant is needed except [length (calls s) = length p].

   Combined with deadlock freedom (Exec/Progress.v) this gives guaranteed termination for
   acyclic programs: every schedule that picks an enabled choice whenever there is one has
   made Run return after at most [S (bound p c)] choices. *)
From Coq Require Import List Arith Bool Lia.
Import ListNotations.
From TV Require Import Exec.Model Exec.Monitors Exec.Facts Exec.InvSlots Exec.Proj Exec.Progress.

(* ------------------------------------------------------------------ *)
(* Effective choices                                                   *)

Definition effective (p : prog) (c : cfg) (s : state) (ch : choice) : bool :=
  match ch with
  | ChStep a => match step p c s a with Some _ => true | None => false end
  | ChRoot k => match start_root p c s k with Some _ => true | None => false end
  end.

Fixpoint count_effective (p : prog) (c : cfg) (s : state) (sched : list choice) : nat :=
  match sched with
  | [] => 0
  | ch :: r => (if effective p c s ch then 1 else 0) + count_effective p c (do_choice p c s ch) r
  end.

Lemma ineffective_noop p c s ch : effective p c s ch = false -> do_choice p c s ch = s.
Proof.
  destruct ch as [a|k]; simpl.
  - destruct (step p c s a); [discriminate|reflexivity].
  - destruct (start_root p c s k); [discriminate|reflexivity].
Qed.

(* ------------------------------------------------------------------ *)
(* The rank of an activation                                           *)

(* nd, nc: number of deps / commands of the activation's task *)
Definition pcr (nd nc : nat) (q : pc) : nat :=
  match q with
  | PDone _ => 0
  | PRelease _ => 1
  | PEnd _ => 2
  | PDefers _ => 3
  | PDProbe _ _ => 4
  | PDRun _ _ => 5
  | PDCallReacq _ => 4
  | PDCallWait _ _ => 5
  | PFail _ => 4
  | PCmd i => 5 + (nc - i) * 17
  | PCallReacq i _ => 6 + (nc - S i) * 17
  | PCallWait i _ => 7 + (nc - S i) * 17
  | PProbe i => 7 + (nc - S i) * 17
  | PRun i => 8 + (nc - S i) * 17
  | PPrompt => 6 + nc * 17
  | PBlock => 7 + nc * 17
  | PDepsReacq => 8 + nc * 17
  | PDepsJoin => 9 + nc * 17
  | PDepsFork => 10 + nc * 17 + nd * 14
  | PDedup => 11 + nc * 17 + nd * 14
  | PAcquire => 12 + nc * 17 + nd * 14
  | PEntry => 13
  | PPlatformEnd => 1
  | PWReacq _ => 1
  | PWWait _ => 2
  | PWRelease _ => 3
  end.

Definition ndeps (p : prog) (t : nat) : nat := length (t_deps (get_task p t)).
Definition ncmds (p : prog) (t : nat) : nat := length (t_cmds (get_task p t)).

Definition rk (p : prog) (x : act) : nat :=
  pcr (ndeps p (a_task x)) (ncmds p (a_task x)) (a_pc x) + length (a_defers x) * 16.

(* what an activation of task t gains when it gets past the call counter *)
Definition wt (p : prog) (t : nat) : nat := ncmds p t * 17 + ndeps p t * 14.

Lemma wt_overflow p t : length p <= t -> wt p t = 0.
Proof.
  intros H. unfold wt, ncmds, ndeps, get_task. rewrite nth_overflow by exact H. reflexivity.
Qed.

(* remaining call budget: sum over positions j of cs of (m - cs[j]) * wt (t0 + j) *)
Fixpoint budget (p : prog) (m : nat) (cs : list nat) (t0 : nat) : nat :=
  match cs with
  | [] => 0
  | n :: r => (m - n) * wt p t0 + budget p m r (S t0)
  end.

Lemma budget_bump_le p m : forall cs t0 t,
  budget p m (upd cs t (S (nth t cs 0))) t0 <= budget p m cs t0.
Proof.
  induction cs as [|n cs IH]; intros t0 t; simpl; [destruct t; simpl; lia|].
  destruct t as [|t]; simpl.
  - apply Nat.add_le_mono_r. apply Nat.mul_le_mono_r. lia.
  - specialize (IH (S t0) t). lia.
Qed.

Lemma budget_bump_in p m : forall cs t0 t,
  t < length cs -> S (nth t cs 0) <= m ->
  budget p m (upd cs t (S (nth t cs 0))) t0 + wt p (t0 + t) = budget p m cs t0.
Proof.
  induction cs as [|n cs IH]; intros t0 t Hlt Hm; simpl in *; [lia|].
  destruct t as [|t]; simpl in *.
  - rewrite Nat.add_0_r. replace (m - n) with (S (m - S n)) by lia. simpl. lia.
  - specialize (IH (S t0) t ltac:(lia) Hm). replace (t0 + S t) with (S t0 + t) by lia. lia.
Qed.

Lemma budget_bump p m cs t :
  length cs = length p -> S (nth t cs 0) <= m ->
  budget p m (upd cs t (S (nth t cs 0))) 0 + wt p t <= budget p m cs 0.
Proof.
  intros Hl Hm. destruct (Nat.lt_ge_cases t (length cs)) as [Hlt|Hge].
  - pose proof (budget_bump_in p m cs 0 t Hlt Hm) as H. simpl in H. lia.
  - rewrite wt_overflow by lia. pose proof (budget_bump_le p m cs 0 t). lia.
Qed.

(* ------------------------------------------------------------------ *)
(* The projection the potential looks at                               *)

Definition pr (p : prog) (x : act) : kind * aid * nat := (a_kind x, a_path x, rk p x).
Lemma pr_gerr p x e : pr p (set_gerr x e) = pr p x. Proof. reflexivity. Qed.

Definition is_rootk (k : nat) (y : kind * aid * nat) : bool :=
  match fst (fst y), snd (fst y) with KRoot, [k'] => Nat.eqb k k' | _, _ => false end.

Lemma root_started_pr p s k : root_started s k = existsb (is_rootk k) (pj (pr p) s).
Proof.
  unfold root_started, pj. induction (acts s) as [|x l IH]; simpl; [reflexivity|].
  rewrite IH. reflexivity.
Qed.

Definition rks (L : list (kind * aid * nat)) : nat := list_sum (map snd L).

Lemma rks_app L1 L2 : rks (L1 ++ L2) = rks L1 + rks L2.
Proof. unfold rks. rewrite map_app, list_sum_app. reflexivity. Qed.

Lemma rks_upd : forall L a y y', nth_error L a = Some y -> rks (upd L a y') + snd y = rks L + snd y'.
Proof.
  unfold rks. induction L as [|z L IH]; intros a y y' H; destruct a as [|a]; simpl in *; try discriminate.
  - injection H as ->. lia.
  - specialize (IH a y y' H). lia.
Qed.

Definition unstarted (c : cfg) (s : state) : nat :=
  count (fun k => negb (root_started s k)) (seq 0 (length (cf_roots c))).

Definition pot (p : prog) (c : cfg) (s : state) : nat :=
  rks (pj (pr p) s) + budget p (cf_maxcall c) (calls s) 0 + unstarted c s * 14.

(* ------------------------------------------------------------------ *)
(* calls is touched by bump_call only                                  *)

Lemma tcalls_cancel s k : calls (cancel_ctx s k) = calls s.
Proof. unfold cancel_ctx. destruct (nth_error (ctxs s) k); reflexivity. Qed.
Lemma tcalls_acquire c s : calls (acquire c s) = calls s.
Proof. unfold acquire. destruct (limited c); reflexivity. Qed.
Lemma tcalls_release c s : calls (release c s) = calls s.
Proof. unfold release. destruct (limited c); reflexivity. Qed.
Lemma tcalls_set_act s a x : calls (set_act s a x) = calls s. Proof. reflexivity. Qed.
Lemma tcalls_emit s e : calls (emit s e) = calls s. Proof. reflexivity. Qed.
Lemma tcalls_notify s x r : calls (notify_parent s x r) = calls s.
Proof.
  unfold notify_parent. destruct (a_kind x); try reflexivity.
  destruct (a_parent x) as [pa|]; try reflexivity. destruct r as [|e]; try reflexivity.
  destruct (get_act s pa) as [px|]; try reflexivity.
  destruct (a_gerr px); try reflexivity. rewrite tcalls_cancel. reflexivity.
Qed.
Lemma tcalls_finish s a x r : calls (finish s a x r) = calls s.
Proof.
  unfold finish.
  assert (E : calls (notify_parent (emit (set_act s a (set_pc x (PDone r))) (EvEnd (a_path x) r)) x r) = calls s)
    by (rewrite tcalls_notify; reflexivity).
  destruct (a_kind x); try exact E.
  destruct r; [|destruct (rungerr _)]; rewrite ?tcalls_cancel; exact E.
Qed.

Global Hint Rewrite tcalls_cancel tcalls_acquire tcalls_release tcalls_set_act tcalls_emit tcalls_finish : tcdb.

(* ------------------------------------------------------------------ *)
(* One step: shape of the new state and strict decrease                *)

Definition nonroot (y : kind * aid * nat) : Prop := fst (fst y) <> KRoot.

Definition shape (p : prog) (c : cfg) (s : state) (a : nat) (x : act) (s' : state) : Prop :=
  exists r' news,
    pj (pr p) s' = upd (pj (pr p) s) a (a_kind x, a_path x, r') ++ news /\
    Forall nonroot news /\
    r' + rks news + budget p (cf_maxcall c) (calls s') 0 < rk p x + budget p (cf_maxcall c) (calls s) 0 /\
    length (calls s') = length (calls s).

Lemma nth_error_lt {A} (l : list A) i y : nth_error l i = Some y -> i < length l.
Proof. intros H. apply nth_error_Some. rewrite H. discriminate. Qed.

Lemma rks_const p (news : list act) :
  Forall (fun y => a_pc y = PEntry /\ a_defers y = []) news -> rks (map (pr p) news) = 13 * length news.
Proof.
  induction 1 as [|y l [H1 H2] _ IH]; [reflexivity|].
  unfold rks in *. simpl map. simpl list_sum. rewrite IH. unfold rk. rewrite H1, H2. simpl. lia.
Qed.

Global Hint Rewrite (fun p => pj_set_act (pr p)) (fun p => pj_emit (pr p)) (fun p => pj_cancel (pr p))
  (fun p => pj_acquire (pr p)) (fun p => pj_release (pr p)) : tpdb.

Ltac lt_facts :=
  repeat match goal with
         | H : nth_error _ _ = Some _ |- _ => apply nth_error_lt in H
         | H : nth_error _ _ = None |- _ => apply nth_error_None in H
         end.

Lemma step_shape p c s a x s' :
  get_act s a = Some x -> length (calls s) = length p -> step p c s a = Some s' -> shape p c s a x s'.
Proof.
  intros Hx Hcl H.
  pose proof (pj_lt (pr p) _ _ _ Hx) as Hlt.
  step_cases H Hx;
    try (eexists; exists []; rewrite app_nil_r;
         split; [ first [ rewrite (pj_finish (pr p) (pr_gerr p)), ?(pj_release (pr p)); reflexivity
                        | autorewrite with tpdb; reflexivity
                        | simpl; autorewrite with tpdb; reflexivity ]
                | split; [constructor|];
                  split; [ autorewrite with tcdb; simpl; autorewrite with tcdb;
                           unfold rks, rk; simpl; rewrite ?Hpc;
                           try match goal with Hd : a_defers x = _ |- _ => rewrite Hd end;
                           simpl; lt_facts;
                           fold (ndeps p (a_task x)) in *; fold (ncmds p (a_task x)) in *; try lia
                         | autorewrite with tcdb; simpl; autorewrite with tcdb; rewrite ?upd_length; reflexivity ] ]).
  - (* PEntry, call counter exhausted *)
    pose proof (budget_bump_le p (cf_maxcall c) (calls s) 0 (a_task x)) as Hb. lia.
  - (* PEntry, past the call counter: the body is paid for by the task's budget *)
    apply Nat.leb_gt in Heqb2.
    pose proof (budget_bump p (cf_maxcall c) (calls s) (a_task x) Hcl ltac:(lia)) as Hb.
    unfold wt in Hb. lia.
  - (* fork deps *)
    apply fork_deps_spec in Heqp0. simpl in Heqp0.
    destruct Heqp0 as [news (Ha & _ & _ & _ & Hc & _ & _ & _ & Hl & _ & Hf & _)].
    eexists; exists (map (pr p) news). split; [|split; [|split]].
    + unfold pj at 1. rewrite acts_set_act, map_upd, Ha, release_acts, map_app.
      rewrite upd_app_l by exact Hlt. reflexivity.
    + apply Forall_map. eapply Forall_impl; [|exact Hf].
      intros y (_ & _ & Hk & _). unfold nonroot. simpl. rewrite Hk. discriminate.
    + rewrite rks_const by (eapply Forall_impl; [|exact Hf]; intros y (H1 & _ & _ & _ & H5 & _); split; assumption).
      rewrite Hl. autorewrite with tcdb. rewrite Hc, tcalls_release.
      unfold rk. simpl. rewrite Hpc. simpl. fold (ndeps p (a_task x)). fold (ncmds p (a_task x)). lia.
    + autorewrite with tcdb. rewrite Hc, tcalls_release. reflexivity.
  - (* task: call *)
    eexists; eexists [_]. split; [|split; [|split]].
    + unfold pj at 1. rewrite acts_set_act, map_upd. simpl. rewrite release_acts, map_app.
      rewrite upd_app_l by exact Hlt. reflexivity.
    + repeat constructor. unfold nonroot. simpl. discriminate.
    + autorewrite with tcdb. simpl. autorewrite with tcdb.
      unfold rks, rk. simpl. rewrite Hpc. simpl. lt_facts.
      fold (ndeps p (a_task x)) in *. fold (ncmds p (a_task x)) in *. lia.
    + autorewrite with tcdb. simpl. autorewrite with tcdb. reflexivity.
  - (* deferred task: call *)
    eexists; eexists [_]. split; [|split; [|split]].
    + unfold pj at 1. rewrite acts_set_act, map_upd. simpl. rewrite release_acts, map_app.
      rewrite upd_app_l by exact Hlt. reflexivity.
    + repeat constructor. unfold nonroot. simpl. discriminate.
    + autorewrite with tcdb. simpl. autorewrite with tcdb.
      unfold rks, rk. simpl. rewrite Hpc, Heql. simpl. lia.
    + autorewrite with tcdb. simpl. autorewrite with tcdb. reflexivity.
Qed.

(* ------------------------------------------------------------------ *)
(* Every effective choice strictly decreases the potential             *)

Lemma existsb_upd_same {A} (f : A -> bool) : forall l n y y',
  nth_error l n = Some y -> f y' = f y -> existsb f (upd l n y') = existsb f l.
Proof.
  induction l as [|z l IH]; intros n y y' H E; destruct n as [|n]; simpl in *; try discriminate.
  - injection H as ->. rewrite E. reflexivity.
  - rewrite (IH n y y' H E). reflexivity.
Qed.

Lemma existsb_nonroot k news : Forall nonroot news -> existsb (is_rootk k) news = false.
Proof.
  induction 1 as [|y l Hy _ IH]; [reflexivity|]. simpl. rewrite IH, orb_false_r.
  unfold nonroot in Hy. unfold is_rootk. destruct (fst (fst y)); try reflexivity. congruence.
Qed.

Lemma step_pot p c s a s' :
  length (calls s) = length p -> step p c s a = Some s' ->
  pot p c s' < pot p c s /\ length (calls s') = length p.
Proof.
  intros Hcl H.
  destruct (get_act s a) as [x|] eqn:Hx; [|unfold step in H; rewrite Hx in H; discriminate].
  destruct (step_shape p c s a x s' Hx Hcl H) as [r' [news (E & Hnr & Hlt & Hl)]].
  split; [|congruence].
  pose proof (pj_nth (pr p) _ _ _ Hx) as Hn.
  assert (Hu : unstarted c s' = unstarted c s).
  { unfold unstarted.
    assert (Hrs : forall k, root_started s' k = root_started s k).
    { intros k. rewrite !(root_started_pr p), E, existsb_app, (existsb_nonroot k news Hnr).
      rewrite orb_false_r. eapply existsb_upd_same; [exact Hn|reflexivity]. }
    unfold count. f_equal. apply filter_ext. intros k. rewrite Hrs. reflexivity. }
  unfold pot. rewrite Hu, E, rks_app.
  pose proof (rks_upd _ _ _ (a_kind x, a_path x, r') Hn) as Hr. simpl in Hr. lia.
Qed.

Lemma count_mono_lt {A} (f f' : A -> bool) : forall l k,
  (forall j, f' j = true -> f j = true) -> In k l -> f k = true -> f' k = false ->
  count f' l < count f l.
Proof.
  assert (Hle : forall l, (forall j, f' j = true -> f j = true) -> count f' l <= count f l).
  { induction l as [|z l IH]; intros Hm; [apply le_n|]. rewrite !count_cons. specialize (IH Hm).
    destruct (f' z) eqn:E'; [rewrite (Hm z E')|destruct (f z)]; simpl; lia. }
  induction l as [|z l IH]; intros k Hm Hin Hk Hk'; [contradiction|].
  rewrite !count_cons. destruct Hin as [->|Hin].
  - rewrite Hk, Hk'. specialize (Hle l Hm). simpl. lia.
  - specialize (IH k Hm Hin Hk Hk'). destruct (f' z) eqn:E'; [rewrite (Hm z E')|destruct (f z)]; simpl; lia.
Qed.

Lemma root_pot p c s k s' :
  start_root p c s k = Some s' -> pot p c s' < pot p c s /\ calls s' = calls s.
Proof.
  unfold start_root. intros H.
  destruct (nth_error (cf_roots c) k) as [cl|] eqn:Hk; [|discriminate].
  destruct (negb (precheck_ok p c) || root_started s k) eqn:Hg; [discriminate|].
  apply orb_false_iff in Hg. destruct Hg as [_ Hrs].
  match type of H with (if ?b then _ else _) = _ => destruct b; [|discriminate] end.
  injection H as <-. simpl. split; [|reflexivity].
  set (nw := new_act [k] (c_task cl) (eval_var 0 (c_var cl)) KRoot None root_ctx).
  set (s1 := {| acts := acts s ++ [nw]; used := used s; dedup := dedup s; calls := calls s;
                ctxs := ctxs s; trace := trace s; rootres := rootres s; rungerr := rungerr s |}).
  assert (E : pj (pr p) s1 = pj (pr p) s ++ [(KRoot, [k], 13)]).
  { unfold pj, s1. simpl. rewrite map_app. reflexivity. }
  assert (Hu : unstarted c s1 < unstarted c s).
  { unfold unstarted. apply count_mono_lt with (k := k).
    - intros j Hj. apply negb_true_iff in Hj. apply negb_true_iff.
      rewrite (root_started_pr p) in *. rewrite E, existsb_app in Hj.
      apply orb_false_iff in Hj. tauto.
    - apply in_seq. apply nth_error_lt in Hk. lia.
    - rewrite Hrs. reflexivity.
    - apply negb_false_iff. rewrite (root_started_pr p), E, existsb_app. simpl.
      unfold is_rootk at 2. simpl. rewrite Nat.eqb_refl. apply orb_true_r. }
  unfold pot. rewrite E, rks_app. change (calls s1) with (calls s).
  change (rks [(KRoot, [k], 13)]) with 13. lia.
Qed.

Lemma choice_pot p c s ch :
  length (calls s) = length p ->
  (if effective p c s ch then 1 else 0) + pot p c (do_choice p c s ch) <= pot p c s /\
  length (calls (do_choice p c s ch)) = length p.
Proof.
  intros Hcl. destruct ch as [a|k]; simpl.
  - destruct (step p c s a) as [s'|] eqn:H; [|split; [lia|exact Hcl]].
    destruct (step_pot p c s a s' Hcl H). split; [lia|assumption].
  - destruct (start_root p c s k) as [s'|] eqn:H; [|split; [lia|exact Hcl]].
    destruct (root_pot p c s k s' H) as [H1 H2]. split; [lia|congruence].
Qed.

Lemma count_effective_pot p c : forall sched s,
  length (calls s) = length p -> count_effective p c s sched <= pot p c s.
Proof.
  induction sched as [|ch r IH]; intros s Hcl; simpl; [lia|].
  destruct (choice_pot p c s ch Hcl) as [H1 H2]. specialize (IH _ H2). lia.
Qed.

(* the bound: the potential of the initial state *)
Definition bound (p : prog) (c : cfg) : nat := pot p c (init_state p).

Lemma init_calls_length p : length (calls (init_state p)) = length p.
Proof. simpl. apply repeat_length. Qed.

(* TERMINATION, quantitative form, for every program (cyclic or not): along any schedule at most
   [bound p c] choices are effective.  [bound] is executable. *)
Theorem effective_bound : forall p c sched, count_effective p c (init_state p) sched <= bound p c.
Proof. intros p c sched. apply count_effective_pot. apply init_calls_length. Qed.

Theorem terminates_bound_general : forall p c, exists B, forall sched, count_effective p c (init_state p) sched <= B.
Proof. intros p c. exists (bound p c). apply effective_bound. Qed.

Theorem terminates_bound : forall p c, acyclic p -> exists B, forall sched, count_effective p c (init_state p) sched <= B.
Proof. intros p c _. apply terminates_bound_general. Qed.

(* closed form of the bound *)
Lemma budget_init p m : forall n t0,
  budget p m (repeat 0 n) t0 = m * list_sum (map (wt p) (seq t0 n)).
Proof.
  induction n as [|n IH]; intros t0; simpl; [lia|]. rewrite IH, Nat.sub_0_r. lia.
Qed.

Lemma bound_closed p c :
  bound p c = cf_maxcall c * list_sum (map (wt p) (seq 0 (length p))) + length (cf_roots c) * 14.
Proof.
  unfold bound, pot. simpl calls. rewrite budget_init. unfold unstarted.
  replace (count _ _) with (length (cf_roots c)); [reflexivity|].
  unfold count. generalize 0 as t0. induction (length (cf_roots c)) as [|n IH]; intros t0; simpl; [reflexivity|].
  rewrite <- IH. reflexivity.
Qed.

(* ------------------------------------------------------------------ *)
(* Greedy schedules: an enabled choice is picked whenever there is one *)

Definition quiescent (p : prog) (c : cfg) (s : state) : Prop := forall ch, effective p c s ch = false.

Fixpoint greedy (p : prog) (c : cfg) (s : state) (sched : list choice) : Prop :=
  match sched with
  | [] => True
  | ch :: r =>
      ((exists ch', effective p c s ch' = true) -> effective p c s ch = true) /\
      greedy p c (do_choice p c s ch) r
  end.

Lemma quiescent_stays p c s : quiescent p c s -> forall sched, fold_left (do_choice p c) sched s = s.
Proof.
  intros Hq. induction sched as [|ch r IH]; simpl; [reflexivity|].
  rewrite (ineffective_noop p c s ch (Hq ch)). exact IH.
Qed.

Lemma count_effective_le_length p c : forall sched s, count_effective p c s sched <= length sched.
Proof.
  induction sched as [|ch r IH]; intros s; simpl; [lia|].
  specialize (IH (do_choice p c s ch)). destruct (effective p c s ch); lia.
Qed.

(* a greedy schedule with an ineffective choice in it ends in a quiescent state *)
Lemma greedy_quiescent p c : forall sched s,
  greedy p c s sched -> count_effective p c s sched < length sched ->
  quiescent p c (fold_left (do_choice p c) sched s).
Proof.
  induction sched as [|ch r IH]; intros s Hg Hlt; simpl in *; [lia|].
  destruct Hg as [Hg1 Hg2].
  destruct (effective p c s ch) eqn:He.
  - apply IH; [exact Hg2|lia].
  - assert (Hq : quiescent p c s).
    { intros ch'. destruct (effective p c s ch') eqn:He'; [|reflexivity].
      assert (Ht : false = true) by (apply Hg1; exists ch'; exact He'). discriminate. }
    rewrite (ineffective_noop p c s ch He), (quiescent_stays p c s Hq r). exact Hq.
Qed.

(* For every program: a greedy schedule of length > bound has driven the machine to a state in
   which nothing is enabled (Run has returned, or -- cyclic programs only -- it is deadlocked). *)
Theorem greedy_reaches_quiescence : forall p c sched,
  greedy p c (init_state p) sched -> S (bound p c) <= length sched -> quiescent p c (run p c sched).
Proof.
  intros p c sched Hg Hlen. unfold run. apply greedy_quiescent; [exact Hg|].
  pose proof (effective_bound p c sched). lia.
Qed.

Lemma quiescent_returned p c sched :
  acyclic p -> quiescent p c (run p c sched) -> run_result p c (run p c sched) <> None.
Proof.
  intros Hac Hq.
  destruct (progress p c sched Hac) as [[a [s' H]]|[[k [s' H]]|H]]; [| |exact H].
  - specialize (Hq (ChStep a)). simpl in Hq. rewrite H in Hq. discriminate.
  - specialize (Hq (ChRoot k)). simpl in Hq. rewrite H in Hq. discriminate.
Qed.

(* GUARANTEED TERMINATION for acyclic programs: every greedy schedule of length >= B ends in a
   state where Run has returned. *)
Theorem terminates : forall p c, acyclic p -> exists B, forall sched,
  greedy p c (init_state p) sched -> B <= length sched -> run_result p c (run p c sched) <> None.
Proof.
  intros p c Hac. exists (S (bound p c)). intros sched Hg Hlen.
  apply quiescent_returned; [exact Hac|]. apply greedy_reaches_quiescence; assumption.
Qed.

(* the formulation with "every choice is effective": such schedules are no longer than the bound,
   and (acyclic programs) can be extended by an effective choice as long as Run has not returned *)
Fixpoint all_effective (p : prog) (c : cfg) (s : state) (sched : list choice) : Prop :=
  match sched with
  | [] => True
  | ch :: r => effective p c s ch = true /\ all_effective p c (do_choice p c s ch) r
  end.

Lemma all_effective_count p c : forall sched s, all_effective p c s sched -> count_effective p c s sched = length sched.
Proof.
  induction sched as [|ch r IH]; intros s H; simpl in *; [reflexivity|].
  destruct H as [H1 H2]. rewrite H1, (IH _ H2). reflexivity.
Qed.

Theorem all_effective_length : forall p c sched,
  all_effective p c (init_state p) sched -> length sched <= bound p c.
Proof.
  intros p c sched H. rewrite <- (all_effective_count p c sched _ H). apply effective_bound.
Qed.

Lemma all_effective_app p c : forall l1 s l2,
  all_effective p c s l1 -> all_effective p c (fold_left (do_choice p c) l1 s) l2 -> all_effective p c s (l1 ++ l2).
Proof.
  induction l1 as [|ch r IH]; intros s l2 H1 H2; simpl in *; [exact H2|].
  destruct H1 as [Ha Hb]. split; [exact Ha|]. apply IH; assumption.
Qed.

Theorem all_effective_extends : forall p c sched, acyclic p ->
  all_effective p c (init_state p) sched -> run_result p c (run p c sched) = None ->
  exists ch, all_effective p c (init_state p) (sched ++ [ch]).
Proof.
  intros p c sched Hac Hall Hr.
  destruct (progress p c sched Hac) as [[a [s' H]]|[[k [s' H]]|H]]; [| |contradiction].
  - exists (ChStep a). apply all_effective_app; [exact Hall|]. simpl. fold (run p c sched). rewrite H. auto.
  - exists (ChRoot k). apply all_effective_app; [exact Hall|]. simpl. fold (run p c sched). rewrite H. auto.
Qed.

(* ------------------------------------------------------------------ *)
(* Greedy schedules exist, of every length (constructively)            *)

Definition find_enabled (p : prog) (c : cfg) (s : state) : option choice :=
  match find (fun a => effective p c s (ChStep a)) (seq 0 (length (acts s))) with
  | Some a => Some (ChStep a)
  | None =>
      match find (fun k => effective p c s (ChRoot k)) (seq 0 (length (cf_roots c))) with
      | Some k => Some (ChRoot k)
      | None => None
      end
  end.

Lemma find_enabled_some p c s ch : find_enabled p c s = Some ch -> effective p c s ch = true.
Proof.
  unfold find_enabled. intros H.
  destruct (find _ (seq 0 (length (acts s)))) as [a|] eqn:E1.
  - injection H as <-. apply find_some in E1. apply E1.
  - destruct (find _ (seq 0 (length (cf_roots c)))) as [k|] eqn:E2; [|discriminate].
    injection H as <-. apply find_some in E2. apply E2.
Qed.

Lemma find_enabled_none p c s : find_enabled p c s = None -> quiescent p c s.
Proof.
  unfold find_enabled. intros H.
  destruct (find _ (seq 0 (length (acts s)))) as [a|] eqn:E1; [discriminate|].
  destruct (find _ (seq 0 (length (cf_roots c)))) as [k|] eqn:E2; [discriminate|].
  intros [a|k].
  - destruct (effective p c s (ChStep a)) eqn:He; [|reflexivity].
    rewrite <- He. apply (find_none _ _ E1). apply in_seq. split; [lia|]. simpl.
    simpl in He. unfold step in He. destruct (get_act s a) as [x|] eqn:Hx; [|discriminate].
    apply nth_error_lt in Hx. exact Hx.
  - destruct (effective p c s (ChRoot k)) eqn:He; [|reflexivity].
    rewrite <- He. apply (find_none _ _ E2). apply in_seq. split; [lia|]. simpl.
    simpl in He. unfold start_root in He. destruct (nth_error (cf_roots c) k) as [cl|] eqn:Hk; [|discriminate].
    apply nth_error_lt in Hk. exact Hk.
Qed.

(* the canonical greedy schedule of length n from s (ChRoot 0 when nothing is enabled) *)
Fixpoint greedy_sched (p : prog) (c : cfg) (s : state) (n : nat) : list choice :=
  match n with
  | O => []
  | S n' =>
      let ch := match find_enabled p c s with Some ch => ch | None => ChRoot 0 end in
      ch :: greedy_sched p c (do_choice p c s ch) n'
  end.

Lemma greedy_sched_length p c : forall n s, length (greedy_sched p c s n) = n.
Proof. induction n as [|n IH]; intros s; simpl; [reflexivity|]. rewrite IH. reflexivity. Qed.

Lemma greedy_sched_greedy p c : forall n s, greedy p c s (greedy_sched p c s n).
Proof.
  induction n as [|n IH]; intros s; simpl; [exact I|]. split; [|apply IH].
  intros [ch' He']. destruct (find_enabled p c s) as [ch|] eqn:E.
  - apply find_enabled_some. exact E.
  - rewrite (find_enabled_none p c s E ch') in He'. discriminate.
Qed.

Theorem greedy_exists : forall p c n, exists sched, length sched = n /\ greedy p c (init_state p) sched.
Proof.
  intros p c n. exists (greedy_sched p c (init_state p) n). split; [apply greedy_sched_length|apply greedy_sched_greedy].
Qed.

(* so Run does return: the canonical greedy schedule of length S bound is a witness *)
Theorem terminates_witness : forall p c, acyclic p ->
  run_result p c (run p c (greedy_sched p c (init_state p) (S (bound p c)))) <> None.
Proof.
  intros p c Hac. apply quiescent_returned; [exact Hac|].
  apply greedy_reaches_quiescence; [apply greedy_sched_greedy|rewrite greedy_sched_length; apply le_n].
Qed.
