(* Structure of the activation tree: every activation other than a root hangs below its
   parent at a child slot m the parent has already consumed, the registered deferred entries
   are strictly decreasing, and call paths are unique. *)
From Coq Require Import List Arith Bool Lia.
Import ListNotations.
From TV Require Import Exec.Model Exec.Monitors Exec.Facts Exec.InvSlots Exec.Proj Exec.InvPaths Exec.Frame.

(* projection this invariant looks at *)
Record cs := { c_path : aid; c_tk : nat; c_par : option nat; c_kind : kind; c_pc : pc; c_ds : list nat }.
Definition csof (x : act) : cs :=
  {| c_path := a_path x; c_tk := a_task x; c_par := a_parent x; c_kind := a_kind x; c_pc := a_pc x; c_ds := a_defers x |}.
Lemma csof_gerr x e : csof (set_gerr x e) = csof x. Proof. reflexivity. Qed.

Definition pre_fork (q : pc) : bool :=
  match q with
  | PEntry | PPlatformEnd | PAcquire | PDedup | PWRelease _ | PWWait _ | PWReacq _ | PDepsFork => true
  | _ => false
  end.

(* has the command loop already passed (or is it waiting on) the call at command index j *)
Definition called (q : pc) (j : nat) : bool :=
  match q with
  | PCmd i | PRun i | PProbe i => Nat.ltb j i
  | PCallWait i _ | PCallReacq i _ => Nat.leb j i
  | PFail _ | PDefers _ | PDRun _ _ | PDProbe _ _ | PDCallWait _ _ | PDCallReacq _ | PEnd _ | PRelease _ | PDone _ => true
  | _ => false
  end.

Definition in_defers (q : pc) : bool :=
  match q with
  | PDefers _ | PDRun _ _ | PDProbe _ _ | PDCallWait _ _ | PDCallReacq _ | PEnd _ | PRelease _ | PDone _ => true
  | _ => false
  end.

(* child slot m of an activation of task tk at (q, ds) may already have been created *)
Definition consumed (tk : task) (q : pc) (ds : list nat) (m : nat) : bool :=
  let nd := length (t_deps tk) in
  if Nat.ltb m nd then negb (pre_fork q)
  else
    match nth_error (t_cmds tk) (m - nd) with
    | Some (CallC _) => called q (m - nd)
    | Some (DeferCall _) => in_defers q && negb (existsb (Nat.eqb (m - nd)) ds)
    | _ => false
    end.

Fixpoint sdec (l : list nat) : bool :=
  match l with
  | x :: ((y :: _) as r) => Nat.ltb y x && sdec r
  | _ => true
  end.

(* while the command loop is at index i every registered deferred entry has an index below i *)
Definition ds_bound (q : pc) (ds : list nat) : bool :=
  match q with
  | PCmd i | PRun i | PProbe i | PCallWait i _ | PCallReacq i _ => forallb (fun d => Nat.ltb d i) ds
  | PEntry | PPlatformEnd | PAcquire | PDedup | PWRelease _ | PWWait _ | PWReacq _ | PDepsFork | PDepsJoin
  | PDepsReacq | PBlock | PPrompt => match ds with [] => true | _ => false end
  | _ => true
  end.

Definition entry_ok (p : prog) (L : list cs) (y : cs) : Prop :=
  (sdec (c_ds y) = true /\ ds_bound (c_pc y) (c_ds y) = true) /\ c_path y <> [] /\
  match c_par y with
  | None => c_kind y = KRoot /\ length (c_path y) = 1
  | Some i => c_kind y <> KRoot /\
              exists px m, nth_error L i = Some px /\ c_path y = c_path px ++ [m] /\
                           consumed (get_task p (c_tk px)) (c_pc px) (c_ds px) m = true
  end.

Definition uniq (p : prog) (L : list cs) : Prop :=
  NoDup (map c_path L) /\ Forall (entry_ok p L) L.

Lemma NoDup_map_nth {A B} (f : A -> B) (l : list A) i j x y :
  NoDup (map f l) -> nth_error l i = Some x -> nth_error l j = Some y -> f x = f y -> i = j.
Proof.
  intros Hnd Hi Hj Hf. rewrite NoDup_nth_error in Hnd. apply Hnd.
  - rewrite map_length. apply nth_error_Some. rewrite Hi. discriminate.
  - rewrite !nth_error_map, Hi, Hj. simpl. f_equal. exact Hf.
Qed.

Lemma NoDup_app_intro {A} (l1 l2 : list A) :
  NoDup l1 -> NoDup l2 -> (forall x, In x l1 -> In x l2 -> False) -> NoDup (l1 ++ l2).
Proof.
  induction l1 as [|x l1 IH]; intros H1 H2 Hd; simpl; [exact H2|].
  inversion H1 as [|? ? Hx H1']; subst. constructor.
  - rewrite in_app_iff. intros [H|H]; [exact (Hx H)|exact (Hd x (or_introl eq_refl) H)].
  - apply IH; auto. intros y Hy1 Hy2. exact (Hd y (or_intror Hy1) Hy2).
Qed.

Lemma entry_ok_weaken p L L' y :
  entry_ok p L y ->
  (forall i px, nth_error L i = Some px ->
     exists px', nth_error L' i = Some px' /\ c_path px' = c_path px /\ c_tk px' = c_tk px /\
                 forall m, consumed (get_task p (c_tk px)) (c_pc px) (c_ds px) m = true ->
                           consumed (get_task p (c_tk px')) (c_pc px') (c_ds px') m = true) ->
  entry_ok p L' y.
Proof.
  intros (Hs & Hne & Hp) Hw. split; [exact Hs|]. split; [exact Hne|].
  destruct (c_par y) as [i|]; [|exact Hp].
  destruct Hp as [Hk (px & m & Hpx & Hpath & Hc)]. split; [exact Hk|].
  destruct (Hw i px Hpx) as (px' & Hpx' & Hp' & Ht' & Hm). exists px', m. repeat split; auto.
  - rewrite Hp'. exact Hpath.
Qed.

(* the list-level preservation lemma *)
Lemma uniq_move p L a ex ex' news :
  uniq p L ->
  nth_error L a = Some ex ->
  c_path ex' = c_path ex -> c_tk ex' = c_tk ex -> c_par ex' = c_par ex -> c_kind ex' = c_kind ex ->
  sdec (c_ds ex') = true -> ds_bound (c_pc ex') (c_ds ex') = true ->
  (forall m, consumed (get_task p (c_tk ex)) (c_pc ex) (c_ds ex) m = true ->
             consumed (get_task p (c_tk ex)) (c_pc ex') (c_ds ex') m = true) ->
  Forall (fun n => c_par n = Some a /\ c_kind n <> KRoot /\ c_ds n = [] /\
                   exists m, c_path n = c_path ex ++ [m] /\
                             consumed (get_task p (c_tk ex)) (c_pc ex) (c_ds ex) m = false /\
                             consumed (get_task p (c_tk ex)) (c_pc ex') (c_ds ex') m = true) news ->
  NoDup (map c_path news) ->
  uniq p (upd L a ex' ++ news).
Proof.
  intros [Hnd Hall] Ha Hp Ht Hpar Hk Hsd Hdb Hmono Hnews Hndn.
  assert (Hlt : a < length L) by (apply nth_error_Some; rewrite Ha; discriminate).
  assert (Hpaths : map c_path (upd L a ex') = map c_path L).
  { rewrite map_upd, Hp. apply upd_same. rewrite nth_error_map, Ha. reflexivity. }
  (* every old entry is still there, with monotone consumption *)
  assert (Hw : forall i px, nth_error L i = Some px ->
     exists px', nth_error (upd L a ex' ++ news) i = Some px' /\ c_path px' = c_path px /\ c_tk px' = c_tk px /\
                 forall m, consumed (get_task p (c_tk px)) (c_pc px) (c_ds px) m = true ->
                           consumed (get_task p (c_tk px')) (c_pc px') (c_ds px') m = true).
  { intros i px Hi.
    assert (Hil : i < length L) by (apply nth_error_Some; rewrite Hi; discriminate).
    rewrite nth_error_app1 by (rewrite upd_length; exact Hil).
    destruct (Nat.eq_dec a i) as [<-|Hne].
    - rewrite Ha in Hi. injection Hi as <-. exists ex'. split; [eapply nth_error_upd_same; eauto|].
      repeat split; auto. rewrite Ht. exact Hmono.
    - exists px. split; [rewrite nth_error_upd_other by exact Hne; exact Hi|]. repeat split; auto. }
  assert (Hnepath : forall y, In y L -> c_path y <> []).
  { intros y Hy. rewrite Forall_forall in Hall. apply (Hall y Hy). }
  split.
  - (* NoDup *)
    rewrite map_app, Hpaths. apply NoDup_app_intro; auto.
    intros pth Hin1 Hin2.
    apply in_map_iff in Hin2. destruct Hin2 as [n [Hn Hnin]].
    rewrite Forall_forall in Hnews. destruct (Hnews n Hnin) as (_ & _ & _ & m & Hpm & Hcf & _).
    apply in_map_iff in Hin1. destruct Hin1 as [z [Hz Hzin]].
    rewrite Forall_forall in Hall. destruct (Hall z Hzin) as (_ & Hzne & Hzp).
    assert (Hzpath : c_path z = c_path ex ++ [m]) by congruence.
    destruct (c_par z) as [i|].
    + destruct Hzp as [_ (px & m' & Hpx & Hzp' & Hc)].
      rewrite Hzpath in Hzp'. apply app_inj_tail in Hzp'. destruct Hzp' as [Hpp <-].
      assert (i = a) by (eapply (NoDup_map_nth c_path L); eauto).
      subst i. rewrite Ha in Hpx. injection Hpx as <-. congruence.
    + destruct Hzp as [_ Hlen]. rewrite Hzpath, app_length in Hlen. simpl in Hlen.
      assert (c_path ex <> []) by (apply Hnepath; eapply nth_error_In; eauto).
      destruct (c_path ex); [congruence|simpl in Hlen; lia].
  - apply Forall_app. split.
    + (* old entries *)
      apply Forall_forall. intros y Hy. apply In_nth_error in Hy. destruct Hy as [j Hj].
      assert (Hjl : j < length L) by (rewrite <- (upd_length L a ex'); apply nth_error_Some; rewrite Hj; discriminate).
      rewrite Forall_forall in Hall.
      destruct (Nat.eq_dec a j) as [<-|Hne].
      * rewrite (nth_error_upd_same L a ex' ex Ha) in Hj. injection Hj as <-.
        assert (He : entry_ok p L ex) by (apply Hall; eapply nth_error_In; eauto).
        destruct He as (_ & Hne' & Hpp). split; [split; assumption|]. split; [congruence|].
        rewrite Hpar. destruct (c_par ex) as [i|].
        -- destruct Hpp as [Hk' (px & m & Hpx & Hpm & Hc)]. split; [congruence|].
           destruct (Hw i px Hpx) as (px' & Hpx' & Hp' & Ht' & Hm). exists px', m.
           repeat split; auto. rewrite Hp, Hp'. exact Hpm.
        -- destruct Hpp. split; congruence.
      * rewrite nth_error_upd_other in Hj by exact Hne.
        eapply entry_ok_weaken; [apply Hall; eapply nth_error_In; eauto|exact Hw].
    + (* new entries *)
      apply Forall_forall. intros n Hn. rewrite Forall_forall in Hnews.
      destruct (Hnews n Hn) as (Hnp & Hnk & Hnd0 & m & Hpm & _ & Hct).
      split; [split|split].
      * rewrite Hnd0. reflexivity.
      * rewrite Hnd0. destruct (c_pc n); reflexivity.
      * rewrite Hpm. destruct (c_path ex); discriminate.
      * rewrite Hnp. split; [exact Hnk|]. exists ex', m. repeat split.
        -- rewrite nth_error_app1 by (rewrite upd_length; exact Hlt). eapply nth_error_upd_same; eauto.
        -- rewrite Hp. exact Hpm.
        -- rewrite Ht. exact Hct.
Qed.

(* ------------------------------------------------------------------ *)
(* the machine preserves it                                            *)

Global Hint Rewrite (pj_set_act csof) (pj_emit csof) (pj_cancel csof) (pj_acquire csof) (pj_release csof)
  (pj_finish csof csof_gerr) : csdb.

Lemma sdec_tl l : sdec l = true -> sdec (tl l) = true.
Proof. destruct l as [|x [|y r]]; simpl; auto. intros H. apply andb_true_iff in H. apply H. Qed.

Lemma sdec_push i l : forallb (fun d => Nat.ltb d i) l = true -> sdec l = true -> sdec (i :: l) = true.
Proof. destruct l as [|y r]; simpl; auto. intros H1 H2. apply andb_true_iff in H1. destruct H1 as [H1 _]. rewrite H1. exact H2. Qed.

Lemma bound_weaken i l : forallb (fun d => Nat.ltb d i) l = true -> forallb (fun d => Nat.ltb d (S i)) l = true.
Proof.
  intros H. rewrite forallb_forall in *. intros d Hd. specialize (H d Hd). apply Nat.ltb_lt in H. apply Nat.ltb_lt. lia.
Qed.

Lemma bound_tl i l : forallb (fun d => Nat.ltb d i) l = true -> forallb (fun d => Nat.ltb d i) (tl l) = true.
Proof. destruct l; simpl; auto. intros H. apply andb_true_iff in H. apply H. Qed.

Lemma mem_tl j l : existsb (Nat.eqb j) (tl l) = true -> existsb (Nat.eqb j) l = true.
Proof. destruct l; simpl; auto. intros ->. apply orb_true_r. Qed.

Lemma sdec_head_notin j l : sdec (j :: l) = true -> existsb (Nat.eqb j) l = false.
Proof.
  revert j; induction l as [|y r IH]; intros j H; simpl in *; [reflexivity|].
  apply andb_true_iff in H. destruct H as [H1 H2]. apply Nat.ltb_lt in H1.
  apply orb_false_iff. split; [apply Nat.eqb_neq; lia|].
  apply IH. destruct r as [|z r']; simpl in *; [reflexivity|].
  apply andb_true_iff in H2. destruct H2 as [H3 H4]. apply Nat.ltb_lt in H3.
  apply andb_true_iff. split; [apply Nat.ltb_lt; lia|exact H4].
Qed.

Ltac mono_goal :=
  let m := fresh "m" in
  intros m; unfold consumed; simpl;
  destruct (Nat.ltb m _); simpl; auto;
  match goal with |- context [nth_error ?l ?k] => destruct (nth_error l k) as [[| | |]|]; simpl; auto end;
  try (intros Hc; apply andb_true_iff in Hc; destruct Hc as [_ Hc]; apply negb_true_iff in Hc;
       apply negb_true_iff;
       match goal with |- existsb ?f (tl ?l) = false =>
         destruct (existsb f (tl l)) eqn:Em; [apply mem_tl in Em; congruence|reflexivity] end);
  try (rewrite ?Nat.ltb_lt, ?Nat.leb_le; lia);
  try (intros Hc; apply negb_true_iff in Hc; apply orb_false_iff in Hc; destruct Hc as [_ Hc]; rewrite Hc; reflexivity);
  try discriminate.

Ltac uniq_setup Hinv Hn :=
  match goal with |- uniq ?p (pj csof ?s') =>
    let E := fresh "E" in
    let ev := fresh "ev" in
    evar (ev : cs);
    assert (E : pj csof s' = upd (pj csof _) _ ev ++ [])
      by (subst ev; autorewrite with csdb; simpl; autorewrite with csdb; rewrite ?app_nil_r; reflexivity);
    rewrite E; subst ev; clear E;
    eapply uniq_move;
    [ exact Hinv | exact Hn | reflexivity | reflexivity | reflexivity | reflexivity
    | simpl | simpl | simpl | constructor | constructor ]
  end.

Lemma step_uniq p c s a s' : uniq p (pj csof s) -> step p c s a = Some s' -> uniq p (pj csof s').
Proof.
  intros Hinv H.
  destruct (get_act s a) as [x|] eqn:Hx; [|unfold step in H; rewrite Hx in H; discriminate].
  pose proof (pj_nth csof _ _ _ Hx) as Hn.
  pose proof (pj_lt csof _ _ _ Hx) as Hlt.
  assert (He : entry_ok p (pj csof s) (csof x)).
  { destruct Hinv as [_ Hall]. rewrite Forall_forall in Hall. apply Hall. eapply nth_error_In; eauto. }
  destruct He as ((Hsd & Hdb) & _ & _). simpl in Hsd, Hdb.
  step_cases H Hx; simpl in Hdb;
    try (match goal with |- uniq ?p (pj csof ?s') =>
           let E := fresh "E" in
           evar (ex' : cs);
           assert (E : pj csof s' = upd (pj csof s) a ex' ++ [])
             by (subst ex'; autorewrite with csdb; simpl; autorewrite with csdb; rewrite ?app_nil_r; reflexivity);
           rewrite E; subst ex'; clear E;
           eapply uniq_move;
           [ exact Hinv | exact Hn | reflexivity | reflexivity | reflexivity | reflexivity
           | simpl; first [exact Hsd | apply sdec_tl; exact Hsd | apply sdec_push; assumption | reflexivity]
           | simpl; rewrite ?Hpc; simpl;
             first [exact Hdb | reflexivity | apply bound_weaken; exact Hdb
                   | (simpl; rewrite Nat.ltb_lt by lia; simpl; apply bound_weaken; exact Hdb) | apply bound_tl; exact Hdb ]
           | simpl; rewrite ?Hpc; mono_goal
           | constructor | constructor ]
         end).
  all: try (intros Hc; apply Nat.ltb_lt in Hc; apply Nat.ltb_lt; lia).
  - (* fork deps *)
    apply fork_deps_spec in Heqp0. simpl in Heqp0.
    destruct Heqp0 as [news (Ha & _ & _ & _ & _ & _ & _ & _ & Hl & _ & Hf & Hk)].
    assert (E : pj csof (set_act s0 a (set_kids (set_holds (set_pc x PDepsJoin) false) l (length (ctxs (release c s)))))
                = upd (pj csof s) a (csof (set_pc x PDepsJoin)) ++ map csof news).
    { unfold pj at 1. rewrite acts_set_act, map_upd, Ha, release_acts, map_app.
      rewrite upd_app_l by exact Hlt. reflexivity. }
    rewrite E. eapply uniq_move; [exact Hinv|exact Hn|reflexivity..| | | | | ]; simpl.
    + exact Hsd.
    + exact Hdb.
    + rewrite Hpc. mono_goal.
    + apply Forall_forall. intros n Hn'. apply in_map_iff in Hn'. destruct Hn' as [y [<- Hy]].
      apply In_nth_error in Hy. destruct Hy as [k Hy].
      assert (Hkl : k < length (t_deps (get_task p (a_task x)))).
      { rewrite <- Hl. apply nth_error_Some. rewrite Hy. discriminate. }
      destruct (nth_error (t_deps (get_task p (a_task x))) k) as [d|] eqn:Ed; [|apply nth_error_None in Ed; lia].
      destruct (Hk k d Ed) as [y' (Hy' & Hp & _)]. rewrite Hy in Hy'. injection Hy' as <-.
      rewrite Forall_forall in Hf. destruct (Hf y (nth_error_In _ _ Hy)) as (_ & _ & Hkd & Hpar & Hdf & _).
      simpl. repeat split; auto; try (rewrite Hkd; discriminate).
      exists k. split; [exact Hp|]. unfold consumed. apply Nat.ltb_lt in Hkl. rewrite Hkl, Hpc. split; reflexivity.
    + (* the new paths are pairwise distinct *)
      rewrite map_map. simpl. apply NoDup_nth_error. intros i j Hi Heq.
      rewrite map_length in Hi. rewrite !nth_error_map in Heq.
      destruct (nth_error news i) as [yi|] eqn:Ei; [|apply nth_error_None in Ei; lia].
      destruct (nth_error news j) as [yj|] eqn:Ej; [|discriminate].
      assert (Hil : i < length (t_deps (get_task p (a_task x)))) by (rewrite <- Hl; exact Hi).
      assert (Hjl : j < length (t_deps (get_task p (a_task x)))).
      { rewrite <- Hl. apply nth_error_Some. rewrite Ej. discriminate. }
      destruct (nth_error (t_deps (get_task p (a_task x))) i) as [di|] eqn:Edi; [|apply nth_error_None in Edi; lia].
      destruct (nth_error (t_deps (get_task p (a_task x))) j) as [dj|] eqn:Edj; [|apply nth_error_None in Edj; lia].
      destruct (Hk i di Edi) as [yi' (Hyi & Hpi & _)]. destruct (Hk j dj Edj) as [yj' (Hyj & Hpj & _)].
      rewrite Ei in Hyi. rewrite Ej in Hyj. injection Hyi as <-. injection Hyj as <-.
      simpl in Heq. injection Heq as Heq. rewrite Hpi, Hpj in Heq. apply app_inj_tail in Heq.
      destruct Heq as [_ Heq]. exact Heq.
  - (* PPrompt -> PCmd 0 *)
    uniq_setup Hinv Hn; [exact Hsd| |rewrite Hpc; mono_goal].
    destruct (a_defers x); [reflexivity|discriminate].
  - (* call *)
    assert (E : forall sA nA, pj csof (set_act {| acts := acts (release c s) ++ [nA]; used := used (release c s);
                 dedup := dedup (release c s); calls := calls (release c s); ctxs := ctxs (release c s);
                 trace := trace (release c s); rootres := rootres (release c s); rungerr := rungerr (release c s) |} a sA)
               = upd (pj csof s) a (csof sA) ++ map csof [nA]).
    { intros sA nA. unfold pj at 1. rewrite acts_set_act, map_upd. simpl. rewrite release_acts, map_app.
      rewrite upd_app_l by exact Hlt. reflexivity. }
    rewrite E. eapply uniq_move; [exact Hinv|exact Hn|reflexivity..| | | | | ]; simpl.
    + exact Hsd.
    + exact Hdb.
    + rewrite Hpc. mono_goal.
    + constructor; [|constructor]. simpl. repeat split; auto; try discriminate.
      eexists. split; [reflexivity|]. unfold consumed. rewrite Hpc.
      replace (Nat.ltb _ _) with false by (symmetry; apply Nat.ltb_ge; lia).
      rewrite Nat.add_comm, Nat.add_sub, Heqo. simpl. rewrite Nat.ltb_irrefl, Nat.leb_refl. split; reflexivity.
    + repeat constructor. simpl. tauto.
  - (* defer entry registered: shell *)
    uniq_setup Hinv Hn.
    + apply sdec_push; assumption.
    + replace (Nat.ltb i (S i)) with true by (symmetry; apply Nat.ltb_lt; lia). simpl. apply bound_weaken. exact Hdb.
    + rewrite Hpc. mono_goal.
  - (* defer entry registered: call *)
    uniq_setup Hinv Hn.
    + apply sdec_push; assumption.
    + replace (Nat.ltb i (S i)) with true by (symmetry; apply Nat.ltb_lt; lia). simpl. apply bound_weaken. exact Hdb.
    + rewrite Hpc. mono_goal.
  - (* PDefers [] -> PEnd *)
    uniq_setup Hinv Hn; [rewrite Heql; reflexivity|reflexivity|rewrite Hpc; mono_goal].
  - uniq_setup Hinv Hn; [rewrite Heql; exact (sdec_tl _ Hsd)|reflexivity|rewrite Hpc, ?Heql; mono_goal].
  - uniq_setup Hinv Hn; [rewrite Heql; exact (sdec_tl _ Hsd)|reflexivity|rewrite Hpc, ?Heql; mono_goal].
  - uniq_setup Hinv Hn; [rewrite Heql; exact (sdec_tl _ Hsd)|reflexivity|rewrite Hpc, ?Heql; mono_goal].
  - (* deferred call *)
    assert (E : forall sA nA, pj csof (set_act {| acts := acts (release c s) ++ [nA]; used := used (release c s);
                 dedup := dedup (release c s); calls := calls (release c s); ctxs := ctxs (release c s);
                 trace := trace (release c s); rootres := rootres (release c s); rungerr := rungerr (release c s) |} a sA)
               = upd (pj csof s) a (csof sA) ++ map csof [nA]).
    { intros sA nA. unfold pj at 1. rewrite acts_set_act, map_upd. simpl. rewrite release_acts, map_app.
      rewrite upd_app_l by exact Hlt. reflexivity. }
    rewrite E. eapply uniq_move; [exact Hinv|exact Hn|reflexivity..| | | | | ]; simpl.
    + rewrite Heql; exact (sdec_tl _ Hsd).
    + reflexivity.
    + rewrite Hpc, ?Heql. mono_goal.
    + constructor; [|constructor]. simpl. repeat split; auto; try discriminate.
      eexists. split; [reflexivity|]. unfold consumed. rewrite Hpc.
      replace (Nat.ltb _ _) with false by (symmetry; apply Nat.ltb_ge; lia).
      rewrite Nat.add_comm, Nat.add_sub, Heqo. simpl. rewrite Heql. simpl. rewrite Nat.eqb_refl. simpl.
      split; [reflexivity|]. rewrite (sdec_head_notin _ _ Hsd). reflexivity.
    + repeat constructor. simpl. tauto.
  - uniq_setup Hinv Hn; [rewrite Heql; exact (sdec_tl _ Hsd)|reflexivity|rewrite Hpc, ?Heql; mono_goal].
Qed.

Lemma uniq_init p : uniq p (pj csof (init_state p)).
Proof. split; constructor. Qed.

Lemma root_started_false s k :
  root_started s k = false ->
  forall y, In y (acts s) -> a_kind y = KRoot -> a_path y <> [k].
Proof.
  unfold root_started. intros H y Hy Hk Hp.
  assert (existsb (fun x => match a_kind x, a_path x with KRoot, [k'] => Nat.eqb k k' | _, _ => false end) (acts s) = true).
  { apply existsb_exists. exists y. split; [exact Hy|]. rewrite Hk, Hp. apply Nat.eqb_refl. }
  congruence.
Qed.

Lemma start_root_uniq p c s k s' : uniq p (pj csof s) -> start_root p c s k = Some s' -> uniq p (pj csof s').
Proof.
  intros [Hnd Hall] H. unfold start_root in H.
  destruct (nth_error (cf_roots c) k) as [cl|]; [|discriminate].
  destruct (negb (precheck_ok p c)) eqn:Ep; [discriminate|]. simpl in H.
  destruct (root_started s k) eqn:Er; [discriminate|].
  match type of H with (if ?b then _ else _) = _ => destruct b end; [|discriminate].
  injection H as <-. unfold add_act, pj. simpl. rewrite map_app. simpl.
  fold (pj csof s).
  split.
  - rewrite map_app. simpl. apply NoDup_app_intro; [exact Hnd|repeat constructor; simpl; tauto|].
    intros pth Hin [<-|[]].
    apply in_map_iff in Hin. destruct Hin as [z [Hz Hzin]].
    rewrite Forall_forall in Hall. destruct (Hall z Hzin) as (_ & Hne & Hp).
    unfold pj in Hzin. apply in_map_iff in Hzin. destruct Hzin as [y [<- Hy]]. simpl in *.
    destruct (a_parent y) as [i|] eqn:Epar.
    + destruct Hp as [_ (px & m & Hpx & Hpm & _)].
      rewrite Hz in Hpm. destruct (c_path px) as [|q r] eqn:Eq.
      * (* parent path empty: impossible *)
        apply nth_error_In in Hpx. destruct (Hall px Hpx) as (_ & Hpne & _). congruence.
      * simpl in Hpm. injection Hpm as _ Hr. destruct r; discriminate.
    + destruct Hp as [Hk _]. exact (root_started_false s k Er y Hy Hk Hz).
  - apply Forall_app. split.
    + eapply Forall_impl; [|exact Hall]. intros y Hy. eapply entry_ok_weaken; [exact Hy|].
      intros i px Hpx. exists px. split; [|repeat split; auto].
      rewrite nth_error_app1; [exact Hpx|]. apply nth_error_Some. rewrite Hpx. discriminate.
    + constructor; [|constructor]. split; [split; reflexivity|]. split; [discriminate|]. simpl. split; reflexivity.
Qed.

Lemma run_uniq p c sched : uniq p (pj csof (run p c sched)).
Proof.
  unfold run. generalize (uniq_init p). generalize (init_state p).
  induction sched as [|ch sched IH]; intros s Hs; simpl; [exact Hs|].
  apply IH. destruct ch as [a|k]; simpl.
  - destruct (step p c s a) eqn:E; [eapply step_uniq; eauto|exact Hs].
  - destruct (start_root p c s k) eqn:E; [eapply start_root_uniq; eauto|exact Hs].
Qed.

(* call paths identify activations, in every reachable state *)
Theorem paths_unique p c sched i j x y :
  get_act (run p c sched) i = Some x -> get_act (run p c sched) j = Some y -> a_path x = a_path y -> i = j.
Proof.
  intros Hi Hj Hp. destruct (run_uniq p c sched) as [Hnd _].
  eapply (NoDup_map_nth c_path (pj csof (run p c sched)) i j (csof x) (csof y)); auto;
    apply pj_nth; assumption.
Qed.
