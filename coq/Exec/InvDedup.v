(* C06: a deduplicated task (run: once / when_changed) starts at most once per key, and a
   caller is only skipped in favour of an execution that was really started. *)
From Coq Require Import List Arith Bool Lia.
Import ListNotations.
From TV Require Import Exec.Model Exec.Monitors Exec.Facts Exec.InvSlots Exec.Proj Exec.InvPaths.

Lemma dedup_set_act s a x : dedup (set_act s a x) = dedup s. Proof. reflexivity. Qed.
Lemma dedup_emit s e : dedup (emit s e) = dedup s. Proof. reflexivity. Qed.
Lemma dedup_notify s x r : dedup (notify_parent s x r) = dedup s.
Proof.
  unfold notify_parent. destruct (a_kind x); try reflexivity.
  destruct (a_parent x) as [pa|]; try reflexivity. destruct r as [|e]; try reflexivity.
  destruct (get_act s pa) as [px|]; try reflexivity. destruct (a_gerr px); try reflexivity.
  rewrite cancel_ctx_dedup. reflexivity.
Qed.
Lemma dedup_finish s a x r : dedup (finish s a x r) = dedup s.
Proof.
  unfold finish.
  assert (E : dedup (notify_parent (emit (set_act s a (set_pc x (PDone r))) (EvEnd (a_path x) r)) x r) = dedup s).
  { rewrite dedup_notify. reflexivity. }
  destruct (a_kind x); try exact E.
  destruct r; [|destruct (rungerr _)]; rewrite ?cancel_ctx_dedup; exact E.
Qed.

Global Hint Rewrite dedup_set_act dedup_emit dedup_finish cancel_ctx_dedup acquire_dedup release_dedup : dddb.

Lemma key_eqb_refl k : key_eqb k k = true.
Proof. destruct k; simpl; rewrite ?Nat.eqb_refl; reflexivity. Qed.

Lemma key_eqb_eq k k' : key_eqb k k' = true -> k = k'.
Proof.
  destruct k, k'; simpl; intros H; try discriminate.
  - apply Nat.eqb_eq in H. subst. reflexivity.
  - apply andb_true_iff in H. destruct H as [H1 H2]. apply Nat.eqb_eq in H1, H2. subst. reflexivity.
Qed.

Lemma lookup_none_mem d k : lookup_key d k = None -> mem_key k (map fst d) = false.
Proof.
  induction d as [|[k' o] d IH]; simpl; intros H; [reflexivity|].
  destruct (key_eqb k k'); [discriminate|]. simpl. apply IH. exact H.
Qed.

Lemma lookup_some_mem d k o : lookup_key d k = Some o -> mem_key k (map fst d) = true.
Proof.
  induction d as [|[k' o'] d IH]; simpl; intros H; [discriminate|].
  destruct (key_eqb k k'); [reflexivity|]. simpl. apply IH. exact H.
Qed.

Lemma mem_key_rev k l : mem_key k (rev l) = mem_key k l.
Proof.
  unfold mem_key. induction l as [|x l IH]; simpl; [reflexivity|].
  rewrite existsb_app, IH. simpl. rewrite orb_false_r. apply orb_comm.
Qed.

Lemma mem_key_app k l1 l2 : mem_key k (l1 ++ l2) = mem_key k l1 || mem_key k l2.
Proof. unfold mem_key. apply existsb_app. Qed.

Lemma started_keys_app p c t1 t2 : started_keys p c (t1 ++ t2) = started_keys p c t1 ++ started_keys p c t2.
Proof. unfold started_keys. apply flat_map_app. Qed.
Lemma skipped_keys_app t1 t2 : skipped_keys (t1 ++ t2) = skipped_keys t1 ++ skipped_keys t2.
Proof. unfold skipped_keys. apply flat_map_app. Qed.

Record inv06 (p : prog) (c : cfg) (s : state) : Prop := {
  i06_ids : inv_ids p c s;
  i06_fold : mfold (step06 p c) [] (trace s) = Some (rev (map fst (dedup s)));
  i06_started : forall k, mem_key k (map fst (dedup s)) = true -> mem_key k (started_keys p c (trace s)) = true;
  i06_skipped : forallb (fun k => mem_key k (started_keys p c (trace s))) (skipped_keys (trace s)) = true
}.

(* events that are neither "started" nor "skipping" do not concern this monitor *)
Definition neutral06 (e : event) : bool :=
  match e with EvStarted _ _ | EvSkipping _ _ => false | _ => true end.

Lemma mfold06_neutral p c st evs :
  forallb neutral06 evs = true -> mfold (step06 p c) st evs = Some st.
Proof.
  revert st; induction evs as [|e evs IH]; intros st H; simpl in *; [reflexivity|].
  apply andb_true_iff in H. destruct H as [H1 H2]. destruct e; simpl in *; try discriminate; apply IH; exact H2.
Qed.

Lemma started_neutral p c evs : forallb neutral06 evs = true -> started_keys p c evs = [].
Proof.
  induction evs as [|e evs IH]; intros H; simpl in *; [reflexivity|].
  apply andb_true_iff in H. destruct H as [H1 H2]. unfold started_keys in *. simpl.
  destruct e; simpl in *; try discriminate; apply IH; exact H2.
Qed.
Lemma skipped_neutral evs : forallb neutral06 evs = true -> skipped_keys evs = [].
Proof.
  induction evs as [|e evs IH]; intros H; simpl in *; [reflexivity|].
  apply andb_true_iff in H. destruct H as [H1 H2]. unfold skipped_keys in *. simpl.
  destruct e; simpl in *; try discriminate; apply IH; exact H2.
Qed.

Lemma forallb_mem_weaken p c tr1 tr2 ks :
  forallb (fun k => mem_key k (started_keys p c tr1)) ks = true ->
  forallb (fun k => mem_key k (started_keys p c (tr1 ++ tr2))) ks = true.
Proof.
  intros H. rewrite forallb_forall in *. intros k Hk. rewrite started_keys_app, mem_key_app, (H k Hk). reflexivity.
Qed.

Lemma inv06_neutral p c s s' evs :
  inv06 p c s -> inv_ids p c s' -> dedup s' = dedup s -> trace s' = trace s ++ evs ->
  forallb neutral06 evs = true -> inv06 p c s'.
Proof.
  intros [Hi Hf Hs Hk] Hi' Hd Ht Hn. constructor; auto.
  - rewrite Ht, mfold_app, Hf, Hd. apply mfold06_neutral. exact Hn.
  - intros k Hm. rewrite Hd in Hm. rewrite Ht, started_keys_app, mem_key_app, (Hs k Hm). reflexivity.
  - rewrite Ht, skipped_keys_app, (skipped_neutral evs Hn), app_nil_r. apply forallb_mem_weaken. exact Hk.
Qed.

Lemma step_inv06 p c s a s' : inv06 p c s -> step p c s a = Some s' -> inv06 p c s'.
Proof.
  intros Hinv H.
  pose proof (step_inv_ids p c s a s' (i06_ids _ _ _ Hinv) H) as Hids'.
  destruct (get_act s a) as [x|] eqn:Hx; [|unfold step in H; rewrite Hx in H; discriminate].
  pose proof (key_of_act_get p c s a x (i06_ids _ _ _ Hinv) Hx) as Hkey.
  step_cases H Hx;
    try (eapply inv06_neutral with (evs := _);
         [ exact Hinv | exact Hids'
         | autorewrite with dddb; simpl; autorewrite with dddb; reflexivity
         | autorewrite with sigdb; simpl; rewrite <- ?app_assoc; first [reflexivity | symmetry; apply app_nil_r]
         | reflexivity ]).
  - (* skipped: the key is registered, hence was started *)
    destruct Hinv as [Hi Hf Hs Hk]. constructor; auto; simpl.
    + rewrite mfold_app, Hf. reflexivity.
    + intros k0 Hm. rewrite started_keys_app, mem_key_app, (Hs k0 Hm). reflexivity.
    + rewrite skipped_keys_app, forallb_app. apply andb_true_iff. split.
      * apply forallb_mem_weaken. exact Hk.
      * simpl. rewrite started_keys_app, mem_key_app, (Hs k (lookup_some_mem _ _ _ Heqo0)). reflexivity.
  - (* registered: first start of this key *)
    destruct Hinv as [Hi Hf Hs Hk]. constructor; auto; simpl.
    + rewrite mfold_app, Hf. simpl. rewrite Hkey.
      rewrite mem_key_rev, (lookup_none_mem _ _ Heqo0). rewrite map_app, rev_app_distr. reflexivity.
    + intros k0 Hm. rewrite map_app, mem_key_app in Hm. rewrite started_keys_app, mem_key_app.
      apply orb_true_iff in Hm. destruct Hm as [Hm|Hm].
      * rewrite (Hs k0 Hm). reflexivity.
      * unfold started_keys at 2. simpl. rewrite Hkey. simpl in *. rewrite Hm. apply orb_true_r.
    + rewrite skipped_keys_app. unfold skipped_keys at 2. simpl. rewrite app_nil_r.
      apply forallb_mem_weaken. exact Hk.
  - (* not deduplicated *)
    destruct Hinv as [Hi Hf Hs Hk]. constructor; auto; simpl.
    + rewrite mfold_app, Hf. simpl. rewrite Hkey. reflexivity.
    + intros k0 Hm. rewrite started_keys_app, mem_key_app, (Hs k0 Hm). reflexivity.
    + rewrite skipped_keys_app. unfold skipped_keys at 2. simpl. rewrite app_nil_r.
      apply forallb_mem_weaken. exact Hk.
  - (* fork deps *)
    apply fork_deps_spec in Heqp0. simpl in Heqp0.
    destruct Heqp0 as [news (_ & _ & Ht & Hd & _)].
    eapply inv06_neutral with (evs := []).
    + exact Hinv.
    + exact Hids'.
    + rewrite dedup_set_act, Hd, release_dedup. reflexivity.
    + rewrite trace_set_act, Ht, release_trace. symmetry. apply app_nil_r.
    + reflexivity.
Qed.

Lemma inv06_init p c : inv06 p c (init_state p).
Proof. constructor; simpl; auto; try constructor; try (intros k H; discriminate). Qed.

Lemma start_root_inv06 p c s k s' : inv06 p c s -> start_root p c s k = Some s' -> inv06 p c s'.
Proof.
  intros [Hi Hf Hs Hk] H. pose proof (start_root_inv_ids p c s k s' Hi H) as Hi'.
  unfold start_root in H.
  destruct (nth_error (cf_roots c) k) as [cl|]; [|discriminate].
  destruct (negb (precheck_ok p c) || root_started s k); [discriminate|].
  match type of H with (if ?b then _ else _) = _ => destruct b end; [|discriminate].
  injection H as <-. constructor; auto.
Qed.

Lemma run_inv06 p c sched : inv06 p c (run p c sched).
Proof.
  unfold run. generalize (inv06_init p c). generalize (init_state p).
  induction sched as [|ch sched IH]; intros s Hs; simpl; [exact Hs|].
  apply IH. destruct ch as [a|k]; simpl.
  - destruct (step p c s a) eqn:E; [eapply step_inv06; eauto|exact Hs].
  - destruct (start_root p c s k) eqn:E; [eapply start_root_inv06; eauto|exact Hs].
Qed.

(* C06 (counts): for every program, configuration and schedule, each dedup key is started at
   most once, and whoever is skipped is skipped in favour of a started execution *)
Theorem dedup_all_schedules p c sched : mon_C06 p c (trace (run p c sched)) = true.
Proof.
  pose proof (run_inv06 p c sched) as [_ Hf _ Hk]. unfold mon_C06, accepts. rewrite Hf, Hk. reflexivity.
Qed.
