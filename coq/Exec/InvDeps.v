(* C01: when a command of a task is announced or starts executing, every dep of the task has
   finished successfully -- either its own dep activation printed "finished" / "up to date" /
   "not for current platform", or (run: once / when_changed) the one real execution of its dedup
   key did and the dep activation, skipped in its favour, only returned after that.
   The monitor [mon_C01] is proved to accept the trace of every program, configuration and
   schedule.  Side invariants reused: inv_ids (InvPaths), uniq (InvUniq), inv_tree (InvTree). *)
From Coq Require Import List Arith Bool Lia.
Import ListNotations.
From TV Require Import Exec.Model Exec.Monitors Exec.Facts Exec.InvSlots Exec.Proj Exec.InvPaths
  Exec.Frame Exec.InvUniq Exec.InvDedup Exec.InvPhase Exec.InvTree.

(* ------------------------------------------------------------------ *)
(* vocabulary                                                          *)

(* RunTask of the activation is already determined to return nil *)
Definition okres (q : pc) : bool :=
  match q with
  | PPlatformEnd | PWReacq ROk | PDefers ROk | PDRun ROk _ | PDProbe ROk _ | PDCallWait ROk _
  | PDCallReacq ROk | PEnd ROk | PRelease ROk | PDone ROk => true
  | _ => false
  end.

(* the owner a skipped activation waits for *)
Definition waiter (q : pc) : option nat :=
  match q with PWRelease o | PWWait o => Some o | _ => None end.

(* the projection of an activation this invariant looks at *)
Record de := { d_path : aid; d_task : nat; d_var : nat; d_pc : pc; d_rk : option key }.
Definition dp (x : act) : de :=
  {| d_path := a_path x; d_task := a_task x; d_var := a_var x; d_pc := a_pc x; d_rk := a_regkey x |}.
Lemma dp_gerr x e : dp (set_gerr x e) = dp x. Proof. reflexivity. Qed.

Global Hint Rewrite (pj_set_act dp) (pj_emit dp) (pj_cancel dp) (pj_acquire dp) (pj_release dp)
  (pj_finish dp dp_gerr) : dpdb.

Definition st0 : st01 := {| ok_acts := []; ok_keys := [] |}.

(* (W) the monitor has seen why the activation returns nil *)
Definition witness (p : prog) (st : st01) (e : de) : Prop :=
  mem_aid (d_path e) (ok_acts st) = true \/
  exists k, key_of p (d_task e) (d_var e) = Some k /\ mem_key k (ok_keys st) = true.

(* (M) the monitor state only grows *)
Definition grows (st st' : st01) : Prop :=
  (forall a, mem_aid a (ok_acts st) = true -> mem_aid a (ok_acts st') = true) /\
  (forall k, mem_key k (ok_keys st) = true -> mem_key k (ok_keys st') = true).

Lemma grows_refl st : grows st st.
Proof. split; auto. Qed.

Definition ent_ok (p : prog) (D : list (key * nat)) (st : st01) (e : de) : Prop :=
  (* W *)  (okres (d_pc e) = true -> witness p st e) /\
  (* R *)  (forall k, d_rk e = Some k -> key_of p (d_task e) (d_var e) = Some k) /\
  (* D2 *) (forall k, d_rk e = Some k -> okres (d_pc e) = true -> mem_key k (ok_keys st) = true) /\
  (* N *)  (d_pc e = PEntry -> d_rk e = None) /\
  (* D3 *) (forall o, waiter (d_pc e) = Some o ->
              exists k, key_of p (d_task e) (d_var e) = Some k /\ lookup_key D k = Some o).

Record inv_deps (p : prog) (c : cfg) (s : state) (st : st01) : Prop := {
  id_ids : inv_ids p c s;
  id_uniq : uniq p (pj csof s);
  id_tree : inv_tree p s;
  id_fold : mfold (step01 false p c) st0 (trace s) = Some st;
  id_ent : forall j e, nth_error (pj dp s) j = Some e -> ent_ok p (dedup s) st e;
  (* D1 *)
  id_tab : forall k o, lookup_key (dedup s) k = Some o ->
             exists e, nth_error (pj dp s) o = Some e /\ d_rk e = Some k
}.

(* ------------------------------------------------------------------ *)
(* small facts                                                         *)

Lemma lookup_key_app D D' k :
  lookup_key (D ++ D') k = match lookup_key D k with Some o => Some o | None => lookup_key D' k end.
Proof.
  induction D as [|[k' o] D IH]; simpl; [reflexivity|]. destruct (key_eqb k k'); [reflexivity|exact IH].
Qed.

Lemma lookup_key_app_some D D' k o : lookup_key D k = Some o -> lookup_key (D ++ D') k = Some o.
Proof. intros H. rewrite lookup_key_app, H. reflexivity. Qed.

Lemma ent_ok_mono p D D' st st' e :
  ent_ok p D st e -> grows st st' ->
  (forall k o, lookup_key D k = Some o -> lookup_key D' k = Some o) ->
  ent_ok p D' st' e.
Proof.
  intros (W & R & D2 & N & D3) [Ga Gk] HD. unfold ent_ok. repeat split; auto.
  - intros Hq. destruct (W Hq) as [H|[k [H1 H2]]]; [left; auto|right; exists k; auto].
  - intros o Ho. destruct (D3 o Ho) as [k [H1 H2]]. exists k. auto.
Qed.

Lemma nth_upd_app_cases {A} (L : list A) a v rest j e :
  nth_error (upd L a v ++ rest) j = Some e ->
  (j = a /\ e = v) \/ (j <> a /\ nth_error L j = Some e) \/ In e rest.
Proof.
  intros H. destruct (Nat.lt_ge_cases j (length L)) as [Hlt|Hge].
  - rewrite nth_error_app1 in H by (rewrite upd_length; exact Hlt). rewrite nth_error_upd in H.
    destruct (Nat.eqb_spec a j) as [->|Hne].
    + destruct (nth_error L j); [|discriminate]. injection H as <-. left. split; reflexivity.
    + right; left. split; [congruence|exact H].
  - rewrite nth_error_app2 in H by (rewrite upd_length; exact Hge). right; right. eapply nth_error_In; eauto.
Qed.

Lemma nth_upd_app_old {A} (L : list A) a v rest o e :
  nth_error L o = Some e -> nth_error (upd L a v ++ rest) o = Some (if Nat.eqb a o then v else e).
Proof.
  intros H. assert (Hlt : o < length L) by (apply nth_error_Some; rewrite H; discriminate).
  rewrite nth_error_app1 by (rewrite upd_length; exact Hlt). rewrite nth_error_upd.
  destruct (Nat.eqb_spec a o) as [->|Hne]; [rewrite H; reflexivity|exact H].
Qed.

Lemma forall_idx_intro {A} (f : nat -> A -> bool) l : forall i,
  (forall j d, nth_error l j = Some d -> f (i + j) d = true) -> forall_idx f i l = true.
Proof.
  induction l as [|x l IH]; intros i H; simpl; [reflexivity|]. apply andb_true_iff. split.
  - specialize (H 0 x eq_refl). rewrite Nat.add_0_r in H. exact H.
  - apply IH. intros j d Hj. specialize (H (S j) d Hj). rewrite Nat.add_succ_r in H. exact H.
Qed.

(* state-level core (InvTree.deps_returned_ok, for any state satisfying inv_tree) *)
Lemma deps_done_ok p s a x :
  inv_tree p s -> get_act s a = Some x -> deps_ok_zone (a_pc x) = true ->
  forall j d, nth_error (t_deps (get_task p (a_task x))) j = Some d ->
    exists k y, get_act s k = Some y /\ a_path y = a_path x ++ [j] /\ a_task y = c_task d /\
                a_var y = eval_var (a_var x) (c_var d) /\ a_pc y = PDone ROk.
Proof.
  intros Hinv Hx Hz j d Hd.
  destruct (it_kids _ _ Hinv a x Hx (deps_ok_post _ Hz)) as [_ Hs].
  destruct (Hs j d Hd) as [k [Hk (y & Hy & Hp & Ht & Hv & Hkd & Hpa)]].
  exists k, y. repeat split; auto.
  pose proof (it_join _ _ Hinv a x Hx (or_intror Hz)) as Hdn.
  destruct (proj1 (all_done_iff s _) Hdn k (nth_error_In _ _ Hk)) as [r Hr].
  apply act_result_done in Hr. destruct Hr as [y0 [Hy0 Hq]].
  rewrite Hy in Hy0. injection Hy0 as <-. destruct r as [|e]; [exact Hq|].
  exfalso. destruct (it_err _ _ Hinv k y a e Hy Hkd Hpa Hq) as [x0 [Hx0 Hg]].
  rewrite Hx in Hx0. injection Hx0 as <-. unfold gsome in Hg. rewrite (it_ok _ _ Hinv a x Hx Hz) in Hg. discriminate.
Qed.

(* (E) what the monitor checks at "announce" / "probe begins" holds for an activation past its join *)
Lemma deps_ok_here p c s st a x :
  inv_deps p c s st -> get_act s a = Some x -> deps_ok_zone (a_pc x) = true ->
  deps_ok p c st (a_path x) = true.
Proof.
  intros Hinv Hx Hz. unfold deps_ok.
  rewrite (task_of_get p c s a x (id_ids _ _ _ _ Hinv) Hx), (var_of_get p c s a x (id_ids _ _ _ _ Hinv) Hx).
  apply forall_idx_intro. intros j d Hd. simpl.
  destruct (deps_done_ok p s a x (id_tree _ _ _ _ Hinv) Hx Hz j d Hd) as [k [y (Hy & Hp & Ht & Hv & Hq)]].
  destruct (id_ent _ _ _ _ Hinv k (dp y) (pj_nth dp _ _ _ Hy)) as (W & _). simpl in W.
  rewrite Hq in W. specialize (W eq_refl). unfold dep_satisfied.
  destruct W as [W|[k0 [Hk0 Hm]]]; simpl in *.
  - rewrite Hp in W. rewrite W. reflexivity.
  - rewrite Ht, Hv in Hk0. rewrite Hk0, Hm. apply orb_true_r.
Qed.

(* ------------------------------------------------------------------ *)
(* the move lemmas                                                     *)

Lemma deps_move p c s st s' st' a x q' rk' news evs dnew :
  inv_deps p c s st -> inv_ids p c s' -> uniq p (pj csof s') -> inv_tree p s' ->
  get_act s a = Some x ->
  pj dp s' = upd (pj dp s) a {| d_path := a_path x; d_task := a_task x; d_var := a_var x; d_pc := q'; d_rk := rk' |}
             ++ map dp news ->
  Forall (fun y => a_pc y = PEntry /\ a_regkey y = None) news ->
  trace s' = trace s ++ evs ->
  mfold (step01 false p c) st evs = Some st' ->
  grows st st' ->
  dedup s' = dedup s ++ dnew ->
  let e' := {| d_path := a_path x; d_task := a_task x; d_var := a_var x; d_pc := q'; d_rk := rk' |} in
  (okres q' = true -> witness p st' e') ->
  (forall k, rk' = Some k -> key_of p (a_task x) (a_var x) = Some k) ->
  (forall k, rk' = Some k -> okres q' = true -> mem_key k (ok_keys st') = true) ->
  q' <> PEntry ->
  ((dnew = [] /\ rk' = a_regkey x) \/
   (exists k, dnew = [(k, a)] /\ rk' = Some k /\ lookup_key (dedup s) k = None)) ->
  (forall o, waiter q' = Some o ->
     exists k, key_of p (a_task x) (a_var x) = Some k /\ lookup_key (dedup s) k = Some o) ->
  inv_deps p c s' st'.
Proof.
  intros [Hi Hu Ht Hf He Htab] Hi' Hu' Ht' Hx Hpj Hnews Htr Hfold Hg Hd e' L2 L3 L4 L5 L6 L7. subst e'.
  pose proof (pj_nth dp _ _ _ Hx) as Hn.
  constructor; auto.
  - rewrite Htr, mfold_app, Hf. exact Hfold.
  - intros j e Hj. rewrite Hpj in Hj. rewrite Hd.
    apply nth_upd_app_cases in Hj. destruct Hj as [[-> ->]|[[Hne Hj]|Hin]].
    + unfold ent_ok. simpl. repeat split; auto.
      * intros Hq. contradiction.
      * intros o Ho. destruct (L7 o Ho) as [k [H1 H2]]. exists k. split; [exact H1|].
        apply lookup_key_app_some. exact H2.
    + eapply ent_ok_mono; [exact (He j e Hj)|exact Hg|]. intros k o. apply lookup_key_app_some.
    + apply in_map_iff in Hin. destruct Hin as [y [<- Hy]].
      rewrite Forall_forall in Hnews. destruct (Hnews y Hy) as [Hq Hr].
      unfold ent_ok. simpl. rewrite Hq, Hr. simpl. repeat split; intros; try discriminate.
  - intros k o Hl. rewrite Hd, lookup_key_app in Hl. rewrite Hpj.
    destruct (lookup_key (dedup s) k) as [o0|] eqn:El.
    + injection Hl as ->. destruct (Htab k o El) as [e [He1 He2]].
      rewrite (nth_upd_app_old _ a _ (map dp news) o e He1). eexists. split; [reflexivity|].
      destruct (Nat.eqb_spec a o) as [->|Hne]; [|exact He2].
      rewrite Hn in He1. injection He1 as <-. simpl in He2. simpl.
      destruct L6 as [[_ ->]|[k0 (_ & -> & Hnone)]]; [exact He2|].
      destruct (He o (dp x) Hn) as (_ & R & _). simpl in R.
      pose proof (R k He2) as H1. pose proof (L3 k0 eq_refl) as H2. congruence.
    + destruct L6 as [[-> _]|[k0 (-> & -> & Hnone)]]; [discriminate|]. simpl in Hl.
      destruct (key_eqb k k0) eqn:Ek; [|discriminate]. injection Hl as <-. apply key_eqb_eq in Ek. subst k0.
      rewrite (nth_upd_app_old _ a _ (map dp news) a (dp x) Hn), Nat.eqb_refl. eexists. split; reflexivity.
Qed.

(* the bulk of the steps: the monitor state, the dedup table and the registered key stay, the
   activation does not newly become "ok", does not start waiting *)
Definition simple_tr (q q' : pc) : bool :=
  implb (okres q') (okres q) &&
  match q' with PEntry => false | _ => true end &&
  match waiter q' with
  | None => true
  | Some o => match waiter q with Some o' => Nat.eqb o o' | None => false end
  end.

Lemma deps_move_simple p c s st s' a x q' news evs :
  inv_deps p c s st -> inv_ids p c s' -> uniq p (pj csof s') -> inv_tree p s' ->
  get_act s a = Some x ->
  pj dp s' = upd (pj dp s) a {| d_path := a_path x; d_task := a_task x; d_var := a_var x; d_pc := q'; d_rk := a_regkey x |}
             ++ map dp news ->
  Forall (fun y => a_pc y = PEntry /\ a_regkey y = None) news ->
  trace s' = trace s ++ evs ->
  mfold (step01 false p c) st evs = Some st ->
  dedup s' = dedup s ->
  simple_tr (a_pc x) q' = true ->
  inv_deps p c s' st.
Proof.
  intros Hinv Hi' Hu' Ht' Hx Hpj Hnews Htr Hfold Hd Hs.
  destruct (id_ent _ _ _ _ Hinv a (dp x) (pj_nth dp _ _ _ Hx)) as (W & R & D2 & N & D3). simpl in *.
  unfold simple_tr in Hs. apply andb_true_iff in Hs. destruct Hs as [Hs S3].
  apply andb_true_iff in Hs. destruct Hs as [S1 S2].
  assert (Hok : okres q' = true -> okres (a_pc x) = true).
  { intros E. rewrite E in S1. simpl in S1. exact S1. }
  apply (deps_move p c s st s' st a x q' (a_regkey x) news evs []);
    [exact Hinv|exact Hi'|exact Hu'|exact Ht'|exact Hx|exact Hpj|exact Hnews|exact Htr|exact Hfold
    |apply grows_refl|rewrite app_nil_r; exact Hd| | | | | |].
  - simpl. intros Hq. apply W. auto.
  - exact R.
  - intros k Hk Hq. apply D2; auto.
  - intros ->. discriminate.
  - left. split; reflexivity.
  - intros o Ho. rewrite Ho in S3. destruct (waiter (a_pc x)) as [o'|] eqn:Ew; [|discriminate].
    apply Nat.eqb_eq in S3. subst o'. apply D3. reflexivity.
Qed.

(* an "ok end" line of the stepping activation: "finished" or "up to date" *)
Lemma deps_move_okend p c s st s' a x q' e :
  inv_deps p c s st -> inv_ids p c s' -> uniq p (pj csof s') -> inv_tree p s' ->
  get_act s a = Some x ->
  pj dp s' = upd (pj dp s) a {| d_path := a_path x; d_task := a_task x; d_var := a_var x; d_pc := q'; d_rk := a_regkey x |}
             ++ map dp [] ->
  trace s' = trace s ++ [e] ->
  (e = EvFinished (a_path x) \/ e = EvUpToDate (a_path x)) ->
  dedup s' = dedup s ->
  q' <> PEntry -> waiter q' = None ->
  exists st', inv_deps p c s' st'.
Proof.
  intros Hinv Hi' Hu' Ht' Hx Hpj Htr He Hd Hq Hw.
  destruct (id_ent _ _ _ _ Hinv a (dp x) (pj_nth dp _ _ _ Hx)) as (W & R & D2 & N & D3). simpl in *.
  pose proof (key_of_act_get p c s a x (id_ids _ _ _ _ Hinv) Hx) as Hkey.
  exists {| ok_acts := a_path x :: ok_acts st;
            ok_keys := match key_of p (a_task x) (a_var x) with Some k => k :: ok_keys st | None => ok_keys st end |}.
  apply (deps_move p c s st s' _ a x q' (a_regkey x) [] [e] []);
    [exact Hinv|exact Hi'|exact Hu'|exact Ht'|exact Hx|exact Hpj|constructor|exact Htr| | |rewrite app_nil_r; exact Hd
    | | | | | |].
  - destruct He as [-> | ->]; simpl; rewrite Hkey; reflexivity.
  - split; simpl.
    + intros b Hb. rewrite Hb. apply orb_true_r.
    + intros k Hk. destruct (key_of p (a_task x) (a_var x)); [simpl; rewrite Hk; apply orb_true_r|exact Hk].
  - intros _. left. simpl. rewrite aid_eqb_refl. reflexivity.
  - exact R.
  - intros k Hk _. simpl. rewrite (R k Hk). simpl. rewrite key_eqb_refl. reflexivity.
  - exact Hq.
  - left. split; reflexivity.
  - intros o Ho. rewrite Hw in Ho. discriminate.
Qed.

Lemma pj_nth_inv {B} (f : act -> B) s j e :
  nth_error (pj f s) j = Some e -> exists y, get_act s j = Some y /\ e = f y.
Proof.
  unfold pj, get_act. rewrite nth_error_map. destruct (nth_error (acts s) j) as [y|]; [|discriminate].
  intros H. injection H as <-. exists y. split; reflexivity.
Qed.

Lemma exec_result_okres s o ox : get_act s o = Some ox -> exec_result s o = Some ROk -> okres (a_pc ox) = true.
Proof.
  unfold exec_result. intros ->. destruct (a_pc ox); try discriminate; intros H; injection H as ->; reflexivity.
Qed.

(* ------------------------------------------------------------------ *)
(* preservation                                                        *)

Ltac simple_close Hpc :=
  rewrite Hpc; unfold simple_tr; simpl; rewrite ?Nat.eqb_refl; try reflexivity;
  repeat match goal with r : res |- _ => destruct r end; reflexivity.

Ltac pj_eq := autorewrite with dpdb; unfold dp; simpl; rewrite ?app_nil_r; reflexivity.
Ltac tr_eq := autorewrite with sigdb; simpl; rewrite <- ?app_assoc; first [reflexivity | symmetry; apply app_nil_r].
Ltac dd_eq := autorewrite with dddb; simpl; autorewrite with dddb; reflexivity.

Lemma step_inv_deps p c s st a s' :
  inv_deps p c s st -> step p c s a = Some s' -> exists st', inv_deps p c s' st'.
Proof.
  intros Hinv H.
  pose proof (step_inv_ids p c s a s' (id_ids _ _ _ _ Hinv) H) as Hids'.
  pose proof (step_uniq p c s a s' (id_uniq _ _ _ _ Hinv) H) as Huq'.
  pose proof (step_inv_tree p c s a s' (id_tree _ _ _ _ Hinv) (id_uniq _ _ _ _ Hinv) H) as Htr'.
  destruct (get_act s a) as [x|] eqn:Hx; [|unfold step in H; rewrite Hx in H; discriminate].
  pose proof (pj_lt dp _ _ _ Hx) as Hlt.
  pose proof (id_ent _ _ _ _ Hinv a (dp x) (pj_nth dp _ _ _ Hx)) as Hex.
  unfold ent_ok in Hex; simpl in Hex. destruct Hex as (W & R & D2 & N & D3).
  step_cases H Hx;
    try (exists st; eapply deps_move_simple with (a := a) (news := []);
         [ exact Hinv | exact Hids' | exact Huq' | exact Htr' | exact Hx
         | pj_eq | constructor | tr_eq | reflexivity | dd_eq | simple_close Hpc ]).
  - (* not for this platform *)
    exists {| ok_acts := a_path x :: ok_acts st; ok_keys := ok_keys st |}.
    eapply deps_move with (a := a) (news := []) (dnew := []) (rk' := a_regkey x);
      [ exact Hinv | exact Hids' | exact Huq' | exact Htr' | exact Hx | pj_eq | constructor | tr_eq
      | reflexivity | | rewrite app_nil_r; dd_eq | | | | | | ].
    + split; simpl; auto. intros b Hb. rewrite Hb. apply orb_true_r.
    + intros _. left. simpl. rewrite aid_eqb_refl. reflexivity.
    + exact R.
    + intros k Hk. rewrite (N eq_refl) in Hk. discriminate.
    + discriminate.
    + left. split; reflexivity.
    + intros o Ho. discriminate.
  - (* skipped in favour of the registered owner n *)
    exists st.
    eapply deps_move with (a := a) (news := []) (dnew := []) (rk' := a_regkey x);
      [ exact Hinv | exact Hids' | exact Huq' | exact Htr' | exact Hx | pj_eq | constructor | tr_eq
      | reflexivity | apply grows_refl | rewrite app_nil_r; dd_eq | | | | | | ].
    + discriminate.
    + rewrite Heqo. exact R.
    + intros k0 _ Hq. discriminate.
    + discriminate.
    + left. split; reflexivity.
    + intros o Ho. injection Ho as <-. exists k. split; assumption.
  - (* registers as the owner of k *)
    exists st.
    eapply deps_move with (a := a) (news := []) (dnew := [(k, a)]) (rk' := Some k);
      [ exact Hinv | exact Hids' | exact Huq' | exact Htr' | exact Hx
      | autorewrite with dpdb; unfold dp, pj; simpl; rewrite ?app_nil_r; reflexivity
      | constructor | reflexivity
      | reflexivity | apply grows_refl | reflexivity | | | | | | ].
    + discriminate.
    + intros k0 Hk0. injection Hk0 as <-. assumption.
    + intros k0 _ Hq. discriminate.
    + discriminate.
    + right. exists k. repeat split; assumption.
    + intros o Ho. discriminate.
  - (* the waiter learns the owner's result *)
    destruct r as [|er];
      [|exists st; eapply deps_move_simple with (a := a) (news := []);
         [ exact Hinv | exact Hids' | exact Huq' | exact Htr' | exact Hx
         | pj_eq | constructor | tr_eq | reflexivity | dd_eq | rewrite Hpc; reflexivity ]].
    destruct (D3 o eq_refl) as [k [Hk Hl]].
    destruct (id_tab _ _ _ _ Hinv k o Hl) as [eo [Heo Hrk]].
    destruct (pj_nth_inv dp s o eo Heo) as [ox [Hox ->]].
    destruct (id_ent _ _ _ _ Hinv o (dp ox) Heo) as (_ & _ & D2o & _). simpl in *.
    assert (Hmem : mem_key k (ok_keys st) = true).
    { match goal with Hr : exec_result s o = Some ROk |- _ => exact (D2o k Hrk (exec_result_okres s o ox Hox Hr)) end. }
    exists st.
    eapply deps_move with (a := a) (news := []) (dnew := []) (rk' := a_regkey x);
      [ exact Hinv | exact Hids' | exact Huq' | exact Htr' | exact Hx | pj_eq | constructor | tr_eq
      | reflexivity | apply grows_refl | rewrite app_nil_r; dd_eq | | | | | | ].
    + intros _. right. exists k. split; assumption.
    + exact R.
    + intros k0 Hk0 _. pose proof (R k0 Hk0) as E. rewrite Hk in E. injection E as <-. exact Hmem.
    + discriminate.
    + left. split; reflexivity.
    + intros o0 Ho0. discriminate.
  - (* fork deps *)
    apply fork_deps_spec in Heqp0. simpl in Heqp0.
    destruct Heqp0 as [news (Ha & _ & Ht & Hd & _ & _ & _ & _ & _ & _ & Hf & _)].
    exists st. eapply deps_move_simple with (a := a) (news := news) (evs := []);
      [ exact Hinv | exact Hids' | exact Huq' | exact Htr' | exact Hx | | | | reflexivity | | ].
    + unfold pj at 1. rewrite acts_set_act, map_upd, Ha, release_acts, map_app.
      rewrite upd_app_l by exact Hlt. reflexivity.
    + eapply Forall_impl; [|exact Hf]. intros y (H1 & _ & _ & _ & _ & H6 & _). split; assumption.
    + rewrite trace_set_act, Ht, release_trace. symmetry. apply app_nil_r.
    + rewrite dedup_set_act, Hd, release_dedup. reflexivity.
    + rewrite Hpc. reflexivity.
  - (* up to date *)
    eapply deps_move_okend with (a := a) (e := EvUpToDate (a_path x));
      [ exact Hinv | exact Hids' | exact Huq' | exact Htr' | exact Hx | pj_eq | tr_eq | right; reflexivity | dd_eq
      | discriminate | reflexivity ].
  - (* up to date *)
    eapply deps_move_okend with (a := a) (e := EvUpToDate (a_path x));
      [ exact Hinv | exact Hids' | exact Huq' | exact Htr' | exact Hx | pj_eq | tr_eq | right; reflexivity | dd_eq
      | discriminate | reflexivity ].
  - (* announce: every dep is done *)
    assert (Hz : deps_ok_zone (a_pc x) = true) by (rewrite Hpc; reflexivity).
    exists st; eapply deps_move_simple with (a := a) (news := []);
      [ exact Hinv | exact Hids' | exact Huq' | exact Htr' | exact Hx
      | pj_eq | constructor | tr_eq | | dd_eq | simple_close Hpc ].
    simpl. rewrite (deps_ok_here p c s st a x Hinv Hx Hz). reflexivity.
  - (* call *)
    exists st. eapply deps_move_simple with (a := a) (news := [_]) (evs := []);
      [ exact Hinv | exact Hids' | exact Huq' | exact Htr' | exact Hx | | | | reflexivity | | ].
    + unfold pj at 1. rewrite acts_set_act, map_upd. simpl. rewrite release_acts, map_app.
      rewrite upd_app_l by exact Hlt. reflexivity.
    + repeat constructor.
    + rewrite trace_set_act. simpl. rewrite release_trace. symmetry. apply app_nil_r.
    + rewrite dedup_set_act. simpl. apply release_dedup.
    + rewrite Hpc. reflexivity.
  - (* finished *)
    eapply deps_move_okend with (a := a) (e := EvFinished (a_path x));
      [ exact Hinv | exact Hids' | exact Huq' | exact Htr' | exact Hx | pj_eq | tr_eq | left; reflexivity | dd_eq
      | discriminate | reflexivity ].
  - (* the probe begins: every dep is done *)
    assert (Hz : deps_ok_zone (a_pc x) = true) by (rewrite Hpc; reflexivity).
    exists st; eapply deps_move_simple with (a := a) (news := []);
      [ exact Hinv | exact Hids' | exact Huq' | exact Htr' | exact Hx
      | pj_eq | constructor | tr_eq | | dd_eq | simple_close Hpc ].
    simpl. rewrite (deps_ok_here p c s st a x Hinv Hx Hz). reflexivity.
  - (* deferred call *)
    exists st. eapply deps_move_simple with (a := a) (news := [_]) (evs := []);
      [ exact Hinv | exact Hids' | exact Huq' | exact Htr' | exact Hx | | | | reflexivity | | ].
    + unfold pj at 1. rewrite acts_set_act, map_upd. simpl. rewrite release_acts, map_app.
      rewrite upd_app_l by exact Hlt. reflexivity.
    + repeat constructor.
    + rewrite trace_set_act. simpl. rewrite release_trace. symmetry. apply app_nil_r.
    + rewrite dedup_set_act. simpl. apply release_dedup.
    + rewrite Hpc. destruct r; reflexivity.
Qed.

Lemma inv_deps_init p c : inv_deps p c (init_state p) st0.
Proof.
  constructor.
  - constructor.
  - apply uniq_init.
  - apply inv_tree_init.
  - reflexivity.
  - intros j e H. unfold pj in H. simpl in H. destruct j; discriminate.
  - intros k o H. discriminate.
Qed.

Lemma start_root_inv_deps p c s st k s' :
  inv_deps p c s st -> start_root p c s k = Some s' -> inv_deps p c s' st.
Proof.
  intros [Hi Hu Ht Hf He Htab] H.
  pose proof (start_root_inv_ids p c s k s' Hi H) as Hi'.
  pose proof (start_root_uniq p c s k s' Hu H) as Hu'.
  pose proof (start_root_inv_tree p c s k s' Ht H) as Ht'.
  constructor; auto; unfold start_root in H;
    (destruct (nth_error (cf_roots c) k) as [cl|]; [|discriminate]);
    (destruct (negb (precheck_ok p c) || root_started s k); [discriminate|]);
    (match type of H with (if ?b then _ else _) = _ => destruct b end; [|discriminate]);
    injection H as <-; unfold add_act; simpl.
  - exact Hf.
  - intros j e Hj. unfold pj in Hj. simpl in Hj. rewrite map_app in Hj. fold (pj dp s) in Hj.
    destruct (Nat.lt_ge_cases j (length (pj dp s))) as [Hlt|Hge].
    + rewrite nth_error_app1 in Hj by exact Hlt. exact (He j e Hj).
    + rewrite nth_error_app2 in Hj by exact Hge.
      destruct (j - length (pj dp s)) as [|n]; simpl in Hj; [|destruct n; discriminate].
      injection Hj as <-. unfold ent_ok. simpl. repeat split; intros; try discriminate.
  - intros k0 o Hl. destruct (Htab k0 o Hl) as [e [H1 H2]]. exists e. split; [|exact H2].
    unfold pj. simpl. rewrite map_app. fold (pj dp s). rewrite nth_error_app1; [exact H1|].
    apply nth_error_Some. rewrite H1. discriminate.
Qed.

Lemma run_inv_deps p c sched : exists st, inv_deps p c (run p c sched) st.
Proof.
  unfold run.
  assert (G : exists st, inv_deps p c (init_state p) st) by (exists st0; apply inv_deps_init).
  revert G. generalize (init_state p).
  induction sched as [|ch sched IH]; intros s Hs; simpl; [exact Hs|].
  apply IH. destruct Hs as [st Hs]. destruct ch as [a|k]; simpl.
  - destruct (step p c s a) eqn:E; [eapply step_inv_deps; eauto|exists st; exact Hs].
  - destruct (start_root p c s k) eqn:E; [exists st; eapply start_root_inv_deps; eauto|exists st; exact Hs].
Qed.

(* ------------------------------------------------------------------ *)
(* C01 *)

(* for every program, configuration and schedule: whenever a command of an activation is announced
   or its probe begins, every dep of its task is satisfied -- the dep's own activation printed
   "finished" / "up to date" / "not for current platform" before, or the one execution of the
   dep's dedup key printed "finished" / "up to date" before *)
Theorem deps_monitor_all_schedules p c sched : mon_C01 p c (trace (run p c sched)) = true.
Proof.
  destruct (run_inv_deps p c sched) as [st Hinv]. unfold mon_C01, accepts.
  fold st0. rewrite (id_fold _ _ _ _ Hinv). reflexivity.
Qed.

Lemma mfold01_observable b p c st tr :
  mfold (step01 b p c) st (filter observable tr) = mfold (step01 b p c) st tr.
Proof.
  revert st; induction tr as [|e tr IH]; intros st; simpl; [reflexivity|].
  destruct e; cbn [observable filter mfold];
    try (match goal with |- context [step01 ?b ?p ?c ?st ?e] => destruct (step01 b p c st e) end; [apply IH|reflexivity]).
  simpl. apply IH.
Qed.

Theorem deps_monitor_observable p c sched : mon_C01 p c (filter observable (trace (run p c sched))) = true.
Proof. unfold mon_C01, accepts. rewrite mfold01_observable. apply deps_monitor_all_schedules. Qed.

(* state-level reading of the invariant, for the record: an activation that has returned nil
   (or is bound to) is vouched for in the monitor state reached on the trace so far *)
Theorem returned_ok_witnessed p c sched a y :
  get_act (run p c sched) a = Some y -> okres (a_pc y) = true ->
  exists st, mfold (step01 false p c) st0 (trace (run p c sched)) = Some st /\
    (mem_aid (a_path y) (ok_acts st) = true \/
     exists k, key_of p (a_task y) (a_var y) = Some k /\ mem_key k (ok_keys st) = true).
Proof.
  intros Hy Hq. destruct (run_inv_deps p c sched) as [st Hinv]. exists st. split; [exact (id_fold _ _ _ _ Hinv)|].
  destruct (id_ent _ _ _ _ Hinv a (dp y) (pj_nth dp _ _ _ Hy)) as (W & _). exact (W Hq).
Qed.
