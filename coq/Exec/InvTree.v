(* Parent/child structure needed across activations: the dep children of an activation,
   the propagation of their errors through the errgroup (a_gerr), and "an activation past
   the join has all its dep children done without error". *)
From Coq Require Import List Arith Bool Lia.
Import ListNotations.
From TV Require Import Exec.Model Exec.Monitors Exec.Facts Exec.InvSlots Exec.Proj Exec.InvPaths Exec.Frame Exec.InvUniq.

(* ------------------------------------------------------------------ *)
(* what finish does to each activation                                 *)

Lemma get_act_cancel s c j : get_act (cancel_ctx s c) j = get_act s j.
Proof. unfold get_act. rewrite cancel_ctx_acts. reflexivity. Qed.

Lemma get_act_notify s x r j :
  get_act (notify_parent s x r) j =
  match a_kind x, a_parent x, r with
  | KDep, Some pa, RErr e =>
      match get_act s pa with
      | Some px => match a_gerr px with
                   | None => if Nat.eqb pa j then Some (set_gerr px (Some e)) else get_act s j
                   | Some _ => get_act s j
                   end
      | None => get_act s j
      end
  | _, _, _ => get_act s j
  end.
Proof.
  unfold notify_parent. destruct (a_kind x); try reflexivity.
  destruct (a_parent x) as [pa|]; try reflexivity. destruct r as [|e]; try reflexivity.
  destruct (get_act s pa) as [px|] eqn:E; try reflexivity.
  destruct (a_gerr px); try reflexivity.
  rewrite get_act_cancel. unfold get_act, set_act. simpl. rewrite nth_error_upd.
  unfold get_act in E. rewrite E. reflexivity.
Qed.

Lemma get_act_finish s a x r j :
  get_act (finish s a x r) j = get_act (notify_parent (set_act s a (set_pc x (PDone r))) x r) j.
Proof.
  unfold finish.
  assert (E : forall s0, get_act (notify_parent (emit s0 (EvEnd (a_path x) r)) x r) j = get_act (notify_parent s0 x r) j).
  { intros s0. rewrite !get_act_notify. reflexivity. }
  destruct (a_kind x); try (rewrite E; reflexivity).
  destruct r; [|destruct (rungerr _)]; rewrite ?get_act_cancel; unfold record_root, get_act; simpl;
    fold (get_act (notify_parent (emit (set_act s a (set_pc x (PDone ROk))) (EvEnd (a_path x) ROk)) x ROk) j);
    try (fold (get_act (notify_parent (emit (set_act s a (set_pc x (PDone (RErr e)))) (EvEnd (a_path x) (RErr e))) x (RErr e)) j));
    rewrite ?E; reflexivity.
Qed.

(* the errgroup error of an activation only ever goes from None to Some *)
Definition gsome (x : act) : bool := match a_gerr x with Some _ => true | None => false end.

Definition is_done (q : pc) : bool := match q with PDone _ => true | _ => false end.

(* how the errgroup error of activation j changes in a step of activation a *)
Lemma step_gerr p c s a s' x :
  get_act s a = Some x -> step p c s a = Some s' -> a_parent x <> Some a ->
  forall j y, get_act s j = Some y ->
    exists y', get_act s' j = Some y' /\
      (a_gerr y' = a_gerr y \/
       (a_gerr y = None /\ a_kind x = KDep /\ a_parent x = Some j /\
        exists e, a_gerr y' = Some e /\ exists x', get_act s' a = Some x' /\ a_pc x' = PDone (RErr e))).
Proof.
  intros Hx H Hself j y Hy.
  assert (Hset : forall S X e0, acts S = acts s -> a_gerr X = a_gerr x ->
            exists y', get_act (emit (set_act S a X) e0) j = Some y' /\ a_gerr y' = a_gerr y).
  { intros S X e0 HS HX. unfold get_act, emit, set_act. simpl. rewrite HS, nth_error_upd.
    destruct (Nat.eqb_spec a j) as [->|Hne].
    - unfold get_act in Hx, Hy. rewrite Hx. rewrite Hx in Hy. injection Hy as <-. eexists; split; [reflexivity|exact HX].
    - unfold get_act in Hy. rewrite Hy. eexists; split; reflexivity. }
  assert (Hset0 : forall S X, acts S = acts s -> a_gerr X = a_gerr x ->
            exists y', get_act (set_act S a X) j = Some y' /\ a_gerr y' = a_gerr y).
  { intros S X HS HX. destruct (Hset S X (EvEnd [] ROk) HS HX) as [y' [H1 H2]]. exists y'. split; auto. }
  assert (Hfin : forall S X r, acts S = acts s -> a_gerr X = a_gerr x -> a_kind X = a_kind x -> a_parent X = a_parent x ->
            exists y', get_act (finish S a X r) j = Some y' /\
              (a_gerr y' = a_gerr y \/
               (a_gerr y = None /\ a_kind x = KDep /\ a_parent x = Some j /\
                exists e, a_gerr y' = Some e /\ exists x', get_act (finish S a X r) a = Some x' /\ a_pc x' = PDone (RErr e)))).
  { intros S X r HS HX HK HP.
    assert (Hxa : forall i, get_act (set_act S a (set_pc X (PDone r))) i =
                   if Nat.eqb a i then Some (set_pc X (PDone r)) else get_act s i).
    { intros i. unfold get_act, set_act. simpl. rewrite HS, nth_error_upd. unfold get_act in Hx. rewrite Hx. reflexivity. }
    rewrite get_act_finish, get_act_notify. rewrite HK, HP.
    destruct (a_kind x) eqn:Ek; try (rewrite Hxa; destruct (Nat.eqb_spec a j) as [->|Hne];
      [rewrite Hx in Hy; injection Hy as <-; eexists; split; [reflexivity|left; exact HX]
      |rewrite Hy; eexists; split; [reflexivity|left; reflexivity]]).
    destruct (a_parent x) as [pa|] eqn:Epar;
      [|rewrite Hxa; destruct (Nat.eqb_spec a j) as [->|Hne];
        [rewrite Hx in Hy; injection Hy as <-; eexists; split; [reflexivity|left; exact HX]
        |rewrite Hy; eexists; split; [reflexivity|left; reflexivity]]].
    destruct r as [|e];
      [rewrite Hxa; destruct (Nat.eqb_spec a j) as [->|Hne];
        [rewrite Hx in Hy; injection Hy as <-; eexists; split; [reflexivity|left; exact HX]
        |rewrite Hy; eexists; split; [reflexivity|left; reflexivity]]|].
    assert (Hpa : pa <> a) by congruence.
    rewrite (Hxa pa). rewrite (proj2 (Nat.eqb_neq a pa)) by congruence.
    destruct (get_act s pa) as [px|] eqn:Epx;
      [|rewrite Hxa; destruct (Nat.eqb_spec a j) as [->|Hne];
        [rewrite Hx in Hy; injection Hy as <-; eexists; split; [reflexivity|left; exact HX]
        |rewrite Hy; eexists; split; [reflexivity|left; reflexivity]]].
    destruct (a_gerr px) eqn:Eg;
      [rewrite Hxa; destruct (Nat.eqb_spec a j) as [->|Hne];
        [rewrite Hx in Hy; injection Hy as <-; eexists; split; [reflexivity|left; exact HX]
        |rewrite Hy; eexists; split; [reflexivity|left; reflexivity]]|].
    destruct (Nat.eqb_spec pa j) as [->|Hnj].
    - rewrite Epx in Hy. injection Hy as <-. eexists; split; [reflexivity|]. right.
      repeat split; auto. exists e. split; [reflexivity|].
      exists (set_pc X (PDone (RErr e))). split; [|reflexivity].
      rewrite get_act_finish, get_act_notify, HK, HP. rewrite (Hxa j), (proj2 (Nat.eqb_neq a j)) by congruence.
      rewrite Epx, Eg. rewrite (proj2 (Nat.eqb_neq j a)) by congruence. rewrite Hxa, Nat.eqb_refl. reflexivity.
    - rewrite Hxa. destruct (Nat.eqb_spec a j) as [->|Hne].
      + rewrite Hx in Hy. injection Hy as <-. eexists; split; [reflexivity|left; exact HX].
      + rewrite Hy. eexists; split; [reflexivity|left; reflexivity]. }
  step_cases H Hx;
    try (match goal with
         | |- exists y', get_act (finish ?S a ?X ?r) j = Some y' /\ _ =>
             apply Hfin; rewrite ?release_acts, ?acquire_acts, ?cancel_ctx_acts; reflexivity
         | |- exists y', get_act (emit (set_act ?S a ?X) ?e0) j = Some y' /\ _ =>
             let K := fresh "K" in
             assert (K : exists y', get_act (emit (set_act S a X) e0) j = Some y' /\ a_gerr y' = a_gerr y)
               by (apply Hset; [rewrite ?release_acts, ?acquire_acts, ?cancel_ctx_acts; simpl; rewrite ?release_acts, ?acquire_acts, ?cancel_ctx_acts; reflexivity | first [reflexivity | simpl; assumption]]);
             destruct K as [y' [K1 K2]]; exists y'; split; [exact K1|left; exact K2]
         | |- exists y', get_act (set_act ?S a ?X) j = Some y' /\ _ =>
             let K := fresh "K" in
             assert (K : exists y', get_act (set_act S a X) j = Some y' /\ a_gerr y' = a_gerr y)
               by (apply Hset0; [rewrite ?release_acts, ?acquire_acts, ?cancel_ctx_acts; simpl; rewrite ?release_acts, ?acquire_acts, ?cancel_ctx_acts; reflexivity | first [reflexivity | simpl; assumption]]);
             destruct K as [y' [K1 K2]]; exists y'; split; [exact K1|left; exact K2]
         end).
  - (* fork deps *)
    apply fork_deps_spec in Heqp0. simpl in Heqp0. destruct Heqp0 as [news (Ha & _)].
    unfold get_act, set_act. simpl. rewrite Ha, ?release_acts, nth_error_upd. rewrite ?release_acts.
    assert (Hjl : j < length (acts s)) by (apply nth_error_Some; unfold get_act in Hy; rewrite Hy; discriminate).
    assert (Hal : a < length (acts s)) by (apply nth_error_Some; unfold get_act in Hx; rewrite Hx; discriminate).
    rewrite !nth_error_app1 by assumption. unfold get_act in Hx, Hy. rewrite Hx.
    destruct (Nat.eqb_spec a j) as [->|Hne].
    + rewrite Hx in Hy. injection Hy as <-. eexists; split; [reflexivity|left; reflexivity].
    + rewrite Hy. eexists; split; [reflexivity|left; reflexivity].
  - (* call *)
    unfold get_act, set_act. simpl. rewrite ?release_acts, nth_error_upd. rewrite ?release_acts.
    assert (Hjl : j < length (acts s)) by (apply nth_error_Some; unfold get_act in Hy; rewrite Hy; discriminate).
    assert (Hal : a < length (acts s)) by (apply nth_error_Some; unfold get_act in Hx; rewrite Hx; discriminate).
    rewrite !nth_error_app1 by assumption. unfold get_act in Hx, Hy. rewrite Hx.
    destruct (Nat.eqb_spec a j) as [->|Hne].
    + rewrite Hx in Hy. injection Hy as <-. eexists; split; [reflexivity|left; reflexivity].
    + rewrite Hy. eexists; split; [reflexivity|left; reflexivity].
  - (* deferred call *)
    unfold get_act, set_act. simpl. rewrite ?release_acts, nth_error_upd. rewrite ?release_acts.
    assert (Hjl : j < length (acts s)) by (apply nth_error_Some; unfold get_act in Hy; rewrite Hy; discriminate).
    assert (Hal : a < length (acts s)) by (apply nth_error_Some; unfold get_act in Hx; rewrite Hx; discriminate).
    rewrite !nth_error_app1 by assumption. unfold get_act in Hx, Hy. rewrite Hx.
    destruct (Nat.eqb_spec a j) as [->|Hne].
    + rewrite Hx in Hy. injection Hy as <-. eexists; split; [reflexivity|left; reflexivity].
    + rewrite Hy. eexists; split; [reflexivity|left; reflexivity].
Qed.

(* ------------------------------------------------------------------ *)
(* what a step does to the stepping activation itself                  *)

Definition post_fork (q : pc) : bool :=
  match q with
  | PDepsJoin | PDepsReacq | PBlock | PPrompt | PCmd _ | PRun _ | PProbe _ | PCallWait _ _ | PCallReacq _ _
  | PFail _ | PDefers _ | PDRun _ _ | PDProbe _ _ | PDCallWait _ _ | PDCallReacq _ => true
  | _ => false
  end.

Definition deps_ok_zone (q : pc) : bool :=
  match q with
  | PBlock | PPrompt | PCmd _ | PRun _ | PProbe _ | PCallWait _ _ | PCallReacq _ _
  | PFail _ | PDefers _ | PDRun _ _ | PDProbe _ _ | PDCallWait _ _ | PDCallReacq _ => true
  | _ => false
  end.

Definition stat (x : act) := (a_path x, a_task x, a_var x, a_kind x, a_parent x).

Definition tr_ok (q q' : pc) (g : option err) (ad : bool) : Prop :=
  (post_fork q' = true -> post_fork q = true) /\
  (q' = PDepsReacq -> q = PDepsJoin /\ ad = true) /\
  (deps_ok_zone q' = true -> deps_ok_zone q = true \/ (q = PDepsReacq /\ g = None)) /\
  (is_done q = true -> False).

Definition forked (p : prog) (s s' : state) (a : nat) (x x' : act) : Prop :=
  a_pc x = PDepsFork /\ a_pc x' = PDepsJoin /\
  let deps := t_deps (get_task p (a_task x)) in
  a_kids x' = seq (length (acts s)) (length deps) /\
  length (acts s') = length (acts s) + length deps /\
  forall j d, nth_error deps j = Some d ->
    exists y, get_act s' (length (acts s) + j) = Some y /\ a_path y = a_path x ++ [j] /\ a_task y = c_task d /\
              a_var y = eval_var (a_var x) (c_var d) /\ a_kind y = KDep /\ a_parent y = Some a /\ a_pc y = PEntry.

Lemma noG_at s' (L : list _) a v rest x' :
  pj noG s' = upd L a v ++ rest -> a < length L -> get_act s' a = Some x' -> noG x' = v.
Proof.
  intros E Hlt Hx'. pose proof (pj_nth noG _ _ _ Hx') as Hn. rewrite E in Hn.
  rewrite nth_error_app1 in Hn by (rewrite upd_length; exact Hlt).
  destruct (nth_error L a) as [w|] eqn:Ew; [|apply nth_error_None in Ew; lia].
  rewrite (nth_error_upd_same L a v w Ew) in Hn. congruence.
Qed.

Lemma step_own p c s a s' x x' :
  get_act s a = Some x -> step p c s a = Some s' -> get_act s' a = Some x' ->
  stat x' = stat x /\
  ((a_kids x' = a_kids x /\ tr_ok (a_pc x) (a_pc x') (a_gerr x) (all_done s (a_kids x))) \/ forked p s s' a x x').
Proof.
  intros Hx H Hx'.
  pose proof (pj_lt noG _ _ _ Hx) as Hlt.
  step_cases H Hx;
    try (match goal with _ : get_act ?S' a = Some x' |- _ =>
           let E := fresh "E" in
           eassert (E : pj noG S' = upd (pj noG s) a _ ++ []);
           [autorewrite with ngdb; simpl; autorewrite with ngdb; rewrite ?app_nil_r; reflexivity|];
           let Hn := fresh "Hn" in
           pose proof (noG_at _ _ _ _ _ _ E Hlt Hx') as Hn; clear E;
           unfold noG in Hn; simpl in Hn; inversion Hn;
           split; [unfold stat; congruence|];
           left; split; [congruence|];
           unfold tr_ok;
           repeat match goal with Hq : a_pc x' = _ |- _ => rewrite Hq; clear Hq end;
           simpl; repeat split; intros; try discriminate; try tauto; auto
         end).
  - (* fork deps *)
    pose proof Heqp0 as Hfd. apply fork_deps_spec in Hfd. simpl in Hfd.
    destruct Hfd as [news (Ha & _ & _ & _ & _ & _ & _ & _ & Hl & Hids & Hf & Hk)].
    assert (E : pj noG (set_act s0 a (set_kids (set_holds (set_pc x PDepsJoin) false) l (length (ctxs (release c s)))))
                = upd (pj noG s) a (noG (set_kids (set_holds (set_pc x PDepsJoin) false) l (length (ctxs (release c s))))) ++ map noG news).
    { unfold pj at 1. rewrite acts_set_act, map_upd, Ha, release_acts, map_app. rewrite upd_app_l by exact Hlt. reflexivity. }
    pose proof (noG_at _ _ _ _ _ _ E Hlt Hx') as Hn. unfold noG in Hn. simpl in Hn. inversion Hn.
    split; [unfold stat; congruence|]. right. unfold forked. rewrite release_acts in Hids.
    repeat split; auto.
    + congruence.
    + rewrite acts_set_act, upd_length, Ha, release_acts, app_length, Hl. reflexivity.
    + intros j d Hd. destruct (Hk j d Hd) as [y (Hy & Hp & Ht & Hv & _)].
      rewrite Forall_forall in Hf. destruct (Hf y (nth_error_In _ _ Hy)) as (Hq & _ & Hkd & Hpar & _).
      exists y. repeat split; auto.
      unfold get_act, set_act. simpl. rewrite nth_error_upd_other.
      * rewrite Ha, release_acts, nth_error_app2 by lia. replace (length (acts s) + j - length (acts s)) with j by lia. exact Hy.
      * unfold pj in Hlt. rewrite map_length in Hlt. lia.
  - (* call *)
    match goal with _ : get_act (set_act ?S0 a ?X) a = Some x' |- _ =>
      assert (E : pj noG (set_act S0 a X) = upd (pj noG s) a (noG X) ++ [noG (new_act (a_path x ++ [length (t_deps (get_task p (a_task x))) + i]) (c_task c1) (eval_var (a_var x) (c_var c1)) KCall (Some a) (a_ectx x))]) end.
    { unfold pj at 1. rewrite acts_set_act, map_upd. simpl. rewrite release_acts, map_app. rewrite upd_app_l by exact Hlt. reflexivity. }
    pose proof (noG_at _ _ _ _ _ _ E Hlt Hx') as Hn. unfold noG in Hn. simpl in Hn. inversion Hn.
    split; [unfold stat; congruence|]. left. split; [congruence|].
    unfold tr_ok. repeat match goal with Hq : a_pc x' = _ |- _ => rewrite Hq; clear Hq end.
    simpl. repeat split; intros; try discriminate; try tauto; auto.
  - (* deferred call *)
    match goal with _ : get_act (set_act ?S0 a ?X) a = Some x' |- _ =>
      assert (E : pj noG (set_act S0 a X) = upd (pj noG s) a (noG X) ++ [noG (new_act (a_path x ++ [length (t_deps (get_task p (a_task x))) + n]) (c_task c1) (eval_var (a_var x) (c_var c1)) KDefer (Some a) background_ctx)]) end.
    { unfold pj at 1. rewrite acts_set_act, map_upd. simpl. rewrite release_acts, map_app. rewrite upd_app_l by exact Hlt. reflexivity. }
    pose proof (noG_at _ _ _ _ _ _ E Hlt Hx') as Hn. unfold noG in Hn. simpl in Hn. inversion Hn.
    split; [unfold stat; congruence|]. left. split; [congruence|].
    unfold tr_ok. repeat match goal with Hq : a_pc x' = _ |- _ => rewrite Hq; clear Hq end.
    simpl. repeat split; intros; try discriminate; try tauto; auto.
Qed.

(* an activation that finishes with an error tells its errgroup *)
Lemma step_finish_err p c s a s' x x' e pa px :
  get_act s a = Some x -> step p c s a = Some s' -> get_act s' a = Some x' ->
  a_pc x' = PDone (RErr e) -> a_kind x = KDep -> a_parent x = Some pa -> pa <> a ->
  get_act s pa = Some px ->
  exists px', get_act s' pa = Some px' /\ gsome px' = true.
Proof.
  intros Hx H Hx' Hq Hk Hp Hne Hpx.
  pose proof (pj_lt noG _ _ _ Hx) as Hlt.
  assert (Hfin : forall S X r, acts S = acts s -> a_kind X = a_kind x -> a_parent X = a_parent x ->
            get_act (finish S a X r) a = Some x' ->
            exists px', get_act (finish S a X r) pa = Some px' /\ gsome px' = true).
  { intros S X r HS HK HP Hget.
    assert (Hxa : forall i, get_act (set_act S a (set_pc X (PDone r))) i =
                   if Nat.eqb a i then Some (set_pc X (PDone r)) else get_act s i).
    { intros i. unfold get_act, set_act. simpl. rewrite HS, nth_error_upd. unfold get_act in Hx. rewrite Hx. reflexivity. }
    assert (Hr : r = RErr e).
    { rewrite get_act_finish, get_act_notify, HK, HP, Hk, Hp in Hget.
      destruct r as [|e0].
      - rewrite Hxa, Nat.eqb_refl in Hget. injection Hget as <-. simpl in Hq. discriminate.
      - rewrite (Hxa pa), (proj2 (Nat.eqb_neq a pa)) in Hget by congruence. rewrite Hpx in Hget.
        destruct (a_gerr px); [|rewrite (proj2 (Nat.eqb_neq pa a)) in Hget by congruence];
          rewrite Hxa, Nat.eqb_refl in Hget; injection Hget as <-; simpl in Hq; congruence. }
    subst r. rewrite get_act_finish, get_act_notify, HK, HP, Hk, Hp.
    rewrite (Hxa pa), (proj2 (Nat.eqb_neq a pa)) by congruence. rewrite Hpx.
    destruct (a_gerr px) eqn:Eg.
    - exists px. split; [reflexivity|]. unfold gsome. rewrite Eg. reflexivity.
    - rewrite Nat.eqb_refl. eexists; split; [reflexivity|]. reflexivity. }
  step_cases H Hx;
    try (match goal with
         | _ : get_act (finish ?S a ?X ?r) a = Some x' |- _ =>
             apply (Hfin S X r); [rewrite ?release_acts, ?acquire_acts, ?cancel_ctx_acts; reflexivity|reflexivity|reflexivity|assumption]
         | _ : get_act ?S' a = Some x' |- _ =>
             let E := fresh "E" in
             eassert (E : pj noG S' = upd (pj noG s) a _ ++ _);
             [first [ autorewrite with ngdb; simpl; autorewrite with ngdb; rewrite <- (app_nil_r (upd _ _ _)); reflexivity
                    | unfold pj at 1; rewrite acts_set_act, map_upd; simpl; rewrite release_acts, map_app;
                      rewrite upd_app_l by exact Hlt; reflexivity ]|];
             let Hn := fresh "Hn" in
             pose proof (noG_at _ _ _ _ _ _ E Hlt Hx') as Hn; clear E;
             unfold noG in Hn; simpl in Hn; inversion Hn; congruence
         end).
  apply fork_deps_spec in Heqp0. simpl in Heqp0. destruct Heqp0 as [news (Ha & _)].
  assert (E : pj noG (set_act s0 a (set_kids (set_holds (set_pc x PDepsJoin) false) l (length (ctxs (release c s)))))
              = upd (pj noG s) a (noG (set_kids (set_holds (set_pc x PDepsJoin) false) l (length (ctxs (release c s))))) ++ map noG news).
  { unfold pj at 1. rewrite acts_set_act, map_upd, Ha, release_acts, map_app. rewrite upd_app_l by exact Hlt. reflexivity. }
  pose proof (noG_at _ _ _ _ _ _ E Hlt Hx') as Hn. unfold noG in Hn. simpl in Hn. inversion Hn. congruence.
Qed.

(* ------------------------------------------------------------------ *)
(* the tree invariant                                                  *)

Definition kid_spec (s : state) (a : nat) (x : act) (j : nat) (d : call) (k : nat) : Prop :=
  exists y, get_act s k = Some y /\ a_path y = a_path x ++ [j] /\ a_task y = c_task d /\
            a_var y = eval_var (a_var x) (c_var d) /\ a_kind y = KDep /\ a_parent y = Some a.

Record inv_tree (p : prog) (s : state) : Prop := {
  it_par : forall j y i, get_act s j = Some y -> a_parent y = Some i -> i < j;
  it_kids : forall a x, get_act s a = Some x -> post_fork (a_pc x) = true ->
      length (a_kids x) = length (t_deps (get_task p (a_task x))) /\
      forall j d, nth_error (t_deps (get_task p (a_task x))) j = Some d ->
        exists k, nth_error (a_kids x) j = Some k /\ kid_spec s a x j d k;
  it_allkids : forall b y a x, get_act s b = Some y -> a_kind y = KDep -> a_parent y = Some a ->
      get_act s a = Some x -> post_fork (a_pc x) = true -> In b (a_kids x);
  it_join : forall a x, get_act s a = Some x -> (a_pc x = PDepsReacq \/ deps_ok_zone (a_pc x) = true) ->
      all_done s (a_kids x) = true;
  it_err : forall b y a e, get_act s b = Some y -> a_kind y = KDep -> a_parent y = Some a ->
      a_pc y = PDone (RErr e) -> exists x, get_act s a = Some x /\ gsome x = true;
  it_ok : forall a x, get_act s a = Some x -> deps_ok_zone (a_pc x) = true -> a_gerr x = None
}.

Lemma deps_ok_post q : deps_ok_zone q = true -> post_fork q = true.
Proof. destruct q; simpl; auto. Qed.

Lemma noG_fields x y : noG x = noG y ->
  a_path x = a_path y /\ a_task x = a_task y /\ a_var x = a_var y /\ a_kind x = a_kind y /\
  a_parent x = a_parent y /\ a_pc x = a_pc y /\ a_kids x = a_kids y.
Proof. unfold noG. intros H. inversion H. repeat split; congruence. Qed.

Lemma all_done_iff s ids : all_done s ids = true <-> forall k, In k ids -> exists r, act_result s k = Some r.
Proof.
  unfold all_done. rewrite forallb_forall. split; intros H k Hk; specialize (H k Hk).
  - destruct (act_result s k) as [r|]; [exists r; reflexivity|discriminate].
  - destruct H as [r ->]. reflexivity.
Qed.

Lemma act_result_done s k r : act_result s k = Some r <-> exists y, get_act s k = Some y /\ a_pc y = PDone r.
Proof.
  unfold act_result. split.
  - destruct (get_act s k) as [y|]; [|discriminate]. destruct (a_pc y) eqn:E; try discriminate.
    intros H. injection H as <-. exists y. split; auto.
  - intros [y [-> ->]]. reflexivity.
Qed.

Lemma step_done_none p c s a x r : get_act s a = Some x -> a_pc x = PDone r -> step p c s a = None.
Proof. intros Hx Hq. unfold step. rewrite Hx, Hq. reflexivity. Qed.

Lemma stat_fields x y : stat x = stat y ->
  a_path x = a_path y /\ a_task x = a_task y /\ a_var x = a_var y /\ a_kind x = a_kind y /\ a_parent x = a_parent y.
Proof. unfold stat. intros H. inversion H. repeat split; congruence. Qed.

Lemma consumed_at_fork tk ds m : consumed tk PDepsFork ds m = false.
Proof.
  unfold consumed. simpl. destruct (Nat.ltb m (length (t_deps tk))); [reflexivity|].
  destruct (nth_error (t_cmds tk) (m - length (t_deps tk))) as [[| | |]|]; reflexivity.
Qed.

Lemma step_inv_tree p c s a s' :
  inv_tree p s -> uniq p (pj csof s) -> step p c s a = Some s' -> inv_tree p s'.
Proof.
  intros Hinv Huq H.
  destruct (get_act s a) as [x|] eqn:Hx; [|unfold step in H; rewrite Hx in H; discriminate].
  destruct (step_self p c s a s' x H Hx) as [x' Hx'].
  destruct (step_own p c s a s' x x' Hx H Hx') as [Hstat Hown].
  apply stat_fields in Hstat. destruct Hstat as (Sp & St & Sv & Sk & Spar).
  assert (Hal : a < length (acts s)) by (apply nth_error_Some; unfold get_act in Hx; rewrite Hx; discriminate).
  assert (Hself : a_parent x <> Some a).
  { intros E. pose proof (it_par _ _ Hinv a x a Hx E). lia. }
  assert (Hnotdone : forall r, a_pc x <> PDone r).
  { intros r E. rewrite (step_done_none p c s a x r Hx E) in H. discriminate. }
  assert (Hgx : a_gerr x' = a_gerr x).
  { destruct (step_gerr p c s a s' x Hx H Hself a x Hx) as [y' [H1 [H2|(_ & _ & H3 & _)]]]; [congruence|congruence]. }
  assert (Hcls : forall j y', get_act s' j = Some y' ->
     (j = a /\ y' = x') \/
     (j <> a /\ exists y, get_act s j = Some y /\ noG y' = noG y) \/
     (length (acts s) <= j /\ a_pc y' = PEntry /\ a_parent y' = Some a /\ a_kids y' = [] /\
      (a_kind y' = KDep -> a_pc x = PDepsFork))).
  { intros j y' Hy'. destruct (Nat.eq_dec j a) as [->|Hne]; [left; split; congruence|].
    destruct (get_act s j) as [y|] eqn:Hy.
    - right; left. split; auto. exists y. split; auto.
      destruct (step_other p c s a s' j y H Hne Hy) as [y'' [H1 H2]]. congruence.
    - right; right. assert (Hge : length (acts s) <= j) by (apply nth_error_None; exact Hy).
      destruct (step_new p c s a s' j y' H Hge Hy') as (H1 & H2 & H3 & _ & _ & H6). repeat split; auto.
      intros Hk. destruct (H6 Hk) as [x0 [Hx0 Hq]]. congruence. }
  assert (Hsurv : forall j y, get_act s j = Some y -> j <> a ->
            exists y', get_act s' j = Some y' /\ noG y' = noG y).
  { intros j y Hy Hne. exact (step_other p c s a s' j y H Hne Hy). }
  (* done activations stay done *)
  assert (Hdone : forall k r, act_result s k = Some r -> act_result s' k = Some r).
  { intros k r Hr. apply act_result_done in Hr. destruct Hr as [y [Hy Hq]].
    assert (Hka : k <> a) by (intros ->; rewrite Hx in Hy; injection Hy as <-; exact (Hnotdone r Hq)).
    destruct (Hsurv k y Hy Hka) as [y' [Hy' Hn]]. apply noG_fields in Hn.
    apply act_result_done. exists y'. split; [exact Hy'|]. destruct Hn as (_ & _ & _ & _ & _ & Hpc & _). congruence. }
  assert (Halldone : forall ids, all_done s ids = true -> all_done s' ids = true).
  { intros ids Hd. apply all_done_iff. intros k Hk. apply (proj1 (all_done_iff s ids) Hd) in Hk.
    destruct Hk as [r Hr]. exists r. apply Hdone. exact Hr. }
  (* kid specs carry over *)
  assert (Hkid : forall a0 x0 x0' j d k, kid_spec s a0 x0 j d k -> a_path x0' = a_path x0 -> a_var x0' = a_var x0 ->
            kid_spec s' a0 x0' j d k).
  { intros a0 x0 x0' j d k (y & Hy & Hp & Ht & Hv & Hk & Hpa) Ep Ev.
    destruct (Nat.eq_dec k a) as [->|Hne].
    - rewrite Hx in Hy. injection Hy as <-. exists x'. repeat split; try congruence.
    - destruct (Hsurv k y Hy Hne) as [y' [Hy' Hn]]. apply noG_fields in Hn.
      destruct Hn as (N1 & N2 & N3 & N4 & N5 & _). exists y'. repeat split; congruence. }
  constructor.
  - (* it_par *)
    intros j y' i Hy' Hp.
    destruct (Hcls j y' Hy') as [[-> ->]|[[Hne [y [Hy Hn]]]|(Hge & _ & Hpa & _)]].
    + apply (it_par _ _ Hinv a x i Hx). congruence.
    + apply noG_fields in Hn. apply (it_par _ _ Hinv j y i Hy). destruct Hn as (_ & _ & _ & _ & N5 & _). congruence.
    + assert (i = a) by congruence. lia.
  - (* it_kids *)
    intros a0 x0' Hx0' Hpf.
    destruct (Hcls a0 x0' Hx0') as [[-> ->]|[[Hne [x0 [Hx0 Hn]]]|(Hge & Hq & _)]].
    + destruct Hown as [[Hkids (T1 & _)]|(Fq & Fq' & Fk & Fl & Fs)].
      * destruct (it_kids _ _ Hinv a x Hx (T1 Hpf)) as [Hlen Hspec]. rewrite St, Hkids. split; [exact Hlen|].
        intros j d Hd. destruct (Hspec j d Hd) as [k [Hk Hs]]. exists k. split; [exact Hk|].
        eapply Hkid; eauto.
      * rewrite St, Fk. split; [apply seq_length|].
        intros j d Hd. exists (length (acts s) + j). split.
        -- assert (j < length (t_deps (get_task p (a_task x)))) by (apply nth_error_Some; rewrite Hd; discriminate).
           rewrite nth_error_nth' with (d := 0) by (rewrite seq_length; assumption). rewrite seq_nth by assumption. reflexivity.
        -- destruct (Fs j d Hd) as [y (Hy & Hp & Ht & Hv & Hk & Hpa & _)]. exists y. repeat split; congruence.
    + apply noG_fields in Hn. destruct Hn as (N1 & N2 & N3 & N4 & N5 & N6 & N7).
      rewrite N6 in Hpf. destruct (it_kids _ _ Hinv a0 x0 Hx0 Hpf) as [Hlen Hspec]. rewrite N2, N7. split; [exact Hlen|].
      intros j d Hd. destruct (Hspec j d Hd) as [k [Hk Hs]]. exists k. split; [exact Hk|]. eapply Hkid; eauto.
    + rewrite Hq in Hpf. discriminate.
  - (* it_allkids *)
    intros b y' a0 x0' Hy' Hk Hp Hx0' Hpf.
    destruct (Hcls b y' Hy') as [[-> ->]|[[Hbne [y [Hy Hn]]]|(Hge & Hq & Hpa & _ & Hkd)]].
    + (* b = a : the stepping activation is a dep child of a0 *)
      assert (Ha0 : a0 <> a) by (intros ->; apply Hself; congruence).
      destruct (Hcls a0 x0' Hx0') as [[-> _]|[[_ [x0 [Hx0 Hn0]]]|(Hge & Hq & _)]]; [congruence| |rewrite Hq in Hpf; discriminate].
      apply noG_fields in Hn0. destruct Hn0 as (_ & _ & _ & _ & _ & N6 & N7). rewrite N7.
      apply (it_allkids _ _ Hinv a x a0 x0 Hx); try congruence.
    + apply noG_fields in Hn. destruct Hn as (_ & _ & _ & N4 & N5 & _).
      destruct (Hcls a0 x0' Hx0') as [[-> ->]|[[Ha0 [x0 [Hx0 Hn0]]]|(Hge & Hq & _)]].
      * (* the parent is the stepping activation *)
        destruct Hown as [[Hkids (T1 & _)]|(Fq & _)].
        -- rewrite Hkids. apply (it_allkids _ _ Hinv b y a x Hy); try congruence. apply T1. exact Hpf.
        -- (* x at PDepsFork cannot have a dep child yet *)
           exfalso. destruct Huq as [_ Hall]. rewrite Forall_forall in Hall.
           assert (He : entry_ok p (pj csof s) (csof y)) by (apply Hall; eapply nth_error_In; apply pj_nth; exact Hy).
           destruct He as (_ & _ & He). simpl in He. rewrite <- N5, Hp in He.
           destruct He as [_ (px & m & Hpx & _ & Hc)].
           rewrite (pj_nth csof _ _ _ Hx) in Hpx. injection Hpx as <-. simpl in Hc. rewrite Fq in Hc.
           rewrite consumed_at_fork in Hc. discriminate.
      * apply noG_fields in Hn0. destruct Hn0 as (_ & _ & _ & _ & _ & N6 & N7). rewrite N7.
        apply (it_allkids _ _ Hinv b y a0 x0 Hy); try congruence.
      * rewrite Hq in Hpf. discriminate.
    + (* b fresh *)
      assert (a0 = a) by congruence. subst a0. rewrite Hx' in Hx0'. injection Hx0' as <-.
      destruct Hown as [[Hkids (T1 & _)]|(Fq & Fq' & Fk & Fl & Fs)].
      * exfalso. specialize (Hkd Hk). specialize (T1 Hpf). rewrite Hkd in T1. discriminate.
      * rewrite Fk. apply in_seq.
        assert (b < length (acts s')) by (apply nth_error_Some; unfold get_act in Hy'; rewrite Hy'; discriminate). lia.
  - (* it_join *)
    intros a0 x0' Hx0' Hz.
    destruct (Hcls a0 x0' Hx0') as [[-> ->]|[[Hne [x0 [Hx0 Hn]]]|(Hge & Hq & _)]].
    + destruct Hown as [[Hkids (_ & T2 & T3 & _)]|(_ & Fq' & _)].
      * rewrite Hkids. apply Halldone. destruct Hz as [Hz|Hz].
        -- apply T2 in Hz. apply Hz.
        -- apply T3 in Hz. apply (it_join _ _ Hinv a x Hx). destruct Hz as [Hz|[Hz _]]; [right; exact Hz|left; exact Hz].
      * rewrite Fq' in Hz. destruct Hz; discriminate.
    + apply noG_fields in Hn. destruct Hn as (_ & _ & _ & _ & _ & N6 & N7). rewrite N7. apply Halldone.
      apply (it_join _ _ Hinv a0 x0 Hx0). rewrite <- N6. exact Hz.
    + rewrite Hq in Hz. destruct Hz; discriminate.
  - (* it_err *)
    intros b y' a0 e Hy' Hk Hp Hq.
    destruct (Hcls b y' Hy') as [[-> ->]|[[Hbne [y [Hy Hn]]]|(Hge & Hq' & _)]].
    + (* the stepping activation just finished with an error *)
      assert (Ha0 : a0 <> a) by (intros ->; apply Hself; congruence).
      assert (Ha0lt : a0 < a) by (apply (it_par _ _ Hinv a x a0 Hx); congruence).
      destruct (get_act s a0) as [px|] eqn:Hpx; [|apply nth_error_None in Hpx; lia].
      apply (step_finish_err p c s a s' x x' e a0 px); auto; congruence.
    + apply noG_fields in Hn. destruct Hn as (_ & _ & _ & N4 & N5 & N6 & _).
      destruct (it_err _ _ Hinv b y a0 e Hy) as [x0 [Hx0 Hg]]; try congruence.
      destruct (Nat.eq_dec a0 a) as [->|Hne].
      * exists x'. split; [exact Hx'|]. rewrite Hx in Hx0. injection Hx0 as <-. unfold gsome in *. rewrite Hgx. exact Hg.
      * destruct (step_gerr p c s a s' x Hx H Hself a0 x0 Hx0) as [x0' [H1 [H2|(_ & _ & _ & e0 & H3 & _)]]];
          exists x0'; (split; [exact H1|]); unfold gsome in *; [rewrite H2; exact Hg|rewrite H3; reflexivity].
    + rewrite Hq' in Hq. discriminate.
  - (* it_ok *)
    intros a0 x0' Hx0' Hz.
    destruct (Hcls a0 x0' Hx0') as [[-> ->]|[[Hne [x0 [Hx0 Hn]]]|(Hge & Hq & _)]].
    + rewrite Hgx. destruct Hown as [[_ (_ & _ & T3 & _)]|(_ & Fq' & _)].
      * destruct (T3 Hz) as [Hz'|[_ Hg]]; [exact (it_ok _ _ Hinv a x Hx Hz')|exact Hg].
      * rewrite Fq' in Hz. discriminate.
    + apply noG_fields in Hn. destruct Hn as (_ & _ & _ & _ & _ & N6 & N7). rewrite N6 in Hz.
      pose proof (it_ok _ _ Hinv a0 x0 Hx0 Hz) as Hg0.
      destruct (step_gerr p c s a s' x Hx H Hself a0 x0 Hx0) as [x0'' [H1 [H2|(_ & Hk & Hp & _)]]].
      * rewrite H1 in Hx0'. injection Hx0' as <-. congruence.
      * (* x would be an unfinished dep child of a0, but a0 passed its join *)
        exfalso.
        assert (Hin : In a (a_kids x0)) by (apply (it_allkids _ _ Hinv a x a0 x0 Hx Hk Hp Hx0); apply deps_ok_post; exact Hz).
        pose proof (it_join _ _ Hinv a0 x0 Hx0 (or_intror Hz)) as Hd.
        apply (proj1 (all_done_iff s _) Hd) in Hin. destruct Hin as [r Hr].
        apply act_result_done in Hr. destruct Hr as [y [Hy Hq]]. rewrite Hx in Hy. injection Hy as <-.
        exact (Hnotdone r Hq).
    + rewrite Hq in Hz. discriminate.
Qed.

Lemma get_act_init p j : get_act (init_state p) j = None.
Proof. unfold get_act. simpl. destruct j; reflexivity. Qed.

Lemma inv_tree_init p : inv_tree p (init_state p).
Proof.
  constructor; intros;
    repeat match goal with H : get_act (init_state _) _ = Some _ |- _ => rewrite get_act_init in H; discriminate end.
Qed.

Lemma start_root_inv_tree p c s k s' : inv_tree p s -> start_root p c s k = Some s' -> inv_tree p s'.
Proof.
  intros Hinv H. unfold start_root in H.
  destruct (nth_error (cf_roots c) k) as [cl|]; [|discriminate].
  destruct (negb (precheck_ok p c) || root_started s k); [discriminate|].
  match type of H with (if ?b then _ else _) = _ => destruct b end; [|discriminate].
  injection H as <-. unfold add_act. simpl.
  set (nr := new_act [k] (c_task cl) (eval_var 0 (c_var cl)) KRoot None root_ctx).
  set (s1 := {| acts := acts s ++ [nr]; used := used s; dedup := dedup s; calls := calls s; ctxs := ctxs s;
                trace := trace s; rootres := rootres s; rungerr := rungerr s |}).
  assert (Hold : forall j y, get_act s j = Some y -> get_act s1 j = Some y).
  { intros j y Hy. unfold get_act, s1. simpl. rewrite nth_error_app1; [exact Hy|].
    apply nth_error_Some. unfold get_act in Hy. rewrite Hy. discriminate. }
  assert (Hcls : forall j y, get_act s1 j = Some y -> get_act s j = Some y \/ (j = length (acts s) /\ y = nr)).
  { intros j y Hy. unfold get_act, s1 in Hy. simpl in Hy.
    destruct (Nat.lt_ge_cases j (length (acts s))) as [Hlt|Hge].
    - left. rewrite nth_error_app1 in Hy by exact Hlt. exact Hy.
    - right. rewrite nth_error_app2 in Hy by exact Hge.
      destruct (j - length (acts s)) as [|n] eqn:E; simpl in Hy; [|destruct n; discriminate].
      injection Hy as <-. split; [lia|reflexivity]. }
  assert (Hres : forall k0 r, act_result s k0 = Some r -> act_result s1 k0 = Some r).
  { intros k0 r Hr. apply act_result_done in Hr. destruct Hr as [y [Hy Hq]]. apply act_result_done. exists y. split; auto. }
  assert (Hkid : forall a0 x0 j d k0, kid_spec s a0 x0 j d k0 -> kid_spec s1 a0 x0 j d k0).
  { intros a0 x0 j d k0 (y & Hy & Hrest). exists y. split; [apply Hold; exact Hy|exact Hrest]. }
  constructor.
  - intros j y i Hy Hp. destruct (Hcls j y Hy) as [Hy'|[-> ->]]; [exact (it_par _ _ Hinv j y i Hy' Hp)|discriminate].
  - intros a0 x0 Hx0 Hpf. destruct (Hcls a0 x0 Hx0) as [Hx0'|[-> ->]]; [|discriminate].
    destruct (it_kids _ _ Hinv a0 x0 Hx0' Hpf) as [Hl Hs]. split; [exact Hl|].
    intros j d Hd. destruct (Hs j d Hd) as [k0 [Hk0 Hsp]]. exists k0. split; auto.
  - intros b y a0 x0 Hy Hk Hp Hx0 Hpf.
    destruct (Hcls b y Hy) as [Hy'|[-> ->]]; [|discriminate].
    destruct (Hcls a0 x0 Hx0) as [Hx0'|[-> ->]]; [|discriminate].
    exact (it_allkids _ _ Hinv b y a0 x0 Hy' Hk Hp Hx0' Hpf).
  - intros a0 x0 Hx0 Hz. destruct (Hcls a0 x0 Hx0) as [Hx0'|[-> ->]]; [|destruct Hz; discriminate].
    pose proof (it_join _ _ Hinv a0 x0 Hx0' Hz) as Hd. apply all_done_iff. intros k0 Hk0.
    apply (proj1 (all_done_iff s _) Hd) in Hk0. destruct Hk0 as [r Hr]. exists r. apply Hres. exact Hr.
  - intros b y a0 e Hy Hk Hp Hq. destruct (Hcls b y Hy) as [Hy'|[-> ->]]; [|discriminate].
    destruct (it_err _ _ Hinv b y a0 e Hy' Hk Hp Hq) as [x0 [Hx0 Hg]]. exists x0. split; [apply Hold; exact Hx0|exact Hg].
  - intros a0 x0 Hx0 Hz. destruct (Hcls a0 x0 Hx0) as [Hx0'|[-> ->]]; [|discriminate].
    exact (it_ok _ _ Hinv a0 x0 Hx0' Hz).
Qed.

Lemma run_inv_tree p c sched : inv_tree p (run p c sched) /\ uniq p (pj csof (run p c sched)).
Proof.
  unfold run. generalize (conj (inv_tree_init p) (uniq_init p)). generalize (init_state p).
  induction sched as [|ch sched IH]; intros s Hs; simpl; [exact Hs|].
  apply IH. destruct Hs as [H1 H2]. destruct ch as [a|k]; simpl.
  - destruct (step p c s a) eqn:E; [split; [eapply step_inv_tree; eauto|eapply step_uniq; eauto]|split; assumption].
  - destruct (start_root p c s k) eqn:E; [split; [eapply start_root_inv_tree; eauto|eapply start_root_uniq; eauto]|split; assumption].
Qed.

(* the state-level core of C01: an activation that is past its join (in particular one that is
   announcing or running a command) has, for every dep, a child activation on the child path that
   has returned, and returned successfully *)
Theorem deps_returned_ok p c sched a x :
  get_act (run p c sched) a = Some x -> deps_ok_zone (a_pc x) = true ->
  forall j d, nth_error (t_deps (get_task p (a_task x))) j = Some d ->
    exists k y, get_act (run p c sched) k = Some y /\ a_path y = a_path x ++ [j] /\ a_task y = c_task d /\
                a_var y = eval_var (a_var x) (c_var d) /\ a_pc y = PDone ROk.
Proof.
  intros Hx Hz j d Hd. destruct (run_inv_tree p c sched) as [Hinv _].
  set (s := run p c sched) in *.
  destruct (it_kids _ _ Hinv a x Hx (deps_ok_post _ Hz)) as [_ Hs].
  destruct (Hs j d Hd) as [k [Hk (y & Hy & Hp & Ht & Hv & Hkd & Hpa)]].
  exists k, y. repeat split; auto.
  pose proof (it_join _ _ Hinv a x Hx (or_intror Hz)) as Hdn.
  destruct (proj1 (all_done_iff s _) Hdn k (nth_error_In _ _ Hk)) as [r Hr]. apply act_result_done in Hr. destruct Hr as [y0 [Hy0 Hq]].
  rewrite Hy in Hy0. injection Hy0 as <-. destruct r as [|e]; [exact Hq|].
  exfalso. destruct (it_err _ _ Hinv k y a e Hy Hkd Hpa Hq) as [x0 [Hx0 Hg]].
  rewrite Hx in Hx0. injection Hx0 as <-. unfold gsome in Hg. rewrite (it_ok _ _ Hinv a x Hx Hz) in Hg. discriminate.
Qed.
