(* Monitors of the executor properties over observable traces.
   The same boolean functions are (1) proved true of every trace of the model
   (Exec/Inv*.v, Properties/C01.. ) and (2) evaluated by cases.v on the traces
   the real Executor produced under the controlled scheduler.
   They only look at observable events (never at EvEnd, which the harness cannot see). *)
From Coq Require Import List Arith Bool.
Import ListNotations.
From TV Require Import Exec.Model.

(* ------------------------------------------------------------------ *)
(* static resolution of a call path                                    *)

Inductive link := LRoot | LDep | LCall | LDefer.

Fixpoint resolve_from (p : prog) (t v : nat) (lk : link) (path : list nat) : option (nat * nat * link) :=
  match path with
  | [] => Some (t, v, lk)
  | m :: rest =>
      let tk := get_task p t in
      let nd := length (t_deps tk) in
      if Nat.ltb m nd then
        match nth_error (t_deps tk) m with
        | Some d => resolve_from p (c_task d) (eval_var v (c_var d)) LDep rest
        | None => None
        end
      else
        match nth_error (t_cmds tk) (m - nd) with
        | Some (CallC cl) => resolve_from p (c_task cl) (eval_var v (c_var cl)) LCall rest
        | Some (DeferCall cl) => resolve_from p (c_task cl) (eval_var v (c_var cl)) LDefer rest
        | _ => None
        end
  end.

Definition resolve (p : prog) (c : cfg) (path : aid) : option (nat * nat * link) :=
  match path with
  | [] => None
  | k :: rest =>
      match nth_error (cf_roots c) k with
      | Some cl => resolve_from p (c_task cl) (eval_var 0 (c_var cl)) LRoot rest
      | None => None
      end
  end.

Definition task_of (p : prog) (c : cfg) (a : aid) : nat :=
  match resolve p c a with Some (t, _, _) => t | None => 0 end.
Definition var_of (p : prog) (c : cfg) (a : aid) : nat :=
  match resolve p c a with Some (_, v, _) => v | None => 0 end.
Definition link_of (p : prog) (c : cfg) (a : aid) : link :=
  match resolve p c a with Some (_, _, l) => l | None => LRoot end.
Definition key_of_act (p : prog) (c : cfg) (a : aid) : option key :=
  match resolve p c a with Some (t, v, _) => key_of p t v | None => None end.

Fixpoint aid_eqb (a b : aid) : bool :=
  match a, b with
  | [], [] => true
  | x :: a', y :: b' => Nat.eqb x y && aid_eqb a' b'
  | _, _ => false
  end.

(* a is a strict prefix of b *)
Fixpoint strict_prefix (a b : aid) : bool :=
  match a, b with
  | [], _ :: _ => true
  | x :: a', y :: b' => Nat.eqb x y && strict_prefix a' b'
  | _, _ => false
  end.

Fixpoint prefix_of_aid (a b : aid) : bool :=
  match a, b with
  | [], _ => true
  | x :: a', y :: b' => Nat.eqb x y && prefix_of_aid a' b'
  | _, _ => false
  end.

Definition mem_aid (a : aid) (l : list aid) : bool := existsb (aid_eqb a) l.
Definition mem_key (k : key) (l : list key) : bool := existsb (key_eqb k) l.

Definition parent_of (a : aid) : aid := removelast a.

(* the activation an observable event belongs to (None for EvSkipping/EvEnd) *)
Definition ev_act (e : event) : option aid :=
  match e with
  | EvStarted a _ | EvAnnounce a _ | EvProbeBegin a _ _ | EvProbeEnd a _ | EvFinished a | EvUpToDate a
  | EvPlatformSkip a | EvDAnnounce a _ | EvDProbeBegin a _ _ | EvDProbeEnd a _ => Some a
  | EvSkipping _ _ | EvEnd _ _ => None
  end.

Definition observable (e : event) : bool := match e with EvEnd _ _ => false | _ => true end.

(* ------------------------------------------------------------------ *)
(* A generic fold-monitor                                              *)

Section Fold.
  Context {St : Type}.
  Variable mstep : St -> event -> option St.
  Fixpoint mfold (st : St) (tr : list event) : option St :=
    match tr with
    | [] => Some st
    | e :: r => match mstep st e with Some st' => mfold st' r | None => None end
    end.
End Fold.

Definition accepts {St} (mstep : St -> event -> option St) (st0 : St) (tr : list event) : bool :=
  match mfold mstep st0 tr with Some _ => true | None => false end.

(* ------------------------------------------------------------------ *)
(* C01: when a command of a task starts, every dep finished successfully *)

Record st01 := { ok_acts : list aid; ok_keys : list key }.

(* an activation ended successfully: "finished", "up to date" or skipped for the platform *)
Definition ok_end (e : event) : option aid :=
  match e with EvFinished a | EvUpToDate a | EvPlatformSkip a => Some a | _ => None end.

Definition dep_satisfied (p : prog) (c : cfg) (st : st01) (a : aid) (v : nat) (j : nat) (d : call) : bool :=
  mem_aid (a ++ [j]) (ok_acts st) ||
  match key_of p (c_task d) (eval_var v (c_var d)) with
  | Some k => mem_key k (ok_keys st)
  | None => false
  end.

Fixpoint forall_idx {A} (f : nat -> A -> bool) (i : nat) (l : list A) : bool :=
  match l with [] => true | x :: r => f i x && forall_idx f (S i) r end.

Definition deps_ok (p : prog) (c : cfg) (st : st01) (a : aid) : bool :=
  let tk := get_task p (task_of p c a) in
  forall_idx (dep_satisfied p c st a (var_of p c a)) 0 (t_deps tk).

(* task: calls among the commands with index < upto have returned successfully
   (or the caller ignores exit-status errors of its commands) *)
Definition calls_ok (p : prog) (c : cfg) (st : st01) (a : aid) (upto : nat) : bool :=
  let tk := get_task p (task_of p c a) in
  let nd := length (t_deps tk) in
  t_ignore tk ||
  forall_idx (fun i cm => match cm with
                          | CallC cl => Nat.leb upto i || dep_satisfied p c st a (var_of p c a) (nd + i) cl
                          | _ => true
                          end) 0 (t_cmds tk).

Definition step01 (check_calls : bool) (p : prog) (c : cfg) (st : st01) (e : event) : option st01 :=
  match e with
  | EvAnnounce a i | EvProbeBegin a i _ =>
      if deps_ok p c st a && (negb check_calls || calls_ok p c st a i) then Some st else None
  | _ =>
      match ok_end e with
      | Some a =>
          if (match e with EvFinished _ => negb check_calls || calls_ok p c st a (length (t_cmds (get_task p (task_of p c a)))) | _ => true end)
          then
          Some {| ok_acts := a :: ok_acts st;
                  ok_keys := match e, key_of_act p c a with
                             | EvFinished _, Some k | EvUpToDate _, Some k => k :: ok_keys st
                             | _, _ => ok_keys st
                             end |}
          else None
      | None => Some st
      end
  end.

Definition mon_C01 (p : prog) (c : cfg) (tr : list event) : bool :=
  accepts (step01 false p c) {| ok_acts := []; ok_keys := [] |} tr.

(* the same for task: calls among the commands: the caller continues only after the
   callee (its own activation, or the one real execution of its dedup key) finished successfully *)
Definition mon_calls (p : prog) (c : cfg) (tr : list event) : bool :=
  accepts (step01 true p c) {| ok_acts := []; ok_keys := [] |} tr.

(* ------------------------------------------------------------------ *)
(* C02: per activation the commands run one at a time in order; a call  *)
(* returns only after the callee (and everything below it) went quiet;  *)
(* the callee sees the variable passed                                  *)

Inductive phase :=
| PhNew                     (* nothing seen *)
| PhStarted                 (* "started" seen, no command yet *)
| PhAnnounced (i : nat)     (* command i announced *)
| PhRunning (i : nat)       (* probe of command i arrived *)
| PhAfter (i : nat)         (* command i ended *)
| PhFinished                (* "finished" seen *)
| PhDefer (stage : nat) (i : nat)  (* deferred entry i: 0 announced, 1 running, 2 ended *)
| PhClosed.                 (* up to date / platform skip *)

Fixpoint get_phase (l : list (aid * phase)) (a : aid) : phase :=
  match l with
  | [] => PhNew
  | (b, ph) :: r => if aid_eqb a b then ph else get_phase r a
  end.

Fixpoint set_phase (l : list (aid * phase)) (a : aid) (ph : phase) : list (aid * phase) :=
  match l with
  | [] => [(a, ph)]
  | (b, q) :: r => if aid_eqb a b then (b, ph) :: r else (b, q) :: set_phase r a ph
  end.

Definition is_shell (p : prog) (t i : nat) : bool :=
  match nth_error (t_cmds (get_task p t)) i with Some (Shell _ _) => true | _ => false end.
Definition is_defer_shell (p : prog) (t i : nat) : bool :=
  match nth_error (t_cmds (get_task p t)) i with Some (DeferShell _) => true | _ => false end.

(* last command index handled so far (for "strictly increasing") *)
Definition next_allowed (ph : phase) : option nat :=
  match ph with
  | PhStarted => Some 0
  | PhAfter i => Some (S i)
  | _ => None
  end.

(* legal per-activation transitions *)
Definition phase_step (p : prog) (t v : nat) (ph : phase) (e : event) : option phase :=
  match e, ph with
  | EvStarted _ t', PhNew => if Nat.eqb t t' then Some PhStarted else None
  | EvAnnounce _ i, _ =>
      match next_allowed ph with
      | Some lo => if Nat.leb lo i && is_shell p t i then Some (PhAnnounced i) else None
      | None => None
      end
  | EvProbeBegin _ i v', PhAnnounced i' => if Nat.eqb i i' && Nat.eqb v v' then Some (PhRunning i) else None
  | EvProbeEnd _ i, PhRunning i' => if Nat.eqb i i' then Some (PhAfter i) else None
  | EvFinished _, PhStarted | EvFinished _, PhAfter _ => Some PhFinished
  | EvUpToDate _, PhStarted => Some PhClosed
  | EvPlatformSkip _, PhNew => Some PhClosed
  (* deferred entries: after the loop ended (finished, or stopped after some command, or right after start) *)
  | EvDAnnounce _ i, PhFinished | EvDAnnounce _ i, PhAfter _ | EvDAnnounce _ i, PhStarted
  | EvDAnnounce _ i, PhAnnounced _ =>
      if is_defer_shell p t i then Some (PhDefer 0 i) else None
  | EvDAnnounce _ i, PhDefer 2 i' => if Nat.ltb i i' && is_defer_shell p t i then Some (PhDefer 0 i) else None
  | EvDProbeBegin _ i _, PhDefer 0 i' => if Nat.eqb i i' then Some (PhDefer 1 i) else None
  | EvDProbeEnd _ i, PhDefer 1 i' => if Nat.eqb i i' then Some (PhDefer 2 i) else None
  | _, _ => None
  end.

(* (1) per activation: the legal sequence of its own events *)
Definition step02seq (p : prog) (c : cfg) (ph : list (aid * phase)) (e : event) : option (list (aid * phase)) :=
  match ev_act e with
  | None => Some ph
  | Some a =>
      match resolve p c a with
      | None => None
      | Some (t, v, _) =>
          match phase_step p t v (get_phase ph a) e with
          | None => None
          | Some q => Some (set_phase ph a q)
          end
      end
  end.

Definition mon_C02seq (p : prog) (c : cfg) (tr : list event) : bool := accepts (step02seq p c) [] tr.

(* (2) brackets: when a moves on, every strict descendant seen so far must stay quiet from now on *)
Record st02 := { seen : list aid; sealed : list aid }.

Definition seal_descendants (st : st02) (a : aid) : list aid :=
  filter (strict_prefix a) (seen st) ++ sealed st.

Definition step02seal (st : st02) (e : event) : option st02 :=
  match ev_act e with
  | None => Some st
  | Some a =>
      if mem_aid a (sealed st) then None
      else
        let sl := match e with
                  | EvStarted _ _ | EvProbeBegin _ _ _ | EvDProbeBegin _ _ _ => sealed st
                  | _ => seal_descendants st a
                  end in
        Some {| seen := if mem_aid a (seen st) then seen st else a :: seen st; sealed := sl |}
  end.

Definition mon_C02seal (tr : list event) : bool := accepts step02seal {| seen := []; sealed := [] |} tr.

Definition mon_C02 (p : prog) (c : cfg) (tr : list event) : bool := mon_C02seq p c tr && mon_C02seal tr.

(* ------------------------------------------------------------------ *)
(* C03: fail-stop                                                      *)

(* activations that must not start any further command *)
Fixpoint climb (fuel : nat) (p : prog) (c : cfg) (a : aid) : list aid :=
  match fuel with
  | O => []
  | S f =>
      match link_of p c a with
      | LRoot => []
      | LDefer => []                       (* errors of deferred calls are swallowed *)
      | LDep => parent_of a :: climb f p c (parent_of a)
      | LCall =>
          let b := parent_of a in
          if t_ignore (get_task p (task_of p c b)) then []   (* caller ignores exit-status errors of its commands *)
          else b :: climb f p c b
      end
  end.

Definition failing_cmd (p : prog) (c : cfg) (a : aid) (i : nat) : bool :=
  let tk := get_task p (task_of p c a) in
  match nth_error (t_cmds tk) i with
  | Some (Shell (S _) false) => negb (t_ignore tk)
  | _ => false
  end.

Definition step03 (p : prog) (c : cfg) (dead : list aid) (e : event) : option (list aid) :=
  match e with
  | EvAnnounce a _ | EvProbeBegin a _ _ => if mem_aid a dead then None else Some dead
  | EvProbeEnd a i =>
      if failing_cmd p c a i then Some (a :: climb (length a) p c a ++ dead) else Some dead
  | _ => Some dead
  end.

Definition mon_C03 (p : prog) (c : cfg) (tr : list event) : bool := accepts (step03 p c) [] tr.

(* the failure reached the top: Run must report an error *)
Definition reaches_root (p : prog) (c : cfg) (a : aid) : bool :=
  let up := a :: climb (length a) p c a in
  existsb (fun b => match link_of p c b with LRoot => true | _ => false end) up.

Definition failing_ends (p : prog) (c : cfg) (tr : list event) : list (aid * nat) :=
  flat_map (fun e => match e with
                     | EvProbeEnd a i => if failing_cmd p c a i then [(a, i)] else []
                     | _ => [] end) tr.

Definition exit_of (p : prog) (c : cfg) (a : aid) (i : nat) : nat :=
  match nth_error (t_cmds (get_task p (task_of p c a))) i with Some (Shell ex _) => ex | _ => 0 end.

(* no task of the program can fail through a guard (then the only source of errors are commands) *)
Definition no_guard_errors (p : prog) (c : cfg) : bool :=
  forallb (fun tk => let g := t_g tk in
                     g_required g && g_enum g && negb (g_prompt g && negb (cf_yes c)) &&
                     match g_precond g with Some false => false | _ => true end && negb (t_internal tk)) p.

(* size of the fully expanded call tree below task t (every reference counted), saturating:
   fuel exhausted (a cyclic program) counts as "huge" *)
Fixpoint tree_size (fuel : nat) (p : prog) (huge : nat) (t : nat) : nat :=
  match fuel with
  | O => huge
  | S f =>
      let tk := get_task p t in
      S (fold_left (fun acc d => acc + tree_size f p huge (c_task d)) (t_deps tk) 0 +
         fold_left (fun acc cm => match cm with
                                  | CallC cl | DeferCall cl => acc + tree_size f p huge (c_task cl)
                                  | _ => acc end) (t_cmds tk) 0)
  end.

(* can the call counter (MaximumTaskCall) be reached at all: only if the expanded call tree has
   that many task references (always "yes" for cyclic programs) *)
Definition callcount_possible (p : prog) (c : cfg) : bool :=
  Nat.leb (cf_maxcall c)
          (fold_left (fun acc r => acc + tree_size (S (length p)) p (cf_maxcall c) (c_task r)) (cf_roots c) 0).

(* the only source of errors are failing commands: no task can fail through a guard and the call
   counter cannot trip (otherwise the errgroup may report that error first and it legitimately wins) *)
Definition only_cmd_errors (p : prog) (c : cfg) : bool :=
  no_guard_errors p c && negb (callcount_possible p c).

Definition mon_C03_status (p : prog) (c : cfg) (tr : list event) (r : res) : bool :=
  (* a failure that reaches the top makes Run fail *)
  forallb (fun '(a, i) => if reaches_root p c a then match r with RErr _ => true | ROk => false end else true)
          (failing_ends p c tr) &&
  (* with exactly one failing command in the whole run there is no race about which error wins:
     reaching the top it is reported as a task-run error carrying exactly its exit status;
     suppressed by an ignore_error on the way it leaves the invocation successful *)
  match failing_ends p c tr with
  | [(a, i)] =>
      if reaches_root p c a then
        if only_cmd_errors p c && negb (existsb (fun e => match e with EvSkipping _ _ => true | _ => false end) tr)
        then match r with RErr (ETaskRun (Some n)) => Nat.eqb n (exit_of p c a i) | _ => false end
        else match r with RErr _ => true | ROk => false end
      else if only_cmd_errors p c && negb (existsb (fun e => match e with EvSkipping _ _ => true | _ => false end) tr)
           (* (a caller of a shared task whose one execution was cancelled under somebody else's
              context legitimately fails, so runs with skipped callers are not judged here) *)
      then match r with ROk => true | _ => false end else true
  | [] =>
      (* nothing failed (or every failure was ignored on the spot): no exit-status error *)
      match r with RErr (ETaskRun (Some _)) | RErr (EExit _) => false | _ => true end
  | _ => true
  end.

(* ------------------------------------------------------------------ *)
(* C06: run once / when_changed execute at most once per key; a skip    *)
(* only happens when somebody executes                                  *)

Definition step06 (p : prog) (c : cfg) (started : list key) (e : event) : option (list key) :=
  match e with
  | EvStarted a _ =>
      match key_of_act p c a with
      | Some k => if mem_key k started then None else Some (k :: started)
      | None => Some started
      end
  | _ => Some started
  end.

Definition skipped_keys (tr : list event) : list key :=
  flat_map (fun e => match e with EvSkipping k _ => [k] | _ => [] end) tr.

Definition started_keys (p : prog) (c : cfg) (tr : list event) : list key :=
  flat_map (fun e => match e with
                     | EvStarted a _ => match key_of_act p c a with Some k => [k] | None => [] end
                     | _ => [] end) tr.

(* at most one execution per key; whoever was skipped was skipped in favour of a real execution
   (the "skipping" line and the owner's "started" line are printed by different goroutines after
   the table was updated, so their relative order in the trace means nothing) *)
Definition mon_C06 (p : prog) (c : cfg) (tr : list event) : bool :=
  accepts (step06 p c) [] tr &&
  forallb (fun k => mem_key k (started_keys p c tr)) (skipped_keys tr).

(* ------------------------------------------------------------------ *)
(* Waiting for a shared execution: after "skipping execution of task K" printed on behalf of a
   caller below activation h (h = the skipped activation itself in the model's trace; the
   activation that last printed on the same or the creating goroutine in an observed trace),
   no activation at or above h moves on before the one real execution of K went quiet for good. *)

Record stW := { w_owner : list (key * aid); w_pending : list (key * aid); w_sealed : list aid; w_seen : list aid }.

Fixpoint owner_of (l : list (key * aid)) (k : key) : option aid :=
  match l with [] => None | (k', o) :: r => if key_eqb k k' then Some o else owner_of r k end.

Definition stepW (p : prog) (c : cfg) (st : stW) (e : event) : option stW :=
  match e with
  | EvSkipping k h =>
      Some {| w_owner := w_owner st; w_pending := (k, h) :: w_pending st; w_sealed := w_sealed st; w_seen := w_seen st |}
  | _ =>
      match ev_act e with
      | None => Some st
      | Some x =>
          if existsb (fun o => prefix_of_aid o x) (w_sealed st) then None
          else
            let owners := match e with
                          | EvStarted a _ => match key_of_act p c a with Some k => (k, a) :: w_owner st | None => w_owner st end
                          | _ => w_owner st
                          end in
            (* x moves: every pending wait registered at or below x is over *)
            let due := filter (fun '(k, h) => prefix_of_aid x h) (w_pending st) in
            let rest := filter (fun '(k, h) => negb (prefix_of_aid x h)) (w_pending st) in
            let newly := flat_map (fun '(k, _) => match owner_of owners k with
                                                   | Some o => if prefix_of_aid o x then [] else [o]
                                                   | None => [] end) due in
            Some {| w_owner := owners; w_pending := rest; w_sealed := newly ++ w_sealed st;
                    w_seen := x :: w_seen st |}
      end
  end.

Definition mon_waits (p : prog) (c : cfg) (tr : list event) : bool :=
  accepts (stepW p c) {| w_owner := []; w_pending := []; w_sealed := []; w_seen := [] |} tr.

(* ------------------------------------------------------------------ *)
(* C07: at most N commands execute at any instant                       *)

Definition step07 (n : option nat) (running : nat) (e : event) : option nat :=
  match e with
  | EvProbeBegin _ _ _ | EvDProbeBegin _ _ _ =>
      match n with
      | Some lim => if Nat.ltb running lim then Some (S running) else None
      | None => Some (S running)
      end
  | EvProbeEnd _ _ | EvDProbeEnd _ _ => Some (pred running)
  | _ => Some running
  end.

Definition mon_C07 (c : cfg) (tr : list event) : bool := accepts (step07 (limited c)) 0 tr.

(* ------------------------------------------------------------------ *)
(* C13: a task whose guard fails runs none of its commands              *)

Definition guard_blocks (c : cfg) (tk : task) : bool :=
  let g := t_g tk in
  negb (g_platform g) || negb (g_required g) || negb (g_enum g) ||
  match g_precond g with Some false => true | _ => false end ||
  (g_prompt g && negb (cf_yes c)).

Definition mon_C13 (p : prog) (c : cfg) (tr : list event) : bool :=
  forallb (fun e => match e with
                    | EvAnnounce a _ | EvProbeBegin a _ _ | EvDAnnounce a _ | EvDProbeBegin a _ _ | EvFinished a =>
                        negb (guard_blocks c (get_task p (task_of p c a)))
                    | EvStarted a _ =>
                        let g := t_g (get_task p (task_of p c a)) in
                        g_platform g && g_required g && g_enum g
                    | _ => true
                    end) tr.

(* expected error class when the root task itself is guarded *)
Definition guard_code (c : cfg) (tk : task) : option err :=
  let g := t_g tk in
  if negb (g_platform g) then None
  else if negb (g_required g) then Some (ECode 206)
  else if negb (g_enum g) then Some (ECode 207)
  else None.

(* exit class when a guard stops the invocation: if no command failed and Run reports an error, it is
   the typed error of a guard that some task of the program can fail (206 required variable,
   207 enum, 205 prompt, the precondition failure), the call-limit error 204, the pre-check
   error 202 for an internal task named on the command line, or a task-run error (201) wrapping one
   of them when the guarded task was reached through a task: call of a root task.  "context
   canceled" can only surface through a skipped caller of a shared execution that somebody else's
   guard failure cancelled. *)
Definition guard_err_possible (p : prog) (c : cfg) (tr : list event) (e : err) : bool :=
  match e with
  | ECode 206 => existsb (fun tk => negb (g_required (t_g tk))) p
  | ECode 207 => existsb (fun tk => negb (g_enum (t_g tk))) p
  | ECode 205 => existsb (fun tk => g_prompt (t_g tk)) p && negb (cf_yes c)
  | EPrecond => existsb (fun tk => match g_precond (t_g tk) with Some false => true | _ => false end) p ||
                (* under --force(-all) preconditions are evaluated even when the context is already
                   cancelled and then fail; a skipped caller can carry that error to the top first *)
                (existsb (fun ev => match ev with EvSkipping _ _ => true | _ => false end) tr &&
                 (cf_force c || cf_forceall c))
  | ECode 204 => callcount_possible p c
  | ECode 202 => existsb t_internal p
  | ETaskRun None => negb (no_guard_errors p c) || callcount_possible p c
  | ECancel => existsb (fun ev => match ev with EvSkipping _ _ => true | _ => false end) tr
  | _ => false
  end.

Definition mon_C13_status (p : prog) (c : cfg) (tr : list event) (r : res) : bool :=
  match failing_ends p c tr, r with
  | [], RErr e => guard_err_possible p c tr e
  | _, _ => true
  end.

(* ------------------------------------------------------------------ *)
(* C14: deferred entries run exactly once, in reverse order, after the  *)
(* last command; checked at the end of the trace per activation         *)

Definition defer_indices (p : prog) (t : nat) : list nat :=
  map fst (filter (fun '(_, cm) => match cm with DeferShell _ => true | _ => false end)
                  (combine (seq 0 (length (t_cmds (get_task p t)))) (t_cmds (get_task p t)))).

Definition dann_of (a : aid) (tr : list event) : list nat :=
  flat_map (fun e => match e with EvDAnnounce b i => if aid_eqb a b then [i] else [] | _ => [] end) tr.

Fixpoint strictly_decreasing (l : list nat) : bool :=
  match l with
  | x :: ((y :: _) as r) => Nat.ltb y x && strictly_decreasing r
  | _ => true
  end.

Definition finished_acts (tr : list event) : list aid :=
  flat_map (fun e => match e with EvFinished a => [a] | _ => [] end) tr.

Definition nat_list_eqb (a b : list nat) : bool :=
  Nat.eqb (length a) (length b) && forallb (fun '(x, y) => Nat.eqb x y) (combine a b).

(* last shell command index announced by a *)
Definition last_announced (a : aid) (tr : list event) : option nat :=
  fold_left (fun acc e => match e with EvAnnounce b i => if aid_eqb a b then Some i else acc | _ => acc end) tr None.

Definition started_acts (tr : list event) : list aid :=
  flat_map (fun e => match e with EvStarted a _ => [a] | _ => [] end) tr.

Definition dprobes_of (a : aid) (tr : list event) : list nat :=
  flat_map (fun e => match e with EvDProbeBegin b i _ => if aid_eqb a b then [i] else [] | _ => [] end) tr.

(* exit status with which a's own command loop stopped, as far as the trace shows it:
   the first non-ignored failing shell command of a that ran to its end *)
Definition own_failure (p : prog) (c : cfg) (a : aid) (tr : list event) : option nat :=
  match find (fun e => match e with EvProbeEnd b i => aid_eqb a b && failing_cmd p c a i | _ => false end) tr with
  | Some (EvProbeEnd _ i) =>
      match nth_error (t_cmds (get_task p (task_of p c a))) i with
      | Some (Shell ex _) => Some ex
      | _ => None
      end
  | _ => None
  end.

(* may a's context have been cancelled while its failing command was winding up (then the command
   ends with "context canceled" instead of its exit status and EXIT_CODE is legitimately unset):
   some other activation has a failing command, or some task of the program can fail through a
   guard (required variable, precondition, prompt, internal), or the call counter can trip *)
Definition foreign_failure (p : prog) (c : cfg) (a : aid) (tr : list event) : bool :=
  (negb (no_guard_errors p c) || callcount_possible p c) ||
  existsb (fun e => match e with
                    | EvProbeEnd b i => failing_cmd p c b i && negb (aid_eqb a b)
                    | _ => false end) tr.

(* EXIT_CODE seen by a's deferred commands *)
Definition exit_codes_ok (p : prog) (c : cfg) (a : aid) (tr : list event) : bool :=
  forallb (fun e => match e with
                    | EvDProbeBegin b _ code =>
                        if aid_eqb a b then
                          match own_failure p c a tr with
                          | Some ex => Nat.eqb code ex || (Nat.eqb code 0 && foreign_failure p c a tr)
                          | None => true
                          end
                        else true
                    | _ => true end) tr.

(* complete = the run is over (every deferred entry had its chance) *)
Definition mon_C14 (p : prog) (c : cfg) (complete : bool) (tr : list event) : bool :=
  forallb (fun a =>
             let t := task_of p c a in
             let ds := dann_of a tr in
             strictly_decreasing ds &&
             forallb (fun i => is_defer_shell p t i) ds &&
             exit_codes_ok p c a tr &&
             (if complete then
                (* every announced deferred command really executed *)
                nat_list_eqb ds (dprobes_of a tr) &&
                if mem_aid a (finished_acts tr) then nat_list_eqb ds (rev (defer_indices p t))
                else
                  match last_announced a tr with
                  | Some i => forallb (fun j => existsb (Nat.eqb j) ds) (filter (fun j => Nat.ltb j i) (defer_indices p t))
                  | None => true
                  end
              else true))
          (started_acts tr).

(* C14, further clauses (second round of seeded changes): a defer entry placed AFTER the command that
   failed was never reached and must not run; and EXIT_CODE is never invented: an activation with no
   failing command of its own shows its deferred commands either nothing (0) or the exit status of
   some command that did fail in this run (a failing callee hands its status to the caller) - in
   particular never the status of a failing DEFERRED command. *)
Definition own_failure_idx (p : prog) (c : cfg) (a : aid) (tr : list event) : option nat :=
  match find (fun e => match e with EvProbeEnd b i => aid_eqb a b && failing_cmd p c a i | _ => false end) tr with
  | Some (EvProbeEnd _ i) => Some i
  | _ => None
  end.

Definition failing_codes (p : prog) (c : cfg) (tr : list event) : list nat :=
  flat_map (fun e => match e with
                     | EvProbeEnd b i => if failing_cmd p c b i then [exit_of p c b i] else []
                     | _ => [] end) tr.

Definition mon_C14x (p : prog) (c : cfg) (tr : list event) : bool :=
  forallb (fun a =>
             (match own_failure_idx p c a tr with
              | Some f => forallb (fun i => Nat.ltb i f) (dann_of a tr)
              | None => true
              end) &&
             forallb (fun e => match e with
                               | EvDProbeBegin b _ code =>
                                   if aid_eqb a b then
                                     match own_failure p c a tr with
                                     | Some _ => true          (* judged by exit_codes_ok *)
                                     | None => Nat.eqb code 0 || existsb (Nat.eqb code) (failing_codes p c tr)
                                     end
                                   else true
                               | _ => true end) tr)
          (started_acts tr).

(* C01 for deferred commands: they are commands of the task too - a deferred command is only ever
   announced or started by an activation whose deps all ended successfully *)
Definition mon_C01d (p : prog) (c : cfg) (tr : list event) : bool :=
  accepts (fun st e => match e with
                       | EvDAnnounce a _ | EvDProbeBegin a _ _ => if deps_ok p c st a then Some st else None
                       | _ => step01 false p c st e
                       end) {| ok_acts := []; ok_keys := [] |} tr.

(* everything the executor monitors demand of one observed run *)
Definition mon_all (p : prog) (c : cfg) (complete : bool) (tr : list event) : list bool :=
  [ mon_C01 p c tr; mon_calls p c tr; mon_waits p c tr; mon_C02 p c tr; mon_C03 p c tr; mon_C06 p c tr; mon_C07 c tr; mon_C13 p c tr; mon_C14 p c complete tr ].
