(* Proofs about the for-loop expansion of Exec/ForLoop.v (statements collected in Properties/C02for.v). *)
From Coq Require Import List String Ascii Bool Arith Lia Permutation.
Import ListNotations.
From TV Require Import Exec.ForLoop.
Local Open Scope string_scope.

(* ------------------------------------------------------------------ *)
(* (a) the expansion keeps the declaration order of the entries *)

Lemma fold_expand mo es acc :
  fold_left (fun acc e => (acc ++ expand_entry mo e)%list) es acc = (acc ++ flat_map (expand_entry mo) es)%list.
Proof.
  revert acc; induction es as [|e es IH]; intros acc; simpl.
  - now rewrite app_nil_r.
  - rewrite IH, app_assoc. reflexivity.
Qed.

Lemma expand_flat_map mo es : expand mo es = flat_map (expand_entry mo) es.
Proof. unfold expand. now rewrite fold_expand. Qed.

Lemma expand_app mo es1 es2 : expand mo (es1 ++ es2) = (expand mo es1 ++ expand mo es2)%list.
Proof. rewrite !expand_flat_map. apply flat_map_app. Qed.

Lemma expand_cons mo e es : expand mo (e :: es) = (expand_entry mo e ++ expand mo es)%list.
Proof. rewrite !expand_flat_map. reflexivity. Qed.

Lemma expand_declaration_order mo es1 e es2 :
  expand mo (es1 ++ [e] ++ es2) = (expand mo es1 ++ expand mo [e] ++ expand mo es2)%list.
Proof. now rewrite !expand_app. Qed.

Lemma expand_single mo e : expand mo [e] = expand_entry mo e.
Proof. rewrite expand_flat_map. simpl. apply app_nil_r. Qed.

Lemma expand_plain mo x : expand mo [Plain x] = [x].
Proof. reflexivity. Qed.

Lemma expand_null mo : expand mo [Null] = [].
Proof. reflexivity. Qed.

(* no entry after position i contributes before an entry at or before i: stated with nth_error —
   the k-th command of entry e sits at offset |expand es1| + k *)
Lemma expand_position mo es1 e es2 k x :
  nth_error (expand mo [e]) k = Some x ->
  nth_error (expand mo (es1 ++ [e] ++ es2)) (List.length (expand mo es1) + k) = Some x.
Proof.
  intros H. rewrite expand_declaration_order.
  rewrite nth_error_app2 by lia.
  replace (List.length (expand mo es1) + k - List.length (expand mo es1)) with k by lia.
  rewrite nth_error_app1; [exact H|].
  apply nth_error_Some. congruence.
Qed.

(* ------------------------------------------------------------------ *)
(* (b) list loops *)

Lemma expand_list mo xs a c :
  expand mo [For (LList xs) a c] = map (fun x => inst c [(as_name a, VStr x)]) xs.
Proof. rewrite expand_single. simpl. rewrite map_map. reflexivity. Qed.

Lemma expand_varlist mo xs a c :
  expand mo [For (LVarList xs) a c] = map (fun x => inst c [(as_name a, VStr x)]) xs.
Proof. rewrite expand_single. simpl. rewrite map_map. reflexivity. Qed.

Lemma expand_files mo xs a c :
  expand mo [For (LFiles xs) a c] = map (fun x => inst c [(as_name a, VStr x)]) xs.
Proof. rewrite expand_single. simpl. rewrite map_map. reflexivity. Qed.

Lemma expand_list_length mo xs a c : List.length (expand mo [For (LList xs) a c]) = List.length xs.
Proof. rewrite expand_list. apply map_length. Qed.

Lemma expand_list_nth mo xs a c i :
  nth_error (expand mo [For (LList xs) a c]) i =
  option_map (fun x => inst c [(as_name a, VStr x)]) (nth_error xs i).
Proof. rewrite expand_list. apply nth_error_map. Qed.

(* ------------------------------------------------------------------ *)
(* (c) matrix loops *)

Lemma flat_map_map {A B C} (f : B -> list C) (g : A -> B) l :
  flat_map f (map g l) = flat_map (fun x => f (g x)) l.
Proof. induction l as [|x l IH]; simpl; [reflexivity|]. now rewrite IH. Qed.

Lemma map_flat_map {A B C} (f : B -> C) (g : A -> list B) l :
  map f (flat_map g l) = flat_map (fun x => map f (g x)) l.
Proof. induction l as [|x l IH]; simpl; [reflexivity|]. now rewrite map_app, IH. Qed.

Lemma flat_map_ext' {A B} (f g : A -> list B) l :
  (forall x, f x = g x) -> flat_map f l = flat_map g l.
Proof. intros H. induction l as [|x l IH]; simpl; [reflexivity|]. now rewrite H, IH. Qed.

Lemma fold_product rows : forall acc,
  fold_left product_step rows acc = flat_map (fun c => map (app c) (lex_enum rows)) acc.
Proof.
  induction rows as [|[k items] rest IH]; intros acc; simpl.
  - induction acc as [|c acc IHa]; simpl; [reflexivity|]. now rewrite app_nil_r, <- IHa.
  - rewrite IH. unfold product_step. simpl.
    induction acc as [|c acc IHa]; simpl; [reflexivity|].
    rewrite flat_map_app, IHa. f_equal.
    rewrite flat_map_map, map_flat_map.
    apply flat_map_ext'. intros it. rewrite map_map.
    apply map_ext. intros x. now rewrite <- app_assoc.
Qed.

Lemma product_lex_enum rows : rows <> [] -> product rows = lex_enum rows.
Proof.
  destruct rows as [|r rest]; [congruence|]. intros _. unfold product.
  rewrite fold_product. simpl. rewrite app_nil_r. rewrite map_id. reflexivity.
Qed.

Lemma product_nil : product [] = [].
Proof. reflexivity. Qed.

Definition rows_size (rows : list row) : nat := fold_right (fun r n => List.length (snd r) * n) 1 rows.

Lemma length_flat_map_const {A B} (f : A -> list B) l n :
  (forall x, List.length (f x) = n) -> List.length (flat_map f l) = List.length l * n.
Proof. intros H. induction l as [|x l IH]; simpl; [reflexivity|]. rewrite app_length, H, IH. lia. Qed.

Lemma lex_enum_length rows : List.length (lex_enum rows) = rows_size rows.
Proof.
  induction rows as [|[k items] rest IH]; simpl; [reflexivity|].
  rewrite (length_flat_map_const _ _ (List.length (lex_enum rest))).
  - now rewrite IH.
  - intros x. apply map_length.
Qed.

Lemma product_length rows : rows <> [] -> List.length (product rows) = rows_size rows.
Proof. intros H. rewrite product_lex_enum by exact H. apply lex_enum_length. Qed.

(* a combination picks one item of each row, in row order *)
Definition picks (c : comb) (rows : list row) : Prop :=
  Forall2 (fun kv r => fst kv = fst r /\ In (snd kv) (snd r)) c rows.

Lemma lex_enum_in rows : forall c, In c (lex_enum rows) <-> picks c rows.
Proof.
  unfold picks. induction rows as [|[k items] rest IH]; intros c; simpl.
  - split.
    + intros [<-|[]]. constructor.
    + intros H. inversion H. now left.
  - rewrite in_flat_map. split.
    + intros [it [Hit Hc]]. apply in_map_iff in Hc. destruct Hc as [c' [<- Hc']].
      constructor; [simpl; auto|]. now apply IH.
    + intros H. inversion H as [|[k' it] r c' rest' [Hk Hit] Hrest]; subst. simpl in *. subst k'.
      exists it. split; [exact Hit|]. apply in_map. now apply IH.
Qed.

Lemma product_in rows c : rows <> [] -> (In c (product rows) <-> picks c rows).
Proof. intros H. rewrite product_lex_enum by exact H. apply lex_enum_in. Qed.

Lemma NoDup_app' {A} (l1 l2 : list A) :
  NoDup l1 -> NoDup l2 -> (forall x, In x l1 -> ~ In x l2) -> NoDup (l1 ++ l2).
Proof.
  intros H1 H2 Hd. induction H1 as [|x l1 Hx H1 IH]; simpl; [exact H2|].
  constructor.
  - rewrite in_app_iff. intros [H|H]; [contradiction|]. apply (Hd x); simpl; auto.
  - apply IH. intros y Hy. apply Hd. now right.
Qed.

Lemma NoDup_flat_map {A B} (f : A -> list B) l :
  NoDup l -> (forall a, In a l -> NoDup (f a)) ->
  (forall a b x, In a l -> In b l -> In x (f a) -> In x (f b) -> a = b) ->
  NoDup (flat_map f l).
Proof.
  intros Hl. induction Hl as [|a l Ha Hl IH]; intros Hf Hdis; simpl; [constructor|].
  apply NoDup_app'.
  - apply Hf. now left.
  - apply IH.
    + intros b Hb. apply Hf. now right.
    + intros b1 b2 x Hb1 Hb2. apply Hdis; now right.
  - intros x Hx Hx'. apply in_flat_map in Hx'. destruct Hx' as [b [Hb Hxb]].
    assert (a = b) by (apply (Hdis a b x); simpl; auto). subst b. contradiction.
Qed.

Lemma lex_enum_nodup rows :
  (forall r, In r rows -> NoDup (snd r)) -> NoDup (lex_enum rows).
Proof.
  induction rows as [|[k items] rest IH]; intros H; simpl.
  - constructor; [intros []|constructor].
  - apply NoDup_flat_map.
    + apply (H (k, items)). now left.
    + intros it _. apply FinFun.Injective_map_NoDup.
      * intros x y Hxy. now injection Hxy.
      * apply IH. intros r Hr. apply H. now right.
    + intros it1 it2 x _ _ H1 H2.
      apply in_map_iff in H1. destruct H1 as [c1 [<- _]].
      apply in_map_iff in H2. destruct H2 as [c2 [Heq _]]. now injection Heq.
Qed.

Lemma product_nodup rows :
  (forall r, In r rows -> NoDup (snd r)) -> NoDup (product rows).
Proof.
  destruct rows as [|r rest]; [intros _; constructor|].
  intros H. rewrite product_lex_enum by congruence. now apply lex_enum_nodup.
Qed.

(* position of a combination: the item index of the first row is the slowest digit *)
Lemma lex_enum_nth k items rest i j it c :
  nth_error items i = Some it -> nth_error (lex_enum rest) j = Some c ->
  nth_error (lex_enum ((k, items) :: rest)) (i * List.length (lex_enum rest) + j) = Some ((k, it) :: c).
Proof.
  simpl. revert i. induction items as [|x items IH]; intros i Hi Hj.
  - destruct i; discriminate.
  - assert (Hlt : j < List.length (lex_enum rest)) by (apply nth_error_Some; congruence).
    unfold comb in *. destruct i as [|i]; simpl in *.
    + injection Hi as ->. rewrite nth_error_app1 by (rewrite map_length; exact Hlt).
      rewrite nth_error_map. unfold comb in *. rewrite Hj. reflexivity.
    + rewrite nth_error_app2 by (rewrite map_length; lia).
      rewrite map_length.
      match goal with |- nth_error _ ?n = _ =>
        replace n with (i * @List.length (list (string * string)) (lex_enum rest) + j) by lia end.
      now apply IH.
Qed.

Lemma expand_matrix mo rows a c :
  rows <> [] ->
  expand mo [For (LMatrix rows) a c] = map (fun cmb => inst c [(as_name a, VComb cmb)]) (lex_enum rows).
Proof.
  intros H. rewrite expand_single. simpl. rewrite product_lex_enum by exact H.
  rewrite map_map. reflexivity.
Qed.

(* ------------------------------------------------------------------ *)
(* (d) split / fields *)

Lemma append_nil_r s : s ++ "" = s.
Proof. induction s as [|a s IH]; simpl; [reflexivity|]. now rewrite IH. Qed.

Lemma append_assoc s1 s2 s3 : (s1 ++ s2) ++ s3 = s1 ++ (s2 ++ s3).
Proof. induction s1 as [|a s1 IH]; simpl; [reflexivity|]. now rewrite IH. Qed.

Lemma length_append s1 s2 : String.length (s1 ++ s2) = String.length s1 + String.length s2.
Proof. induction s1 as [|a s1 IH]; simpl; [reflexivity|]. now rewrite IH. Qed.

Lemma is_prefix_app p s : is_prefix p s = true -> exists r, s = p ++ r.
Proof.
  revert s; induction p as [|a p IH]; intros s H; simpl in *.
  - now exists s.
  - destruct s as [|b s]; [discriminate|]. apply andb_prop in H. destruct H as [Hab Hp].
    apply Ascii.eqb_eq in Hab. subst b. destruct (IH s Hp) as [r ->]. now exists r.
Qed.

Lemma split_aux_skip sep sfx : forall s cur,
  split_aux sep (sfx ++ s) (String.length sfx) cur = split_aux sep s 0 cur.
Proof. induction sfx as [|a sfx IH]; intros s cur; simpl; [reflexivity|]. apply IH. Qed.

Lemma split_aux_nonempty sep s : forall k cur, split_aux sep s k cur <> [].
Proof.
  induction s as [|a s IH]; intros k cur; simpl; [discriminate|].
  destruct k; [|apply IH]. destruct (is_prefix sep (String a s)); [discriminate|apply IH].
Qed.

Lemma concat_cons sep x l : l <> [] -> String.concat sep (x :: l) = x ++ sep ++ String.concat sep l.
Proof. destruct l; [congruence|reflexivity]. Qed.

Lemma split_aux_join sep : sep <> "" -> forall n s cur,
  String.length s <= n -> String.concat sep (split_aux sep s 0 cur) = cur ++ s.
Proof.
  intros Hsep. induction n as [|n IH]; intros s cur Hn.
  - destruct s; simpl in Hn; [|lia]. simpl. now rewrite append_nil_r.
  - destruct s as [|a s]; [simpl; now rewrite append_nil_r|].
    cbn [split_aux]. destruct (is_prefix sep (String a s)) eqn:Hp.
    + apply is_prefix_app in Hp. destruct Hp as [r Hr].
      destruct sep as [|b sep']; [congruence|]. simpl in Hr. injection Hr as <- ->.
      cbn [String.length]. replace (S (String.length sep') - 1) with (String.length sep') by lia.
      rewrite split_aux_skip.
      rewrite concat_cons by apply split_aux_nonempty.
      rewrite IH.
      * reflexivity.
      * simpl in Hn. rewrite length_append in Hn. lia.
    + rewrite IH by (simpl in Hn; lia). rewrite append_assoc. reflexivity.
Qed.

(* joining the items with the separator gives the value back: the items are the stretches of the
   value between separators, in order *)
Lemma split_join sep s : sep <> "" -> String.concat sep (split sep s) = s.
Proof. intros H. unfold split. now rewrite (split_aux_join sep H (String.length s) s "" (le_n _)). Qed.

(* single-character separators: no item contains the separator, and there is one more item than
   separators in the value *)
Fixpoint count_char (c : ascii) (s : string) : nat :=
  match s with "" => 0 | String a s' => (if Ascii.eqb c a then 1 else 0) + count_char c s' end.

Lemma count_char_app c s1 s2 : count_char c (s1 ++ s2) = count_char c s1 + count_char c s2.
Proof. induction s1 as [|a s1 IH]; simpl; [reflexivity|]. rewrite IH. lia. Qed.

Lemma split_char_aux c s : forall cur,
  count_char c cur = 0 ->
  Forall (fun it => count_char c it = 0) (split_aux (String c "") s 0 cur) /\
  List.length (split_aux (String c "") s 0 cur) = S (count_char c s).
Proof.
  induction s as [|a s IH]; intros cur Hcur.
  - simpl. split; [repeat constructor; exact Hcur|reflexivity].
  - cbn [split_aux is_prefix String.length]. destruct (Ascii.eqb c a) eqn:E; cbn [andb].
    + simpl. destruct (IH "" eq_refl) as [H1 H2]. rewrite E. split.
      * constructor; assumption.
      * simpl. now rewrite H2.
    + destruct (IH (cur ++ String a "")) as [H1 H2].
      * rewrite count_char_app. simpl. rewrite E. lia.
      * split; [exact H1|]. rewrite H2. simpl. now rewrite E.
Qed.

Lemma split_char_items c s : Forall (fun it => count_char c it = 0) (split (String c "") s).
Proof. apply (split_char_aux c s "" eq_refl). Qed.

Lemma split_char_length c s : List.length (split (String c "") s) = S (count_char c s).
Proof. apply (split_char_aux c s "" eq_refl). Qed.

(* fields *)
Fixpoint no_space (s : string) : bool :=
  match s with "" => true | String a s' => negb (is_space a) && no_space s' end.
Definition word (s : string) : Prop := s <> "" /\ no_space s = true.

Fixpoint strip_spaces (s : string) : string :=
  match s with
  | "" => ""
  | String a s' => if is_space a then strip_spaces s' else String a (strip_spaces s')
  end.

Lemma no_space_app s1 s2 : no_space (s1 ++ s2) = no_space s1 && no_space s2.
Proof. induction s1 as [|a s1 IH]; simpl; [reflexivity|]. now rewrite IH, andb_assoc. Qed.

Lemma flush_forall (P : string -> Prop) cur rest :
  (cur <> "" -> P cur) -> Forall P rest -> Forall P (flush cur rest).
Proof. intros H1 H2. destruct cur; simpl; [exact H2|]. constructor; [apply H1; discriminate|exact H2]. Qed.

Lemma fields_aux_words s : forall cur, no_space cur = true -> Forall word (fields_aux s cur).
Proof.
  induction s as [|a s IH]; intros cur Hcur; simpl.
  - apply flush_forall; [|constructor]. intros H. now split.
  - destruct (is_space a) eqn:E.
    + apply flush_forall; [intros H; now split|]. now apply IH.
    + apply IH. rewrite no_space_app, Hcur. simpl. now rewrite E.
Qed.

Lemma fields_words s : Forall word (fields s).
Proof. now apply fields_aux_words. Qed.

Lemma concat_flush cur rest : String.concat "" (flush cur rest) = cur ++ String.concat "" rest.
Proof.
  destruct cur; simpl; [reflexivity|]. destruct rest; simpl; [now rewrite append_nil_r|reflexivity].
Qed.

Lemma fields_aux_concat s : forall cur,
  String.concat "" (fields_aux s cur) = cur ++ strip_spaces s.
Proof.
  induction s as [|a s IH]; intros cur; simpl.
  - now rewrite concat_flush.
  - destruct (is_space a).
    + now rewrite concat_flush, IH.
    + rewrite IH, append_assoc. reflexivity.
Qed.

(* the items, concatenated, are the value without its white space: same characters, same order *)
Lemma fields_concat s : String.concat "" (fields s) = strip_spaces s.
Proof. apply fields_aux_concat. Qed.

Lemma fields_aux_word w : forall s cur,
  no_space w = true -> fields_aux (w ++ s) cur = fields_aux s (cur ++ w).
Proof.
  induction w as [|a w IH]; intros s cur H; simpl.
  - now rewrite append_nil_r.
  - simpl in H. apply andb_prop in H. destruct H as [Ha Hw].
    apply negb_true_iff in Ha. rewrite Ha. rewrite IH by exact Hw.
    now rewrite append_assoc.
Qed.

(* the value made of the words ws separated by single blanks splits into exactly ws *)
Lemma fields_join ws : Forall word ws -> fields (String.concat " " ws) = ws.
Proof.
  unfold fields. induction ws as [|w ws IH]; intros H; [reflexivity|].
  inversion H as [|w' ws' [Hne Hw] Hws]; subst.
  destruct ws as [|w2 ws].
  - simpl. rewrite <- (append_nil_r w) at 1. rewrite fields_aux_word by exact Hw. simpl.
    destruct w; [congruence|reflexivity].
  - change (String.concat " " (w :: w2 :: ws)) with (w ++ String " "%char (String.concat " " (w2 :: ws))).
    remember (String.concat " " (w2 :: ws)) as rest eqn:Er.
    rewrite fields_aux_word by exact Hw.
    cbn [fields_aux]. change (is_space " "%char) with true. cbv iota.
    rewrite IH by exact Hws. destruct w; [congruence|reflexivity].
Qed.

Lemma expand_split mo v sep a c :
  sep <> "" ->
  expand mo [For (LSplit v sep) a c] = map (fun x => inst c [(as_name a, VStr x)]) (split sep v).
Proof.
  intros H. rewrite expand_single. simpl. rewrite map_map.
  destruct sep; [congruence|reflexivity].
Qed.

Lemma expand_fields mo v a c :
  expand mo [For (LSplit v "") a c] = map (fun x => inst c [(as_name a, VStr x)]) (fields v).
Proof. rewrite expand_single. simpl. rewrite map_map. reflexivity. Qed.

(* ------------------------------------------------------------------ *)
(* the monitor accepts every expansion; on loops without maps it pins the list *)

Lemma list_eqb_refl {A} (eqb : A -> A -> bool) : (forall x, eqb x x = true) -> forall l, list_eqb eqb l l = true.
Proof. intros H l. induction l as [|x l IH]; simpl; [reflexivity|]. now rewrite H, IH. Qed.

Lemma list_eqb_eq {A} (eqb : A -> A -> bool) :
  (forall x y, eqb x y = true -> x = y) -> forall a b, list_eqb eqb a b = true -> a = b.
Proof.
  intros H a. induction a as [|x a IH]; intros [|y b] E; simpl in E; try discriminate; [reflexivity|].
  apply andb_prop in E. destruct E as [E1 E2]. f_equal; [now apply H|now apply IH].
Qed.

Lemma pair_eqb_refl p : pair_eqb p p = true.
Proof. unfold pair_eqb. now rewrite !String.eqb_refl. Qed.

Lemma pair_eqb_eq p q : pair_eqb p q = true -> p = q.
Proof.
  destruct p, q. unfold pair_eqb. simpl. intros H. apply andb_prop in H. destruct H as [H1 H2].
  apply String.eqb_eq in H1, H2. congruence.
Qed.

Lemma str_list_eqb_refl l : list_eqb String.eqb l l = true.
Proof. apply list_eqb_refl, String.eqb_refl. Qed.

Lemma str_list_eqb_eq a b : list_eqb String.eqb a b = true -> a = b.
Proof. apply list_eqb_eq. intros x y H. now apply String.eqb_eq. Qed.

Lemma attrs_eqb_refl a : attrs_eqb a a = true.
Proof. unfold attrs_eqb. now rewrite !Bool.eqb_reflx, !str_list_eqb_refl. Qed.

Lemma attrs_eqb_eq a b : attrs_eqb a b = true -> a = b.
Proof.
  destruct a, b. unfold attrs_eqb. simpl. intros H.
  repeat (apply andb_prop in H; destruct H as [H ?]).
  repeat match goal with
         | H : Bool.eqb _ _ = true |- _ => apply Bool.eqb_prop in H
         | H : list_eqb String.eqb _ _ = true |- _ => apply str_list_eqb_eq in H
         end.
  congruence.
Qed.

Lemma xcmd_eqb_refl x : xcmd_eqb x x = true.
Proof.
  destruct x; simpl; rewrite attrs_eqb_refl, String.eqb_refl; simpl; [reflexivity|].
  apply list_eqb_refl, pair_eqb_refl.
Qed.

Lemma xcmd_eqb_eq x y : xcmd_eqb x y = true -> x = y.
Proof.
  destruct x, y; simpl; intros H; try discriminate.
  - apply andb_prop in H. destruct H as [H0 H]. apply attrs_eqb_eq in H0.
    apply String.eqb_eq in H. congruence.
  - apply andb_prop in H. destruct H as [H H2]. apply andb_prop in H. destruct H as [H0 H1].
    apply attrs_eqb_eq in H0. apply String.eqb_eq in H1.
    apply (list_eqb_eq _ pair_eqb_eq) in H2. congruence.
Qed.

Lemma xl_eqb_refl l : xl_eqb l l = true.
Proof. apply list_eqb_refl, xcmd_eqb_refl. Qed.

Lemma xl_eqb_eq a b : xl_eqb a b = true -> a = b.
Proof. apply list_eqb_eq, xcmd_eqb_eq. Qed.

Lemma count_x_perm x a b : Permutation a b -> count_x x a = count_x x b.
Proof.
  unfold count_x. intros H. induction H; simpl.
  - reflexivity.
  - destruct (xcmd_eqb x x0); simpl; congruence.
  - destruct (xcmd_eqb x x0), (xcmd_eqb x y); reflexivity.
  - congruence.
Qed.

Lemma perm_eqb_complete a b : Permutation a b -> perm_eqb a b = true.
Proof.
  intros H. unfold perm_eqb. rewrite (Permutation_length H), Nat.eqb_refl. simpl.
  apply forallb_forall. intros x _. rewrite (count_x_perm x a b H). apply Nat.eqb_refl.
Qed.

Lemma spec_items_ordered mo l : ordered_loop l = true -> items_of mo l = spec_items l.
Proof.
  destruct l; simpl; intros H; try reflexivity; try discriminate.
  destruct rows as [|r rest]; [reflexivity|]. now rewrite product_lex_enum by congruence.
Qed.

Lemma expand_entry_ordered mo e :
  fst (spec_segment e) = true -> expand_entry mo e = snd (spec_segment e).
Proof.
  destruct e as [x| |l a c]; simpl; intros H; try reflexivity.
  now rewrite spec_items_ordered.
Qed.

Lemma expand_entry_perm mo e :
  (forall kvs, Permutation (mo kvs) kvs) -> Permutation (snd (spec_segment e)) (expand_entry mo e).
Proof.
  intros Hmo. destruct e as [x| |l a c]; simpl; try apply Permutation_refl.
  destruct (ordered_loop l) eqn:E.
  - rewrite spec_items_ordered by exact E. apply Permutation_refl.
  - destruct l; try discriminate. simpl. apply Permutation_map, Permutation_map.
    apply Permutation_sym, Hmo.
Qed.

Lemma firstn_app_exact {A} (l1 l2 : list A) n : n = List.length l1 -> firstn n (l1 ++ l2) = l1.
Proof. intros ->. rewrite firstn_app, Nat.sub_diag, firstn_all. simpl. apply app_nil_r. Qed.

Lemma skipn_app_exact {A} (l1 l2 : list A) n : n = List.length l1 -> skipn n (l1 ++ l2) = l2.
Proof. intros ->. rewrite skipn_app, Nat.sub_diag, skipn_all. reflexivity. Qed.

Lemma mon_for_expand mo :
  (forall kvs, Permutation (mo kvs) kvs) -> forall es, mon_for es (expand mo es) = true.
Proof.
  intros Hmo es. unfold mon_for. induction es as [|e es IH]; [reflexivity|].
  rewrite expand_cons. simpl. destruct (spec_segment e) as [ord seg] eqn:E.
  assert (Hp : Permutation seg (expand_entry mo e)).
  { replace seg with (snd (spec_segment e)) by now rewrite E. now apply expand_entry_perm. }
  rewrite firstn_app_exact, skipn_app_exact by (apply Permutation_length; exact Hp).
  rewrite IH, andb_true_r.
  destruct ord.
  - rewrite (expand_entry_ordered mo e) by now rewrite E. rewrite E. apply xl_eqb_refl.
  - now apply perm_eqb_complete.
Qed.

Lemma expand_deterministic mo es : deterministic es = true -> expand mo es = spec_expand es.
Proof.
  unfold deterministic, spec_expand. rewrite expand_flat_map. intros H.
  induction es as [|e es IH]; [reflexivity|]. simpl in *. apply andb_prop in H. destruct H as [H1 H2].
  now rewrite expand_entry_ordered, IH.
Qed.

Lemma mon_segments_ordered segs : forall obs,
  forallb fst segs = true -> mon_segments segs obs = true -> obs = flat_map snd segs.
Proof.
  induction segs as [|[ord seg] segs IH]; intros obs Hd Hm; simpl in *.
  - destruct obs; [reflexivity|discriminate].
  - apply andb_prop in Hd. destruct Hd as [Hord Hd]. simpl in Hord. subst ord.
    apply andb_prop in Hm. destruct Hm as [H1 H2].
    apply xl_eqb_eq in H1. apply IH in H2; [|exact Hd].
    rewrite <- (firstn_skipn (List.length seg) obs). now rewrite <- H1, <- H2.
Qed.

(* without map loops the monitor accepts exactly one list *)
Lemma mon_for_sound es obs :
  deterministic es = true -> mon_for es obs = true -> obs = spec_expand es.
Proof.
  unfold deterministic, mon_for, spec_expand. intros Hd Hm.
  apply mon_segments_ordered in Hm.
  - rewrite Hm. now rewrite flat_map_map.
  - clear Hm. induction es as [|e es IH]; [reflexivity|]. simpl in *.
    apply andb_prop in Hd. destruct Hd as [H1 H2]. now rewrite H1, IH.
Qed.

(* ------------------------------------------------------------------ *)
(* attributes: every command an entry produces carries exactly the entry's attributes *)

Lemma inst_attrs c b : attrs_of (inst c b) = cattrs_of c.
Proof. destruct c; reflexivity. Qed.

Lemma expand_entry_attrs mo e x :
  In x (expand_entry mo e) -> entry_attrs e = Some (attrs_of x).
Proof.
  destruct e as [y| |l a c]; simpl.
  - intros [<-|[]]. reflexivity.
  - intros [].
  - intros H. apply in_map_iff in H. destruct H as [kv [<- _]]. now rewrite inst_attrs.
Qed.

Lemma expand_attrs_preserved mo e x :
  In x (expand mo [e]) -> entry_attrs e = Some (attrs_of x).
Proof. rewrite expand_single. apply expand_entry_attrs. Qed.

Lemma expand_for_attrs mo l a c x :
  In x (expand mo [For l a c]) -> attrs_of x = cattrs_of c.
Proof. intros H. apply expand_attrs_preserved in H. simpl in H. congruence. Qed.

(* ... and every command of the expanded list comes from one of the entries *)
Lemma expand_in mo es x :
  In x (expand mo es) <-> exists e, In e es /\ In x (expand_entry mo e).
Proof. rewrite expand_flat_map. apply in_flat_map. Qed.

Lemma expand_attrs_from_entry mo es x :
  In x (expand mo es) -> exists e, In e es /\ entry_attrs e = Some (attrs_of x).
Proof.
  intros H. apply expand_in in H. destruct H as [e [He Hx]].
  exists e. split; [exact He|]. now apply (expand_entry_attrs mo).
Qed.

Lemma mon_attrs_expand mo :
  (forall kvs, Permutation (mo kvs) kvs) -> forall es, mon_attrs es (expand mo es) = true.
Proof.
  intros Hmo es. unfold mon_attrs. induction es as [|e es IH]; [reflexivity|].
  rewrite expand_cons. simpl.
  assert (Hlen : List.length (snd (spec_segment e)) = List.length (expand_entry mo e))
    by (apply Permutation_length, expand_entry_perm, Hmo).
  rewrite firstn_app_exact, skipn_app_exact by exact Hlen.
  rewrite IH, andb_true_r. rewrite Hlen, Nat.eqb_refl. simpl.
  apply forallb_forall. intros x Hx. apply expand_entry_attrs in Hx. rewrite Hx.
  simpl. apply attrs_eqb_refl.
Qed.
