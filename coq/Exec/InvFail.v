(* C03 (fail-stop): for every program, configuration and schedule, once a non-ignored failing
   shell command of an activation has ended, neither that activation nor any activation the
   failure propagates to (its parent through a dep link; its caller through a task: call unless
   the caller ignores errors; never through a deferred call) announces or starts another command.

   Structure of the proof:
   - [step_view]: one case analysis of [step] giving, for the stepping activation, the pc
     transitions, the emitted event and the kind of the freshly created activations that the
     invariants below need;
   - [doomed]: an activation that will necessarily return an error: its pc carries an error
     result, or it waits at the join of its deps with the errgroup error set or with a doomed
     dep child, or it waits (not ignoring errors) for a doomed callee, or it has just received an
     error from its callee; [doomed_step]: preserved by every step of every activation;
     [doomed_quiet]: a doomed activation is never about to announce or start a command;
   - [wait_par]: the parent of an activation that has not returned is waiting for it (at the
     join for a dep child, at PCallWait/PDCallWait for that very callee);
   - [climb_doomed]: walking the monitor's [climb] from a doomed, not yet returned activation
     only meets doomed activations;
   - [inv_fail]: the monitor's dead list (folded over the trace so far) only contains paths of
     doomed activations; lifted to [run] in [run_inv_fail].
   On top: exit-status facts ([exit_status], [wrap_cmd_error], [wrap_deps_error]); clause 1 of
   [mon_C03_status] (a failure that reaches a root makes Run return an error); error predicates
   preserved by the machine ([inv_P]): every error the machine ever holds has a non-zero exit
   status ([run_inv_nz]), and as long as no non-ignored failing command has ended no error is an
   exit status ([run_inv_nx]), which gives [mon_C03_status] in full for runs in which nothing
   failed.  Clause 2 of [mon_C03_status] for runs with exactly one failing command is NOT proved
   (and is not valid for all programs: see Properties/C03fail.v). *)
From Coq Require Import List Arith Bool Lia.
Import ListNotations.
From TV Require Import Exec.Model Exec.Monitors Exec.Facts Exec.InvSlots Exec.Proj Exec.InvPaths Exec.Frame
  Exec.InvUniq Exec.InvPhase Exec.InvTree Exec.InvDedup Exec.Progress.

(* ------------------------------------------------------------------ *)
(* what a step does to the stepping activation                         *)

Definition err_pc (q : pc) : bool :=
  match q with
  | PFail _ | PDefers (RErr _) | PDRun (RErr _) _ | PDProbe (RErr _) _ | PDCallWait (RErr _) _ | PDCallReacq (RErr _)
  | PEnd (RErr _) | PRelease (RErr _) | PDone (RErr _) => true
  | _ => false
  end.

Definition fail_tk (tk : task) (i : nat) : bool :=
  match nth_error (t_cmds tk) i with
  | Some (Shell (S _) false) => negb (t_ignore tk)
  | _ => false
  end.

Definition ev_view (tk : task) (x x' : act) (e : event) : Prop :=
  match e with
  | EvAnnounce pth i => pth = a_path x /\ a_pc x = PCmd i
  | EvProbeBegin pth i _ => pth = a_path x /\ a_pc x = PRun i
  | EvProbeEnd pth i => pth = a_path x /\ a_pc x = PProbe i /\ (fail_tk tk i = true -> exists e, a_pc x' = PFail e)
  | _ => True
  end.

Definition new_view (x' : act) (j : nat) (y : act) : Prop :=
  match a_kind y with
  | KRoot => False
  | KDep => a_pc x' = PDepsJoin
  | KCall => exists i, a_pc x' = PCallWait i j
  | KDefer => exists r, a_pc x' = PDCallWait r j
  end.


Definition err_nz (e : err) : bool :=
  match e with
  | EExit 0 | ETaskRun (Some 0) | ECode 0 => false
  | _ => true
  end.
(* error predicates that every error-producing step of the machine preserves *)
Definition res_P (P : err -> bool) (r : res) : bool := match r with ROk => true | RErr e => P e end.
Definition pc_P (P : err -> bool) (q : pc) : bool :=
  match q with
  | PWReacq r | PCallReacq _ r | PDefers r | PDRun r _ | PDProbe r _ | PDCallWait r _ | PDCallReacq r
  | PEnd r | PRelease r | PDone r => res_P P r
  | PFail e => P e
  | _ => true
  end.

Record good_pred (P : err -> bool) : Prop := {
  gp_code : forall cd, cd <> 0 -> P (ECode cd) = true;
  gp_cancel : P ECancel = true;
  gp_precond : P EPrecond = true;
  gp_wrapc : forall x e, P e = true -> P (wrap_cmd_error x e) = true;
  gp_wrapd : forall x e, P e = true -> P (wrap_deps_error x e) = true
}.

Lemma good_nz : good_pred err_nz.
Proof.
  constructor; try reflexivity.
  - intros [|cd] H; [congruence|reflexivity].
  - intros x e. unfold wrap_cmd_error. destruct (indirect x); [auto|]. destruct e as [[|n]| | | |]; simpl; auto.
  - intros x e. unfold wrap_deps_error. destruct (indirect x); [auto|]. destruct e as [[|n]| | | |]; simpl; auto.
Qed.

(* not an exit status (raw or wrapped) *)
Definition err_nx (e : err) : bool :=
  match e with EExit _ | ETaskRun (Some _) => false | _ => true end.

Lemma good_nx : good_pred err_nx.
Proof.
  constructor; try reflexivity.
  - intros x e. unfold wrap_cmd_error. destruct (indirect x); [auto|]. destruct e as [n|[n|]| | |]; simpl; auto.
  - intros x e. unfold wrap_deps_error. destruct (indirect x); [auto|]. destruct e as [n|[n|]| | |]; simpl; auto.
Qed.

Lemma act_exec_result s k r : act_result s k = Some r -> exec_result s k = Some r.
Proof. unfold act_result, exec_result. destruct (get_act s k) as [y|]; [|discriminate]. destruct (a_pc y); try discriminate. auto. Qed.

Record view (p : prog) (s s' : state) (x x' : act) : Prop := {
  vw_err : err_pc (a_pc x) = true -> err_pc (a_pc x') = true;
  vw_join : a_pc x = PDepsJoin -> a_pc x' = PDepsReacq /\ all_done s (a_kids x) = true;
  vw_reacq : forall e, a_pc x = PDepsReacq -> a_gerr x = Some e -> exists e', a_pc x' = PEnd (RErr e');
  vw_cwait : forall i k, a_pc x = PCallWait i k -> exists r, act_result s k = Some r /\ a_pc x' = PCallReacq i r;
  vw_creacq : forall i e, a_pc x = PCallReacq i (RErr e) -> t_ignore (get_task p (a_task x)) = false -> a_pc x' = PFail e;
  vw_dwait : forall r k, a_pc x = PDCallWait r k -> exists r', act_result s k = Some r';
  vw_trace : trace s' = trace s \/ exists e, trace s' = trace s ++ [e] /\ ev_view (get_task p (a_task x)) x x' e;
  vw_new : forall j y, length (acts s) <= j -> get_act s' j = Some y -> new_view x' j y /\ a_gerr y = None;
  vw_pres : forall P, good_pred P -> pc_P P (a_pc x) = true -> (forall e, a_gerr x = Some e -> P e = true) ->
            (forall k r, exec_result s k = Some r -> res_P P r = true) ->
            pc_P P (a_pc x') = true \/
            exists i n, a_pc x = PProbe i /\ fail_tk (get_task p (a_task x)) i = true /\
                        a_pc x' = PFail (EExit (S n)) /\ trace s' = trace s ++ [EvProbeEnd (a_path x) i];
  vw_rung : rungerr s' = rungerr s \/ exists e, rungerr s' = Some e /\ a_pc x' = PDone (RErr e)
}.

Lemma step_view p c s a s' x x' :
  get_act s a = Some x -> step p c s a = Some s' -> get_act s' a = Some x' -> view p s s' x x'.
Proof.
  intros Hx H Hx'.
  pose proof (pj_lt noG _ _ _ Hx) as Hlt.
  step_cases H Hx;
  try (match goal with _ : get_act ?S' a = Some x' |- _ =>
           let E := fresh "E" in
           eassert (E : pj noG S' = upd (pj noG s) a _ ++ []);
           [autorewrite with ngdb; simpl; autorewrite with ngdb; rewrite ?app_nil_r; reflexivity|];
           let Hn := fresh "Hn" in
           pose proof (noG_at _ _ _ _ _ _ E Hlt Hx') as Hn;
           apply (f_equal (@length _)) in E; unfold pj in E; rewrite app_nil_r, upd_length, !map_length in E;
           apply noG_fields in Hn; destruct Hn as (Np & _ & _ & _ & _ & Hq & _); simpl in Hq, Np;
           constructor; rewrite ?Hpc, ?Hq;
        [ solve [simpl; intros; try discriminate; auto]
        | solve [simpl; intros; try discriminate; auto]
        | solve [simpl; intros; try discriminate; try congruence; eauto]
        | solve [simpl; intros ? ? Heq; try discriminate; inversion Heq; subst; eauto]
        | solve [simpl; intros ? ? Heq; try discriminate; inversion Heq; subst; try congruence; eauto]
        | solve [simpl; intros ? ? Heq; try discriminate; inversion Heq; subst; eauto]
        | solve [autorewrite with sigdb; simpl; rewrite <- ?app_assoc;
                        first [left; reflexivity
                              | right; eexists; split; [reflexivity|]; simpl; rewrite ?Hpc, ?Hq; auto;
                                repeat split; auto; unfold fail_tk;
                                repeat match goal with Hm : nth_error _ _ = Some _ |- _ => rewrite Hm; clear Hm end;
                                repeat match goal with Hm : t_ignore _ = _ |- _ => rewrite Hm; clear Hm end;
                                simpl; intros; try discriminate; eauto]]
        | solve [intros j0 y0 Hj0 Hy0; exfalso;
                        assert (j0 < length (acts S')) by (apply nth_error_Some; unfold get_act in Hy0; rewrite Hy0; discriminate); lia]
        | solve [intros P HP; simpl; intros Hpz Hgz Hrz;
                 first [ left; solve [auto using (gp_wrapc P HP), (gp_wrapd P HP), (gp_cancel P HP), (gp_precond P HP);
                                      try (apply (gp_code P HP); discriminate);
                                      try (apply (Hrz _ _ ltac:(eauto using act_exec_result)))]
                       | right; do 2 eexists; split; [reflexivity|]; split;
                         [ unfold fail_tk;
                           repeat match goal with Hm : nth_error _ _ = Some _ |- _ => rewrite Hm; clear Hm end;
                           repeat match goal with Hm : t_ignore _ = _ |- _ => rewrite Hm; clear Hm end;
                           reflexivity
                         | split; [reflexivity|autorewrite with sigdb; simpl; reflexivity] ] ]]
        | solve [autorewrite with rrdb; simpl; autorewrite with rrdb; auto;
                        destruct (rootk (a_kind x)); auto; unfold gerr_after; destruct (rungerr s); auto;
                        try match goal with |- context [match ?r with ROk => _ | RErr _ => _ end] => destruct r end; eauto] ]
           end).
  - (* fork deps *)
    pose proof Heqp0 as Hfd. apply fork_deps_spec in Hfd. simpl in Hfd.
    destruct Hfd as [news (Ha & _ & Htr & _ & _ & _ & _ & Hge & Hl & Hids & Hf & Hk)].
    assert (E : pj noG (set_act s0 a (set_kids (set_holds (set_pc x PDepsJoin) false) l (length (ctxs (release c s)))))
                = upd (pj noG s) a (noG (set_kids (set_holds (set_pc x PDepsJoin) false) l (length (ctxs (release c s))))) ++ map noG news).
    { unfold pj at 1. rewrite acts_set_act, map_upd, Ha, release_acts, map_app. rewrite upd_app_l by exact Hlt. reflexivity. }
    pose proof (noG_at _ _ _ _ _ _ E Hlt Hx') as Hn.
    apply noG_fields in Hn; destruct Hn as (Np & _ & _ & _ & _ & Hq & _); simpl in Hq, Np.
    constructor; rewrite ?Hpc, ?Hq; simpl; try (intros; discriminate).
    + left. rewrite Htr. apply release_trace.
    + intros j y Hj Hy. unfold new_view.
      unfold get_act in Hy. rewrite acts_set_act, nth_error_upd_other, Ha, release_acts in Hy.
      2:{ unfold pj in Hlt. rewrite map_length in Hlt. lia. }
      rewrite nth_error_app2 in Hy by exact Hj.
      rewrite Forall_forall in Hf. destruct (Hf y (nth_error_In _ _ Hy)) as (_ & _ & Hkd & _ & _ & _ & _ & Hgn).
      rewrite Hkd. split; [exact Hq|exact Hgn].
    + intros P HP Hpz Hgz Hrz. left. simpl in *. auto.
    + left. unfold set_act; simpl. rewrite Hge. apply rungerr_release.
  - (* call *)
    match goal with _ : get_act (set_act ?S0 a ?X) a = Some x' |- _ =>
      assert (E : pj noG (set_act S0 a X) = upd (pj noG s) a (noG X) ++ [noG (new_act (a_path x ++ [length (t_deps (get_task p (a_task x))) + i]) (c_task c1) (eval_var (a_var x) (c_var c1)) KCall (Some a) (a_ectx x))]) end.
    { unfold pj at 1. rewrite acts_set_act, map_upd. simpl. rewrite release_acts, map_app. rewrite upd_app_l by exact Hlt. reflexivity. }
    pose proof (noG_at _ _ _ _ _ _ E Hlt Hx') as Hn.
    apply noG_fields in Hn; destruct Hn as (Np & _ & _ & _ & _ & Hq & _); simpl in Hq, Np.
    constructor; rewrite ?Hpc, ?Hq; simpl; try (intros; discriminate).
    + left. apply release_trace.
    + intros j y Hj Hy. unfold new_view.
      unfold get_act in Hy. rewrite acts_set_act, nth_error_upd_other in Hy.
      2:{ unfold pj in Hlt. rewrite map_length in Hlt. lia. }
      simpl in Hy. rewrite release_acts in Hy. rewrite nth_error_app2 in Hy by exact Hj.
      destruct (j - length (acts s)) as [|m] eqn:Ej; simpl in Hy; [|destruct m; discriminate].
      injection Hy as <-. simpl. split; [|reflexivity]. exists i. rewrite Hq, release_acts. f_equal. lia.
    + intros P HP Hpz Hgz Hrz. left. simpl in *. auto.
    + left. simpl. apply rungerr_release.
  - (* deferred call *)
    match goal with _ : get_act (set_act ?S0 a ?X) a = Some x' |- _ =>
      assert (E : pj noG (set_act S0 a X) = upd (pj noG s) a (noG X) ++ [noG (new_act (a_path x ++ [length (t_deps (get_task p (a_task x))) + n]) (c_task c1) (eval_var (a_var x) (c_var c1)) KDefer (Some a) background_ctx)]) end.
    { unfold pj at 1. rewrite acts_set_act, map_upd. simpl. rewrite release_acts, map_app. rewrite upd_app_l by exact Hlt. reflexivity. }
    pose proof (noG_at _ _ _ _ _ _ E Hlt Hx') as Hn.
    apply noG_fields in Hn; destruct Hn as (Np & _ & _ & _ & _ & Hq & _); simpl in Hq, Np.
    constructor; rewrite ?Hpc, ?Hq; simpl; try (intros; discriminate).
    + auto.
    + left. apply release_trace.
    + intros j y Hj Hy. unfold new_view.
      unfold get_act in Hy. rewrite acts_set_act, nth_error_upd_other in Hy.
      2:{ unfold pj in Hlt. rewrite map_length in Hlt. lia. }
      simpl in Hy. rewrite release_acts in Hy. rewrite nth_error_app2 in Hy by exact Hj.
      destruct (j - length (acts s)) as [|m] eqn:Ej; simpl in Hy; [|destruct m; discriminate].
      injection Hy as <-. simpl. split; [|reflexivity]. exists r. rewrite Hq, release_acts. f_equal. lia.
    + intros P HP Hpz Hgz Hrz. left. simpl in *. auto.
    + left. simpl. apply rungerr_release.
Qed.

Lemma step_some_act p c s a s' : step p c s a = Some s' -> exists x, get_act s a = Some x.
Proof. unfold step. destruct (get_act s a) as [x|]; [eauto|discriminate]. Qed.

Lemma step_keep p c s a s' j y :
  inv_tree p s -> step p c s a = Some s' -> get_act s j = Some y ->
  exists y', get_act s' j = Some y' /\ stat y' = stat y /\ (gsome y = true -> gsome y' = true) /\
             (j <> a -> a_pc y' = a_pc y /\ a_kids y' = a_kids y) /\ (j = a -> a_gerr y' = a_gerr y).
Proof.
  intros Hinv H Hy. destruct (step_some_act _ _ _ _ _ H) as [x Hx].
  assert (Hself : a_parent x <> Some a).
  { intros E. pose proof (it_par _ _ Hinv a x a Hx E). lia. }
  destruct (step_gerr p c s a s' x Hx H Hself j y Hy) as [y' [Hy' Hg]].
  exists y'. split; [exact Hy'|].
  assert (Hgs : gsome y = true -> gsome y' = true).
  { unfold gsome. destruct Hg as [->|(_ & _ & _ & e & -> & _)]; auto. }
  destruct (Nat.eq_dec j a) as [->|Hne].
  - rewrite Hx in Hy. injection Hy as <-.
    destruct (step_own p c s a s' x y' Hx H Hy') as [Hst _].
    repeat split; auto; try congruence.
    intros _. destruct Hg as [Hg|(_ & _ & Hp & _)]; [exact Hg|congruence].
  - destruct (step_other p c s a s' j y H Hne Hy) as [y'' [Hy'' Hn]].
    rewrite Hy' in Hy''. injection Hy'' as <-. apply noG_fields in Hn.
    destruct Hn as (N1 & N2 & N3 & N4 & N5 & N6 & N7).
    repeat split; auto; try congruence. unfold stat. congruence.
Qed.

(* ------------------------------------------------------------------ *)
(* activations that will necessarily return an error                   *)

Inductive doomed (p : prog) (s : state) : nat -> Prop :=
| D_res j x : get_act s j = Some x -> err_pc (a_pc x) = true -> doomed p s j
| D_gerr j x : get_act s j = Some x -> (a_pc x = PDepsJoin \/ a_pc x = PDepsReacq) -> gsome x = true -> doomed p s j
| D_kid j x k y : get_act s j = Some x -> a_pc x = PDepsJoin ->
    get_act s k = Some y -> a_kind y = KDep -> a_parent y = Some j -> doomed p s k -> doomed p s j
| D_call j x i k : get_act s j = Some x -> a_pc x = PCallWait i k ->
    t_ignore (get_task p (a_task x)) = false -> doomed p s k -> doomed p s j
| D_reacq j x i e : get_act s j = Some x -> a_pc x = PCallReacq i (RErr e) ->
    t_ignore (get_task p (a_task x)) = false -> doomed p s j.

Lemma doomed_done p s k y r : doomed p s k -> get_act s k = Some y -> a_pc y = PDone r -> exists e, r = RErr e.
Proof.
  intros Hd Hy Hq. inversion Hd as [j x Hx He|j x Hx Hp _|j x k0 y0 Hx Hp _ _ _ _|j x i k0 Hx Hp _ _|j x i e Hx Hp _]; subst;
    rewrite Hy in Hx; injection Hx as <-; try (destruct Hp as [Hp|Hp]); try congruence.
  rewrite Hq in He. destruct r; [discriminate|eauto].
Qed.

Lemma doomed_quiet p s j x : doomed p s j -> get_act s j = Some x ->
  forall i, a_pc x <> PCmd i /\ a_pc x <> PRun i.
Proof.
  intros Hd Hy i. inversion Hd as [j0 x0 Hx He|j0 x0 Hx Hp _|j0 x0 k0 y0 Hx Hp _ _ _ _|j0 x0 i0 k0 Hx Hp _ _|j0 x0 i0 e Hx Hp _]; subst;
    rewrite Hy in Hx; injection Hx as <-; try (destruct Hp as [Hp|Hp]); split; try congruence;
    intros E; rewrite E in He; discriminate.
Qed.

Lemma stat_eq x y : stat x = stat y ->
  a_path x = a_path y /\ a_task x = a_task y /\ a_kind x = a_kind y /\ a_parent x = a_parent y.
Proof. intros H. apply stat_fields in H. tauto. Qed.

Lemma doomed_step p c s a s' :
  inv_tree p s -> step p c s a = Some s' -> forall j, doomed p s j -> doomed p s' j.
Proof.
  intros Hinv H j Hd.
  destruct (step_some_act _ _ _ _ _ H) as [xa Hxa].
  destruct (step_self p c s a s' xa H Hxa) as [xa' Hxa'].
  pose proof (step_view p c s a s' xa xa' Hxa H Hxa') as V.
  induction Hd as [j x Hx He|j x Hx Hp Hg|j x k y Hx Hp Hy Hk Hpar Hdk IH|j x i k Hx Hp Hig Hdk IH|j x i e Hx Hp Hig].
  - destruct (step_keep p c s a s' j x Hinv H Hx) as [x' (Hx' & Hst & Hgs & Hne & Heq)].
    destruct (Nat.eq_dec j a) as [->|Hja].
    + rewrite Hxa in Hx. injection Hx as <-. rewrite Hxa' in Hx'. injection Hx' as <-.
      eapply D_res; [exact Hxa'|]. apply (vw_err _ _ _ _ _ V). exact He.
    + destruct (Hne Hja) as [Hq _]. eapply D_res; [exact Hx'|]. rewrite Hq. exact He.
  - destruct (step_keep p c s a s' j x Hinv H Hx) as [x' (Hx' & Hst & Hgs & Hne & Heq)].
    destruct (Nat.eq_dec j a) as [->|Hja].
    + rewrite Hxa in Hx. injection Hx as <-. rewrite Hxa' in Hx'. injection Hx' as <-.
      destruct Hp as [Hp|Hp].
      * destruct (vw_join _ _ _ _ _ V Hp) as [Hq _]. eapply D_gerr; [exact Hxa'|right; exact Hq|auto].
      * unfold gsome in Hg. destruct (a_gerr xa) as [e|] eqn:Eg; [|discriminate].
        destruct (vw_reacq _ _ _ _ _ V e Hp Eg) as [e' Hq]. eapply D_res; [exact Hxa'|]. rewrite Hq. reflexivity.
    + destruct (Hne Hja) as [Hq _]. eapply D_gerr; [exact Hx'| |auto]. rewrite Hq. exact Hp.
  - destruct (step_keep p c s a s' j x Hinv H Hx) as [x' (Hx' & Hst & Hgs & Hne & Heq)].
    destruct (step_keep p c s a s' k y Hinv H Hy) as [y' (Hy' & Hsty & _)].
    apply stat_eq in Hsty. destruct Hsty as (_ & _ & Sk & Sp).
    destruct (Nat.eq_dec j a) as [->|Hja].
    + rewrite Hxa in Hx. injection Hx as <-. rewrite Hxa' in Hx'. injection Hx' as <-.
      destruct (vw_join _ _ _ _ _ V Hp) as [Hq Had].
      assert (Hin : In k (a_kids xa)).
      { apply (it_allkids _ _ Hinv k y a xa Hy Hk Hpar Hxa). rewrite Hp. reflexivity. }
      destruct (proj1 (all_done_iff s _) Had k Hin) as [r Hr]. apply act_result_done in Hr.
      destruct Hr as [y0 [Hy0 Hq0]]. rewrite Hy in Hy0. injection Hy0 as <-.
      destruct (doomed_done p s k y r Hdk Hy Hq0) as [e ->].
      destruct (it_err _ _ Hinv k y a e Hy Hk Hpar Hq0) as [x0 [Hx0 Hg0]].
      rewrite Hxa in Hx0. injection Hx0 as <-.
      eapply D_gerr; [exact Hxa'|right; exact Hq|auto].
    + destruct (Hne Hja) as [Hq _]. eapply D_kid; [exact Hx'|congruence|exact Hy'|congruence|congruence|exact IH].
  - destruct (step_keep p c s a s' j x Hinv H Hx) as [x' (Hx' & Hst & Hgs & Hne & Heq)].
    apply stat_eq in Hst. destruct Hst as (_ & St & _ & _).
    destruct (Nat.eq_dec j a) as [->|Hja].
    + rewrite Hxa in Hx. injection Hx as <-. rewrite Hxa' in Hx'. injection Hx' as <-.
      destruct (vw_cwait _ _ _ _ _ V i k Hp) as [r [Hr Hq]].
      apply act_result_done in Hr. destruct Hr as [y [Hy Hqy]].
      destruct (doomed_done p s k y r Hdk Hy Hqy) as [e ->].
      eapply D_reacq; [exact Hxa'|exact Hq|congruence].
    + destruct (Hne Hja) as [Hq _]. eapply D_call; [exact Hx'|rewrite Hq; exact Hp|congruence|exact IH].
  - destruct (step_keep p c s a s' j x Hinv H Hx) as [x' (Hx' & Hst & Hgs & Hne & Heq)].
    apply stat_eq in Hst. destruct Hst as (_ & St & _ & _).
    destruct (Nat.eq_dec j a) as [->|Hja].
    + rewrite Hxa in Hx. injection Hx as <-. rewrite Hxa' in Hx'. injection Hx' as <-.
      pose proof (vw_creacq _ _ _ _ _ V i e Hp Hig) as Hq.
      eapply D_res; [exact Hxa'|]. rewrite Hq. reflexivity.
    + destruct (Hne Hja) as [Hq _]. eapply D_reacq; [exact Hx'|rewrite Hq; exact Hp|congruence].
Qed.

Lemma doomed_ext p s s' :
  (forall j y, get_act s j = Some y -> get_act s' j = Some y) ->
  forall j, doomed p s j -> doomed p s' j.
Proof.
  intros Hext j Hd. induction Hd.
  - eapply D_res; eauto.
  - eapply D_gerr; eauto.
  - eapply D_kid; eauto.
  - eapply D_call; eauto.
  - eapply D_reacq; eauto.
Qed.

(* ------------------------------------------------------------------ *)
(* the parent of a running activation waits for it                     *)

Definition waits_for (z : act) (k : kind) (j : nat) : Prop :=
  match k with
  | KRoot => True
  | KDep => a_pc z = PDepsJoin
  | KCall => exists i, a_pc z = PCallWait i j
  | KDefer => exists r, a_pc z = PDCallWait r j
  end.

Definition wait_par (s : state) : Prop :=
  forall j y pa, get_act s j = Some y -> is_done (a_pc y) = false -> a_parent y = Some pa ->
    exists z, get_act s pa = Some z /\ waits_for z (a_kind y) j.

Lemma waits_for_pc z z' k j : a_pc z' = a_pc z -> waits_for z k j -> waits_for z' k j.
Proof. unfold waits_for. intros ->. auto. Qed.

Lemma new_view_waits x' j y : new_view x' j y -> waits_for x' (a_kind y) j.
Proof. unfold new_view, waits_for. destruct (a_kind y); auto. Qed.

Lemma done_is_done s j y r : get_act s j = Some y -> act_result s j = Some r -> is_done (a_pc y) = true.
Proof.
  intros Hy Hr. apply act_result_done in Hr. destruct Hr as [y0 [Hy0 Hq]].
  rewrite Hy in Hy0. injection Hy0 as <-. rewrite Hq. reflexivity.
Qed.

Lemma step_wait_par p c s a s' :
  inv_tree p s -> wait_par s -> step p c s a = Some s' -> wait_par s'.
Proof.
  intros Hinv Hw H j y' pa Hy' Hnd Hpar.
  destruct (step_some_act _ _ _ _ _ H) as [xa Hxa].
  destruct (step_self p c s a s' xa H Hxa) as [xa' Hxa'].
  pose proof (step_view p c s a s' xa xa' Hxa H Hxa') as V.
  assert (Hxnd : is_done (a_pc xa) = false).
  { destruct (a_pc xa) eqn:E; try reflexivity. rewrite (step_done_none p c s a xa r Hxa E) in H. discriminate. }
  destruct (get_act s j) as [y|] eqn:Hy.
  - destruct (step_keep p c s a s' j y Hinv H Hy) as [y'' (Hy'' & Hst & _ & Hne & _)].
    rewrite Hy' in Hy''. injection Hy'' as <-.
    apply stat_eq in Hst. destruct Hst as (_ & _ & Sk & Sp).
    destruct (Nat.eq_dec j a) as [->|Hja].
    + rewrite Hxa in Hy. injection Hy as <-.
      destruct (Hw a xa pa Hxa Hxnd) as [z [Hz Hwf]]; [congruence|].
      assert (Hpa : pa <> a).
      { pose proof (it_par _ _ Hinv a xa pa Hxa). assert (pa < a) by (apply H0; congruence). lia. }
      destruct (step_keep p c s a s' pa z Hinv H Hz) as [z' (Hz' & _ & _ & Hnz & _)].
      exists z'. split; [exact Hz'|]. rewrite Sk. eapply waits_for_pc; [|exact Hwf]. apply (Hnz Hpa).
    + destruct (Hne Hja) as [Hq _].
      assert (Hynd : is_done (a_pc y) = false) by (rewrite <- Hq; exact Hnd).
      destruct (Hw j y pa Hy Hynd) as [z [Hz Hwf]]; [congruence|].
      destruct (Nat.eq_dec pa a) as [->|Hpa].
      * rewrite Hxa in Hz. injection Hz as <-.
        exists xa'. split; [exact Hxa'|]. rewrite Sk.
        destruct (a_kind y) eqn:Ek; simpl in *; auto; exfalso.
        -- destruct (vw_join _ _ _ _ _ V Hwf) as [_ Had].
           assert (Hin : In j (a_kids xa)).
           { apply (it_allkids _ _ Hinv j y a xa Hy Ek); [congruence|exact Hxa|]. rewrite Hwf. reflexivity. }
           destruct (proj1 (all_done_iff s _) Had j Hin) as [r Hr].
           rewrite (done_is_done s j y r Hy Hr) in Hynd. discriminate.
        -- destruct Hwf as [i Hwf]. destruct (vw_cwait _ _ _ _ _ V i j Hwf) as [r [Hr _]].
           rewrite (done_is_done s j y r Hy Hr) in Hynd. discriminate.
        -- destruct Hwf as [r0 Hwf]. destruct (vw_dwait _ _ _ _ _ V r0 j Hwf) as [r Hr].
           rewrite (done_is_done s j y r Hy Hr) in Hynd. discriminate.
      * destruct (step_keep p c s a s' pa z Hinv H Hz) as [z' (Hz' & _ & _ & Hnz & _)].
        exists z'. split; [exact Hz'|]. rewrite Sk. eapply waits_for_pc; [|exact Hwf]. apply (Hnz Hpa).
  - assert (Hge : length (acts s) <= j) by (apply nth_error_None; exact Hy).
    destruct (step_new p c s a s' j y' H Hge Hy') as (_ & Hp & _).
    assert (pa = a) by congruence. subst pa.
    exists xa'. split; [exact Hxa'|]. apply new_view_waits. apply (proj1 (vw_new _ _ _ _ _ V j y' Hge Hy')).
Qed.

Lemma wait_par_init p : wait_par (init_state p).
Proof. intros j y pa Hy. rewrite get_act_init in Hy. discriminate. Qed.

Lemma start_root_acts p c s k s' : start_root p c s k = Some s' ->
  exists nr, acts s' = acts s ++ [nr] /\ trace s' = trace s /\ a_parent nr = None.
Proof.
  intros H. unfold start_root in H.
  destruct (nth_error (cf_roots c) k) as [cl|]; [|discriminate].
  destruct (negb (precheck_ok p c) || root_started s k); [discriminate|].
  match type of H with (if ?b then _ else _) = _ => destruct b end; [|discriminate].
  injection H as <-. eexists. unfold add_act. simpl. repeat split.
Qed.

Lemma app_get_old s s' nr j y : acts s' = acts s ++ [nr] -> get_act s j = Some y -> get_act s' j = Some y.
Proof.
  intros Ha Hy. unfold get_act in *. rewrite Ha, nth_error_app1; [exact Hy|].
  apply nth_error_Some. rewrite Hy. discriminate.
Qed.

Lemma app_get_cls s s' nr j y : acts s' = acts s ++ [nr] -> get_act s' j = Some y ->
  get_act s j = Some y \/ y = nr.
Proof.
  intros Ha Hy. unfold get_act in *. rewrite Ha in Hy.
  destruct (Nat.lt_ge_cases j (length (acts s))) as [Hlt|Hge].
  - left. rewrite nth_error_app1 in Hy by exact Hlt. exact Hy.
  - right. rewrite nth_error_app2 in Hy by exact Hge.
    destruct (j - length (acts s)) as [|n]; simpl in Hy; [|destruct n; discriminate]. congruence.
Qed.

Lemma start_root_wait_par p c s k s' : wait_par s -> start_root p c s k = Some s' -> wait_par s'.
Proof.
  intros Hw H. destruct (start_root_acts p c s k s' H) as [nr (Ha & _ & Hp)].
  intros j y pa Hy Hnd Hpar.
  destruct (app_get_cls s s' nr j y Ha Hy) as [Hy0| ->]; [|congruence].
  destruct (Hw j y pa Hy0 Hnd Hpar) as [z [Hz Hwf]]. exists z. split; [|exact Hwf].
  eapply app_get_old; eauto.
Qed.

(* ------------------------------------------------------------------ *)
(* climbing from a doomed activation only meets doomed activations     *)

Lemma nth_pj_act {B} (f : act -> B) s i v : nth_error (pj f s) i = Some v -> exists z, get_act s i = Some z /\ v = f z.
Proof.
  unfold pj, get_act. rewrite nth_error_map. destruct (nth_error (acts s) i) as [z|]; [|discriminate].
  intros E. injection E as <-. eauto.
Qed.

Lemma parent_info p s j y :
  uniq p (pj csof s) -> get_act s j = Some y -> a_kind y <> KRoot ->
  exists pa z m, a_parent y = Some pa /\ get_act s pa = Some z /\ a_path y = a_path z ++ [m].
Proof.
  intros [_ Hall] Hy Hk. rewrite Forall_forall in Hall.
  assert (He : entry_ok p (pj csof s) (csof y)) by (apply Hall; eapply nth_error_In; apply pj_nth; exact Hy).
  destruct He as (_ & _ & He). simpl in He. destruct (a_parent y) as [pa|].
  - destruct He as [_ (px & m & Hpx & Hpm & _)]. apply nth_pj_act in Hpx. destruct Hpx as [z [Hz ->]].
    exists pa, z, m. repeat split; auto.
  - destruct He as [He _]. congruence.
Qed.

Lemma climb_doomed p c s :
  inv_ids p c s -> uniq p (pj csof s) -> wait_par s ->
  forall fuel j y, get_act s j = Some y -> doomed p s j -> is_done (a_pc y) = false ->
  forall b, In b (climb fuel p c (a_path y)) ->
    exists j' y', get_act s j' = Some y' /\ a_path y' = b /\ doomed p s j'.
Proof.
  intros Hids Huq Hw. induction fuel as [|f IH]; intros j y Hy Hd Hnd b Hb; simpl in Hb; [contradiction|].
  unfold link_of in Hb. rewrite (inv_ids_get p c s j y Hids Hy) in Hb.
  destruct (a_kind y) eqn:Ek; simpl in Hb; try contradiction.
  - destruct (parent_info p s j y Huq Hy) as (pa & z & m & Hpar & Hz & Hpm); [congruence|].
    assert (Hpo : parent_of (a_path y) = a_path z) by (unfold parent_of; rewrite Hpm; apply removelast_last).
    rewrite Hpo in Hb.
    destruct (Hw j y pa Hy Hnd Hpar) as [z0 [Hz0 Hwf]]. rewrite Hz in Hz0. injection Hz0 as <-.
    rewrite Ek in Hwf. simpl in Hwf.
    assert (Hdz : doomed p s pa) by exact (D_kid p s pa z j y Hz Hwf Hy Ek Hpar Hd).
    destruct Hb as [<-|Hb]; [exists pa, z; auto|].
    apply (IH pa z Hz Hdz); [rewrite Hwf; reflexivity|exact Hb].
  - destruct (parent_info p s j y Huq Hy) as (pa & z & m & Hpar & Hz & Hpm); [congruence|].
    assert (Hpo : parent_of (a_path y) = a_path z) by (unfold parent_of; rewrite Hpm; apply removelast_last).
    rewrite Hpo, (task_of_get p c s pa z Hids Hz) in Hb.
    destruct (t_ignore (get_task p (a_task z))) eqn:Eig; [contradiction|].
    destruct (Hw j y pa Hy Hnd Hpar) as [z0 [Hz0 Hwf]]. rewrite Hz in Hz0. injection Hz0 as <-.
    rewrite Ek in Hwf. simpl in Hwf. destruct Hwf as [i Hwf].
    assert (Hdz : doomed p s pa) by exact (D_call p s pa z i j Hz Hwf Eig Hd).
    destruct Hb as [<-|Hb]; [exists pa, z; auto|].
    apply (IH pa z Hz Hdz); [rewrite Hwf; reflexivity|exact Hb].
Qed.

(* ------------------------------------------------------------------ *)
(* the monitor invariant                                               *)

Definition dead_ok (p : prog) (s : state) (dead : list aid) : Prop :=
  forall b, mem_aid b dead = true -> exists j y, get_act s j = Some y /\ a_path y = b /\ doomed p s j.

Record inv_fail (p : prog) (c : cfg) (s : state) : Prop := {
  if_ids : inv_ids p c s;
  if_tree : inv_tree p s;
  if_uniq : uniq p (pj csof s);
  if_wait : wait_par s;
  if_mon : exists dead, mfold (step03 p c) [] (trace s) = Some dead /\ dead_ok p s dead
}.

Lemma mem_aid_cons b x l : mem_aid b (x :: l) = aid_eqb b x || mem_aid b l.
Proof. reflexivity. Qed.
Lemma mem_aid_app b l1 l2 : mem_aid b (l1 ++ l2) = mem_aid b l1 || mem_aid b l2.
Proof. unfold mem_aid. apply existsb_app. Qed.
Lemma mem_aid_in b l : mem_aid b l = true -> In b l.
Proof.
  unfold mem_aid. intros H. apply existsb_exists in H. destruct H as [x [Hx He]].
  apply aid_eqb_eq in He. subst. exact Hx.
Qed.

Lemma dead_ok_step p c s a s' dead :
  inv_tree p s -> step p c s a = Some s' -> dead_ok p s dead -> dead_ok p s' dead.
Proof.
  intros Hinv H Hd b Hb. destruct (Hd b Hb) as (j & y & Hy & Hp & Hdm).
  destruct (step_keep p c s a s' j y Hinv H Hy) as [y' (Hy' & Hst & _)].
  apply stat_eq in Hst. exists j, y'. repeat split; [exact Hy'|destruct Hst; congruence|].
  eapply doomed_step; eauto.
Qed.

Lemma failing_cmd_tk p c s a x i :
  inv_ids p c s -> get_act s a = Some x -> failing_cmd p c (a_path x) i = fail_tk (get_task p (a_task x)) i.
Proof. intros Hi Hx. unfold failing_cmd, fail_tk. rewrite (task_of_get p c s a x Hi Hx). reflexivity. Qed.

Lemma step_inv_fail p c s a s' : inv_fail p c s -> step p c s a = Some s' -> inv_fail p c s'.
Proof.
  intros [Hids Htree Huq Hw [dead [Hm Hdead]]] H.
  pose proof (step_inv_ids p c s a s' Hids H) as Hids'.
  pose proof (step_inv_tree p c s a s' Htree Huq H) as Htree'.
  pose proof (step_uniq p c s a s' Huq H) as Huq'.
  pose proof (step_wait_par p c s a s' Htree Hw H) as Hw'.
  constructor; auto.
  destruct (step_some_act _ _ _ _ _ H) as [xa Hxa].
  destruct (step_self p c s a s' xa H Hxa) as [xa' Hxa'].
  pose proof (step_view p c s a s' xa xa' Hxa H Hxa') as V.
  pose proof (dead_ok_step p c s a s' dead Htree H Hdead) as Hdead'.
  assert (Hquiet : forall i, (a_pc xa = PCmd i \/ a_pc xa = PRun i) -> mem_aid (a_path xa) dead = false).
  { intros i Hq. destruct (mem_aid (a_path xa) dead) eqn:Em; [|reflexivity]. exfalso.
    destruct (Hdead _ Em) as (j & y & Hy & Hp & Hdm).
    assert (j = a).
    { destruct Huq as [Hnd _].
      eapply (NoDup_map_nth c_path (pj csof s) j a (csof y) (csof xa)); auto; apply pj_nth; assumption. }
    subst j. rewrite Hxa in Hy. injection Hy as <-.
    destruct (doomed_quiet p s a xa Hdm Hxa i) as [Q1 Q2]. destruct Hq; contradiction. }
  destruct (vw_trace _ _ _ _ _ V) as [Ht|[e [Ht Hev]]].
  - exists dead. rewrite Ht. split; assumption.
  - rewrite Ht, mfold_app, Hm. simpl.
    destruct e; simpl in Hev |- *; try (exists dead; split; [reflexivity|exact Hdead']).
    + destruct Hev as [-> Hq]. rewrite (Hquiet i (or_introl Hq)). exists dead. split; [reflexivity|exact Hdead'].
    + destruct Hev as [-> Hq]. rewrite (Hquiet i (or_intror Hq)). exists dead. split; [reflexivity|exact Hdead'].
    + destruct Hev as (-> & Hq & Hf). rewrite (failing_cmd_tk p c s a xa i Hids Hxa).
      destruct (fail_tk (get_task p (a_task xa)) i) eqn:Ef; [|exists dead; split; [reflexivity|exact Hdead']].
      destruct (Hf eq_refl) as [e Hq'].
      eexists. split; [reflexivity|].
      destruct (step_keep p c s a s' a xa Htree H Hxa) as [x0 (Hx0 & Hst & _)].
      rewrite Hxa' in Hx0. injection Hx0 as <-. apply stat_eq in Hst. destruct Hst as (Sp & _).
      assert (Hda : doomed p s' a) by (eapply D_res; [exact Hxa'|rewrite Hq'; reflexivity]).
      intros b Hb. rewrite mem_aid_cons, mem_aid_app in Hb.
      apply orb_true_iff in Hb. destruct Hb as [Hb|Hb].
      * apply aid_eqb_eq in Hb. subst b. exists a, xa'. auto.
      * apply orb_true_iff in Hb. destruct Hb as [Hb|Hb]; [|exact (Hdead' b Hb)].
        apply mem_aid_in in Hb. rewrite <- Sp in Hb.
        apply (climb_doomed p c s' Hids' Huq' Hw' (length (a_path xa')) a xa' Hxa' Hda); [rewrite Hq'; reflexivity|exact Hb].
Qed.

Lemma inv_fail_init p c : inv_fail p c (init_state p).
Proof.
  constructor; [constructor|apply inv_tree_init|apply uniq_init|apply wait_par_init|].
  exists []. split; [reflexivity|]. intros b Hb. discriminate.
Qed.

Lemma start_root_inv_fail p c s k s' : inv_fail p c s -> start_root p c s k = Some s' -> inv_fail p c s'.
Proof.
  intros [Hids Htree Huq Hw [dead [Hm Hdead]]] H.
  constructor.
  - eapply start_root_inv_ids; eauto.
  - eapply start_root_inv_tree; eauto.
  - eapply start_root_uniq; eauto.
  - eapply start_root_wait_par; eauto.
  - destruct (start_root_acts p c s k s' H) as [nr (Ha & Ht & _)].
    exists dead. rewrite Ht. split; [exact Hm|].
    intros b Hb. destruct (Hdead b Hb) as (j & y & Hy & Hp & Hd).
    exists j, y. repeat split; auto.
    + eapply app_get_old; eauto.
    + eapply doomed_ext; [|exact Hd]. intros j0 y0. eapply app_get_old; eauto.
Qed.

Lemma run_inv_fail p c sched : inv_fail p c (run p c sched).
Proof.
  unfold run. generalize (inv_fail_init p c). generalize (init_state p).
  induction sched as [|ch sched IH]; intros s Hs; simpl; [exact Hs|].
  apply IH. destruct ch as [a|k]; simpl.
  - destruct (step p c s a) eqn:E; [eapply step_inv_fail; eauto|exact Hs].
  - destruct (start_root p c s k) eqn:E; [eapply start_root_inv_fail; eauto|exact Hs].
Qed.

(* C03: for every program, configuration and schedule *)
Theorem fail_stop_all_schedules p c sched : mon_C03 p c (trace (run p c sched)) = true.
Proof.
  destruct (run_inv_fail p c sched) as [_ _ _ _ [dead [Hm _]]].
  unfold mon_C03, accepts. rewrite Hm. reflexivity.
Qed.

(* the harness sees the observable part of the trace; step03 does not look at anything else *)
Lemma mfold03_observable p c st tr :
  mfold (step03 p c) st (filter observable tr) = mfold (step03 p c) st tr.
Proof.
  revert st; induction tr as [|e tr IH]; intros st; simpl; [reflexivity|].
  destruct e; cbn [observable filter mfold];
    try (match goal with |- context [step03 ?p ?c ?L ?e] => destruct (step03 p c L e) end; [apply IH|reflexivity]).
  simpl. apply IH.
Qed.

Theorem fail_stop_observable p c sched : mon_C03 p c (filter observable (trace (run p c sched))) = true.
Proof. unfold mon_C03, accepts. rewrite mfold03_observable. apply fail_stop_all_schedules. Qed.

(* ------------------------------------------------------------------ *)
(* (2) exit status                                                      *)

Lemma exit_status_ok flag : exit_status flag ROk = 0.
Proof. reflexivity. Qed.

Lemma exit_status_err_nonzero flag e : err_nz e = true -> exit_status flag (RErr e) <> 0.
Proof.
  destruct e as [n|[n|]| | |cd]; destruct flag; simpl; try discriminate.
  - destruct n; [discriminate|intros _; discriminate].
  - destruct cd; [discriminate|intros _; discriminate].
  - destruct cd; [discriminate|intros _; discriminate].
Qed.

Lemma exit_status_noflag_nonzero e : (forall cd, e = ECode cd -> cd <> 0) -> exit_status false (RErr e) <> 0.
Proof. intros H. destruct e as [n|[n|]| | |cd]; simpl; try discriminate. apply H. reflexivity. Qed.

Lemma exit_status_taskrun_noflag n : exit_status false (RErr (ETaskRun (Some n))) = 201.
Proof. reflexivity. Qed.

Lemma exit_status_taskrun_flag n : exit_status true (RErr (ETaskRun (Some n))) = n.
Proof. reflexivity. Qed.

Lemma root_direct x : a_kind x = KRoot -> indirect x = false.
Proof. unfold indirect. intros ->. reflexivity. Qed.

Lemma nonroot_indirect x : a_kind x <> KRoot -> indirect x = true.
Proof. unfold indirect. destruct (a_kind x); congruence. Qed.

Lemma wrap_cmd_error_direct x e : indirect x = false -> wrap_cmd_error x e = ETaskRun (is_exit e).
Proof. unfold wrap_cmd_error. intros ->. reflexivity. Qed.

Lemma wrap_cmd_error_root_exit x n : a_kind x = KRoot -> wrap_cmd_error x (EExit n) = ETaskRun (Some n).
Proof. intros H. rewrite wrap_cmd_error_direct by (apply root_direct; exact H). reflexivity. Qed.

Lemma wrap_cmd_error_indirect x e : indirect x = true -> wrap_cmd_error x e = e.
Proof. unfold wrap_cmd_error. intros ->. reflexivity. Qed.

Lemma wrap_deps_error_root_exit x n : a_kind x = KRoot -> wrap_deps_error x (EExit n) = ETaskRun (Some n).
Proof. unfold wrap_deps_error. intros H. rewrite (root_direct x H). reflexivity. Qed.

Lemma wrap_deps_error_indirect x e : indirect x = true -> wrap_deps_error x e = e.
Proof. unfold wrap_deps_error. intros ->. reflexivity. Qed.

Lemma wrap_deps_error_direct_other x e : indirect x = false -> is_exit e = None -> wrap_deps_error x e = e.
Proof. unfold wrap_deps_error. intros -> ->. reflexivity. Qed.

(* the machine uses them at exactly these places *)
Lemma step_fail_wraps p c s a x e :
  get_act s a = Some x -> a_pc x = PFail e ->
  step p c s a = Some (set_act s a (set_pc x (PDefers (RErr (wrap_cmd_error x e))))).
Proof. intros Hx Hq. unfold step. rewrite Hx, Hq. reflexivity. Qed.

Lemma step_deps_wraps p c s a x e :
  get_act s a = Some x -> a_pc x = PDepsReacq -> a_gerr x = Some e -> slot_free c s = true ->
  step p c s a = Some (set_act (acquire c s) a (set_holds (set_pc x (PEnd (RErr (wrap_deps_error x e)))) true)).
Proof. intros Hx Hq Hg Hf. unfold step. rewrite Hx, Hq, Hf, Hg. reflexivity. Qed.

(* ------------------------------------------------------------------ *)
(* (3) a failure that reaches a root makes Run fail                     *)

Lemma in_mem_aid b l : In b l -> mem_aid b l = true.
Proof. intros H. unfold mem_aid. apply existsb_exists. exists b. split; [exact H|apply aid_eqb_refl]. Qed.

Lemma step03_grows p c st e st' b : step03 p c st e = Some st' -> mem_aid b st = true -> mem_aid b st' = true.
Proof.
  intros H Hb. destruct e; simpl in H; try (injection H as <-; exact Hb).
  - destruct (mem_aid a st); [discriminate|]. injection H as <-. exact Hb.
  - destruct (mem_aid a st); [discriminate|]. injection H as <-. exact Hb.
  - destruct (failing_cmd p c a i); injection H as <-; [|exact Hb].
    rewrite mem_aid_cons, mem_aid_app, Hb, !orb_true_r. reflexivity.
Qed.

Lemma mfold03_dead p c : forall tr st dead, mfold (step03 p c) st tr = Some dead ->
  (forall b, mem_aid b st = true -> mem_aid b dead = true) /\
  (forall a i, In (a, i) (failing_ends p c tr) ->
     forall b, In b (a :: climb (length a) p c a) -> mem_aid b dead = true).
Proof.
  induction tr as [|e tr IH]; intros st dead H; simpl in H.
  - injection H as <-. split; [auto|intros a i []].
  - destruct (step03 p c st e) as [st'|] eqn:Es; [|discriminate].
    destruct (IH st' dead H) as [IH1 IH2]. split.
    + intros b Hb. apply IH1. eapply step03_grows; eauto.
    + intros a i Hin b Hb. unfold failing_ends in Hin. simpl in Hin. apply in_app_or in Hin.
      destruct Hin as [Hin|Hin]; [|exact (IH2 a i Hin b Hb)].
      destruct e; try contradiction. simpl in Es.
      destruct (failing_cmd p c a0 i0); [|contradiction].
      destruct Hin as [Hin|[]]. injection Hin as <- <-. injection Es as <-.
      apply IH1. change (mem_aid b ((a0 :: climb (length a0) p c a0) ++ st) = true).
      rewrite mem_aid_app. rewrite (in_mem_aid b _ Hb). reflexivity.
Qed.

Definition status_clause1 (p : prog) (c : cfg) (tr : list event) (r : res) : bool :=
  forallb (fun '(a, i) => if reaches_root p c a then match r with RErr _ => true | ROk => false end else true)
          (failing_ends p c tr).

(* the rest of mon_C03_status: which error wins when exactly one command failed / none failed *)
Definition status_clause2 (p : prog) (c : cfg) (tr : list event) (r : res) : bool :=
  match failing_ends p c tr with
  | [(a, i)] =>
      if reaches_root p c a then
        if only_cmd_errors p c && negb (existsb (fun e => match e with EvSkipping _ _ => true | _ => false end) tr)
        then match r with RErr (ETaskRun (Some n)) => Nat.eqb n (exit_of p c a i) | _ => false end
        else match r with RErr _ => true | ROk => false end
      else if only_cmd_errors p c && negb (existsb (fun e => match e with EvSkipping _ _ => true | _ => false end) tr)
      then match r with ROk => true | _ => false end else true
  | [] => match r with RErr (ETaskRun (Some _)) | RErr (EExit _) => false | _ => true end
  | _ => true
  end.

Lemma mon_C03_status_split p c tr r :
  mon_C03_status p c tr r = status_clause1 p c tr r && status_clause2 p c tr r.
Proof. reflexivity. Qed.

Lemma status_clause1_err p c tr e : status_clause1 p c tr (RErr e) = true.
Proof.
  unfold status_clause1. apply forallb_forall. intros [a i] _. destruct (reaches_root p c a); reflexivity.
Qed.

Theorem fail_reaches_root_all_schedules p c sched r :
  run_result p c (run p c sched) = Some r ->
  status_clause1 p c (trace (run p c sched)) r = true.
Proof.
  intros Hr. destruct r as [|e]; [|apply status_clause1_err].
  unfold run_result in Hr. destruct (negb (precheck_ok p c)); [discriminate|].
  set (s := run p c sched) in *.
  destruct (forallb (fun x => match a_pc x with PDone _ => true | _ => false end) (acts s)) eqn:Hall; [|discriminate].
  destruct (rungerr s) eqn:Hge; [discriminate|]. clear Hr.
  unfold status_clause1. apply forallb_forall. intros [a i] Hin.
  destruct (reaches_root p c a) eqn:Er; [exfalso|reflexivity].
  destruct (run_inv_fail p c sched) as [Hids _ _ _ [dead [Hm Hdead]]]. fold s in Hids, Hm, Hdead.
  unfold reaches_root in Er. apply existsb_exists in Er. destruct Er as [b [Hb Hlk]].
  destruct (mfold03_dead p c _ _ _ Hm) as [_ Hfe].
  destruct (Hdead b (Hfe a i Hin b Hb)) as (j & y & Hy & Hp & Hd).
  assert (Hk : a_kind y = KRoot).
  { subst b. unfold link_of in Hlk. rewrite (inv_ids_get p c s j y Hids Hy) in Hlk.
    destruct (a_kind y); simpl in Hlk; try discriminate. reflexivity. }
  assert (Hdn : exists r0, a_pc y = PDone r0).
  { rewrite forallb_forall in Hall. unfold get_act in Hy. specialize (Hall y (nth_error_In _ _ Hy)).
    destruct (a_pc y); try discriminate. eauto. }
  destruct Hdn as [r0 Hq]. destruct (doomed_done p s j y r0 Hd Hy Hq) as [e ->].
  pose proof (run_inv_roots p c sched) as Hroots. fold s in Hroots. destruct Hroots as [_ _ _ Hrin Hres].
  assert (Hn : nth_error (pj rp s) j = Some (KRoot, a_path y, PDone (RErr e))).
  { rewrite (pj_nth rp s j y Hy). unfold rp. rewrite Hk, Hq. reflexivity. }
  specialize (Hres Hge j (RErr e) (Hrin j _ _ Hn)). discriminate.
Qed.

(* ------------------------------------------------------------------ *)
(* error predicates preserved by the machine: every error held anywhere *)
(* (a result in a pc, an errgroup error, Run's error) satisfies P        *)

Record inv_P (P : err -> bool) (s : state) : Prop := {
  ip_pc : forall j y, get_act s j = Some y -> pc_P P (a_pc y) = true;
  ip_gerr : forall j y e, get_act s j = Some y -> a_gerr y = Some e -> P e = true;
  ip_rung : forall e, rungerr s = Some e -> P e = true
}.

(* the stepping activation either keeps P, or it is the end of a non-ignored failing command *)
Lemma step_pres P p c s a s' xa xa' :
  good_pred P -> inv_P P s -> get_act s a = Some xa -> step p c s a = Some s' -> get_act s' a = Some xa' ->
  pc_P P (a_pc xa') = true \/
  exists i n, a_pc xa = PProbe i /\ fail_tk (get_task p (a_task xa)) i = true /\
              a_pc xa' = PFail (EExit (S n)) /\ trace s' = trace s ++ [EvProbeEnd (a_path xa) i].
Proof.
  intros HP [Hpz Hgz Hrz] Hxa H Hxa'.
  pose proof (step_view p c s a s' xa xa' Hxa H Hxa') as V.
  apply (vw_pres _ _ _ _ _ V P HP); [exact (Hpz a xa Hxa)|intros e0 He0; exact (Hgz a xa e0 Hxa He0)|].
  intros k r Hr. unfold exec_result in Hr. destruct (get_act s k) as [y|] eqn:Hy; [|discriminate].
  pose proof (Hpz k y Hy) as Hq. destruct (a_pc y); try discriminate; injection Hr as <-; exact Hq.
Qed.

Lemma step_inv_P P p c s a s' xa' :
  inv_tree p s -> inv_P P s -> step p c s a = Some s' -> get_act s' a = Some xa' ->
  pc_P P (a_pc xa') = true -> inv_P P s'.
Proof.
  intros Hinv [Hpz Hgz Hrz] H Hxa' Hnew.
  destruct (step_some_act _ _ _ _ _ H) as [xa Hxa].
  pose proof (step_view p c s a s' xa xa' Hxa H Hxa') as V.
  assert (Hself : a_parent xa <> Some a).
  { intros E. pose proof (it_par _ _ Hinv a xa a Hxa E). lia. }
  constructor.
  - intros j y' Hy'. destruct (get_act s j) as [y|] eqn:Hy.
    + destruct (step_keep p c s a s' j y Hinv H Hy) as [y'' (Hy'' & _ & _ & Hne & _)].
      rewrite Hy' in Hy''. injection Hy'' as <-.
      destruct (Nat.eq_dec j a) as [->|Hja]; [congruence|].
      destruct (Hne Hja) as [-> _]. exact (Hpz j y Hy).
    + assert (Hge : length (acts s) <= j) by (apply nth_error_None; exact Hy).
      destruct (step_new p c s a s' j y' H Hge Hy') as (-> & _). reflexivity.
  - intros j y' e Hy' Hg. destruct (get_act s j) as [y|] eqn:Hy.
    + destruct (step_gerr p c s a s' xa Hxa H Hself j y Hy) as [y'' [Hy'' Hcase]].
      rewrite Hy' in Hy''. injection Hy'' as <-.
      destruct Hcase as [Hsame|(_ & _ & _ & e0 & He0 & x0 & Hx0 & Hq0)].
      * apply (Hgz j y e Hy). congruence.
      * rewrite Hxa' in Hx0. injection Hx0 as <-. rewrite Hq0 in Hnew. simpl in Hnew. congruence.
    + assert (Hge : length (acts s) <= j) by (apply nth_error_None; exact Hy).
      destruct (vw_new _ _ _ _ _ V j y' Hge Hy') as [_ Hn]. congruence.
  - intros e He. destruct (vw_rung _ _ _ _ _ V) as [Hsame|[e0 [He0 Hq0]]].
    + apply Hrz. congruence.
    + rewrite Hq0 in Hnew. simpl in Hnew. congruence.
Qed.

Lemma inv_P_init P p : inv_P P (init_state p).
Proof.
  constructor; simpl; intros; try discriminate;
    match goal with H : get_act (init_state _) _ = Some _ |- _ => rewrite get_act_init in H; discriminate end.
Qed.

Lemma start_root_inv_P P p c s k s' : inv_P P s -> start_root p c s k = Some s' -> inv_P P s'.
Proof.
  intros [Hpz Hgz Hrz] H. unfold start_root in H.
  destruct (nth_error (cf_roots c) k) as [cl|]; [|discriminate].
  destruct (negb (precheck_ok p c) || root_started s k); [discriminate|].
  match type of H with (if ?b then _ else _) = _ => destruct b end; [|discriminate].
  injection H as <-. unfold add_act. simpl.
  constructor; simpl; [| |exact Hrz].
  - intros j y Hy. eapply app_get_cls in Hy; [|reflexivity]. destruct Hy as [Hy| ->]; [eauto|reflexivity].
  - intros j y e Hy Hg. eapply app_get_cls in Hy; [|reflexivity]. destruct Hy as [Hy| ->]; [eauto|discriminate].
Qed.

(* every error held anywhere in the machine has a non-zero exit status *)
Lemma step_inv_nz p c s a s' : inv_tree p s -> inv_P err_nz s -> step p c s a = Some s' -> inv_P err_nz s'.
Proof.
  intros Hinv Hnz H.
  destruct (step_some_act _ _ _ _ _ H) as [xa Hxa].
  destruct (step_self p c s a s' xa H Hxa) as [xa' Hxa'].
  apply (step_inv_P err_nz p c s a s' xa' Hinv Hnz H Hxa').
  destruct (step_pres err_nz p c s a s' xa xa' good_nz Hnz Hxa H Hxa') as [Hn|(i & n & _ & _ & Hq & _)]; [exact Hn|].
  rewrite Hq. reflexivity.
Qed.

Lemma run_inv_nz p c sched : inv_P err_nz (run p c sched).
Proof.
  unfold run.
  assert (G : forall s, inv_tree p s /\ uniq p (pj csof s) -> inv_P err_nz s ->
            inv_P err_nz (fold_left (do_choice p c) sched s)).
  { induction sched as [|ch sched IH]; intros s Ht Hs; simpl; [exact Hs|].
    destruct Ht as [Ht Hu]. destruct ch as [a|k]; simpl.
    - destruct (step p c s a) eqn:E; [|apply IH; auto].
      apply IH; [split; [eapply step_inv_tree; eauto|eapply step_uniq; eauto]|eapply step_inv_nz; eauto].
    - destruct (start_root p c s k) eqn:E; [|apply IH; auto].
      apply IH; [split; [eapply start_root_inv_tree; eauto|eapply start_root_uniq; eauto]|eapply start_root_inv_P; eauto]. }
  apply G; [split; [apply inv_tree_init|apply uniq_init]|apply inv_P_init].
Qed.

Theorem run_error_nz p c sched e : run_result p c (run p c sched) = Some (RErr e) -> err_nz e = true.
Proof.
  unfold run_result. destruct (negb (precheck_ok p c)); [intros E; injection E as <-; reflexivity|].
  destruct (forallb _ _); [|discriminate].
  destruct (rungerr (run p c sched)) as [e0|] eqn:Eg.
  - intros E. injection E as <-. exact (ip_rung _ _ (run_inv_nz p c sched) e0 Eg).
  - destruct (Nat.eqb _ _); discriminate.
Qed.

Theorem run_failure_exit_nonzero p c sched flag r :
  run_result p c (run p c sched) = Some r -> r <> ROk -> exit_status flag r <> 0.
Proof.
  intros Hr Hne. destruct r as [|e]; [congruence|].
  apply exit_status_err_nonzero. eapply run_error_nz; eauto.
Qed.

(* ------------------------------------------------------------------ *)
(* as long as no non-ignored failing command has ended, no error in the machine is an exit status *)

Lemma failing_ends_app p c t1 t2 : failing_ends p c (t1 ++ t2) = failing_ends p c t1 ++ failing_ends p c t2.
Proof. unfold failing_ends. apply flat_map_app. Qed.

Definition inv_nx (p : prog) (c : cfg) (s : state) : Prop :=
  failing_ends p c (trace s) = [] -> inv_P err_nx s.

Lemma step_inv_nx p c s a s' :
  inv_ids p c s -> inv_tree p s -> inv_nx p c s -> step p c s a = Some s' -> inv_nx p c s'.
Proof.
  intros Hids Hinv Hnx H Hfe.
  destruct (step_some_act _ _ _ _ _ H) as [xa Hxa].
  destruct (step_self p c s a s' xa H Hxa) as [xa' Hxa'].
  pose proof (step_view p c s a s' xa xa' Hxa H Hxa') as V.
  assert (Hfe0 : failing_ends p c (trace s) = []).
  { destruct (vw_trace _ _ _ _ _ V) as [Ht|[e [Ht _]]]; rewrite Ht in Hfe; [exact Hfe|].
    rewrite failing_ends_app in Hfe. apply app_eq_nil in Hfe. apply Hfe. }
  specialize (Hnx Hfe0).
  apply (step_inv_P err_nx p c s a s' xa' Hinv Hnx H Hxa').
  destruct (step_pres err_nx p c s a s' xa xa' good_nx Hnx Hxa H Hxa') as [Hn|(i & n & _ & Hf & _ & Ht)]; [exact Hn|].
  exfalso. rewrite Ht, failing_ends_app in Hfe. apply app_eq_nil in Hfe. destruct Hfe as [_ Hfe].
  simpl in Hfe. rewrite (failing_cmd_tk p c s a xa i Hids Hxa), Hf in Hfe. discriminate.
Qed.

Lemma run_inv_nx p c sched : inv_nx p c (run p c sched).
Proof.
  unfold run.
  assert (G : forall s, inv_fail p c s -> inv_nx p c s -> inv_nx p c (fold_left (do_choice p c) sched s)).
  { induction sched as [|ch sched IH]; intros s Hf Hs; simpl; [exact Hs|].
    destruct ch as [a|k]; simpl.
    - destruct (step p c s a) eqn:E; [|apply IH; auto].
      apply IH; [eapply step_inv_fail; eauto|].
      eapply step_inv_nx; eauto; [exact (if_ids _ _ _ Hf)|exact (if_tree _ _ _ Hf)].
    - destruct (start_root p c s k) eqn:E; [|apply IH; auto].
      apply IH; [eapply start_root_inv_fail; eauto|].
      intros Hfe. destruct (start_root_acts p c s k s0 E) as [nr (_ & Ht & _)]. rewrite Ht in Hfe.
      eapply start_root_inv_P; eauto. }
  apply G; [apply inv_fail_init|intros _; apply inv_P_init].
Qed.

(* mon_C03_status for runs in which nothing failed (or every failure was ignored on the spot):
   Run does not report an exit-status error *)
Theorem no_failure_no_exit_error p c sched r :
  run_result p c (run p c sched) = Some r ->
  failing_ends p c (trace (run p c sched)) = [] ->
  mon_C03_status p c (trace (run p c sched)) r = true.
Proof.
  intros Hr Hfe. rewrite mon_C03_status_split. unfold status_clause1, status_clause2. rewrite Hfe. simpl.
  destruct r as [|e]; [reflexivity|].
  assert (Hx : err_nx e = true).
  { revert Hr. unfold run_result. destruct (negb (precheck_ok p c)); [intros E; injection E as <-; reflexivity|].
    destruct (forallb _ _); [|discriminate].
    destruct (rungerr (run p c sched)) as [e0|] eqn:Eg.
    - intros E. injection E as <-. exact (ip_rung _ _ (run_inv_nx p c sched Hfe) e0 Eg).
    - destruct (Nat.eqb _ _); discriminate. }
  destruct e as [n|[n|]| | |]; simpl in Hx; try discriminate; reflexivity.
Qed.
